(* C15 — executable model of the node lifecycle of frappy:
     SecNode.create_modules / get_module_instance / get_module (frappy/secnode.py),
     Attached.__get__ (frappy/modules.py), HasIO.__init__ / initModule (frappy/io.py),
     Module.initModule / startModule / the start-up part of __pollThread / stopPollThread (frappy/modulebase.py),
     Server._processCfg with MultiEvent.wait (frappy/server.py, frappy/lib/multievent.py),
     SecNode.shutdown_modules / _getSortedModules.
   (state of /repo after fix 68acea7: _processCfg fetches every module with get_module.)
   The recursion get_module -> earlyInit/initModule -> Attached.__get__ -> get_module is an explicit stack machine
   (one non-recursive step function); the depth bound of the python interpreter is the parameter [limit].
   No proofs in this file. *)
From Coq Require Import List Arith Bool.
Import ListNotations.

Definition name := nat.

(* ---------------------------------------------------------------- configuration *)
Inductive phase := PEarly | PInit.
Record att := { a_target : option name;   (* None: not given in the configuration *)
                a_mand : bool;
                a_want : option nat;      (* required base class (tag), None: any Module *)
                a_phase : phase }.        (* where the instrumented class reads the attribute *)
Inductive iospec := IoNone | IoUri (u : nat) | IoMod (m : name).
Inductive kind := KPlain | KHasIO (io : iospec) | KPinata (scan : list name).
(* fault script of the poll-thread start-up: CommunicationFailedError raised by initialReads of the module or by the
   first call of the read function of its parameter x_k (any other exception of these calls is absorbed by
   __pollThread / callPollFunc and does not change what the thread does next) *)
Inductive cfault := CFNone | CFIReads | CFRead (k : nat).
Record decl := { d_kind : kind; d_tag : nat; d_export : bool; d_atts : list att; d_poll : bool;
                 d_writes : list nat; d_fail_early : bool; d_fail_init : bool; d_hang : bool; d_cfail : cfault }.
Record cfg := { c_static : list (name * decl);     (* the configuration file, in declaration order *)
                c_dyn : list (name * decl) }.      (* what the Pinata modules will find *)

Definition io_name (m : name) : name := 100 + m.
Definition io_decl : decl :=
  {| d_kind := KPlain; d_tag := 0; d_export := true; d_atts := []; d_poll := true; d_writes := [];
     d_fail_early := false; d_fail_init := false; d_hang := false; d_cfail := CFNone |}.

(* ---------------------------------------------------------------- events, errors *)
Inductive event :=
| EEarly (m : name) | EInit (m : name)
| ESee (u : name) (idx : nat) (t : option name) (ok : bool)   (* u read attribute idx and got t; ok: t._isinitialized *)
| EStart (m : name)
| EWrite (m : name) (k : nat) | EIReads (m : name) | ERead (m : name) (k : nat) | EStarted (t : name)
| ECWait (t : name)         (* triggerPoll.wait(0.1) after a communication failure in the start-up of poll thread t *)
| EDoPoll (m : name)        (* first pass of the regular polling loop: doPoll of m *)
| EReady (ok : bool)        (* _processCfg returned; ok = false: after the time-out *)
| EExit                     (* sys.exit(1) with the list of errors *)
| EStop (m : name) | EShutdown (m : name).

Inductive err := ErrCreate (m : name) | ErrInit (m : name).

(* ---------------------------------------------------------------- state *)
Record inst := { i_decl : decl; i_io : option name; i_isinit : bool;
                 i_attached : list (nat * name);      (* attachedModules: attribute index -> module *)
                 i_polled : list name }.              (* polledModules *)

Inductive op :=
| OEarlyEv | OInitEv
| OAccess (idx : nat) (a : att)             (* Attached.__get__ *)
| ORet (idx : nat) (a : att) (b : name)     (* ... after secNode.get_module(b) returned *)
| ORaise                                    (* an exception inside earlyInit / initModule *)
| ORegister.                                (* Module.initModule: registration for polling *)
Record frame := { f_mod : name; f_ops : list op }.

Record node := { modules : list (name * inst);   (* SecNode.modules, in insertion order *)
                 export : list name;
                 avail : list (name * decl);     (* srv.module_cfg *)
                 iodict : list (nat * name);     (* HasIO.ioDict *)
                 errors : list err;              (* newest first *)
                 trace : list event;             (* newest first *)
                 stack : list frame;             (* active get_module calls, innermost first *)
                 overflow : bool;                (* the depth limit was hit (RecursionError) *)
                 stuck : bool }.                 (* the step budget of the model was exhausted *)

Definition node0 (av : list (name * decl)) : node :=
  {| modules := []; export := []; avail := av; iodict := []; errors := []; trace := []; stack := [];
     overflow := false; stuck := false |}.

Definition set_modules st v := {| modules := v; export := export st; avail := avail st; iodict := iodict st;
  errors := errors st; trace := trace st; stack := stack st; overflow := overflow st; stuck := stuck st |}.
Definition set_export st v := {| modules := modules st; export := v; avail := avail st; iodict := iodict st;
  errors := errors st; trace := trace st; stack := stack st; overflow := overflow st; stuck := stuck st |}.
Definition set_avail st v := {| modules := modules st; export := export st; avail := v; iodict := iodict st;
  errors := errors st; trace := trace st; stack := stack st; overflow := overflow st; stuck := stuck st |}.
Definition set_iodict st v := {| modules := modules st; export := export st; avail := avail st; iodict := v;
  errors := errors st; trace := trace st; stack := stack st; overflow := overflow st; stuck := stuck st |}.
Definition add_error e st := {| modules := modules st; export := export st; avail := avail st; iodict := iodict st;
  errors := e :: errors st; trace := trace st; stack := stack st; overflow := overflow st; stuck := stuck st |}.
Definition emit e st := {| modules := modules st; export := export st; avail := avail st; iodict := iodict st;
  errors := errors st; trace := e :: trace st; stack := stack st; overflow := overflow st; stuck := stuck st |}.
Definition set_stack st v := {| modules := modules st; export := export st; avail := avail st; iodict := iodict st;
  errors := errors st; trace := trace st; stack := v; overflow := overflow st; stuck := stuck st |}.
Definition set_overflow st := {| modules := modules st; export := export st; avail := avail st; iodict := iodict st;
  errors := errors st; trace := trace st; stack := stack st; overflow := true; stuck := stuck st |}.
Definition set_stuck st := {| modules := modules st; export := export st; avail := avail st; iodict := iodict st;
  errors := errors st; trace := trace st; stack := stack st; overflow := overflow st; stuck := true |}.

(* association lists keyed by numbers, python dict semantics: assignment keeps the position of an existing key *)
Fixpoint find {A} (k : nat) (l : list (nat * A)) : option A :=
  match l with [] => None | (k', v) :: r => if Nat.eqb k k' then Some v else find k r end.
Fixpoint set_assoc {A} (k : nat) (v : A) (l : list (nat * A)) : list (nat * A) :=
  match l with
  | [] => [(k, v)]
  | (k', v') :: r => if Nat.eqb k k' then (k, v) :: r else (k', v') :: set_assoc k v r
  end.
Fixpoint upd {A} (k : nat) (f : A -> A) (l : list (nat * A)) : list (nat * A) :=
  match l with
  | [] => []
  | (k', v) :: r => if Nat.eqb k k' then (k', f v) :: r else (k', v) :: upd k f r
  end.
Definition mem (k : nat) (l : list nat) : bool := existsb (Nat.eqb k) l.
Definition has_key {A} (k : nat) (l : list (nat * A)) : bool :=
  match find k l with Some _ => true | None => false end.

Definition isinit (st : node) (b : name) : bool :=
  match find b (modules st) with Some i => i_isinit i | None => false end.
Definition decl_of (st : node) (b : name) : decl :=
  match find b (modules st) with Some i => i_decl i | None => io_decl end.
Definition io_of (st : node) (b : name) : option name :=
  match find b (modules st) with Some i => i_io i | None => None end.
Definition polled_of (st : node) (b : name) : list name :=
  match find b (modules st) with Some i => i_polled i | None => [] end.
Definition attached_of (st : node) (b : name) : list (nat * name) :=
  match find b (modules st) with Some i => i_attached i | None => [] end.

Definition mark_init (u : name) (st : node) : node :=
  set_modules st (upd u (fun i => {| i_decl := i_decl i; i_io := i_io i; i_isinit := true;
                                      i_attached := i_attached i; i_polled := i_polled i |}) (modules st)).
Definition attach (u : name) (idx : nat) (b : name) (st : node) : node :=
  set_modules st (upd u (fun i => {| i_decl := i_decl i; i_io := i_io i; i_isinit := i_isinit i;
                                      i_attached := set_assoc idx b (i_attached i); i_polled := i_polled i |}) (modules st)).
Definition add_polled (owner u : name) (st : node) : node :=
  set_modules st (upd owner (fun i => {| i_decl := i_decl i; i_io := i_io i; i_isinit := i_isinit i;
                                          i_attached := i_attached i; i_polled := i_polled i ++ [u] |}) (modules st)).

(* ---------------------------------------------------------------- creation (get_module_instance) *)
Definition is_some {A} (o : option A) : bool := match o with Some _ => true | None => false end.
(* Module.__init__ -> checkProperties: a mandatory attachment without a value is a ConfigError *)
Definition creatable (d : decl) : bool :=
  forallb (fun a => negb (a_mand a) || is_some (a_target a)) (d_atts d).

Definition new_inst (d : decl) (io : option name) : inst :=
  {| i_decl := d; i_io := io; i_isinit := false; i_attached := []; i_polled := [] |}.

(* SecNode.add_module *)
Definition add_module (n : name) (i : inst) (st : node) : node :=
  let st1 := set_modules st (set_assoc n i (modules st)) in
  if d_export (i_decl i) then set_export st1 (export st1 ++ [n]) else st1.

Inductive ires := IOk | INone | IRaise.

Definition create (st : node) (b : name) (d : decl) : node * ires :=
  if negb (creatable d) then (add_error (ErrCreate b) st, INone)
  else
    let '(st1, io) :=
      match d_kind d with
      | KHasIO (IoUri u) =>
          match find u (iodict st) with
          | Some n => (st, Some n)
          | None => let n := io_name b in
                    (set_iodict (add_module n (new_inst io_decl None) st) (iodict st ++ [(u, n)]), Some n)
          end
      | KHasIO (IoMod m) => (st, Some m)
      | _ => (st, None)
      end in
    (add_module b (new_inst d io) st1, IOk).

Definition get_instance (st : node) (b : name) : node * ires :=
  if has_key b (modules st) then (st, IOk)
  else match find b (avail st) with
       | None => (st, IRaise)                  (* NoSuchModuleError *)
       | Some d => create st b d
       end.

(* ---------------------------------------------------------------- get_module as a stack machine *)
Definition phase_eqb (p q : phase) : bool :=
  match p, q with PEarly, PEarly | PInit, PInit => true | _, _ => false end.
Definition indexed_atts (d : decl) : list (nat * att) := combine (seq 0 (length (d_atts d))) (d_atts d).
Definition accesses (p : phase) (d : decl) : list op :=
  map (fun ia => OAccess (fst ia) (snd ia)) (filter (fun ia => phase_eqb (a_phase (snd ia)) p) (indexed_atts d)).
Definition is_hasio (d : decl) : bool := match d_kind d with KHasIO _ => true | _ => false end.
Definition io_idx : nat := 99.
Definition io_att (io : option name) : att :=
  {| a_target := io; a_mand := false; a_want := None; a_phase := PInit |}.

(* what get_module does with a module that is not yet initialised: earlyInit, then initModule *)
Definition frame_ops (d : decl) (io : option name) : list op :=
  [OEarlyEv] ++ accesses PEarly d ++ (if d_fail_early d then [ORaise] else []) ++
  [OInitEv] ++ (if is_hasio d then [OAccess io_idx (io_att io)] else []) ++ accesses PInit d ++
  (if d_fail_init d then [ORaise] else []) ++
  (if is_hasio d && negb (is_some io) then [ORaise] else []) ++     (* HasIO.initModule: neither uri nor io *)
  [ORegister].

Definition push (b : name) (st : node) : node :=
  set_stack st ({| f_mod := b; f_ops := frame_ops (decl_of st b) (io_of st b) |} :: stack st).

(* except Exception in get_module: record the error; _isinitialized = True; return the module *)
Definition raise_top (st : node) (u : name) (rest : list frame) : node :=
  set_stack (mark_init u (add_error (ErrInit u) st)) rest.

Definition want_ok (w : option nat) (tag : nat) : bool :=
  match w with None => true | Some t => Nat.eqb t tag end.

Definition register (u : name) (st : node) : node :=
  let d := decl_of st u in
  if d_poll d || negb (match d_writes d with [] => true | _ => false end) then
    let owner := if is_hasio d then match io_of st u with Some n => n | None => u end else u in
    add_polled owner u st
  else st.

Definition step (limit : nat) (st : node) : node :=
  match stack st with
  | [] => st
  | fr :: rest =>
    let u := f_mod fr in
    match f_ops fr with
    | [] => set_stack (mark_init u st) rest
    | o :: ops =>
      let cont st' := set_stack st' ({| f_mod := u; f_ops := ops |} :: rest) in
      match o with
      | OEarlyEv => cont (emit (EEarly u) st)
      | OInitEv => cont (emit (EInit u) st)
      | ORaise => raise_top st u rest
      | ORegister => cont (register u st)
      | OAccess idx a =>
          match find idx (attached_of st u) with
          | Some b => cont (emit (ESee u idx (Some b) (isinit st b)) st)
          | None =>
              match a_target a with
              | None => cont (emit (ESee u idx None true) st)
              | Some b =>
                  let '(st1, r) := get_instance st b in
                  match r with
                  | IOk =>
                      let st2 := set_stack st1 ({| f_mod := u; f_ops := ORet idx a b :: ops |} :: rest) in
                      if isinit st2 b then st2
                      else if Nat.leb limit (length (stack st2)) then raise_top (set_overflow st2) u rest
                      else push b st2
                  | _ => raise_top st1 u rest
                  end
              end
          end
      | ORet idx a b =>
          if want_ok (a_want a) (d_tag (decl_of st b))
          then cont (emit (ESee u idx (Some b) (isinit st b)) (attach u idx b st))
          else raise_top st u rest
      end
    end
  end.

Fixpoint run_gm (limit fuel : nat) (st : node) : node :=
  match stack st with
  | [] => st
  | _ :: _ => match fuel with
              | 0 => set_stuck st
              | S f => run_gm limit f (step limit st)
              end
  end.

(* SecNode.get_module called from outside of any initialisation *)
Definition gm_top (limit fuel : nat) (st : node) (b : name) : node :=
  let '(st1, r) := get_instance st b in
  match r with
  | IOk => if isinit st1 b then st1 else run_gm limit fuel (push b st1)
  | _ => st1
  end.

(* ---------------------------------------------------------------- create_modules *)
Fixpoint lookup_all (ns : list name) (pool : list (name * decl)) : list (name * decl) :=
  match ns with
  | [] => []
  | n :: r => match find n pool with Some d => (n, d) :: lookup_all r pool | None => lookup_all r pool end
  end.

Fixpoint create_loop (limit fuel n : nat) (dyn : list (name * decl)) (todos : list (name * decl)) (st : node) : node :=
  match n with
  | 0 => st
  | S n' =>
    match todos with
    | [] => st
    | (b, d) :: rest =>
        if has_key b (modules st) then create_loop limit fuel n' dyn rest st
        else
          let st0 := set_avail st (set_assoc b d (avail st)) in
          let '(st1, r) := get_instance st0 b in
          match r with
          | IOk =>
              match d_kind d with
              | KPinata scan => create_loop limit fuel n' dyn (rest ++ lookup_all scan dyn) (gm_top limit fuel st1 b)
              | _ => create_loop limit fuel n' dyn rest st1
              end
          | _ => create_loop limit fuel n' dyn rest st1
          end
    end
  end.

Definition create_all (limit fuel : nat) (c : cfg) : node :=
  create_loop limit fuel (S (length (c_static c) + length (c_dyn c))) (c_dyn c) (c_static c) (node0 (c_static c)).

(* get_descriptive_data: for modulename in self.export: self.get_module(modulename) *)
Fixpoint init_loop (limit fuel n i : nat) (st : node) : node :=
  match n with
  | 0 => st
  | S n' => match nth_error (export st) i with
            | None => st
            | Some b => init_loop limit fuel n' (S i) (gm_top limit fuel st b)
            end
  end.

Definition init_all (limit fuel : nat) (st : node) : node :=
  init_loop limit fuel (S (length (export st) + 2 * length (avail st))) 0 st.

(* ---------------------------------------------------------------- start, poll threads, ready *)
Record thread := { t_id : name; t_prog : list event; t_hung : bool; t_done : bool }.
Inductive mainpc := MStart (rest : list name) | MWait | MRun | MExited.
Record sys := { s_node : node; s_threads : list thread; s_pc : mainpc }.

(* start-up part of __pollThread for the modules registered at the owner.
   A write function that raises (CommunicationFailedError, any other SECoPError, any other exception) is caught inside
   Module.writeInitParams, which goes on with the next configured value: the attempt is the event EWrite, the program
   of the thread does not depend on its outcome (fact writeinitparams_absorbs_write_errors of Gen/C15.v; the driver
   scripts such failures, field wfail of a case, and the model is compared on them). *)
Definition startup_prog (st : node) (t : name) : list event :=
  let L := polled_of st t in
  flat_map (fun m => map (EWrite m) (d_writes (decl_of st m)) ++ [EIReads m]) L ++
  flat_map (fun m => [ERead m 0; ERead m 1]) (filter (fun m => d_poll (decl_of st m)) L).

(* CommunicationFailedError: raised by initialReads (re-raised by the inner handler of __pollThread) or by a first
   read (callPollFunc with raise_com_failed=True); everything else in the start-up sequence is skipped *)
Definition fails_at (st : node) (e : event) : bool :=
  match e with
  | EIReads m => match d_cfail (decl_of st m) with CFIReads => true | _ => false end
  | ERead m k => match d_cfail (decl_of st m) with CFRead j => Nat.eqb j k | _ => false end
  | _ => false
  end.

(* the events up to and including the first one that raises; true: the sequence was abandoned *)
Fixpoint cut_at (f : event -> bool) (l : list event) : list event * bool :=
  match l with
  | [] => ([], false)
  | e :: r => if f e then ([e], true) else let '(p, b) := cut_at f r in (e :: p, b)
  end.

(* after the start-up: except CommunicationFailedError calls the started callback early, then triggerPoll.wait(0.1)
   and "break" (no second attempt); without failure the callback is called after the loop.  A thread with polled
   modules then enters the regular loop, whose first pass calls doPoll of every polled module (last_main = 0). *)
Definition after_startup (st : node) (t : name) (aborted : bool) : list event :=
  [EStarted t] ++ (if aborted then [ECWait t] else []) ++
  map EDoPoll (filter (fun m => d_poll (decl_of st m)) (polled_of st t)).

Definition thread_prog (st : node) (t : name) : list event :=
  let '(pre, aborted) := cut_at (fails_at st) (startup_prog st t) in
  pre ++ after_startup st t aborted.

Definition finish_start (st : node) : node * mainpc :=
  match errors st with
  | [] => (st, MWait)
  | _ :: _ => (emit EExit st, MExited)
  end.

Definition pc_after (st : node) (rest : list name) : node * mainpc :=
  match rest with [] => finish_start st | _ :: _ => (st, MStart rest) end.

Definition sys0 (st : node) : sys :=
  let '(st1, pc) := pc_after st (map fst (modules st)) in
  {| s_node := st1; s_threads := []; s_pc := pc |}.

Inductive sitem := SMain | SThread (t : name) | STimeout.

Definition all_done (ths : list thread) : bool := forallb t_done ths.

Definition thread_step (st : node) (th : thread) : node * thread :=
  if t_hung th then (st, th)
  else match t_prog th with
       | [] => (st, th)
       | e :: rest =>
           match e with
           | EIReads m =>
               if d_hang (decl_of st m)
               then (st, {| t_id := t_id th; t_prog := t_prog th; t_hung := true; t_done := t_done th |})
               else (emit e st, {| t_id := t_id th; t_prog := rest; t_hung := false; t_done := t_done th |})
           | EStarted _ => (emit (EStarted (t_id th)) st, {| t_id := t_id th; t_prog := rest; t_hung := false; t_done := true |})
           | EWrite _ _ | ERead _ _ | ECWait _ | EDoPoll _ =>
               (emit e st, {| t_id := t_id th; t_prog := rest; t_hung := false; t_done := t_done th |})
           | _ => (st, {| t_id := t_id th; t_prog := rest; t_hung := false; t_done := t_done th |})   (* not a poll thread event *)
           end
       end.

Fixpoint threads_step (st : node) (t : name) (ths : list thread) : node * list thread :=
  match ths with
  | [] => (st, [])
  | th :: r => if Nat.eqb (t_id th) t
               then let '(st1, th1) := thread_step st th in (st1, th1 :: r)
               else let '(st1, r1) := threads_step st t r in (st1, th :: r1)
  end.

Definition cstep (s : sys) (it : sitem) : sys :=
  match it with
  | SMain =>
      match s_pc s with
      | MStart (m :: rest) =>
          let st1 := emit (EStart m) (s_node s) in
          let ths := match polled_of st1 m with
                     | [] => s_threads s
                     | _ :: _ => s_threads s ++ [{| t_id := m; t_prog := thread_prog st1 m; t_hung := false; t_done := false |}]
                     end in
          let '(st2, pc) := pc_after st1 rest in
          {| s_node := st2; s_threads := ths; s_pc := pc |}
      | MWait => if all_done (s_threads s)
                 then {| s_node := emit (EReady true) (s_node s); s_threads := s_threads s; s_pc := MRun |}
                 else s
      | _ => s
      end
  | STimeout =>
      match s_pc s with
      | MWait => if all_done (s_threads s) then s
                 else {| s_node := emit (EReady false) (s_node s); s_threads := s_threads s; s_pc := MRun |}
      | _ => s
      end
  | SThread t =>
      match s_pc s with
      | MRun | MExited => s       (* after ready / exit the threads are no longer observed *)
      | _ => let '(st1, ths) := threads_step (s_node s) t (s_threads s) in
             {| s_node := st1; s_threads := ths; s_pc := s_pc s |}
      end
  end.

Definition run_sched (s : sys) (sched : list sitem) : sys := fold_left cstep sched s.

(* ---------------------------------------------------------------- shutdown *)
Record dfs := { g_done : list name; g_visited : list name; g_unmarked : list name;
                g_l : list name }.     (* g_l: newest first, i.e. already l reversed *)
Definition remove_nat (n : nat) (l : list nat) : list nat := filter (fun x => negb (Nat.eqb x n)) l.

Fixpoint go (fuel : nat) (g : name -> list name) (s : dfs) (n : name) : bool * dfs :=
  match fuel with
  | 0 => (false, s)
  | S f =>
      if mem n (g_done s) then (true, s)
      else if mem n (g_visited s) then (false, s)
      else
        let s1 := {| g_done := g_done s; g_visited := n :: g_visited s; g_unmarked := remove_nat n (g_unmarked s);
                     g_l := g_l s |} in
        let '(ok, s2) :=
          (fix gl (s : dfs) (ns : list name) {struct ns} : bool * dfs :=
             match ns with
             | [] => (true, s)
             | x :: r => let '(ok, s') := go f g s x in if ok then gl s' r else (false, s')
             end) s1 (g n) in
        if ok then (true, {| g_done := n :: g_done s2; g_visited := remove_nat n (g_visited s2);
                            g_unmarked := g_unmarked s2; g_l := n :: g_l s2 |})
        else (false, s2)
  end.

(* unmarked.pop(): the first name of the pop order (iteration order of the python set) that is still unmarked *)
Definition pop_next (order : list name) (unmarked : list name) : option name :=
  List.find (fun x => mem x unmarked) order.

Fixpoint sort_loop (fuel k : nat) (g : name -> list name) (order : list name) (s : dfs) : list name :=
  match k with
  | 0 => g_l s ++ g_visited s ++ g_unmarked s
  | S k' =>
      match pop_next order (g_unmarked s) with
      | None => match g_unmarked s with
                | [] => g_l s
                | x :: _ => g_l s ++ g_visited s ++ g_unmarked s      (* pop order does not cover the modules *)
                end
      | Some n =>
          let s0 := {| g_done := g_done s; g_visited := g_visited s; g_unmarked := remove_nat n (g_unmarked s);
                       g_l := g_l s |} in
          let '(ok, s1) := go fuel g s0 n in
          if ok then sort_loop fuel k' g order s1
          else g_l s1 ++ g_visited s1 ++ g_unmarked s1
      end
  end.

Definition sorted_modules (st : node) (order : list name) : list name :=
  let names := map fst (modules st) in
  let g := fun n => map snd (attached_of st n) in
  sort_loop (S (length names)) (S (length names)) g order
            {| g_done := []; g_visited := []; g_unmarked := names; g_l := [] |}.

Definition has_thread (ths : list thread) (m : name) : bool := existsb (fun th => Nat.eqb (t_id th) m) ths.

Definition shutdown (s : sys) (order : list name) : node :=
  match s_pc s with
  | MRun =>
      let st := s_node s in
      let stops := filter (has_thread (s_threads s)) (map fst (modules st)) in
      let st1 := fold_left (fun acc m => emit (EStop m) acc) (stops ++ stops) st in     (* stopPollThread, joinPollThread *)
      fold_left (fun acc m => emit (EShutdown m) acc) (sorted_modules st order) st1
  | _ => s_node s
  end.

(* ---------------------------------------------------------------- the whole lifecycle *)
(* Server._processCfg after get_descriptive_data: for modname in list(self.secnode.modules): get_module(modname)
   (a snapshot of the names; modules that are neither exported nor attached are initialised here) *)
Definition init_rest (limit fuel : nat) (st : node) : node :=
  fold_left (fun acc b => gm_top limit fuel acc b) (map fst (modules st)) st.

Definition init_phase (limit fuel : nat) (st : node) : node := init_rest limit fuel (init_all limit fuel st).

Definition initialised (limit fuel : nat) (c : cfg) : node := init_phase limit fuel (create_all limit fuel c).
Definition started (limit fuel : nat) (c : cfg) (sched : list sitem) : sys :=
  run_sched (sys0 (initialised limit fuel c)) sched.
Definition lifecycle (limit fuel : nat) (c : cfg) (sched : list sitem) (order : list name) : node :=
  shutdown (started limit fuel c sched) order.
