(* C15 — lemmas, part 3: SecNode._getSortedModules (the depth first search go, the loop over unmarked.pop()).
   For EVERY graph the result is a permutation of the module names; for every acyclic graph (a rank function that
   decreases along every edge) the search never fails and every module stands BEFORE all the modules it is attached
   to (reversed post-order), so that shutdown_modules shuts users down before the modules they use. *)
From Coq Require Import List Arith Bool Lia Permutation.
Import ListNotations.
Require Import FV.C15.Model.

(* ---------------------------------------------------------------- the inner loop of go as a function of its own *)
Definition gl_of (go' : dfs -> name -> bool * dfs) : dfs -> list name -> bool * dfs :=
  fix gl (s : dfs) (ns : list name) {struct ns} : bool * dfs :=
    match ns with
    | [] => (true, s)
    | x :: r => let '(ok, s') := go' s x in if ok then gl s' r else (false, s')
    end.

Definition enter (n : name) (s : dfs) : dfs :=
  {| g_done := g_done s; g_visited := n :: g_visited s; g_unmarked := remove_nat n (g_unmarked s); g_l := g_l s |}.
Definition leave (n : name) (s : dfs) : dfs :=
  {| g_done := n :: g_done s; g_visited := remove_nat n (g_visited s); g_unmarked := g_unmarked s; g_l := n :: g_l s |}.

Lemma go_S f g s n : go (S f) g s n =
  if mem n (g_done s) then (true, s)
  else if mem n (g_visited s) then (false, s)
  else let '(ok, s2) := gl_of (go f g) (enter n s) (g n) in
       if ok then (true, leave n s2) else (false, s2).
Proof. reflexivity. Qed.

Lemma go_0 g s n : go 0 g s n = (false, s).
Proof. reflexivity. Qed.

Lemma sort_loop_S fuel k g order s : sort_loop fuel (S k) g order s =
  match pop_next order (g_unmarked s) with
  | None => match g_unmarked s with [] => g_l s | x :: _ => g_l s ++ g_visited s ++ g_unmarked s end
  | Some n =>
      let s0 := {| g_done := g_done s; g_visited := g_visited s; g_unmarked := remove_nat n (g_unmarked s);
                   g_l := g_l s |} in
      let '(ok, s1) := go fuel g s0 n in
      if ok then sort_loop fuel k g order s1 else g_l s1 ++ g_visited s1 ++ g_unmarked s1
  end.
Proof. reflexivity. Qed.

Local Arguments go : simpl never.
Ltac nlia := unfold name in *; lia.

(* ---------------------------------------------------------------- lists of numbers *)
Lemma mem_In k l : mem k l = true <-> In k l.
Proof.
  unfold mem. rewrite existsb_exists. split.
  - intros [x [I E]]. apply Nat.eqb_eq in E. subst. exact I.
  - intros I. exists k. split; [exact I|apply Nat.eqb_refl].
Qed.

Lemma mem_false k l : mem k l = false <-> ~ In k l.
Proof. rewrite <- mem_In. destruct (mem k l); split; intros; try discriminate; auto. exfalso; auto. Qed.

Lemma remove_nat_In n x l : In x (remove_nat n l) <-> In x l /\ x <> n.
Proof.
  unfold remove_nat. rewrite filter_In. split; intros [A B]; split; auto.
  - intros E. subst. rewrite Nat.eqb_refl in B. discriminate.
  - apply Nat.eqb_neq in B. rewrite B. reflexivity.
Qed.

Lemma remove_nat_notin n l : ~ In n l -> remove_nat n l = l.
Proof.
  induction l as [|x r IH]; simpl; auto. intros N.
  destruct (Nat.eqb x n) eqn:E; simpl.
  - apply Nat.eqb_eq in E. subst. exfalso. apply N. left; reflexivity.
  - rewrite IH; auto.
Qed.

Lemma remove_nat_idem n l : remove_nat n (remove_nat n l) = remove_nat n l.
Proof. apply remove_nat_notin. rewrite remove_nat_In. intros [_ H]. apply H. reflexivity. Qed.

Lemma remove_nat_perm n : forall l, NoDup l -> In n l -> Permutation l (n :: remove_nat n l).
Proof.
  induction l as [|x r IH]; simpl; [contradiction|]. intros ND [E|I].
  - subst x. rewrite Nat.eqb_refl. simpl. inversion ND; subst. rewrite remove_nat_notin; auto.
  - inversion ND; subst. destruct (Nat.eqb x n) eqn:E; simpl.
    + apply Nat.eqb_eq in E. subst. contradiction.
    + eapply perm_trans; [apply perm_skip; apply IH; auto|apply perm_swap].
Qed.

Lemma remove_nat_length n l : length (remove_nat n l) <= length l.
Proof. induction l as [|x r IH]; simpl; auto. destruct (negb (Nat.eqb x n)); simpl; lia. Qed.

Lemma remove_nat_length_lt n l : In n l -> length (remove_nat n l) < length l.
Proof.
  induction l as [|x r IH]; simpl; [contradiction|]. intros [E|I].
  - subst. rewrite Nat.eqb_refl. simpl. pose proof (remove_nat_length n r). lia.
  - destruct (Nat.eqb x n); simpl; specialize (IH I); pose proof (remove_nat_length n r); lia.
Qed.

(* ---------------------------------------------------------------- the search keeps a partition of the names *)
Section Sort.
Variable names : list name.
Variable g : name -> list name.
Hypothesis names_nodup : NoDup names.
Hypothesis g_closed : forall u b, In u names -> In b (g u) -> In b names.

(* done and l hold the same names; l, visited and unmarked partition the module names *)
Definition PInv (s : dfs) : Prop :=
  g_done s = g_l s /\ Permutation (g_l s ++ g_visited s ++ g_unmarked s) names.

Lemma PInv_nodup s : PInv s -> NoDup (g_l s ++ g_visited s ++ g_unmarked s).
Proof. intros [_ P]. eapply Permutation_NoDup; [apply Permutation_sym; exact P|exact names_nodup]. Qed.

Lemma PInv_in s x : PInv s -> (In x names <-> In x (g_l s) \/ In x (g_visited s) \/ In x (g_unmarked s)).
Proof.
  intros [_ P]. split.
  - intros I. apply (Permutation_in _ (Permutation_sym P)) in I. rewrite !in_app_iff in I. exact I.
  - intros I. apply (Permutation_in _ P). rewrite !in_app_iff. exact I.
Qed.

Lemma nodup_app_disj {A} (a b : list A) x : NoDup (a ++ b) -> In x a -> In x b -> False.
Proof.
  induction a as [|y r IH]; simpl; [contradiction|]. intros ND [E|I] B.
  - subst. inversion ND; subst. apply H1. apply in_or_app. right; exact B.
  - inversion ND; subst. eauto.
Qed.

Lemma nodup_app_r {A} (a b : list A) : NoDup (a ++ b) -> NoDup b.
Proof. induction a; simpl; auto. intros H. inversion H; auto. Qed.

Lemma nodup_app_l {A} (a b : list A) : NoDup (a ++ b) -> NoDup a.
Proof.
  induction a as [|y r IH]; simpl; [constructor|]. intros H. inversion H; subst. constructor; auto.
  intros I. apply H2. apply in_or_app. left; exact I.
Qed.

(* a name that is neither finished nor on the path is still unmarked *)
Lemma PInv_unmarked s n : PInv s -> In n names -> mem n (g_done s) = false -> mem n (g_visited s) = false ->
  In n (g_unmarked s).
Proof.
  intros P I D V. pose proof P as [E _]. rewrite E in D. apply mem_false in D. apply mem_false in V.
  apply (PInv_in s n P) in I. destruct I as [I|[I|I]]; [contradiction|contradiction|exact I].
Qed.

Lemma PInv_enter s n : PInv s -> In n (g_unmarked s) -> PInv (enter n s).
Proof.
  intros P I. pose proof (PInv_nodup s P) as ND. destruct P as [E P]. split; [exact E|]. simpl.
  assert (NU : NoDup (g_unmarked s)) by (apply nodup_app_r in ND; apply nodup_app_r in ND; exact ND).
  eapply perm_trans; [|exact P]. apply Permutation_app_head.
  eapply perm_trans; [apply (Permutation_middle (g_visited s) (remove_nat n (g_unmarked s)) n)|].
  apply Permutation_app_head. apply Permutation_sym. apply remove_nat_perm; auto.
Qed.

Lemma PInv_leave s n : PInv s -> In n (g_visited s) -> PInv (leave n s).
Proof.
  intros P I. pose proof (PInv_nodup s P) as ND. destruct P as [E P]. split; [simpl; rewrite E; reflexivity|]. simpl.
  assert (NV : NoDup (g_visited s)) by (apply nodup_app_r in ND; apply nodup_app_l in ND; exact ND).
  eapply perm_trans; [|exact P].
  eapply perm_trans; [apply (Permutation_middle (g_l s) (remove_nat n (g_visited s) ++ g_unmarked s) n)|].
  apply Permutation_app_head.
  change (n :: remove_nat n (g_visited s) ++ g_unmarked s) with ((n :: remove_nat n (g_visited s)) ++ g_unmarked s).
  apply Permutation_app_tail. apply Permutation_sym. apply remove_nat_perm; auto.
Qed.

(* what one call of go guarantees for every graph *)
Definition go_ok1 (s : dfs) (r : bool * dfs) : Prop :=
  PInv (snd r) /\ (fst r = true -> g_visited (snd r) = g_visited s).

Lemma gl_ok1 (go' : dfs -> name -> bool * dfs) :
  (forall s n, PInv s -> In n names -> go_ok1 s (go' s n)) ->
  forall ns s, PInv s -> (forall x, In x ns -> In x names) -> go_ok1 s (gl_of go' s ns).
Proof.
  intros H. induction ns as [|x r IH]; intros s P C; simpl.
  - split; auto.
  - destruct (H s x P (C x (or_introl eq_refl))) as [P1 V1].
    destruct (go' s x) as [ok s1]; simpl in *. destruct ok.
    + destruct (IH s1 P1 (fun y Y => C y (or_intror Y))) as [P2 V2]. split; auto.
      intros T. rewrite (V2 T). apply V1. reflexivity.
    + split; auto; try discriminate.
Qed.

Lemma go_ok1_all : forall f s n, PInv s -> In n names -> go_ok1 s (go f g s n).
Proof.
  induction f as [|f IH]; intros s n P I.
  - rewrite go_0. split; auto; try discriminate.
  - rewrite go_S. destruct (mem n (g_done s)) eqn:D; [split; auto|].
    destruct (mem n (g_visited s)) eqn:V; [split; auto; try discriminate|].
    pose proof (PInv_unmarked s n P I D V) as U.
    pose proof (gl_ok1 (go f g) IH (g n) (enter n s) (PInv_enter s n P U) (fun x X => g_closed n x I X)) as [P2 V2].
    destruct (gl_of (go f g) (enter n s) (g n)) as [ok s2]; simpl in *. destruct ok; [|split; auto; try discriminate].
    specialize (V2 eq_refl). split; simpl.
    + apply PInv_leave; auto. rewrite V2. left; reflexivity.
    + intros _. rewrite V2. simpl. rewrite Nat.eqb_refl. simpl. apply remove_nat_notin. apply mem_false. exact V.
Qed.

(* unmarked.pop() before go(name): go removes the name from unmarked anyway *)
Lemma go_pop f s n : mem n (g_done s) = false -> mem n (g_visited s) = false ->
  go (S f) g {| g_done := g_done s; g_visited := g_visited s; g_unmarked := remove_nat n (g_unmarked s); g_l := g_l s |} n =
  go (S f) g s n.
Proof.
  intros D V. rewrite !go_S. simpl. rewrite D, V. unfold enter. simpl. rewrite remove_nat_idem. reflexivity.
Qed.

Lemma pop_next_some order u n : pop_next order u = Some n -> In n u.
Proof. unfold pop_next. intros H. apply find_some in H. destruct H as [_ H]. apply mem_In. exact H. Qed.

Lemma pop_next_none order u x : pop_next order u = None -> In x u -> In x order -> False.
Proof.
  unfold pop_next. intros H U O. pose proof (find_none _ _ H x O) as Q. simpl in Q.
  apply mem_false in Q. contradiction.
Qed.

(* ---- every graph: the result is a permutation of the names *)
Lemma sort_loop_perm f order : forall k s, PInv s -> g_visited s = [] ->
  Permutation (sort_loop (S f) k g order s) names.
Proof.
  induction k as [|k IH]; intros s P V.
  - simpl. destruct P as [_ P]. exact P.
  - rewrite sort_loop_S. destruct (pop_next order (g_unmarked s)) as [n|] eqn:PN.
    + pose proof (pop_next_some _ _ _ PN) as U.
      pose proof (PInv_nodup s P) as ND.
      assert (IN : In n names) by (apply (PInv_in s n P); auto).
      assert (D : mem n (g_done s) = false).
      { apply mem_false. destruct P as [E _]. rewrite E. intros X. eapply (nodup_app_disj (g_l s)); eauto.
        apply in_or_app. right; exact U. }
      assert (W : mem n (g_visited s) = false) by (rewrite V; reflexivity).
      cbv zeta. rewrite (go_pop f s n D W).
      pose proof (go_ok1_all (S f) s n P IN) as [P1 V1].
      destruct (go (S f) g s n) as [ok s1]; simpl in *. destruct ok.
      * apply IH; auto. rewrite V1; auto.
      * destruct P1 as [_ P1]. exact P1.
    + destruct (g_unmarked s) eqn:U; destruct P as [_ P]; rewrite U in P; [|exact P].
      rewrite V in P. simpl in P. rewrite app_nil_r in P. exact P.
Qed.

(* ---- acyclic graphs: the search succeeds, every name stands before everything it is attached to *)
Variable rank : name -> nat.
Hypothesis ranked : forall u b, In u names -> In b (g u) -> rank b < rank u.

(* in l (newest first) everything a name is attached to stands behind it *)
Definition Ord (l : list name) : Prop :=
  forall l1 u l2, l = l1 ++ u :: l2 -> forall b, In b (g u) -> In b l2.

Definition res2 (s : dfs) (r : bool * dfs) (bound : nat) : Prop :=
  fst r = true /\ PInv (snd r) /\ g_visited (snd r) = g_visited s /\ Ord (g_l (snd r)) /\
  (exists new, g_l (snd r) = new ++ g_l s) /\ length (g_unmarked (snd r)) <= bound.

Definition pre2 (f : nat) (s : dfs) (n : name) : Prop :=
  PInv s /\ In n names /\ (forall v, In v (g_visited s) -> rank n < rank v) /\ Ord (g_l s) /\
  length (g_unmarked s) < f.

Lemma gl_ok2 (go' : dfs -> name -> bool * dfs) f :
  (forall s n, pre2 f s n ->
     res2 s (go' s n) (length (remove_nat n (g_unmarked s))) /\ In n (g_l (snd (go' s n)))) ->
  forall ns s, (forall x, In x ns -> pre2 f s x) -> PInv s -> Ord (g_l s) ->
  res2 s (gl_of go' s ns) (length (g_unmarked s)) /\ (forall x, In x ns -> In x (g_l (snd (gl_of go' s ns)))).
Proof.
  intros H. induction ns as [|x r IH]; intros s C P O; simpl.
  - split; [|intros x []]. unfold res2; simpl.
    split; [reflexivity|]. split; [exact P|]. split; [reflexivity|]. split; [exact O|].
    split; [exists []; reflexivity|nlia].
  - destruct (H s x (C x (or_introl eq_refl))) as [[T1 [P1 [V1 [O1 [[new1 L1] U1]]]]] I1].
    pose proof (remove_nat_length x (g_unmarked s)) as RL.
    destruct (go' s x) as [ok s1]; simpl in *. subst ok.
    assert (C1 : forall y, In y r -> pre2 f s1 y).
    { intros y Y. destruct (C y (or_intror Y)) as [_ [IN [RK [_ LT]]]].
      unfold pre2. rewrite V1. split; [exact P1|]. split; [exact IN|]. split; [exact RK|]. split; [exact O1|]. nlia. }
    destruct (IH s1 C1 P1 O1) as [[T2 [P2 [V2 [O2 [[new2 L2] U2]]]]] I2].
    split.
    + unfold res2. split; [exact T2|]. split; [exact P2|]. split; [congruence|]. split; [exact O2|].
      split; [|nlia]. exists (new2 ++ new1). rewrite L2, L1, app_assoc. reflexivity.
    + intros y [E|Y]; [subst y|apply I2; exact Y]. rewrite L2. apply in_or_app. right. exact I1.
Qed.

Lemma go_ok2_all : forall f s n, pre2 f s n ->
  res2 s (go f g s n) (length (remove_nat n (g_unmarked s))) /\ In n (g_l (snd (go f g s n))).
Proof.
  induction f as [|f IH]; intros s n [P [I [RK [O LT]]]]; [nlia|].
  rewrite go_S. destruct (mem n (g_done s)) eqn:D.
  - simpl. assert (IL : In n (g_l s)) by (destruct P as [E _]; rewrite <- E; apply mem_In; exact D).
    split; [|exact IL].
    unfold res2; simpl.
    split; [reflexivity|]. split; [exact P|]. split; [reflexivity|]. split; [exact O|].
    split; [exists []; reflexivity|].
    rewrite remove_nat_notin; auto. intros X. pose proof (PInv_nodup s P) as ND.
    eapply (nodup_app_disj (g_l s)); eauto. apply in_or_app. right; exact X.
  - destruct (mem n (g_visited s)) eqn:V.
    { apply mem_In in V. apply RK in V. nlia. }
    pose proof (PInv_unmarked s n P I D V) as U.
    pose proof (PInv_enter s n P U) as PE.
    assert (LE : length (g_unmarked (enter n s)) < f).
    { simpl. pose proof (remove_nat_length_lt n (g_unmarked s) U). nlia. }
    assert (C : forall x, In x (g n) -> pre2 f (enter n s) x).
    { intros x X. unfold pre2. split; [exact PE|]. split; [eapply g_closed; eauto|]. split; [|split; [exact O|exact LE]].
      simpl. intros v [E|W]; [subst v; apply ranked; auto|]. specialize (RK v W). specialize (ranked n x I X). nlia. }
    destruct (gl_ok2 (go f g) f IH (g n) (enter n s) C PE O) as [[T2 [P2 [V2 [O2 [[new2 L2] U2]]]]] I2].
    destruct (gl_of (go f g) (enter n s) (g n)) as [ok s2]; simpl in *. subst ok. simpl. split; [|left; reflexivity].
    unfold res2; simpl. split; [reflexivity|]. split; [|split; [|split; [|split]]].
    + apply PInv_leave; auto. rewrite V2. left; reflexivity.
    + rewrite V2. simpl. rewrite Nat.eqb_refl. simpl. apply remove_nat_notin. apply mem_false. exact V.
    + intros l1 u l2 E b B. destruct l1 as [|y l1]; simpl in E; inversion E; subst.
      * apply I2. exact B.
      * eapply O2; eauto.
    + exists (n :: new2). rewrite L2. reflexivity.
    + exact U2.
Qed.

Lemma sort_loop_topo f order : (forall x, In x names -> In x order) ->
  forall k s, PInv s -> g_visited s = [] -> Ord (g_l s) -> length (g_unmarked s) < k -> length (g_unmarked s) < S f ->
  Ord (sort_loop (S f) k g order s).
Proof.
  intros COV. induction k as [|k IH]; intros s P V O LK LF; [nlia|]. rewrite sort_loop_S.
  destruct (pop_next order (g_unmarked s)) as [n|] eqn:PN.
  - pose proof (pop_next_some _ _ _ PN) as U.
    pose proof (PInv_nodup s P) as ND.
    assert (IN : In n names) by (apply (PInv_in s n P); auto).
    assert (D : mem n (g_done s) = false).
    { apply mem_false. destruct P as [E _]. rewrite E. intros X. eapply (nodup_app_disj (g_l s)); eauto.
      apply in_or_app. right; exact U. }
    assert (W : mem n (g_visited s) = false) by (rewrite V; reflexivity).
    cbv zeta. rewrite (go_pop f s n D W).
    assert (PRE : pre2 (S f) s n).
    { unfold pre2. split; [exact P|]. split; [exact IN|]. split; [rewrite V; intros v []|]. split; [exact O|exact LF]. }
    destruct (go_ok2_all (S f) s n PRE) as [[T1 [P1 [V1 [O1 [_ U1]]]]] I1].
    pose proof (remove_nat_length_lt n (g_unmarked s) U) as LT.
    destruct (go (S f) g s n) as [ok s1]; simpl in *. subst ok.
    apply IH; auto; try nlia. rewrite V1; auto.
  - destruct (g_unmarked s) as [|x r] eqn:U; [exact O|].
    exfalso. apply (pop_next_none order (g_unmarked s) x); [rewrite U; exact PN|rewrite U; left; reflexivity|].
    apply COV. apply (PInv_in s x P). right. right. rewrite U. left; reflexivity.
Qed.

End Sort.
