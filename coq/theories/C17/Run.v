(* C17 - correspondence driver: a case carries the module description, the history of operations (with the
   injected faults and the CPython data) and what the implementation showed after every operation;
   check_case re-runs the model and compares. *)
From Coq Require Import List Arith ZArith NArith Bool.
Import ListNotations.
Require Import FV.Base.Util FV.Gen.C17 FV.C17.Model FV.C17.ConcModel.

Definition amap_eqb (a b : amap) : bool := list_eqb (pair_eqb Nat.eqb val_eqb) a b.

Definition pj_eqb (a b : pj) : bool :=
  match a, b with
  | PJInvalid, PJInvalid | PJOther, PJOther => true
  | PJObj x, PJObj y => amap_eqb x y
  | _, _ => false
  end.

(* an empty file carries no information about the document being written *)
Definition content_eqb (a b : content) : bool :=
  match a, b with
  | CW d k n, CW d' k' n' =>
      (Nat.eqb k 0 && Nat.eqb k' 0) || (Nat.eqb k k' && Nat.eqb n n' && amap_eqb d d')
  | CForeign p, CForeign q => pj_eqb p q
  | _, _ => false
  end.

Definition res_eqb (a b : res) : bool :=
  match a, b with
  | ROk, ROk | RIOErr, RIOErr | RExc, RExc | RCrash, RCrash | RNoMod, RNoMod => true
  | _, _ => false
  end.

(* the file-system calls recorded in the implementation during one operation; runs of consecutive writes are
   given by first index and length *)
Inductive lop := L (o : fsop) | LW (a m : nat).
Definition expand (l : list lop) : list fsop :=
  flat_map (fun x => match x with L o => [o] | LW a m => map FWrite (seq a m) end) l.

Record obs := {
  o_res : res;
  o_target : option content;
  o_tmp : option content;
  o_mod : option mstate;
  o_log : list lop;
}.

(* the file-system calls the model makes in one operation (same functions as step, the log instead of the state) *)
Definition save_params_log (M : mdesc) (f : fault) (n : nat) (d : disk) (m : mstate) : list fsop :=
  match snapshot_of M (vals m) with
  | None => []
  | Some data => if differs data (pdata m) then save_log f data n d else []
  end.
Definition save_parameters_log (M : mdesc) (f : fault) (n : nat) (d : disk) (m : mstate) : list fsop :=
  match wdict m with [] => save_params_log M f n d m | _ => [] end.
Definition announce_log (M : mdesc) (f : fault) (n : nat) (d : disk) (m : mstate) (p : nat) (v : val) : list fsop :=
  if is_auto M p then save_parameters_log M f n d (set_vals m (aset p v (vals m))) else [].
Definition wi_step_log (M : mdesc) (f : fault) (n : nat) (acc : (disk * mstate * bool) * list fsop) (pv : nat * val)
  : (disk * mstate * bool) * list fsop :=
  let '(a, l) := acc in
  let '(d, m, dead) := a in
  (wi_step M f n a pv,
   if dead then l else
   match aget (fst pv) (wdict m) with
   | None => l
   | Some v => l ++ announce_log M f n d (set_wdict m (adel (fst pv) (wdict m))) (fst pv) v
   end).
Definition write_init_log (M : mdesc) (f : fault) (n : nat) (d : disk) (m : mstate) : list fsop :=
  snd (fold_left (wi_step_log M f n) (wdict m) ((d, m, false), [])).

Definition step_log (M : mdesc) (s : st) (o : op) : list fsop :=
  match o with
  | OCorrupt _ => []
  | OInit cfg f n =>
      let '(l, k) := pre_ops f init_pre in
      match k with
      | Some _ => l
      | None => match load_file M (dk s) with
                | LOk raw loaded => l ++ save_params_log M f n (dk s) (init_state M cfg raw loaded)
                end
      end
  | _ =>
      match md s with
      | None => []
      | Some m =>
          match o with
          | OSet p v f n => announce_log M f n (dk s) m p v
          | OSave f n => save_parameters_log M f n (dk s) m
          | OWriteInit f n => write_init_log M f n (dk s) m
          | OLoad f n =>
              let '(l, k) := pre_ops f load_pre in
              match k with
              | Some _ => l
              | None => match load_file M (dk s) with
                        | LOk raw loaded =>
                            l ++ write_init_log M f n (dk s) (fold_left (load_step M) loaded (set_pdata m (Some raw)))
                        end
              end
          | OReset f n =>
              write_init_log M f n (dk s)
                (set_wdict m (fold_left (fun acc kv => aset (fst kv) (snd kv) acc) (initd m) (wdict m)))
          | _ => []
          end
      end
  end.

Record scase := {
  c_M : mdesc;
  c_ops : list op;
  c_obs : list obs;
}.

Definition mstate_eqb (a b : mstate) : bool :=
  amap_eqb (vals a) (vals b) && amap_eqb (wdict a) (wdict b)
  && opt_eqb amap_eqb (pdata a) (pdata b) && amap_eqb (initd a) (initd b).

Definition log_eqb (a b : list fsop) : bool := list_eqb fsop_eqb a b.

Definition obs_ok (s : st) (r : res) (o : obs) : bool :=
  res_eqb r (o_res o)
  && opt_eqb content_eqb (target (dk s)) (o_target o)
  && opt_eqb content_eqb (tmp (dk s)) (o_tmp o)
  && opt_eqb mstate_eqb (md s) (o_mod o).

Fixpoint run_check (M : mdesc) (s : st) (ops : list op) (os : list obs) : bool :=
  match ops, os with
  | [], [] => true
  | o :: ops', ob :: os' =>
      let '(s', r) := step M s o in
      obs_ok s' r ob && log_eqb (step_log M s o) (expand (o_log ob)) && run_check M s' ops' os'
  | _, _ => false
  end.

Definition check_scase (c : scase) : bool := run_check (c_M c) st0 (c_ops c) (c_obs c).

(* a concurrent case: the module is created on an empty directory (k_n0: chunk count of the first dump), then the
   threads k_thr run under the schedule k_sched (the thread of every step the deterministic scheduler made, start
   steps left out); observed: the file-system calls in the order they were made, each with the thread that made it,
   the two files and the module at the end.  The model is the system WITH the lock (the code of /repo). *)
Record ccase := {
  k_M : mdesc;
  k_n0 : nat;
  k_thr : list (list assign);
  k_sched : list nat;
  k_events : list (nat * fsop);
  k_target : option content;
  k_tmp : option content;
  k_mod : mstate;
}.

Definition conc_final (c : ccase) : option cstate :=
  let '(s1, _) := step (k_M c) st0 (OInit [] None (k_n0 c)) in
  match md s1 with
  | None => None
  | Some m => Some (crun true (k_M c) (k_sched c) (cinit (dk s1) m (k_thr c)))
  end.

Definition check_ccase (c : ccase) : bool :=
  match conc_final c with
  | None => false
  | Some st =>
      list_eqb (pair_eqb Nat.eqb fsop_eqb) (c_ev st) (k_events c)
      && opt_eqb content_eqb (target (c_disk st)) (k_target c)
      && opt_eqb content_eqb (tmp (c_disk st)) (k_tmp c)
      && mstate_eqb (c_mod st) (k_mod c)
      && all_done st
      && negb (held (c_lock st))
  end.

Inductive case := CSeq (c : scase) | CConc (c : ccase).

Definition check_case (c : case) : bool :=
  match c with CSeq s => check_scase s | CConc k => check_ccase k end.

(* what the model does, for diagnosis in replay files *)
Fixpoint model_trace (M : mdesc) (s : st) (ops : list op) : list (res * st * list fsop) :=
  match ops with
  | [] => []
  | o :: ops' => let '(s', r) := step M s o in (r, s', step_log M s o) :: model_trace M s' ops'
  end.
Definition model_result_seq (c : scase) : list (res * st * list fsop) := model_trace (c_M c) st0 (c_ops c).
Definition model_result (c : case) : list (res * st * list fsop) * option cstate :=
  match c with CSeq s => (model_result_seq s, None) | CConc k => ([], conc_final k) end.

(* per operation: which component of the observation differs (result, target, tmp, module, call sequence) *)
Fixpoint diag (M : mdesc) (s : st) (ops : list op) (os : list obs) : list (bool * bool * bool * bool * bool) :=
  match ops, os with
  | o :: ops', ob :: os' =>
      let '(s', r) := step M s o in
      (res_eqb r (o_res ob), opt_eqb content_eqb (target (dk s')) (o_target ob),
       opt_eqb content_eqb (tmp (dk s')) (o_tmp ob), opt_eqb mstate_eqb (md s') (o_mod ob),
       log_eqb (step_log M s o) (expand (o_log ob))) :: diag M s' ops' os'
  | _, _ => []
  end.
Definition diag_case (c : scase) := diag (c_M c) st0 (c_ops c) (c_obs c).
