(* C17 - correspondence driver: a case carries the module description, the history of operations (with the
   injected faults and the CPython data) and what the implementation showed after every operation;
   check_case re-runs the model and compares. *)
From Coq Require Import List Arith ZArith NArith Bool.
Import ListNotations.
Require Import FV.Base.Util FV.Gen.C17 FV.C17.Model.

Definition amap_eqb (a b : amap) : bool := list_eqb (pair_eqb Nat.eqb val_eqb) a b.

Definition pj_eqb (a b : pj) : bool :=
  match a, b with
  | PJInvalid, PJInvalid | PJOther, PJOther => true
  | PJObj x, PJObj y => amap_eqb x y
  | _, _ => false
  end.

(* an empty file carries no information about the document being written *)
Definition content_eqb (a b : content) : bool :=
  match a, b with
  | CW d k n, CW d' k' n' =>
      (Nat.eqb k 0 && Nat.eqb k' 0) || (Nat.eqb k k' && Nat.eqb n n' && amap_eqb d d')
  | CForeign p, CForeign q => pj_eqb p q
  | _, _ => false
  end.

Definition res_eqb (a b : res) : bool :=
  match a, b with
  | ROk, ROk | RIOErr, RIOErr | RExc, RExc | RCrash, RCrash | RNoMod, RNoMod => true
  | _, _ => false
  end.

Record obs := {
  o_res : res;
  o_target : option content;
  o_tmp : option content;
  o_mod : option mstate;
}.

Record case := {
  c_M : mdesc;
  c_ops : list op;
  c_obs : list obs;
}.

Definition mstate_eqb (a b : mstate) : bool :=
  amap_eqb (vals a) (vals b) && amap_eqb (wdict a) (wdict b)
  && opt_eqb amap_eqb (pdata a) (pdata b) && amap_eqb (initd a) (initd b).

Definition obs_ok (s : st) (r : res) (o : obs) : bool :=
  res_eqb r (o_res o)
  && opt_eqb content_eqb (target (dk s)) (o_target o)
  && opt_eqb content_eqb (tmp (dk s)) (o_tmp o)
  && opt_eqb mstate_eqb (md s) (o_mod o).

Fixpoint run_check (M : mdesc) (s : st) (ops : list op) (os : list obs) : bool :=
  match ops, os with
  | [], [] => true
  | o :: ops', ob :: os' =>
      let '(s', r) := step M s o in
      obs_ok s' r ob && run_check M s' ops' os'
  | _, _ => false
  end.

Definition check_case (c : case) : bool := run_check (c_M c) st0 (c_ops c) (c_obs c).

(* what the model does, for diagnosis in replay files *)
Fixpoint model_trace (M : mdesc) (s : st) (ops : list op) : list (res * st) :=
  match ops with
  | [] => []
  | o :: ops' => let '(s', r) := step M s o in (r, s') :: model_trace M s' ops'
  end.
Definition model_result (c : case) : list (res * st) := model_trace (c_M c) st0 (c_ops c).

(* per operation: which component of the observation differs (result, target, tmp, module) *)
Fixpoint diag (M : mdesc) (s : st) (ops : list op) (os : list obs) : list (bool * bool * bool * bool) :=
  match ops, os with
  | o :: ops', ob :: os' =>
      let '(s', r) := step M s o in
      (res_eqb r (o_res ob), opt_eqb content_eqb (target (dk s')) (o_target ob),
       opt_eqb content_eqb (tmp (dk s')) (o_tmp ob), opt_eqb mstate_eqb (md s') (o_mod ob)) :: diag M s' ops' os'
  | _, _ => []
  end.
Definition diag_case (c : case) := diag (c_M c) st0 (c_ops c) (c_obs c).
