(* C17 - property theorems only; each is closed by lemmas of Lemmas.v.
   M ranges over every module description (any parameters over the modelled datatypes), ops over every history of
   operations, f over every fault (crash before / crash after / OSError at every file-system call: makedirs and the
   reading open of start-up, is_dir, open, any write, close, rename, remove),
   n over every chunk count of json.dump, d over every disk.
   The four defects found on the snapshot are repaired in /repo (b610a07, 6518f2a, 66c61e0).  One finding is open:
   C17/adjacent-surrogate-pair-not-restored (Refuted.v has the witnesses); C17_roundtrip_except_adjacent_surrogate_pair
   carries the guard that excludes it, no other theorem carries an exception. *)
From Coq Require Import List Arith ZArith NArith Bool Lia String.
Import ListNotations.
Require Import FV.Base.Util FV.Gen.C17 FV.C17.Model FV.C17.Lemmas FV.C17.LemmasSeq FV.C17.LemmasLink FV.C17.Counter
  FV.C17.ConcModel FV.C17.ConcLemmas FV.C17.ConcCounter FV.C17.Refuted.

(* obligations on the facts regenerated from /repo (Gen/C17.v): the code has the shape the model assumes *)
Theorem C17_source_facts :
  change_detection = true /\ pdata_assigned_after_rename = true /\ writes_go_to_tmp = true /\
  only_rename_writes_target = true /\ target_touched_only_by_final_rename = true /\
  save_call_sites = ["persistentdir.is_dir"; "persistentdir.mkdir"; "open"; "json.dump"; "f.write"; "os.rename";
                     "os.remove"]%string /\
  rename_after_closed_with_block = true /\ remove_tmp_in_finally = true /\
  unreadable_file_is_empty = true /\ nonobject_document_is_unreadable = true /\
  entries_imported_individually = true /\ entries_validated_and_exportable = true /\ cfg_precedes_file = true /\
  given_set_for_configured_values = true /\ save_deferred_while_writes_pending = true /\
  init_saves_after_loading = true /\ callback_exceptions_swallowed = true /\
  array_import_checks_kind_and_length = true /\ tuple_import_checks_kind_and_length = true /\
  struct_import_admits_missing_optional = true /\ struct_export_admits_missing_optional = true /\
  scaled_import_integers_only = true /\
  blob_import_strict_base64 = true /\
  callbacks_called_inside_update_lock = true /\ update_lock_is_reentrant_lock = true /\
  (* the text of a document is pure ASCII (json.dump(data, f, indent=2): ensure_ascii is left at its default) and the
     temporary file is a strict utf-8 text file: no write of a save fails for encoding reasons, whatever code points
     (lone surrogates, non-BMP, control characters) the string values hold - writes fail by OSError faults only,
     which is what `exec` of Model.v assumes *)
  dump_text_is_ascii = true /\ tmp_file_is_utf8_text = true.
Proof. repeat split; reflexivity. Qed.

(* one save, any fault at any file-system operation: the stored file afterwards (that is also: at the crash point)
   is the previous one or the complete new document; without error it is the new one and no temporary file is
   left; an OSError leaves the previous file, except the error at the final remove which comes after the rename *)
Theorem C17_crash_atomic_save : forall f data n d,
  let s := save_file f data n d in
  (target (s_disk s) = target d \/ target (s_disk s) = Some (CW data n n)) /\
  (sres_of s = SOk -> s_disk s = {| target := Some (CW data n n); tmp := None |}) /\
  (sres_of s = SErr -> exists o, f = Some (o, KErr) /\
     (target (s_disk s) = target d \/ (o = FRemove /\ target (s_disk s) = Some (CW data n n)))) /\
  (f = None -> sres_of s = SOk).
Proof.
  intros f data n d s. split; [apply save_file_target|]. split; [|split].
  - intros H. destruct (save_file_outcome f data n d) as [H1 H2 H3|H1 H2 H3|o H1 H2 H3]; auto; unfold s in H; congruence.
  - apply save_file_err.
  - intros ->. apply save_file_nofault.
Qed.

(* CRASH AT EVERY POINT.  The save is the sequence save_ops n of file-system operations (is_dir, open of the
   temporary file, the n writes, close, rename, remove - compared call by call with what the implementation is
   recorded to do); a crash point lies before every operation and after the last one.  For every stored file, every
   new document and every crash index k, the first k operations leave the previous stored file or the complete new
   document *)
Theorem C17_crash_atomic_all_points : forall data n d k,
  let d' := fs_run data n (firstn k (save_ops n)) d in
  target d' = target d \/ target d' = Some (CW data n n).
Proof. intros data n d k. apply save_all_points. Qed.

(* several threads assigning parameters of ONE module at the same time (ConcModel.v: the callbacks, saveParameters
   among them, run inside updateLock - obligation callbacks_called_inside_update_lock of C17_source_facts).
   For ALL modules, thread programs and schedules, at every point of the run (every prefix of a schedule is a
   schedule): (1) the file-system operations made so far are complete saves one after the other, followed by the
   first j operations of the one save in progress, which exists exactly when the lock is held: the operation
   sequences of different saves never interleave; (2) the disk is a crash point of ONE save applied to a disk whose
   stored file is the initial one or a complete document - the situation of C17_crash_atomic_all_points; hence
   (3) the stored file is the one the threads started with or a complete document *)
Theorem C17_concurrent_saves_serialised : forall M d m progs sch,
  let st := crun true M sch (cinit d m progs) in
  (exists blocks (cur : option (nat * nat * nat)),
     c_ev st = flat_map blk blocks ++
               match cur with Some (i, n, j) => map (pair i) (firstn j (save_ops n)) | None => [] end /\
     (cur = None <-> c_lock st = None)) /\
  (exists data n j dprev,
     c_disk st = fs_run data n (firstn j (save_ops n)) dprev /\
     (target dprev = target d \/ exists data' n', target dprev = Some (CW data' n' n'))) /\
  (target (c_disk st) = target d \/ exists data n, target (c_disk st) = Some (CW data n n)).
Proof.
  intros M d m progs sch st.
  assert (H : Inv (target d) st) by (apply inv_run, inv_init).
  split; [|split].
  - exact (inv_events _ _ H).
  - exact (inv_disk _ _ H).
  - exact (inv_target _ _ H).
Qed.

(* what the lock is needed for (hypothetical: the same system WITHOUT the lock; not a defect of /repo): two threads,
   one shared temporary file name - a schedule after which the stored file is EMPTY (thread 1 truncated the
   temporary file thread 0 then renamed), so that a start-up finds no entry; with the lock the same schedule leaves
   the complete document of thread 0 *)
Theorem C17_unlocked_saves_leave_empty_file :
  (exists old, target (dk w0) = Some (CW old 4 4)) /\
  (exists st data, wfinal false = Some st /\ target (c_disk st) = Some (CW data 0 4) /\
                   parse (CW data 0 4) = PJInvalid /\ load_file wM (c_disk st) = LOk [] []) /\
  (exists st data, wfinal true = Some st /\ target (c_disk st) = Some (CW data 4 4) /\
                   aget 0 data = Some (VInt 5%Z)).
Proof. exact unlocked_saves_leave_empty_file. Qed.

(* the same for ANY sequence of the modelled operations that passes the check seq_safe (the stored file is touched
   by renames only, and only when the temporary file holds the complete new document): every prefix is safe.
   save_ops passes it for every n and whatever is known about a stale temporary file *)
Theorem C17_crash_atomic_any_sequence : forall data n ops t d k,
  seq_safe n t ops = true -> (forall j, t = Some j -> tmp d = Some (CW data j n)) ->
  let d' := fs_run data n (firstn k ops) d in
  target d' = target d \/ target d' = Some (CW data n n).
Proof.
  intros data n ops t d k Hs Ht. apply (safe_prefixes data n ops t d k (target d)); auto.
  destruct t as [j|]; simpl; auto.
Qed.

Theorem C17_save_ops_safe : forall n t, seq_safe n t (save_ops n) = true.
Proof. exact save_ops_safe. Qed.

(* the two views of a save agree: without fault the control model (exec, used by the fault theorems above and below)
   performs exactly the calls save_ops n, in this order, and its disk after any safe sequence - in particular after
   every prefix-closed part of the save - is the plain file-system run *)
Theorem C17_fault_free_save_is_save_ops : forall data n d,
  save_log None data n d = save_ops n /\
  s_disk (save_file None data n d) = fs_run data n (save_ops n) d.
Proof.
  intros data n d. split; [apply save_log_nofault|].
  unfold save_file.
  apply (exec_nofault_agrees data n (save_ops n) None (sv0 d)); [apply save_ops_safe|exact I|reflexivity].
Qed.

(* crash faults and crash indices are the same thing: the crash-before (crash-after) fault of the control model at
   the operation of index k of the save leaves the disk of the plain run of the first k (k+1) operations - so
   C17_crash_atomic_save (faults named by operation) and C17_crash_atomic_all_points (crash points by index) speak
   about the same crash states *)
Theorem C17_crash_fault_is_crash_point : forall data n d k o,
  nth_error (save_ops n) k = Some o ->
  s_disk (save_file (Some (o, KCrashBefore)) data n d) = fs_run data n (firstn k (save_ops n)) d /\
  s_disk (save_file (Some (o, KCrashAfter)) data n d) = fs_run data n (firstn (S k) (save_ops n)) d.
Proof. exact crash_index_is_prefix. Qed.

(* the obligation behind it: a removal of the stored file before the rename (the portability idiom "os.rename does
   not overwrite everywhere") is rejected by seq_safe and really breaks the property - a crash between the two calls,
   or an OSError raised by the rename (the finally clause then removes the temporary file too), leaves no stored
   file at all although there was one.  Hypothetical sequence, not the code of /repo: the facts
   only_rename_writes_target, target_touched_only_by_final_rename and save_call_sites fail on such a change *)
Theorem C17_remove_before_rename_breaks_atomicity :
  (forall n t, seq_safe n t (save_ops_remove_first n) = false) /\
  exists data n d,
    target d <> None /\
    (exists k, target (fs_run data n (firstn k (save_ops_remove_first n)) d) = None) /\
    (exists f, let s := fold_left (exec f data n) (save_ops_remove_first n) (sv0 d) in
               sres_of s = SErr /\ target (s_disk s) = None /\ tmp (s_disk s) = None).
Proof.
  split; [exact counter_not_safe|]. exists cx_new, 3, cx_disk. split; [discriminate|]. split.
  - exists 7. exact counter_crash.
  - exists (Some (FRename, KErr)). exact counter_ioerror.
Qed.

(* every operation of every history, with every fault: the stored file stays, or becomes a complete document *)
Theorem C17_crash_atomic_step : forall M s o, is_corrupt o = false ->
  target (dk (fst (step M s o))) = target (dk s) \/
  exists data, target (dk (fst (step M s o))) = Some (CW data (op_n o) (op_n o)).
Proof. intros M s o H. apply (step_post M s o H). Qed.

(* hence no partially written document is ever the stored file (corruptions by others are whatever they are) *)
Theorem C17_never_partial : forall M ops s,
  Forall op_ok ops -> content_ok (target (dk s)) -> content_ok (target (dk (run M ops s))).
Proof. intros; now apply run_target_ok. Qed.

(* persistentData is what the module believes to be on disk: the belief is right after every operation with every
   fault, I/O errors included (this is the repaired b610a07: a failed save is not considered done) *)
Theorem C17_belief_matches_disk : forall M pre cfg f0 n0 ops,
  Forall own_op ops -> sync (run M (pre ++ OInit cfg f0 n0 :: ops) st0).
Proof.
  intros M pre cfg f0 n0 ops Hc. unfold run. rewrite fold_left_app. simpl. apply run_sync; auto. apply do_init_sync.
Qed.

(* RETRY, full statement (was C17_retry_except_failed_save with the guard "no save failed with an OSError"): after any
   history since the creation of the module - saves failing with OSError at any operation included - in which nobody
   else replaced the file, a saveParameters() without fault on a module without pending writes leaves a complete
   document equal (python ==) to the current snapshot on disk (holds: the stored file reads as that document, or as
   what the JSON text of that document reads back as - reads_as of Lemmas.v, the two differ only for strings with
   an adjacent surrogate pair) *)
Theorem C17_retry : forall M pre cfg f0 n0 ops n m data,
  Forall own_op ops ->
  let s := run M (pre ++ OInit cfg f0 n0 :: ops) st0 in
  md s = Some m -> wdict m = [] -> snapshot_of M (vals m) = Some data ->
  let '(d', m', o) := save_parameters M None n (dk s) m in
  (data = [] \/ holds d' data) /\ in_sync d' m' /\ (o = SPNothing \/ o = SPWrote SOk).
Proof.
  intros M pre cfg f0 n0 ops n m data Hc s Hm Hw Hd.
  apply save_reaches_disk; auto.
  pose proof (C17_belief_matches_disk M pre cfg f0 n0 ops Hc) as S. fold s in S.
  unfold sync in S. now rewrite Hm in S.
Qed.

(* START-UP, full statement (was C17_startup_except_findings with two guards): whatever the stored file is - missing,
   truncated, garbage, a JSON document that is not an object, entries of any kind, shape or range - the module is
   created, provided the configured values and defaults themselves are storable *)
Theorem C17_startup : forall M cfg n d, base_ok M cfg ->
  snd (do_init M cfg None n d) = ROk /\ md (fst (do_init M cfg None n d)) <> None.
Proof. exact startup_ok. Qed.

(* every value taken from the stored file is the validated import of a stored entry of a persistent parameter and
   can be stored again (repaired 66c61e0: out-of-range and mis-shaped entries are not loaded) *)
Theorem C17_loaded_values_valid : forall M d raw loaded k v,
  load_file M d = LOk raw loaded -> aget k loaded = Some v ->
  exists p j x, nth_error M k = Some p /\ persistent p = true /\
    import (p_dt p) j = Some x /\ validate (p_dt p) x = Some v /\ export (p_dt p) v <> None.
Proof. exact loaded_values_good. Qed.

(* entries are treated one by one: a usable entry is restored whatever else the file contains, an entry that is
   unknown, not persistent, not importable, not valid or not storable changes nothing *)
Theorem C17_tolerant_load : forall M raw k,
  (forall j v, NoDup (map fst raw) -> In (k, j) raw -> usable M k j = Some v ->
     aget k (fold_left (load_entry M) raw []) = Some v) /\
  ((forall j, In (k, j) raw -> usable M k j = None) -> aget k (fold_left (load_entry M) raw []) = None).
Proof.
  intros M raw k. split.
  - intros j v Hn Hi Hu. eapply load_restores; eauto.
  - intros H. now rewrite load_other_keys.
Qed.

(* cfg > file > default, for every parameter of every module *)
Theorem C17_precedence : forall M cfg raw loaded i p, nth_error M i = Some p ->
  aget i (vals (init_state M cfg raw loaded)) =
  Some (match aget i cfg with
        | Some v => v
        | None => if persistent p then match aget i loaded with Some v => v | None => p_default p end
                  else p_default p
        end).
Proof. exact init_precedence. Qed.

(* a module re-created from the file a save has written gets every persistent parameter that is not configured
   back to the same value, for every datatype whose export and reading of entries invert each other on that value.
   FULL statement (false of the code as it is, open finding C17/adjacent-surrogate-pair-not-restored, witness
   C17_refuted_roundtrip_without_guard in Refuted.v):
     forall M vs data n cfg i p v, codec_ok M vs -> snapshot_of M vs = Some data ->
       nth_error M i = Some p -> persistent p = true -> aget i vs = Some v -> aget i cfg = None ->
       exists raw loaded, load_file M (target := CW data n n) = LOk raw loaded /\
                          aget i (vals (init_state M cfg raw loaded)) = Some v.
   PROVED with the guard jtext data = data: the JSON text of the document reads back as the document, i.e. no string
   in it holds a high surrogate (U+D800..DBFF) directly followed by a low one (U+DC00..DFFF) as two code points -
   jtext changes nothing else (C17_text_unchanged_without_adjacent_pair below, for strings) *)
Theorem C17_roundtrip_except_adjacent_surrogate_pair : forall M vs data n cfg i p v,
  codec_ok M vs -> snapshot_of M vs = Some data -> jtext data = data ->
  nth_error M i = Some p -> persistent p = true -> aget i vs = Some v -> aget i cfg = None ->
  exists raw loaded, load_file M {| target := Some (CW data n n); tmp := None |} = LOk raw loaded /\
    aget i (vals (init_state M cfg raw loaded)) = Some v.
Proof. exact roundtrip_module. Qed.

(* the guard in terms of code points: a string without a high surrogate directly followed by a low surrogate is its own
   JSON text reading *)
Theorem C17_text_unchanged_without_adjacent_pair : forall s, no_adjacent_pair s = true -> jtext_str s = s.
Proof. exact jtext_str_id. Qed.

(* the inversion law holds for the scalar datatypes (int, bool, enum, string, double) on every valid value.  It is about
   export_value / import_value / validate, not about the text: it needs no guard (the value that comes back from the
   text is a different j) *)
Theorem C17_codec_scalar : forall d v j,
  scalar d = true -> validate d v = Some v -> export d v = Some j -> usable_dt d j = Some v.
Proof. exact codec_scalar. Qed.

(* non-vacuity: a crash after the rename keeps the new snapshot, which is loaded by the next start-up; an I/O error
   at the rename is retried by the next save; a non-object document and an out-of-range entry are ignored *)
Example C17_demo :
  let M := [{| p_dt := DInt (-1000) 1000; p_pers := 2; p_hasw := false; p_default := VInt 1 |};
            {| p_dt := DStr 0 5 false; p_pers := 1; p_hasw := true; p_default := VStr [97%N] |}] in
  let s := run M [OInit [] None 5; OWriteInit None 5; OSet 0 (VInt 7) (Some (FRemove, KCrashBefore)) 5;
                  OInit [(1, VStr [98%N])] None 5] st0 in
  option_map vals (md s) = Some [(0, VInt 7); (1, VStr [98%N])] /\
  target (dk s) = Some (CW [(0, VInt 7); (1, VStr [98%N])] 5 5).
Proof. vm_compute. split; reflexivity. Qed.

Example C17_demo_retry :
  let M := [{| p_dt := DInt (-1000) 1000; p_pers := 2; p_hasw := false; p_default := VInt 1 |}] in
  let s := run M [OInit [] None 3; OSet 0 (VInt 5) (Some (FRename, KErr)) 3] st0 in
  target (dk s) = Some (CW [(0, VInt 1)] 3 3) /\
  target (dk (fst (step M s (OSave None 3)))) = Some (CW [(0, VInt 5)] 3 3).
Proof. vm_compute. split; reflexivity. Qed.

Example C17_demo_ignored :
  let M := [{| p_dt := DInt 0 10; p_pers := 1; p_hasw := false; p_default := VInt 1 |}] in
  option_map vals (md (fst (do_init M [] None 3 {| target := Some (CForeign PJOther); tmp := None |}))) = Some [(0, VInt 1)] /\
  option_map vals (md (fst (do_init M [] None 3 {| target := Some (CForeign (PJObj [(0, VInt 50)])); tmp := None |})))
    = Some [(0, VInt 1)] /\
  option_map vals (md (fst (do_init M [] None 3 {| target := Some (CForeign (PJObj [(0, VInt 5)])); tmp := None |})))
    = Some [(0, VInt 5)].
Proof. vm_compute. repeat split; reflexivity. Qed.

Print Assumptions C17_source_facts.
Print Assumptions C17_crash_atomic_save.
Print Assumptions C17_crash_atomic_all_points.
Print Assumptions C17_concurrent_saves_serialised.
Print Assumptions C17_unlocked_saves_leave_empty_file.
Print Assumptions C17_crash_atomic_any_sequence.
Print Assumptions C17_save_ops_safe.
Print Assumptions C17_fault_free_save_is_save_ops.
Print Assumptions C17_crash_fault_is_crash_point.
Print Assumptions C17_remove_before_rename_breaks_atomicity.
Print Assumptions C17_crash_atomic_step.
Print Assumptions C17_never_partial.
Print Assumptions C17_belief_matches_disk.
Print Assumptions C17_retry.
Print Assumptions C17_startup.
Print Assumptions C17_loaded_values_valid.
Print Assumptions C17_tolerant_load.
Print Assumptions C17_precedence.
Print Assumptions C17_roundtrip_except_adjacent_surrogate_pair.
Print Assumptions C17_text_unchanged_without_adjacent_pair.
Print Assumptions C17_codec_scalar.
