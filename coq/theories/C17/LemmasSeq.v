(* C17 - the save as a sequence of file-system operations with a crash point before every operation (index k):
   a condition on the sequence alone (seq_safe) under which every prefix leaves the previous or the complete new
   document as the stored file; save_ops satisfies it; the fault-free execution of the control model agrees with
   the plain file-system run on such sequences. *)
From Coq Require Import List Arith ZArith NArith Bool Lia.
Import ListNotations.
Require Import FV.Base.Util FV.C17.Model.

Section Seq.
Variable data : amap.
Variable n : nat.

Definition newdoc : option content := Some (CW data n n).

(* what seq_safe knows about the temporary file is true of the disk *)
Definition tmp_agrees (t : option nat) (d : disk) : Prop :=
  match t with Some k => tmp d = Some (CW data k n) | None => True end.

Lemma safe_prefixes : forall ops t d j T,
  seq_safe n t ops = true -> tmp_agrees t d -> (target d = T \/ target d = newdoc) ->
  target (fs_run data n (firstn j ops) d) = T \/ target (fs_run data n (firstn j ops) d) = newdoc.
Proof.
  induction ops as [|o ops IH]; intros t d j T Hs Ht Hd; destruct j; simpl; auto.
  destruct d as [tg tm]. unfold fs_run in IH.
  destruct o; simpl in Hs; try discriminate; unfold fs_step at 2; simpl.
  - apply (IH t); auto.
  - apply (IH t); auto.
  - apply (IH t); auto.
  - apply (IH (Some 0)); simpl; auto.
  - apply (IH (option_map S t)); auto. destruct t as [k|]; simpl in *; auto. now rewrite Ht.
  - apply (IH t); auto.
  - destruct t as [k|]; [|discriminate]. apply andb_true_iff in Hs. destruct Hs as [Hk Hs].
    apply Nat.eqb_eq in Hk. subst k. simpl in Ht. subst tm. simpl.
    apply (IH None); simpl; auto.
  - apply (IH None); simpl; auto.
Qed.

Lemma seq_safe_writes : forall m a k rest,
  seq_safe n (Some k) (map FWrite (seq a m) ++ rest) = seq_safe n (Some (k + m)) rest.
Proof.
  induction m; intros a k rest; simpl.
  - now rewrite Nat.add_0_r.
  - rewrite IHm. now replace (S k + m) with (k + S m) by lia.
Qed.

Lemma save_ops_safe : forall t, seq_safe n t (save_ops n) = true.
Proof.
  intros t. unfold save_ops. cbn [seq_safe]. rewrite seq_safe_writes. simpl. now rewrite Nat.eqb_refl.
Qed.

(* a crash before the operation of index k of the save (k = length: after the last one) *)
Lemma save_all_points : forall d k,
  target (fs_run data n (firstn k (save_ops n)) d) = target d \/
  target (fs_run data n (firstn k (save_ops n)) d) = newdoc.
Proof.
  intros d k. apply (safe_prefixes (save_ops n) None d k (target d)); [apply save_ops_safe|exact I|now left].
Qed.

(* without fault the control model executes every operation of a safe sequence: its disk is the plain run *)
Lemma exec_nofault_agrees : forall ops t s,
  seq_safe n t ops = true -> tmp_agrees t (s_disk s) -> s_ctl s = CRun ->
  s_disk (fold_left (exec None data n) ops s) = fs_run data n ops (s_disk s) /\
  s_ctl (fold_left (exec None data n) ops s) = CRun.
Proof.
  induction ops as [|o ops IH]; intros t s Hs Ht Hc; simpl; auto.
  destruct s as [[tg tm] c op er dn]. simpl in Hc. subst c. unfold fs_run in IH.
  destruct o; simpl in Hs; try discriminate; unfold exec at 2; unfold exec at 3; unfold enabled, apply_effect;
    simpl in *.
  - apply (IH t); auto.
  - apply (IH t); auto.
  - apply (IH t); auto.
  - apply (IH (Some 0)); simpl; auto.
  - apply (IH (option_map S t)); auto. destruct t as [k|]; simpl in *; auto. now rewrite Ht.
  - destruct op; simpl; apply (IH t); auto.
  - destruct t as [k|]; [|discriminate]. apply andb_true_iff in Hs. destruct Hs as [Hk Hs].
    apply Nat.eqb_eq in Hk. subst k. simpl in Ht. subst tm. simpl.
    apply (IH None); simpl; auto.
  - apply (IH None); simpl; auto.
Qed.

(* the calls a fault-free save makes are exactly save_ops, in this order *)
Lemma log_writes : forall m a s l, s_ctl s = CRun ->
  exists s', fold_left (exec_log None data n) (map FWrite (seq a m)) (s, l) = (s', l ++ map FWrite (seq a m))
    /\ s_ctl s' = CRun /\ s_open s' = s_open s.
Proof.
  induction m; intros a s l Hc; simpl.
  - exists s. now rewrite app_nil_r.
  - unfold exec_log at 2. simpl fst. simpl snd.
    assert (E : enabled s (FWrite a) = true) by (unfold enabled; now rewrite Hc).
    rewrite E.
    destruct (IHm (S a) (exec None data n s (FWrite a)) (l ++ [FWrite a])) as [s' [H1 [H2 H3]]].
    + unfold exec. rewrite E. simpl. unfold apply_effect. simpl. exact Hc.
    + exists s'. rewrite H1, <- app_assoc. simpl. repeat split; auto.
      rewrite H3. unfold exec. rewrite E. reflexivity.
Qed.

Lemma save_log_nofault : forall d, save_log None data n d = save_ops n.
Proof.
  intros [tg tm]. unfold save_log, save_ops. cbn [fold_left]. rewrite fold_left_app.
  unfold exec_log at 3. unfold exec_log at 3. simpl fst. simpl snd.
  destruct (log_writes n 0 (exec None data n (exec None data n (sv0 {| target := tg; tmp := tm |}) FIsDir) FOpen)
              [FIsDir; FOpen] eq_refl) as [s' [H1 [H2 H3]]].
  change (enabled (sv0 {| target := tg; tmp := tm |}) FIsDir) with true.
  change (enabled (exec None data n (sv0 {| target := tg; tmp := tm |}) FIsDir) FOpen) with true.
  cbv iota. simpl app at 2.
  rewrite H1. destruct s' as [[tg' tm'] c op er dn]. simpl in H2, H3. subst c op.
  destruct tm'; cbn [fold_left exec_log fst snd]; unfold exec, enabled, apply_effect; simpl;
    repeat rewrite <- app_assoc; reflexivity.
Qed.

End Seq.
