(* C17 - witnesses of the places where the pinned code violates the property (the model reproduces them) *)
From Coq Require Import List Arith ZArith NArith Bool.
Import ListNotations.
Require Import FV.Base.Util FV.C17.Model.

Definition M_int : mdesc := [{| p_dt := DInt (-1000) 1000; p_pers := 2; p_hasw := false; p_default := VInt 1 |}].

(* finding C17/failed-save-considered-done: persistentData is assigned before the file is written.  After a save
   that failed with an I/O error at the rename, the module holds 5, the disk still holds 1, and a further
   saveParameters() without any fault returns normally without touching the disk. *)
Theorem C17_refuted_retry : exists M ops n m data,
  md (run M ops st0) = Some m /\ wdict m = [] /\ snapshot_of M (vals m) = Some data /\
  data = [(0, VInt 5)] /\
  target (dk (run M ops st0)) = Some (CW [(0, VInt 1)] n n) /\
  step M (run M ops st0) (OSave None n) = (run M ops st0, ROk).
Proof.
  exists M_int, [OInit [] None 3; OSet 0 (VInt 5) (Some (FRename, KErr)) 3], 3.
  eexists. eexists. vm_compute. repeat split; reflexivity.
Qed.

(* finding C17/nonobject-document-prevents-startup: valid JSON that is not an object makes __init__ raise *)
Theorem C17_refuted_nonobject : exists M cfg n d c,
  target d = Some c /\ parse c = PJOther /\ snd (do_init M cfg None n d) = RExc /\ md (fst (do_init M cfg None n d)) = None.
Proof.
  exists M_int, [], 3, {| target := Some (CForeign PJOther); tmp := None |}, (CForeign PJOther).
  vm_compute. repeat split; reflexivity.
Qed.

(* finding C17/outdated-shape-prevents-startup: import_value of a struct admits missing optional members (all
   members are optional by default), the partial struct is stored in the parameter, and export_value in
   __save_params at the end of __init__ raises *)
Definition M_struct : mdesc :=
  [{| p_dt := DStruct [([105%N], DInt 0 10); ([115%N], DStr 0 8 false)] [[105%N]; [115%N]]; p_pers := 1; p_hasw := false;
      p_default := VMap [([105%N], VInt 0); ([115%N], VStr [])] |}].

Theorem C17_refuted_outdated_shape : exists M cfg n d raw,
  target d = Some (CForeign (PJObj raw)) /\ snd (do_init M cfg None n d) = RExc /\ md (fst (do_init M cfg None n d)) = None.
Proof.
  exists M_struct, [], 3, {| target := Some (CForeign (PJObj [(0, VMap [([105%N], VInt 5)])])); tmp := None |},
    [(0, VMap [([105%N], VInt 5)])].
  vm_compute. repeat split; reflexivity.
Qed.

(* finding C17/out-of-range-entry-loaded: import_value converts but does not check limits, so a stored value
   outside the range of the (changed) parameter definition is not ignored: the module starts with it *)
Theorem C17_refuted_out_of_range : exists M cfg n d m lo hi z,
  nth_error M 0 = Some {| p_dt := DInt lo hi; p_pers := 1; p_hasw := false; p_default := VInt 1 |} /\
  snd (do_init M cfg None n d) = ROk /\ md (fst (do_init M cfg None n d)) = Some m /\
  aget 0 (vals m) = Some (VInt z) /\ (hi < z)%Z.
Proof.
  exists [{| p_dt := DInt 0 10; p_pers := 1; p_hasw := false; p_default := VInt 1 |}], [], 3,
    {| target := Some (CForeign (PJObj [(0, VInt 50)])); tmp := None |}.
  eexists. exists 0%Z, 10%Z, 50%Z. vm_compute. repeat split; reflexivity.
Qed.
