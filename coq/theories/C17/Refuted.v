(* C17 - witnesses (vm_compute) of the open finding C17/adjacent-surrogate-pair-not-restored: "every value the module
   accepted is restored to an equal value after a restart" fails for a string value that holds a high surrogate
   DIRECTLY followed by a low surrogate as two code points ('\ud83d' + '\ude00', len 2).  StringType(isUTF8=True)
   accepts it, json.dump writes the two escapes - the same text as for the ONE character U+1F600 - and json.load reads
   that text as the one character (jtext of Model.v).  The parameter comes back with a different value (len 1); when
   the length limits reject the shorter string the entry is unusable and the default is restored. *)
From Coq Require Import List Arith ZArith NArith Bool.
Import ListNotations.
Require Import FV.Base.Util FV.C17.Model FV.C17.Lemmas.

Definition rf_pair : str := [55357%N; 56832%N].            (* '😀' : two code points *)
Definition rf_joined : str := [128512%N].                  (* '\U0001f600'   : one code point *)
Definition rf_M (lo hi : nat) : mdesc :=
  [{| p_dt := DStr lo hi true; p_pers := 2; p_hasw := false; p_default := VStr [97%N; 98%N] |}].
Definition rf_ops : list op := [OInit [] None 3; OSet 0 (VStr rf_pair) None 3; OInit [] None 3].

(* the history of the replay: created, p0 := the pair (accepted, saved automatically, no fault), re-created *)
Theorem C17_refuted_adjacent_surrogate_pair_not_restored :
  exists M v ops, ops = [OInit [] None 3; OSet 0 v None 3; OInit [] None 3] /\
    (* the value is valid for the datatype, accepted and exportable *)
    (exists p, nth_error M 0 = Some p /\ persistent p = true /\ validate (p_dt p) v = Some v /\ export (p_dt p) v = Some v) /\
    (* before the restart the module holds it and the save has been done *)
    option_map vals (md (run M (firstn 2 ops) st0)) = Some [(0%nat, v)] /\
    target (dk (run M (firstn 2 ops) st0)) = Some (CW [(0%nat, v)] 3 3) /\
    (* after the restart the parameter has a different value *)
    option_map vals (md (run M ops st0)) = Some [(0%nat, VStr rf_joined)] /\ val_eqb v (VStr rf_joined) = false.
Proof.
  exists (rf_M 0 6), (VStr rf_pair), rf_ops. split; [reflexivity|]. split.
  - eexists. split; [reflexivity|]. vm_compute. repeat split; reflexivity.
  - vm_compute. repeat split; reflexivity.
Qed.

(* with StringType(2, 2) the joined string is too short: the stored entry is unusable, the default comes back *)
Theorem C17_refuted_adjacent_surrogate_pair_default_restored :
  exists M v, validate (DStr 2 2 true) v = Some v /\ M = rf_M 2 2 /\
    option_map vals (md (run M [OInit [] None 3; OSet 0 v None 3] st0)) = Some [(0%nat, v)] /\
    option_map vals (md (run M [OInit [] None 3; OSet 0 v None 3; OInit [] None 3] st0)) =
      Some [(0%nat, VStr [97%N; 98%N])].
Proof. exists (rf_M 2 2), (VStr rf_pair). vm_compute. repeat split; reflexivity. Qed.

(* the module-level round trip law (C17_roundtrip_except_adjacent_surrogate_pair of Properties.v) is false without
   its premise jtext data = data: all other premises hold, the conclusion does not *)
Theorem C17_refuted_roundtrip_without_guard :
  exists M vs data n cfg i p v,
    codec_ok M vs /\ snapshot_of M vs = Some data /\ nth_error M i = Some p /\ persistent p = true /\
    aget i vs = Some v /\ aget i cfg = None /\ jtext data <> data /\
    forall raw loaded, load_file M {| target := Some (CW data n n); tmp := None |} = LOk raw loaded ->
      aget i (vals (init_state M cfg raw loaded)) <> Some v.
Proof.
  exists (rf_M 0 6), [(0%nat, VStr rf_pair)], [(0%nat, VStr rf_pair)], 3%nat, [], 0%nat.
  eexists. exists (VStr rf_pair).
  split.
  { intros i p v j Hn Hv He. destruct i as [|i]; [|destruct i; discriminate].
    inversion Hn; subst p. vm_compute in Hv. inversion Hv; subst v. vm_compute in He. inversion He; subst j.
    vm_compute. reflexivity. }
  split; [vm_compute; reflexivity|]. split; [reflexivity|]. split; [reflexivity|]. split; [reflexivity|].
  split; [reflexivity|]. split; [vm_compute; discriminate|].
  intros raw loaded H. vm_compute in H. inversion H; subst. vm_compute. discriminate.
Qed.

Print Assumptions C17_refuted_adjacent_surrogate_pair_not_restored.
Print Assumptions C17_refuted_adjacent_surrogate_pair_default_restored.
Print Assumptions C17_refuted_roundtrip_without_guard.
