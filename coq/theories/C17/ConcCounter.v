(* C17 - what updateLock is needed for (hypothetical system, not a defect of /repo: ConcModel.v with lk = false, i.e.
   the parameter callbacks called after updateLock was released).  Two threads, two persistent=auto parameters of one
   module, one shared temporary file name.  Schedule: thread 0 writes its whole document into the temporary file;
   thread 1 enters its own save and opens the same temporary file for writing, which truncates it; thread 0 closes
   and renames: the stored file is now EMPTY - neither the previous document nor a complete new one; a start-up from
   it falls back to the defaults.  With the lock the same schedule leaves a complete document (the steps of thread 1
   find the lock taken and wait). *)
From Coq Require Import List Arith ZArith NArith Bool.
Import ListNotations.
Require Import FV.Base.Util FV.C17.Model FV.C17.ConcModel.

Definition wM : mdesc :=
  [ {| p_dt := DInt (-10)%Z 10%Z; p_pers := 2; p_hasw := false; p_default := VInt 1%Z |};
    {| p_dt := DInt (-10)%Z 10%Z; p_pers := 2; p_hasw := false; p_default := VInt 2%Z |} ].
Definition w0 : st := fst (step wM st0 (OInit [] None 4)).
Definition wprogs : list (list assign) :=
  [ [ {| a_p := 0; a_v := VInt 5%Z; a_n := 4 |} ]; [ {| a_p := 1; a_v := VInt 7%Z; a_n := 4 |} ] ].
(* thread 0: acquire/store, is_dir, open, 4 writes; thread 1: acquire/store, is_dir, open; thread 0: close, rename *)
Definition wsch : list nat := [0;0;0;0;0;0;0; 1;1;1; 0;0].
Definition wfinal (lk : bool) : option cstate :=
  match md w0 with Some m => Some (crun lk wM wsch (cinit (dk w0) m wprogs)) | None => None end.

Lemma unlocked_saves_leave_empty_file :
  (exists old, target (dk w0) = Some (CW old 4 4)) /\
  (exists st data, wfinal false = Some st /\ target (c_disk st) = Some (CW data 0 4) /\
                   parse (CW data 0 4) = PJInvalid /\ load_file wM (c_disk st) = LOk [] []) /\
  (exists st data, wfinal true = Some st /\ target (c_disk st) = Some (CW data 4 4) /\
                   aget 0 data = Some (VInt 5%Z)).
Proof.
  split; [|split].
  - eexists. vm_compute. reflexivity.
  - eexists. eexists. vm_compute. repeat split; reflexivity.
  - eexists. eexists. vm_compute. repeat split; reflexivity.
Qed.
