(* C17 - executable model of frappy/persistent.py (PersistentMixin: __init__, loadPersistentData, loadParameters,
   saveParameters, __save_params, factory_reset), of the pieces of frappy/modulebase.py it relies on (configured
   values and writeDict registration in Module.__init__, announceUpdate callbacks, writeInitParams) and of
   export_value / import_value / validate of frappy/datatypes.py.  The code modelled is the repaired one
   (fix: commits up to 66c61e0): persistentData is assigned after the rename, a non-object document counts as
   unreadable, a stored entry is used only if import_value, validate and export_value all accept it.
   No proofs in this file.
   CPython behaviour enters as data: the number of chunks json.dump writes (n), integral floats (FInt),
   scale*n and base64 as finite tables carried by the datatype, what json.load makes of foreign bytes (pj). *)
From Coq Require Import List Arith ZArith NArith Bool.
Import ListNotations.
Require Import FV.Base.Util.

(* ------------------------------------------------------------------ values *)
Definition str := list N.
Definition str_eqb (a b : str) : bool := list_eqb N.eqb a b.

(* a python float: integral (below 2^53 in magnitude, given by its integer value) or any other finite double
   (given by its bit pattern) *)
Inductive fl := FInt (z : Z) | FBits (b : Z).
Definition fl_eqb (a b : fl) : bool :=
  match a, b with FInt x, FInt y => Z.eqb x y | FBits x, FBits y => Z.eqb x y | _, _ => false end.

(* internal python values and JSON values share one universe (VBytes is internal only; VSeq is a tuple
   internally and a list in JSON; VMap keeps python dict order) *)
Inductive val :=
| VNull | VBool (b : bool) | VInt (z : Z) | VFlt (f : fl) | VStr (s : str) | VBytes (s : str)
| VSeq (l : list val) | VMap (kvs : list (str * val)).

Fixpoint lookup_str {A} (k : str) (l : list (str * A)) : option A :=
  match l with [] => None | (k', v) :: r => if str_eqb k k' then Some v else lookup_str k r end.
Definition mem_str (k : str) (l : list str) : bool := existsb (str_eqb k) l.

Fixpoint all_some {A} (l : list (option A)) : option (list A) :=
  match l with
  | [] => Some []
  | None :: _ => None
  | Some x :: r => match all_some r with Some r' => Some (x :: r') | None => None end
  end.

(* numbers as python compares them: True == 1 == 1.0 *)
Definition num_of (v : val) : option fl :=
  match v with
  | VBool b => Some (FInt (if b then 1 else 0))
  | VInt z => Some (FInt z)
  | VFlt f => Some f
  | _ => None
  end.

(* python == on JSON values (dicts compare without order) *)
Fixpoint py_eqb (a b : val) {struct a} : bool :=
  match num_of a, num_of b with
  | Some x, Some y => fl_eqb x y
  | None, None =>
      match a, b with
      | VNull, VNull => true
      | VStr s, VStr t => str_eqb s t
      | VBytes s, VBytes t => str_eqb s t
      | VSeq l, VSeq m =>
          (fix go (l m : list val) : bool :=
             match l, m with
             | [], [] => true
             | x :: l', y :: m' => py_eqb x y && go l' m'
             | _, _ => false
             end) l m
      | VMap kvs, VMap kvs' =>
          Nat.eqb (length kvs) (length kvs') &&
          (fix go (l : list (str * val)) : bool :=
             match l with
             | [] => true
             | (k, v) :: r => match lookup_str k kvs' with Some v' => py_eqb v v' | None => false end && go r
             end) kvs
      | _, _ => false
      end
  | _, _ => false
  end.

(* structural equality (used by the correspondence driver only) *)
Fixpoint val_eqb (a b : val) {struct a} : bool :=
  match a, b with
  | VNull, VNull => true
  | VBool x, VBool y => Bool.eqb x y
  | VInt x, VInt y => Z.eqb x y
  | VFlt x, VFlt y => fl_eqb x y
  | VStr s, VStr t => str_eqb s t
  | VBytes s, VBytes t => str_eqb s t
  | VSeq l, VSeq m =>
      (fix go (l m : list val) : bool :=
         match l, m with
         | [], [] => true
         | x :: l', y :: m' => val_eqb x y && go l' m'
         | _, _ => false
         end) l m
  | VMap l, VMap m =>
      (fix go (l m : list (str * val)) : bool :=
         match l, m with
         | [], [] => true
         | (k, x) :: l', (k', y) :: m' => str_eqb k k' && val_eqb x y && go l' m'
         | _, _ => false
         end) l m
  | _, _ => false
  end.

(* ------------------------------------------------------------------ datatypes *)
Inductive dtype :=
| DInt (lo hi : Z)                        (* the limits are not looked at by import/export *)
| DBool
| DEnum (ms : list (str * Z))
| DStr (minc maxc : nat) (utf8 : bool)
| DFloat
| DScaled (tab : list (Z * fl)) (lo hi : Z) (* n |-> scale * n; min/scale and max/scale *)
| DBlob (minb maxb : nat) (tab : list (str * str))   (* bytes |-> base64 text *)
| DArray (d : dtype) (minlen maxlen : nat)
| DTuple (ds : list dtype)
| DStruct (ms : list (str * dtype)) (opt : list str).

Fixpoint assoc_Z {A} (k : Z) (l : list (Z * A)) : option A :=
  match l with [] => None | (k', v) :: r => if Z.eqb k k' then Some v else assoc_Z k r end.
Fixpoint rassoc_fl (f : fl) (l : list (Z * fl)) : option Z :=
  match l with [] => None | (n, f') :: r => if fl_eqb f f' then Some n else rassoc_fl f r end.
Fixpoint rassoc_str (s : str) (l : list (str * str)) : option str :=
  match l with [] => None | (b, t) :: r => if str_eqb s t then Some b else rassoc_str s r end.

Definition str_ok (minc maxc : nat) (utf8 : bool) (s : str) : bool :=
  (utf8 || forallb (fun c => N.ltb c 128) s) && Nat.leb minc (length s) && Nat.leb (length s) maxc
  && negb (existsb (N.eqb 0) s).

(* datatype.import_value(j): None = raises *)
Fixpoint import (d : dtype) (j : val) {struct d} : option val :=
  match d with
  | DInt _ _ => match num_of j with Some (FInt z) => Some (VInt z) | _ => None end
  | DBool => match num_of j with
             | Some (FInt z) => if Z.eqb z 0 then Some (VBool false) else if Z.eqb z 1 then Some (VBool true) else None
             | _ => None end
  | DEnum ms =>
      match j with
      | VStr s => option_map VInt (lookup_str s ms)
      | _ => match num_of j with
             | Some (FInt z) => if existsb (Z.eqb z) (map snd ms) then Some (VInt z) else None
             | _ => None end
      end
  | DStr minc maxc utf8 => match j with VStr s => if str_ok minc maxc utf8 s then Some (VStr s) else None | _ => None end
  | DFloat => option_map VFlt (num_of j)
  | DScaled tab _ _ => match num_of j with Some (FInt z) => option_map VFlt (assoc_Z z tab) | _ => None end
  | DBlob _ _ tab => match j with VStr s => option_map VBytes (rassoc_str s tab) | _ => None end
  | DArray d' mn mx =>
      (* check_type first: a list (no string, no object) of mn..mx elements *)
      match j with
      | VSeq l => if Nat.leb mn (length l) && Nat.leb (length l) mx
                  then option_map VSeq (all_some (map (import d') l)) else None
      | _ => None
      end
  | DTuple ds =>
      (* check_type first: a list of exactly as many elements as members *)
      match j with
      | VSeq l =>
          if Nat.eqb (length l) (length ds) then
            option_map VSeq
              ((fix go (ds : list dtype) (l : list val) : option (list val) :=
                  match ds, l with
                  | d1 :: ds', x :: l' =>
                      match import d1 x, go ds' l' with Some a, Some r => Some (a :: r) | _, _ => None end
                  | _, _ => Some []
                  end) ds l)
          else None
      | _ => None
      end
  | DStruct ms opt =>
      match j with
      | VMap kvs =>
          if existsb (fun kv => negb (mem_str (fst kv) (map fst ms))) kvs then None
          else if existsb (fun m => negb (mem_str (fst m) (map fst kvs)) && negb (mem_str (fst m) opt)) ms then None
          else option_map VMap
            ((fix go (kvs : list (str * val)) : option (list (str * val)) :=
                match kvs with
                | [] => Some []
                | (k, v) :: r =>
                    match (fix find (ms : list (str * dtype)) : option val :=
                             match ms with
                             | [] => None
                             | (n, d') :: ms' => if str_eqb n k then import d' v else find ms'
                             end) ms, go r with
                    | Some a, Some rr => Some ((k, a) :: rr)
                    | _, _ => None
                    end
                end) kvs)
      | _ => None
      end
  end.

(* datatype.export_value(v) on an internal value: None = raises (check_type of array/tuple/struct; since 45926fd a
   struct may lack optional members, as validate admits) *)
Fixpoint export (d : dtype) (v : val) {struct d} : option val :=
  match d with
  | DInt _ _ => match v with VInt z => Some (VInt z) | _ => None end
  | DBool => match v with VBool b => Some (VBool b) | _ => None end
  | DEnum ms => match v with VInt z => if existsb (Z.eqb z) (map snd ms) then Some (VInt z) else None | _ => None end
  | DStr _ _ _ => match v with VStr s => Some (VStr s) | _ => None end
  | DFloat => match v with VFlt f => Some (VFlt f) | _ => None end
  | DScaled tab _ _ => match v with VFlt f => option_map VInt (rassoc_fl f tab) | _ => None end
  | DBlob _ _ tab => match v with VBytes b => option_map VStr (lookup_str b tab) | _ => None end
  | DArray d' mn mx =>
      match v with
      | VSeq l => if Nat.leb mn (length l) && Nat.leb (length l) mx
                  then option_map VSeq (all_some (map (export d') l)) else None
      | _ => None
      end
  | DTuple ds =>
      match v with
      | VSeq l =>
          if Nat.eqb (length l) (length ds) then
            option_map VSeq
              ((fix go (ds : list dtype) (l : list val) : option (list val) :=
                  match ds, l with
                  | d1 :: ds', x :: l' =>
                      match export d1 x, go ds' l' with Some a, Some r => Some (a :: r) | _, _ => None end
                  | _, _ => Some []
                  end) ds l)
          else None
      | _ => None
      end
  | DStruct ms opt =>
      match v with
      | VMap kvs =>
          if existsb (fun kv => negb (mem_str (fst kv) (map fst ms))) kvs then None
          else if existsb (fun m => negb (mem_str (fst m) (map fst kvs)) && negb (mem_str (fst m) opt)) ms then None
          else option_map VMap
            ((fix go (kvs : list (str * val)) : option (list (str * val)) :=
                match kvs with
                | [] => Some []
                | (k, x) :: r =>
                    match (fix find (ms : list (str * dtype)) : option val :=
                             match ms with
                             | [] => None
                             | (n, d') :: ms' => if str_eqb n k then export d' x else find ms'
                             end) ms, go r with
                    | Some a, Some rr => Some ((k, a) :: rr)
                    | _, _ => None
                    end
                end) kvs)
      | _ => None
      end
  end.

(* datatype.validate(v) on an internal value (limits, lengths, members): None = raises *)
Fixpoint validate (d : dtype) (v : val) {struct d} : option val :=
  match d with
  | DInt lo hi => match v with VInt z => if Z.leb lo z && Z.leb z hi then Some v else None | _ => None end
  | DBool => match v with VBool _ => Some v | _ => None end
  | DEnum ms => match v with VInt z => if existsb (Z.eqb z) (map snd ms) then Some v else None | _ => None end
  | DStr a b u => match v with VStr s => if str_ok a b u s then Some v else None | _ => None end
  | DFloat => match v with VFlt _ => Some v | _ => None end
  | DScaled tab lo hi =>
      match v with
      | VFlt f => match rassoc_fl f tab with
                  | Some n => if Z.leb lo n && Z.leb n hi then Some v else None
                  | None => None end
      | _ => None
      end
  | DBlob mn mx _ =>
      match v with
      | VBytes b => if Nat.leb mn (length b) && Nat.leb (length b) mx then Some v else None
      | _ => None
      end
  | DArray d' mn mx =>
      match v with
      | VSeq l => if Nat.leb mn (length l) && Nat.leb (length l) mx
                  then option_map VSeq (all_some (map (validate d') l)) else None
      | _ => None
      end
  | DTuple ds =>
      match v with
      | VSeq l =>
          if Nat.eqb (length l) (length ds) then
            option_map VSeq
              ((fix go (ds : list dtype) (l : list val) : option (list val) :=
                  match ds, l with
                  | d1 :: ds', x :: l' =>
                      match validate d1 x, go ds' l' with Some a, Some r => Some (a :: r) | _, _ => None end
                  | _, _ => Some []
                  end) ds l)
          else None
      | _ => None
      end
  | DStruct ms opt =>
      match v with
      | VMap kvs =>
          if existsb (fun kv => negb (mem_str (fst kv) (map fst ms))) kvs then None
          else if existsb (fun m => negb (mem_str (fst m) (map fst kvs)) && negb (mem_str (fst m) opt)) ms then None
          else option_map VMap
            ((fix go (kvs : list (str * val)) : option (list (str * val)) :=
                match kvs with
                | [] => Some []
                | (k, x) :: r =>
                    match (fix find (ms : list (str * dtype)) : option val :=
                             match ms with
                             | [] => None
                             | (n, d') :: ms' => if str_eqb n k then validate d' x else find ms'
                             end) ms, go r with
                    | Some a, Some rr => Some ((k, a) :: rr)
                    | _, _ => None
                    end
                end) kvs)
      | _ => None
      end
  end.

(* what a stored entry is worth for a parameter of this datatype: it must be importable, valid for the current
   definition and storable again (loadPersistentData, inside the per-entry try) *)
Definition usable_dt (d : dtype) (j : val) : option val :=
  match import d j with
  | Some x => match validate d x with
              | Some y => match export d y with Some _ => Some y | None => None end
              | None => None end
  | None => None
  end.

(* ------------------------------------------------------------------ python dicts keyed by parameter number *)
Definition amap := list (nat * val).
Definition aget (k : nat) (l : amap) : option val := assoc_nat k l.
Fixpoint aset (k : nat) (v : val) (l : amap) : amap :=
  match l with
  | [] => [(k, v)]
  | (k', v') :: r => if Nat.eqb k k' then (k, v) :: r else (k', v') :: aset k v r
  end.
Fixpoint adel (k : nat) (l : amap) : amap :=
  match l with
  | [] => []
  | (k', v') :: r => if Nat.eqb k k' then r else (k', v') :: adel k r
  end.
Definition amem (k : nat) (l : amap) : bool := match aget k l with Some _ => true | None => false end.

(* dict == dict on JSON documents *)
Definition snap_eqb (a b : amap) : bool :=
  Nat.eqb (length a) (length b) &&
  forallb (fun kv => match aget (fst kv) b with Some v => py_eqb (snd kv) v | None => false end) a.

(* ------------------------------------------------------------------ file system *)
(* what json.load makes of a file *)
Inductive pj := PJInvalid | PJOther | PJObj (kvs : amap).
(* file content: the first k of the n chunks json.dump + the final newline write for the document d,
   or bytes put there by someone else (known only through what json.load makes of them) *)
Inductive content := CW (d : amap) (k n : nat) | CForeign (p : pj).
Record disk := { target : option content; tmp : option content }.

(* what the JSON TEXT of a document reads back as.  json.dump (ensure_ascii) writes every code point above U+FFFF as
   the escape pair of its two UTF-16 surrogates and every surrogate code point of a str as its own escape; json.load
   joins an escaped high surrogate directly followed by an escaped low one into ONE code point.  So a str holding a
   high surrogate directly followed by a low surrogate as two code points comes back as a different, shorter str
   (open finding C17/adjacent-surrogate-pair-not-restored); every other str comes back as it is. *)
Definition is_high (c : N) : bool := N.leb 55296 c && N.leb c 56319.     (* U+D800 .. U+DBFF *)
Definition is_low (c : N) : bool := N.leb 56320 c && N.leb c 57343.      (* U+DC00 .. U+DFFF *)
Definition join_pair (h l : N) : N := (65536 + (h - 55296) * 1024 + (l - 56320))%N.
Fixpoint jtext_str (s : str) : str :=
  match s with
  | [] => []
  | h :: t => match t with
              | l :: r => if is_high h && is_low l then join_pair h l :: jtext_str r else h :: jtext_str t
              | [] => [h]
              end
  end.
Fixpoint jtext_val (v : val) : val :=
  match v with
  | VStr s => VStr (jtext_str s)
  | VSeq l => VSeq (map jtext_val l)
  | VMap kvs => VMap (map (fun kv => let '(k, x) := kv in (jtext_str k, jtext_val x)) kvs)
  | _ => v
  end.
Definition jtext (d : amap) : amap := map (fun kv => (fst kv, jtext_val (snd kv))) d.

Definition parse (c : content) : pj :=
  match c with
  | CW d k n => if Nat.leb (n - 1) k then PJObj (jtext d) else PJInvalid
  | CForeign p => p
  end.

Inductive fkind := KCrashBefore | KCrashAfter | KErr.
(* every file-system call of frappy/persistent.py is an operation, a crash point and a fault point:
   FMakedirs      os.makedirs(persistentdir, exist_ok=True)            (__init__)
   FOpenR         open(self.persistentFile, 'r')                       (loadPersistentData)
   FIsDir         persistentdir.is_dir()                               (__save_params, before the try block)
   FOpen          open(tmpfile, 'w')       FWrite i   the i-th f.write of json.dump + the final newline
   FClose         the end of the with block
   FRename        os.rename(tmpfile, self.persistentFile)   - the ONLY operation that touches the stored file
   FRemove        os.remove(tmpfile)                                   (finally clause)
   FRemoveTarget  a removal of the stored file: executed by no sequence of the code as it is; it is in the
                  universe so that the obligation "only the rename touches the stored file" can be stated and its
                  violation exhibited (Counter.v), and as the image of such a call observed in the implementation
   FOther         any other file-system call observed in the implementation (never produced by the model) *)
Inductive fsop := FMakedirs | FOpenR | FIsDir | FOpen | FWrite (i : nat) | FClose | FRename | FRemove
                | FRemoveTarget | FOther.
Definition fault := option (fsop * fkind).

Definition fsop_eqb (a b : fsop) : bool :=
  match a, b with
  | FMakedirs, FMakedirs | FOpenR, FOpenR | FIsDir, FIsDir
  | FOpen, FOpen | FClose, FClose | FRename, FRename | FRemove, FRemove
  | FRemoveTarget, FRemoveTarget | FOther, FOther => true
  | FWrite i, FWrite j => Nat.eqb i j
  | _, _ => false
  end.

(* control state of one __save_params file sequence: running, an OSError is propagating inside the try block (the
   finally clause still runs), an OSError is propagating outside of it (nothing more runs), the process is dead *)
Inductive ctl := CRun | CFail | CAbort | CDead.
(* s_done: the rename took place (the statement after it, self.persistentData = data, is reached) *)
Record sv := { s_disk : disk; s_ctl : ctl; s_open : bool; s_err : bool; s_done : bool }.

Definition set_disk s v := {| s_disk := v; s_ctl := s_ctl s; s_open := s_open s; s_err := s_err s; s_done := s_done s |}.
Definition set_ctl s v := {| s_disk := s_disk s; s_ctl := v; s_open := s_open s; s_err := s_err s; s_done := s_done s |}.
Definition set_open s v := {| s_disk := s_disk s; s_ctl := s_ctl s; s_open := v; s_err := s_err s; s_done := s_done s |}.
Definition set_err s v := {| s_disk := s_disk s; s_ctl := s_ctl s; s_open := s_open s; s_err := v; s_done := s_done s |}.
Definition set_done s v := {| s_disk := s_disk s; s_ctl := s_ctl s; s_open := s_open s; s_err := s_err s; s_done := v |}.

(* is the operation reached at all: the with-block closes the file also when its body raised, the finally
   clause removes the temporary file also after an error, nothing happens after death *)
Definition enabled (s : sv) (o : fsop) : bool :=
  match s_ctl s, o with
  | CDead, _ => false
  | CAbort, _ => false
  | _, FClose => s_open s
  | CRun, _ => true
  | CFail, FRemove => true
  | CFail, _ => false
  end.

(* effect of the operation on the disk; false = it raises FileNotFoundError *)
Definition effect (data : amap) (n : nat) (d : disk) (o : fsop) : disk * bool :=
  match o with
  | FOpen => ({| target := target d; tmp := Some (CW data 0 n) |}, true)
  | FWrite _ => ({| target := target d;
                    tmp := match tmp d with Some (CW dd k nn) => Some (CW dd (S k) nn) | x => x end |}, true)
  | FClose | FMakedirs | FOpenR | FIsDir | FOther => (d, true)
  | FRemoveTarget => ({| target := None; tmp := tmp d |}, true)
  | FRename => match tmp d with
               | Some c => ({| target := Some c; tmp := None |}, true)
               | None => (d, false)
               end
  | FRemove => ({| target := target d; tmp := None |}, true)     (* FileNotFoundError is ignored *)
  end.

Definition apply_effect (data : amap) (n : nat) (s : sv) (o : fsop) : sv :=
  let '(d, ok) := effect data n (s_disk s) o in
  let s1 := set_disk s d in
  let s2 := match o with FOpen => set_open s1 true | FRename => set_done s1 ok | _ => s1 end in
  if ok then s2 else set_err (set_ctl s2 CFail) true.

Definition fault_at (f : fault) (o : fsop) : option fkind :=
  match f with Some (o', k) => if fsop_eqb o o' then Some k else None | None => None end.

(* where an OSError raised by the operation leaves the control: is_dir() is called before the try block *)
Definition err_ctl (o : fsop) : ctl := match o with FIsDir => CAbort | _ => CFail end.

Definition exec (f : fault) (data : amap) (n : nat) (s : sv) (o : fsop) : sv :=
  if negb (enabled s o) then s else
  let s := match o with FClose => set_open s false | _ => s end in
  match fault_at f o with
  | Some KCrashBefore => set_ctl s CDead
  | Some KErr => set_err (set_ctl s (err_ctl o)) true
  | Some KCrashAfter => set_ctl (apply_effect data n s o) CDead
  | None => apply_effect data n s o
  end.

Definition save_ops (n : nat) : list fsop :=
  FIsDir :: FOpen :: map FWrite (seq 0 n) ++ [FClose; FRename; FRemove].

Definition sv0 (d : disk) : sv := {| s_disk := d; s_ctl := CRun; s_open := false; s_err := false; s_done := false |}.

Definition save_file (f : fault) (data : amap) (n : nat) (d : disk) : sv :=
  fold_left (exec f data n) (save_ops n) (sv0 d).

(* the file-system calls one save really makes, in order (an operation that is reached is recorded, also when the
   fault strikes at it) - compared with the calls recorded in the implementation *)
Definition exec_log (f : fault) (data : amap) (n : nat) (acc : sv * list fsop) (o : fsop) : sv * list fsop :=
  (exec f data n (fst acc) o, if enabled (fst acc) o then snd acc ++ [o] else snd acc).
Definition save_log (f : fault) (data : amap) (n : nat) (d : disk) : list fsop :=
  snd (fold_left (exec_log f data n) (save_ops n) (sv0 d, [])).

(* the file system alone: the operations of a sequence one after the other, no control flow.  A crash at index k of
   a sequence leaves fs_run of its first k operations *)
Definition fs_step (data : amap) (n : nat) (d : disk) (o : fsop) : disk := fst (effect data n d o).
Definition fs_run (data : amap) (n : nat) (ops : list fsop) (d : disk) : disk := fold_left (fs_step data n) ops d.

(* a sufficient condition, decidable on the sequence alone, under which every prefix of a sequence of operations
   leaves the previous or the complete new document as the stored file: the stored file is touched by renames only,
   and a rename happens only when the temporary file is known to hold all n chunks of the new document.
   t: what is known about the temporary file (None = nothing: it may be a stale one of an earlier crashed save) *)
Fixpoint seq_safe (n : nat) (t : option nat) (ops : list fsop) : bool :=
  match ops with
  | [] => true
  | o :: r =>
      match o with
      | FRemoveTarget | FOther => false
      | FOpen => seq_safe n (Some 0) r
      | FWrite _ => seq_safe n (option_map S t) r
      | FRename => match t with Some k => Nat.eqb k n && seq_safe n None r | None => false end
      | FRemove => seq_safe n None r
      | FMakedirs | FOpenR | FIsDir | FClose => seq_safe n t r
      end
  end.

Inductive sres := SOk | SErr | SCrash.
Definition sres_of (s : sv) : sres :=
  match s_ctl s with CDead => SCrash | _ => if s_err s then SErr else SOk end.

(* ------------------------------------------------------------------ the module *)
Record pdesc := { p_dt : dtype; p_pers : nat (* 0 off or not persistent, 1 on, 2 auto *); p_hasw : bool; p_default : val }.
Definition mdesc := list pdesc.     (* parameter number = position, in the order of self.parameters *)

Definition indexed (M : mdesc) : list (nat * pdesc) := combine (seq 0 (length M)) M.
Definition persistent (p : pdesc) : bool := negb (Nat.eqb (p_pers p) 0).
Definition is_auto (M : mdesc) (i : nat) : bool :=
  match nth_error M i with Some p => Nat.eqb (p_pers p) 2 | None => false end.

Record mstate := {
  vals : amap;                 (* parameter values *)
  wdict : amap;                (* writeDict, in insertion order *)
  pdata : option amap;         (* persistentData (always a dict in the repaired code; None is kept for the driver) *)
  initd : amap;                (* initData *)
}.
Definition set_vals m v := {| vals := v; wdict := wdict m; pdata := pdata m; initd := initd m |}.
Definition set_wdict m v := {| vals := vals m; wdict := v; pdata := pdata m; initd := initd m |}.
Definition set_pdata m v := {| vals := vals m; wdict := wdict m; pdata := v; initd := initd m |}.
Definition set_initd m v := {| vals := vals m; wdict := wdict m; pdata := pdata m; initd := v |}.

(* {k: v.export_value() for persistent parameters}; None = an export raised *)
Definition snapshot_step (vs : amap) (acc : option amap) (ip : nat * pdesc) : option amap :=
  match acc with
  | None => None
  | Some l =>
      if persistent (snd ip) then
        match aget (fst ip) vs with
        | Some v => match export (p_dt (snd ip)) v with Some j => Some (l ++ [(fst ip, j)]) | None => None end
        | None => None
        end
      else Some l
  end.
Definition snapshot_of (M : mdesc) (vs : amap) : option amap :=
  fold_left (snapshot_step vs) (indexed M) (Some []).

Definition differs (data : amap) (pd : option amap) : bool :=
  match pd with Some old => negb (snap_eqb data old) | None => true end.

Inductive sp_out := SPNothing | SPWrote (r : sres) | SPExportRaise.

(* __save_params: persistentData is assigned right after the rename, i.e. only when the new file is in place *)
Definition save_params (M : mdesc) (f : fault) (n : nat) (d : disk) (m : mstate) : disk * mstate * sp_out :=
  match snapshot_of M (vals m) with
  | None => (d, m, SPExportRaise)
  | Some data =>
      if differs data (pdata m) then
        let s := save_file f data n d in
        (s_disk s, (if s_done s then set_pdata m (Some data) else m), SPWrote (sres_of s))
      else (d, m, SPNothing)
  end.

(* saveParameters: nothing while configured values are still to be written to the hardware *)
Definition save_parameters (M : mdesc) (f : fault) (n : nat) (d : disk) (m : mstate) : disk * mstate * sp_out :=
  match wdict m with
  | [] => save_params M f n d m
  | _ => (d, m, SPNothing)
  end.

Definition crashed (o : sp_out) : bool := match o with SPWrote SCrash => true | _ => false end.

(* announceUpdate(p, v): store, then the callbacks (saveParameters for persistent=auto); exceptions of
   callbacks are swallowed, the death of the process is not.  Returns dead flag *)
Definition announce (M : mdesc) (f : fault) (n : nat) (d : disk) (m : mstate) (p : nat) (v : val)
  : disk * mstate * bool :=
  let m1 := set_vals m (aset p v (vals m)) in
  if is_auto M p then
    let '(d', m', o) := save_parameters M f n d m1 in (d', m', crashed o)
  else (d, m1, false).

(* writeInitParams: one entry of list(self.writeDict) *)
Definition wi_step (M : mdesc) (f : fault) (n : nat) (acc : disk * mstate * bool) (pv : nat * val)
  : disk * mstate * bool :=
  let '(d, m, dead) := acc in
  if dead then acc else
  match aget (fst pv) (wdict m) with
  | None => acc
  | Some v => announce M f n d (set_wdict m (adel (fst pv) (wdict m))) (fst pv) v
  end.
Definition write_init (M : mdesc) (f : fault) (n : nat) (d : disk) (m : mstate) : disk * mstate * bool :=
  fold_left (wi_step M f n) (wdict m) (d, m, false).

(* loadPersistentData *)
Inductive lres := LOk (raw : amap) (loaded : amap).

Definition load_entry (M : mdesc) (acc : amap) (kv : nat * val) : amap :=
  match nth_error M (fst kv) with
  | None => acc                                   (* KeyError: warning *)
  | Some p =>
      if persistent p then
        match usable_dt (p_dt p) (snd kv) with
        | Some v => aset (fst kv) v acc
        | None => acc                             (* import / validate / export raised: warning *)
        end
      else acc
  end.

Definition load_file (M : mdesc) (d : disk) : lres :=
  match target d with
  | None => LOk [] []                             (* FileNotFoundError *)
  | Some c =>
      match parse c with
      | PJInvalid => LOk [] []                    (* ValueError *)
      | PJOther => LOk [] []                      (* not a dict: ValueError raised by hand *)
      | PJObj raw => LOk raw (fold_left (load_entry M) raw [])
      end
  end.

(* Module.__init__: configured values win, are marked given and registered for writing *)
Definition base_vals (M : mdesc) (cfg : amap) : amap :=
  map (fun ip => (fst ip, match aget (fst ip) cfg with Some v => v | None => p_default (snd ip) end)) (indexed M).
Definition base_wdict (M : mdesc) (cfg : amap) : amap :=
  fold_left (fun acc ip => match aget (fst ip) cfg with
                           | Some v => if p_hasw (snd ip) then aset (fst ip) v acc else acc
                           | None => acc end) (indexed M) [].

(* PersistentMixin.__init__: the loop over self.parameters *)
Definition init_step (cfg loaded : amap) (m : mstate) (ip : nat * pdesc) : mstate :=
  let i := fst ip in
  if persistent (snd ip) then
    match aget i (vals m) with
    | None => m
    | Some v0 =>
        let m1 := set_initd m (aset i v0 (initd m)) in
        if amem i cfg then m1 else
        let v := match aget i loaded with Some v => v | None => v0 end in
        let m2 := set_vals m1 (aset i v (vals m1)) in
        if p_hasw (snd ip) then set_wdict m2 (aset i v (wdict m2)) else m2
    end
  else m.

Definition init_state (M : mdesc) (cfg raw loaded : amap) : mstate :=
  fold_left (init_step cfg loaded) (indexed M)
    {| vals := base_vals M cfg; wdict := base_wdict M cfg; pdata := Some raw; initd := [] |}.

(* ------------------------------------------------------------------ histories *)
Record st := { dk : disk; md : option mstate }.

Inductive res := ROk | RIOErr | RExc | RCrash | RNoMod.

Inductive op :=
| OInit (cfg : amap) (f : fault) (n : nat)
| OSet (p : nat) (v : val) (f : fault) (n : nat)
| OSave (f : fault) (n : nat)
| OWriteInit (f : fault) (n : nat)
| OLoad (f : fault) (n : nat)
| OReset (f : fault) (n : nat)
| OCorrupt (c : option content).

Definition finish (d : disk) (m : mstate) (dead : bool) : st * res :=
  if dead then ({| dk := d; md := None |}, RCrash) else ({| dk := d; md := Some m |}, ROk).

(* file-system calls that change nothing (os.makedirs of the existing directory, open for reading) before the
   saves of an operation: the calls made (up to the one the fault strikes at) and the kind of the fault that struck *)
Fixpoint pre_ops (f : fault) (ops : list fsop) : list fsop * option fkind :=
  match ops with
  | [] => ([], None)
  | o :: r => match fault_at f o with
              | Some k => ([o], Some k)
              | None => let '(l, k) := pre_ops f r in (o :: l, k)
              end
  end.
Definition init_pre : list fsop := [FMakedirs; FOpenR].
Definition load_pre : list fsop := [FOpenR].

Definition do_init (M : mdesc) (cfg : amap) (f : fault) (n : nat) (d : disk) : st * res :=
  match snd (pre_ops f init_pre) with
  | Some KErr => ({| dk := d; md := None |}, RIOErr)     (* an OSError other than FileNotFoundError propagates *)
  | Some _ => ({| dk := d; md := None |}, RCrash)
  | None =>
  match load_file M d with
  | LOk raw loaded =>
      let m := init_state M cfg raw loaded in
      let '(d', m', o) := save_params M f n d m in
      match o with
      | SPExportRaise => ({| dk := d'; md := None |}, RExc)
      | SPWrote SErr => ({| dk := d'; md := None |}, RIOErr)
      | SPWrote SCrash => ({| dk := d'; md := None |}, RCrash)
      | _ => ({| dk := d'; md := Some m' |}, ROk)
      end
  end
  end.

Definition do_save (M : mdesc) (f : fault) (n : nat) (d : disk) (m : mstate) : st * res :=
  let '(d', m', o) := save_parameters M f n d m in
  match o with
  | SPExportRaise => ({| dk := d'; md := Some m' |}, RExc)
  | SPWrote SErr => ({| dk := d'; md := Some m' |}, RIOErr)
  | SPWrote SCrash => ({| dk := d'; md := None |}, RCrash)
  | _ => ({| dk := d'; md := Some m' |}, ROk)
  end.

Definition load_step (M : mdesc) (m : mstate) (kv : nat * val) : mstate :=
  let m1 := set_vals m (aset (fst kv) (snd kv) (vals m)) in
  match nth_error M (fst kv) with
  | Some p => if p_hasw p then set_wdict m1 (aset (fst kv) (snd kv) (wdict m1)) else m1
  | None => m1
  end.

Definition do_load (M : mdesc) (f : fault) (n : nat) (d : disk) (m : mstate) : st * res :=
  match snd (pre_ops f load_pre) with
  | Some KErr => ({| dk := d; md := Some m |}, RIOErr)   (* raised by open: persistentData is not assigned *)
  | Some _ => ({| dk := d; md := None |}, RCrash)
  | None =>
  match load_file M d with
  | LOk raw loaded =>
      let m1 := fold_left (load_step M) loaded (set_pdata m (Some raw)) in
      let '(d', m', dead) := write_init M f n d m1 in finish d' m' dead
  end
  end.

Definition do_reset (M : mdesc) (f : fault) (n : nat) (d : disk) (m : mstate) : st * res :=
  let m1 := set_wdict m (fold_left (fun acc kv => aset (fst kv) (snd kv) acc) (initd m) (wdict m)) in
  let '(d', m', dead) := write_init M f n d m1 in finish d' m' dead.

Definition step (M : mdesc) (s : st) (o : op) : st * res :=
  match o with
  | OCorrupt c => ({| dk := {| target := c; tmp := tmp (dk s) |}; md := md s |}, ROk)
  | OInit cfg f n => do_init M cfg f n (dk s)
  | _ =>
      match md s with
      | None => (s, RNoMod)
      | Some m =>
          match o with
          | OSet p v f n => let '(d', m', dead) := announce M f n (dk s) m p v in finish d' m' dead
          | OSave f n => do_save M f n (dk s) m
          | OWriteInit f n => let '(d', m', dead) := write_init M f n (dk s) m in finish d' m' dead
          | OLoad f n => do_load M f n (dk s) m
          | OReset f n => do_reset M f n (dk s) m
          | _ => (s, ROk)
          end
      end
  end.

Definition st0 : st := {| dk := {| target := None; tmp := None |}; md := None |}.

Definition run (M : mdesc) (ops : list op) (s : st) : st := fold_left (fun s o => fst (step M s o)) ops s.
