(* C17 - vacuity audit: every theorem of Properties.v applied to (or its premises instantiated with) a concrete,
   non-trivial instance.  Nothing here is a property theorem; the examples only show that the hypotheses of the
   theorems can be met by instances of the kind the correspondence driver builds (Run.v: a module created by
   OInit [] None n on the empty directory, then operations / threads under a schedule), and that the guarded parts of
   the conclusions (sres_of s = SOk, = SErr, the second disjuncts) are reached. *)
From Coq Require Import List Arith ZArith NArith Bool Lia String.
Import ListNotations.
Require Import FV.Base.Util FV.Gen.C17 FV.C17.Model FV.C17.Lemmas FV.C17.LemmasSeq FV.C17.LemmasLink FV.C17.Counter
  FV.C17.ConcModel FV.C17.ConcLemmas FV.C17.ConcCounter FV.C17.Properties.
Local Open Scope Z_scope.

(* ------------------------------------------------------------------ the instance *)
(* eight parameters, every datatype kind, the CPython tables as the harness builds them (harness/props/C17.py
   Tables.scaled / Tables.blob: scale 0.1 with the integers seen, canonical base64 rows) *)
Definition nv_scaled : dtype :=
  DScaled [(-5, FBits 13826050856027422720); (0, FInt 0); (1, FBits 4591870180066957722);
           (5, FBits 4602678819172646912); (10, FInt 1)] (-1000) 1000.
Definition nv_blob : dtype :=
  DBlob 0 4 [([1%N; 2%N; 255%N], [65%N; 81%N; 76%N; 47%N]); ([7%N], [66%N; 119%N; 61%N; 61%N])].
Definition s_a : str := [97%N].
Definition s_b : str := [98%N].
Definition s_on : str := [111%N; 110%N].
Definition s_off : str := [111%N; 102%N; 102%N].

Definition nvM : mdesc :=
  [ {| p_dt := DInt (-1000) 1000; p_pers := 2; p_hasw := false; p_default := VInt 1 |};                   (* 0 auto *)
    {| p_dt := DStr 0 5 false; p_pers := 1; p_hasw := true; p_default := VStr s_a |};                      (* 1 on, write *)
    {| p_dt := nv_scaled; p_pers := 2; p_hasw := false; p_default := VFlt (FInt 1) |};                     (* 2 auto *)
    {| p_dt := nv_blob; p_pers := 1; p_hasw := false; p_default := VBytes [1%N; 2%N; 255%N] |};            (* 3 on *)
    {| p_dt := DArray (DTuple [DInt 0 9; DBool]) 0 3; p_pers := 2; p_hasw := false;
       p_default := VSeq [VSeq [VInt 3; VBool true]] |};                                                   (* 4 auto *)
    {| p_dt := DStruct [(s_a, DFloat); (s_b, DEnum [(s_on, 1); (s_off, 0)])] [s_b]; p_pers := 1; p_hasw := false;
       p_default := VMap [(s_a, VFlt (FBits 4609434218613702656))] |};                                     (* 5 on *)
    {| p_dt := DEnum [(s_on, 1); (s_off, 0)]; p_pers := 0; p_hasw := false; p_default := VInt 0 |};        (* 6 not persistent *)
    {| p_dt := DFloat; p_pers := 2; p_hasw := true; p_default := VFlt (FInt 2) |} ].                       (* 7 auto, write *)

(* the document of the defaults and two other documents *)
Definition nv_doc0 : amap :=
  [(0, VInt 1); (1, VStr s_a); (2, VInt 10); (3, VStr [65%N; 81%N; 76%N; 47%N]);
   (4, VSeq [VSeq [VInt 3; VBool true]]); (5, VMap [(s_a, VFlt (FBits 4609434218613702656))]);
   (7, VFlt (FInt 2))]%nat.
Definition nv_old : amap := [(0%nat, VInt 1)].
Definition nv_new : amap := [(0%nat, VInt 2); (2%nat, VInt 5)].
Definition nv_disk : disk := {| target := Some (CW nv_old 3 3); tmp := None |}.
(* a disk with a stale temporary file of an earlier crashed save *)
Definition nv_disk_stale : disk := {| target := Some (CW nv_old 3 3); tmp := Some (CW nv_old 1 3) |}.

Example C17_nv_doc0 : snapshot_of nvM (base_vals nvM []) = Some nv_doc0.
Proof. vm_compute. reflexivity. Qed.

(* ------------------------------------------------------------------ C17_source_facts *)
(* no premise; a closed conjunction over the constants of Gen/C17.v (it fails to compile when a fact is missing) *)

(* ------------------------------------------------------------------ C17_crash_atomic_save *)
(* no premise.  The guards inside the conclusion are all reached, on a disk with a stored file and a stale
   temporary file, 4 chunks: SOk; SErr at the rename (previous file stays); SErr at the final remove (new file);
   a crash (neither guard) at a write with the previous file and after the rename with the new one *)
Example C17_nv_save_ok :
  let s := save_file None nv_new 4 nv_disk_stale in
  sres_of s = SOk /\ s_disk s = {| target := Some (CW nv_new 4 4); tmp := None |} /\ target (s_disk s) <> target nv_disk_stale.
Proof. vm_compute. repeat split; try reflexivity. discriminate. Qed.

Example C17_nv_save_err_rename :
  let s := save_file (Some (FRename, KErr)) nv_new 4 nv_disk_stale in
  sres_of s = SErr /\ target (s_disk s) = target nv_disk_stale /\ tmp (s_disk s) = None.
Proof. vm_compute. repeat split; reflexivity. Qed.

Example C17_nv_save_err_remove :
  let s := save_file (Some (FRemove, KErr)) nv_new 4 nv_disk_stale in
  sres_of s = SErr /\ target (s_disk s) = Some (CW nv_new 4 4).
Proof. vm_compute. repeat split; reflexivity. Qed.

Example C17_nv_save_err_isdir_write :
  sres_of (save_file (Some (FIsDir, KErr)) nv_new 4 nv_disk_stale) = SErr /\
  sres_of (save_file (Some (FWrite 2, KErr)) nv_new 4 nv_disk_stale) = SErr /\
  sres_of (save_file (Some (FOpen, KErr)) nv_new 4 nv_disk_stale) = SErr /\
  sres_of (save_file (Some (FClose, KErr)) nv_new 4 nv_disk_stale) = SErr.
Proof. vm_compute. repeat split; reflexivity. Qed.

Example C17_nv_save_crash :
  let s1 := save_file (Some (FWrite 2, KCrashAfter)) nv_new 4 nv_disk_stale in
  let s2 := save_file (Some (FRename, KCrashAfter)) nv_new 4 nv_disk_stale in
  sres_of s1 = SCrash /\ target (s_disk s1) = target nv_disk_stale /\ tmp (s_disk s1) = Some (CW nv_new 3 4) /\
  sres_of s2 = SCrash /\ target (s_disk s2) = Some (CW nv_new 4 4).
Proof. vm_compute. repeat split; reflexivity. Qed.

(* the theorem at the instance: the SErr branch yields the operation *)
Example C17_crash_atomic_save_applies :
  exists o, Some (FRemove, KErr) = Some (o, KErr) /\
    (target (s_disk (save_file (Some (FRemove, KErr)) nv_new 4 nv_disk_stale)) = target nv_disk_stale \/
     (o = FRemove /\ target (s_disk (save_file (Some (FRemove, KErr)) nv_new 4 nv_disk_stale)) = Some (CW nv_new 4 4))).
Proof.
  destruct (C17_crash_atomic_save (Some (FRemove, KErr)) nv_new 4 nv_disk_stale) as [_ [_ [H _]]].
  apply H. vm_compute. reflexivity.
Qed.

(* ------------------------------------------------------------------ C17_crash_atomic_all_points *)
(* no premise.  Both disjuncts occur and differ: crash index 7 (before the rename) and 8 (after it) of the 9
   operations of a 4-chunk save *)
Example C17_nv_all_points :
  List.length (save_ops 4) = 9%nat /\
  target (fs_run nv_new 4 (firstn 7 (save_ops 4)) nv_disk_stale) = target nv_disk_stale /\
  tmp (fs_run nv_new 4 (firstn 7 (save_ops 4)) nv_disk_stale) = Some (CW nv_new 4 4) /\
  target (fs_run nv_new 4 (firstn 8 (save_ops 4)) nv_disk_stale) = Some (CW nv_new 4 4) /\
  target nv_disk_stale <> Some (CW nv_new 4 4).
Proof. vm_compute. repeat split; try reflexivity. discriminate. Qed.

(* ------------------------------------------------------------------ C17_concurrent_saves_serialised *)
(* no premise (M, d, m, progs, sch arbitrary).  Instance built the way Run.v conc_final builds it: the module is
   created by OInit [] None 4 on the empty directory, then two threads (thread 0: two assignments, thread 1: one, on
   a scaled parameter) run under a schedule in which each thread finds the lock taken at least once.
   nv_sch_mid stops in the middle of the save of thread 1, nv_sch_end runs to the end. *)
Definition nvC : mdesc :=
  [ {| p_dt := DInt (-1000) 1000; p_pers := 2; p_hasw := false; p_default := VInt 1 |};
    {| p_dt := nv_scaled; p_pers := 2; p_hasw := false; p_default := VFlt (FInt 1) |};
    {| p_dt := DStr 0 5 false; p_pers := 2; p_hasw := false; p_default := VStr s_a |} ].
Definition nvc0 : st := fst (step nvC st0 (OInit [] None 4)).
Definition nv_m0 : mstate :=
  match md nvc0 with Some m => m | None => {| vals := []; wdict := []; pdata := None; initd := [] |} end.
Definition nv_progs : list (list assign) :=
  [ [ {| a_p := 0; a_v := VInt 5; a_n := 4 |}; {| a_p := 2; a_v := VStr s_b; a_n := 3 |} ];
    [ {| a_p := 1; a_v := VFlt (FBits 4602678819172646912); a_n := 4 |} ] ].
(* 0 acquires; 1 waits twice; 0: three operations; 1 waits; 0: six operations, releases; 1 acquires; 0 waits;
   1: three operations; 0 waits *)
Definition nv_sch_mid : list nat := [0;1;1;0;0;0;1;0;0;0;0;0;0;1;0;1;1;1;0]%nat.
Definition nv_sch_end : list nat := (nv_sch_mid ++ [1;1;0;1;1;1;1;0;0;0;0;0;0;0;0;0;0;1;0])%nat.
Definition nv_mid : cstate := crun true nvC nv_sch_mid (cinit (dk nvc0) nv_m0 nv_progs).
Definition nv_end : cstate := crun true nvC nv_sch_end (cinit (dk nvc0) nv_m0 nv_progs).

Example C17_nv_conc_start : md nvc0 = Some nv_m0 /\ wdict nv_m0 = [] /\
  target (dk nvc0) = Some (CW [(0, VInt 1); (1, VInt 10); (2, VStr s_a)]%nat 4 4).
Proof. vm_compute. repeat split; reflexivity. Qed.

(* the state in the middle: the lock is held by thread 1, one complete save of thread 0 and three operations of the
   save of thread 1 were made, the temporary file is partial, the stored file is the complete document of thread 0 *)
Example C17_nv_conc_mid :
  c_lock nv_mid = Some 1%nat /\
  c_ev nv_mid = flat_map blk [(0, 4)]%nat ++ map (pair 1%nat) (firstn 3 (save_ops 4)) /\
  tmp (c_disk nv_mid) = Some (CW [(0, VInt 5); (1, VInt 5); (2, VStr s_a)]%nat 1 4) /\
  target (c_disk nv_mid) = Some (CW [(0, VInt 5); (1, VInt 10); (2, VStr s_a)]%nat 4 4) /\
  target (c_disk nv_mid) <> target (dk nvc0) /\
  c_disk nv_mid = fs_run [(0, VInt 5); (1, VInt 5); (2, VStr s_a)]%nat 4 (firstn 3 (save_ops 4))
                    {| target := Some (CW [(0, VInt 5); (1, VInt 10); (2, VStr s_a)]%nat 4 4); tmp := None |}.
Proof. vm_compute. repeat split; try reflexivity. discriminate. Qed.

(* the state at the end: three complete saves (thread 0, thread 1, thread 0), lock free, all threads done *)
Example C17_nv_conc_end :
  c_lock nv_end = None /\ all_done nv_end = true /\
  c_ev nv_end = flat_map blk [(0, 4); (1, 4); (0, 3)]%nat /\
  c_disk nv_end = {| target := Some (CW [(0, VInt 5); (1, VInt 5); (2, VStr s_b)]%nat 3 3); tmp := None |}.
Proof. vm_compute. repeat split; reflexivity. Qed.

(* the theorem at the instance: with the lock held the save in progress exists *)
Example C17_concurrent_saves_serialised_applies :
  exists blocks cur,
    c_ev nv_mid = flat_map blk blocks ++
                  match cur with Some (i, n, j) => map (pair i) (firstn j (save_ops n)) | None => [] end /\
    cur <> None.
Proof.
  destruct (C17_concurrent_saves_serialised nvC (dk nvc0) nv_m0 nv_progs nv_sch_mid) as [[blocks [cur [H1 H2]]] _].
  exists blocks, cur. split; [exact H1|]. intros E. apply H2 in E. vm_compute in E. discriminate.
Qed.

(* ------------------------------------------------------------------ C17_unlocked_saves_leave_empty_file *)
(* closed statement (ConcCounter.v), no premise *)

(* ------------------------------------------------------------------ C17_crash_atomic_any_sequence *)
(* premises: seq_safe n t ops = true; forall j, t = Some j -> tmp d = Some (CW data j n).
   (a) t = Some 2: the rest of an interrupted 4-chunk save (2 chunks are in the temporary file) followed by a whole
       second save - a sequence that is not save_ops; (b) t = None: two saves on a disk with a stale temporary file *)
Definition nv_rest_ops : list fsop := [FWrite 2; FWrite 3; FClose; FRename; FRemove] ++ save_ops 4.
Definition nv_disk_half : disk := {| target := Some (CW nv_old 3 3); tmp := Some (CW nv_new 2 4) |}.

Example C17_nonvacuous_any_sequence :
  seq_safe 4 (Some 2%nat) nv_rest_ops = true /\
  (forall j, Some 2%nat = Some j -> tmp nv_disk_half = Some (CW nv_new j 4)) /\
  seq_safe 4 None (save_ops 4 ++ save_ops 4) = true /\
  (forall j, @None nat = Some j -> tmp nv_disk_stale = Some (CW nv_new j 4)).
Proof.
  split; [vm_compute; reflexivity|]. split; [intros j H; inversion H; reflexivity|].
  split; [vm_compute; reflexivity|]. intros j H; discriminate.
Qed.

Example C17_crash_atomic_any_sequence_applies : forall k,
  target (fs_run nv_new 4 (firstn k nv_rest_ops) nv_disk_half) = target nv_disk_half \/
  target (fs_run nv_new 4 (firstn k nv_rest_ops) nv_disk_half) = Some (CW nv_new 4 4).
Proof.
  intros k. apply (C17_crash_atomic_any_sequence nv_new 4 nv_rest_ops (Some 2%nat) nv_disk_half k).
  - vm_compute. reflexivity.
  - intros j H. inversion H. reflexivity.
Qed.

(* both disjuncts occur: before (k = 3) and after (k = 4) the rename *)
Example C17_nv_any_sequence_both :
  target (fs_run nv_new 4 (firstn 3 nv_rest_ops) nv_disk_half) = Some (CW nv_old 3 3) /\
  target (fs_run nv_new 4 (firstn 4 nv_rest_ops) nv_disk_half) = Some (CW nv_new 4 4) /\
  target (fs_run nv_new 4 (firstn 9 nv_rest_ops) nv_disk_half) = Some (CW nv_new 4 4) /\
  tmp (fs_run nv_new 4 (firstn 9 nv_rest_ops) nv_disk_half) = Some (CW nv_new 2 4).
Proof. vm_compute. repeat split; reflexivity. Qed.

(* the check is not trivially true: sequences it rejects *)
Example C17_nv_seq_safe_rejects :
  seq_safe 4 (Some 2%nat) [FWrite 2; FClose; FRename] = false /\          (* rename of a partial file *)
  seq_safe 4 None [FClose; FRename] = false /\                            (* rename of an unknown file *)
  seq_safe 4 None (save_ops 3) = false.                                   (* wrong chunk count *)
Proof. vm_compute. repeat split; reflexivity. Qed.

(* ------------------------------------------------------------------ C17_save_ops_safe, C17_fault_free_save_is_save_ops *)
(* no premise *)
Example C17_nv_fault_free :
  save_log None nv_new 4 nv_disk_stale = save_ops 4 /\
  s_disk (save_file None nv_new 4 nv_disk_stale) = {| target := Some (CW nv_new 4 4); tmp := None |} /\
  save_log (Some (FWrite 1, KErr)) nv_new 4 nv_disk_stale = [FIsDir; FOpen; FWrite 0; FWrite 1; FClose; FRemove].
Proof. vm_compute. repeat split; reflexivity. Qed.

(* ------------------------------------------------------------------ C17_crash_fault_is_crash_point *)
(* premise: nth_error (save_ops n) k = Some o - true for every k < n + 5 with exactly one o (the operations of one
   save are pairwise different).  Instances: the third write (k = 4) and the rename (k = 7) of a 4-chunk save *)
Example C17_nonvacuous_crash_point :
  nth_error (save_ops 4) 4 = Some (FWrite 2) /\ nth_error (save_ops 4) 7 = Some FRename /\
  nth_error (save_ops 4) 0 = Some FIsDir /\ nth_error (save_ops 4) 8 = Some FRemove.
Proof. vm_compute. repeat split; reflexivity. Qed.

Example C17_crash_fault_is_crash_point_applies :
  s_disk (save_file (Some (FRename, KCrashBefore)) nv_new 4 nv_disk_stale)
    = fs_run nv_new 4 (firstn 7 (save_ops 4)) nv_disk_stale /\
  s_disk (save_file (Some (FRename, KCrashAfter)) nv_new 4 nv_disk_stale)
    = fs_run nv_new 4 (firstn 8 (save_ops 4)) nv_disk_stale.
Proof. apply C17_crash_fault_is_crash_point. vm_compute. reflexivity. Qed.

Example C17_nv_crash_point_states :
  s_disk (save_file (Some (FWrite 2, KCrashBefore)) nv_new 4 nv_disk_stale)
    = {| target := Some (CW nv_old 3 3); tmp := Some (CW nv_new 2 4) |} /\
  s_disk (save_file (Some (FRename, KCrashBefore)) nv_new 4 nv_disk_stale)
    = {| target := Some (CW nv_old 3 3); tmp := Some (CW nv_new 4 4) |} /\
  s_disk (save_file (Some (FRename, KCrashAfter)) nv_new 4 nv_disk_stale)
    = {| target := Some (CW nv_new 4 4); tmp := None |}.
Proof. vm_compute. repeat split; reflexivity. Qed.

(* ------------------------------------------------------------------ C17_remove_before_rename_breaks_atomicity *)
(* closed statement (Counter.v), no premise *)

(* ------------------------------------------------------------------ histories *)
(* a stored file written by somebody else: entries that are out of range (0), of the wrong type (1, 7), unknown (99),
   not persistent (6), and usable ones of the table-based and the compound datatypes (2 scaled, 3 blob, 4 array of
   tuples with 0 for False, 5 struct with an integer for the double and the name of the enum member) *)
Definition nv_half : val := VFlt (FBits 4602678819172646912).
Definition nv_foreign : amap :=
  [(0, VInt 5000); (1, VInt 3); (99, VNull); (2, VInt 5); (3, VStr [66%N; 119%N; 61%N; 61%N]);
   (4, VSeq [VSeq [VInt 1; VInt 0]; VSeq [VInt 9; VBool true]]);
   (5, VMap [(s_a, VInt 2); (s_b, VStr s_on)]); (6, VInt 1); (7, VStr s_a)]%nat.
Definition nv_foreign_disk : disk :=
  {| target := Some (CForeign (PJObj nv_foreign)); tmp := Some (CW nv_old 1 3) |}.
Definition nv_pre : list op := [OInit [] None 5; OCorrupt (Some (CForeign (PJObj nv_foreign)))].
Definition nv_cfg : amap := [(0%nat, VInt 4); (7%nat, VFlt (FBits 4609434218613702656))].
(* seven operations of five kinds; four of them with an OSError (at the rename, at is_dir, at a write, at close) *)
Definition nv_ops : list op :=
  [OWriteInit None 5; OSet 0 (VInt 7) (Some (FRename, KErr)) 5; OSave (Some (FIsDir, KErr)) 5;
   OSet 2 (VFlt (FInt 0)) None 6; OLoad None 5; OReset (Some (FWrite 0, KErr)) 5;
   OSet 4 (VSeq []) (Some (FClose, KErr)) 7].
Definition nv_hist : list op := nv_pre ++ OInit nv_cfg None 5 :: nv_ops.
Definition nv_s : st := run nvM nv_hist st0.
Definition nv_m : mstate :=
  match md nv_s with Some m => m | None => {| vals := []; wdict := []; pdata := None; initd := [] |} end.
Fixpoint nv_trace (M : mdesc) (s : st) (ops : list op) : list res :=
  match ops with [] => [] | o :: r => snd (step M s o) :: nv_trace M (fst (step M s o)) r end.

Lemma nv_own_ops : Forall own_op nv_ops.
Proof. repeat constructor. Qed.

(* what the history does: results of the operations, the state at the end *)
Definition nv_doc_end : amap :=
  [(0, VInt 7); (1, VStr s_a); (2, VInt 0); (3, VStr [66%N; 119%N; 61%N; 61%N]);
   (4, VSeq [VSeq [VInt 1; VBool false]; VSeq [VInt 9; VBool true]]);
   (5, VMap [(s_a, VFlt (FInt 2)); (s_b, VInt 1)]); (7, VFlt (FBits 4609434218613702656))]%nat.
Example C17_nv_history :
  nv_trace nvM st0 nv_hist = [ROk; ROk; ROk; ROk; ROk; RIOErr; ROk; ROk; ROk; ROk] /\
  md nv_s = Some nv_m /\ wdict nv_m = [] /\ pdata nv_m = Some nv_doc_end /\
  target (dk nv_s) = Some (CW nv_doc_end 6 6) /\
  aget 0 (vals nv_m) = Some (VInt 4) /\ aget 4 (vals nv_m) = Some (VSeq []).
Proof. vm_compute. repeat split; reflexivity. Qed.

(* ------------------------------------------------------------------ C17_crash_atomic_step *)
(* premise: is_corrupt o = false (every operation of the module itself).  Instances on the state nv_s: a save that
   fails at a write (stored file stays) and one that dies right after the rename (the new document, 9 chunks) *)
Example C17_nonvacuous_crash_atomic_step :
  is_corrupt (OSet 0 (VInt 9) (Some (FWrite 1, KErr)) 9) = false /\
  is_corrupt (OSet 0 (VInt 9) (Some (FRename, KCrashAfter)) 9) = false /\
  target (dk (fst (step nvM nv_s (OSet 0 (VInt 9) (Some (FWrite 1, KErr)) 9)))) = target (dk nv_s) /\
  (exists data, target (dk (fst (step nvM nv_s (OSet 0 (VInt 9) (Some (FRename, KCrashAfter)) 9)))) = Some (CW data 9 9) /\
                aget 0 data = Some (VInt 9) /\ aget 4 data = Some (VSeq [])) /\
  target (dk (fst (step nvM nv_s (OSet 0 (VInt 9) (Some (FRename, KCrashAfter)) 9)))) <> target (dk nv_s) /\
  md (fst (step nvM nv_s (OSet 0 (VInt 9) (Some (FRename, KCrashAfter)) 9))) = None.
Proof.
  split; [reflexivity|]. split; [reflexivity|]. split; [vm_compute; reflexivity|]. split.
  - eexists. vm_compute. repeat split; reflexivity.
  - split; [vm_compute; discriminate|vm_compute; reflexivity].
Qed.

Example C17_crash_atomic_step_applies :
  let o := OSet 0 (VInt 9) (Some (FRename, KCrashAfter)) 9 in
  target (dk (fst (step nvM nv_s o))) = target (dk nv_s) \/
  exists data, target (dk (fst (step nvM nv_s o))) = Some (CW data 9 9).
Proof. intros o. apply (C17_crash_atomic_step nvM nv_s o). reflexivity. Qed.

(* ------------------------------------------------------------------ C17_never_partial *)
(* premises: Forall op_ok ops (replacements by others are whole files, missing files or foreign bytes),
   content_ok (target (dk s)).  Instance: the history above (it contains an OCorrupt) continued by two more
   replacements, a crash in the middle of a dump and a new start-up, from the state the harness starts with (st0) *)
Definition nv_hist2 : list op :=
  nv_hist ++ [OCorrupt (Some (CW nv_old 3 3)); OInit [] (Some (FWrite 2, KCrashAfter)) 8; OCorrupt None;
              OInit nv_cfg None 8; OCorrupt (Some (CForeign PJInvalid)); OInit [] None 4; OWriteInit None 4].

Example C17_nonvacuous_never_partial : Forall op_ok nv_hist2 /\ content_ok (target (dk st0)).
Proof. split; [|exact I]. repeat constructor. Qed.

Example C17_never_partial_applies : content_ok (target (dk (run nvM nv_hist2 st0))).
Proof. apply C17_never_partial; [repeat constructor|exact I]. Qed.

Example C17_nv_never_partial_state :
  nv_trace nvM st0 nv_hist2 =
    [ROk; ROk; ROk; ROk; ROk; RIOErr; ROk; ROk; ROk; ROk; ROk; RCrash; ROk; ROk; ROk; ROk; ROk] /\
  target (dk (run nvM nv_hist2 st0)) = Some (CW nv_doc0 4 4) /\
  (* the premise matters: a partial file put there by somebody else stays *)
  ~ content_ok (target (dk (run nvM [OCorrupt (Some (CW nv_old 1 3))] st0))).
Proof. split; [vm_compute; reflexivity|]. split; [vm_compute; reflexivity|]. vm_compute. discriminate. Qed.

(* ------------------------------------------------------------------ C17_belief_matches_disk *)
(* premise: Forall own_op ops (nobody else replaces the file after the creation of the module; before it - pre -
   anything may happen, here a foreign document).  The conclusion is not the trivial case of sync: the module
   exists, persistentData is a non-empty document and the stored file parses to it, although four saves failed and
   the values differ from it *)
Example C17_belief_matches_disk_applies : sync nv_s.
Proof. apply (C17_belief_matches_disk nvM nv_pre nv_cfg None 5 nv_ops). exact nv_own_ops. Qed.

Example C17_nv_belief_nontrivial :
  exists m p c, md nv_s = Some m /\ pdata m = Some p /\ p <> [] /\ target (dk nv_s) = Some c /\ parse c = PJObj p /\
                snapshot_of nvM (vals m) <> Some p.
Proof.
  exists nv_m, nv_doc_end, (CW nv_doc_end 6 6).
  split; [vm_compute; reflexivity|]. split; [vm_compute; reflexivity|]. split; [discriminate|].
  split; [vm_compute; reflexivity|]. split; [vm_compute; reflexivity|]. vm_compute. discriminate.
Qed.

(* ------------------------------------------------------------------ C17_retry *)
(* premises: Forall own_op ops, md s = Some m, wdict m = [], snapshot_of M (vals m) = Some data - all about the state
   reached by the history; met by nv_s (writeDict was emptied by OWriteInit / OLoad / OReset; every value is
   exportable).  The retry really writes (SPWrote SOk, not SPNothing) a non-empty document *)
Definition nv_doc_retry : amap :=
  [(0, VInt 4); (1, VStr s_a); (2, VInt 10); (3, VStr [65%N; 81%N; 76%N; 47%N]); (4, VSeq []);
   (5, VMap [(s_a, VFlt (FBits 4609434218613702656))]); (7, VFlt (FBits 4609434218613702656))]%nat.

Example C17_nonvacuous_retry :
  Forall own_op nv_ops /\ md nv_s = Some nv_m /\ wdict nv_m = [] /\ snapshot_of nvM (vals nv_m) = Some nv_doc_retry.
Proof. split; [exact nv_own_ops|]. vm_compute. repeat split; reflexivity. Qed.

Example C17_retry_applies :
  let '(d', m', o) := save_parameters nvM None 6 (dk nv_s) nv_m in
  (nv_doc_retry = [] \/ holds d' nv_doc_retry) /\ in_sync d' m' /\ (o = SPNothing \/ o = SPWrote SOk).
Proof.
  apply (C17_retry nvM nv_pre nv_cfg None 5 nv_ops 6 nv_m nv_doc_retry nv_own_ops); vm_compute; reflexivity.
Qed.

Example C17_nv_retry_writes :
  save_parameters nvM None 6 (dk nv_s) nv_m =
    ({| target := Some (CW nv_doc_retry 6 6); tmp := None |}, set_pdata nv_m (Some nv_doc_retry), SPWrote SOk).
Proof. vm_compute. reflexivity. Qed.

(* ------------------------------------------------------------------ C17_startup *)
(* premise: base_ok M cfg, a law quantified over the parameters of M (finitely many): the configured value or the
   default of every persistent parameter can be exported.  Holds for nvM (defaults valid for their datatypes, the
   tables contain them as the harness builds them) with two configured values; start-up from the foreign document *)
Lemma nv_base_ok : base_ok nvM nv_cfg.
Proof.
  intros i p Hn Hp.
  do 8 (destruct i as [|i]; [inversion Hn; subst p; vm_compute; discriminate|]).
  destruct i; discriminate.
Qed.
Lemma nv_base_ok_nocfg : base_ok nvM [].
Proof.
  intros i p Hn Hp.
  do 8 (destruct i as [|i]; [inversion Hn; subst p; vm_compute; discriminate|]).
  destruct i; discriminate.
Qed.

Example C17_startup_applies :
  snd (do_init nvM nv_cfg None 5 nv_foreign_disk) = ROk /\ md (fst (do_init nvM nv_cfg None 5 nv_foreign_disk)) <> None.
Proof. apply C17_startup. exact nv_base_ok. Qed.

(* base_ok is not trivially true: a default outside the scaled table / a struct default lacking a mandatory member *)
Example C17_nv_base_ok_can_fail :
  ~ base_ok [{| p_dt := nv_scaled; p_pers := 1; p_hasw := false; p_default := VFlt (FInt 7) |}] [] /\
  snd (do_init [{| p_dt := nv_scaled; p_pers := 1; p_hasw := false; p_default := VFlt (FInt 7) |}] [] None 5
         nv_foreign_disk) = RExc.
Proof.
  split; [|vm_compute; reflexivity].
  intros H. apply (H 0%nat _ eq_refl eq_refl). vm_compute. reflexivity.
Qed.

(* ------------------------------------------------------------------ C17_loaded_values_valid *)
(* premises: load_file M d = LOk raw loaded, aget k loaded = Some v.  Met by the foreign document: four of the nine
   entries are loaded (scaled through the table, blob through base64, array of tuples, struct) *)
Definition nv_loaded : amap :=
  [(2, nv_half); (3, VBytes [7%N]); (4, VSeq [VSeq [VInt 1; VBool false]; VSeq [VInt 9; VBool true]]);
   (5, VMap [(s_a, VFlt (FInt 2)); (s_b, VInt 1)])]%nat.

Example C17_nonvacuous_loaded_values :
  load_file nvM nv_foreign_disk = LOk nv_foreign nv_loaded /\
  aget 2 nv_loaded = Some nv_half /\ aget 5 nv_loaded = Some (VMap [(s_a, VFlt (FInt 2)); (s_b, VInt 1)]) /\
  aget 0 nv_loaded = None /\ aget 7 nv_loaded = None.
Proof. vm_compute. repeat split; reflexivity. Qed.

Example C17_loaded_values_valid_applies :
  exists p j x, nth_error nvM 5 = Some p /\ persistent p = true /\
    import (p_dt p) j = Some x /\ validate (p_dt p) x = Some (VMap [(s_a, VFlt (FInt 2)); (s_b, VInt 1)]) /\
    export (p_dt p) (VMap [(s_a, VFlt (FInt 2)); (s_b, VInt 1)]) <> None.
Proof.
  apply (C17_loaded_values_valid nvM nv_foreign_disk nv_foreign nv_loaded 5); vm_compute; reflexivity.
Qed.

(* ------------------------------------------------------------------ C17_tolerant_load *)
(* first part, premises: NoDup (map fst raw), In (k, j) raw, usable M k j = Some v; second part, premise: every entry
   of raw under the key k is unusable.  raw = the nine foreign entries; k = 2 (usable) and k = 0, 6, 7, 99 (not) *)
Lemma nv_foreign_nodup : NoDup (map fst nv_foreign).
Proof. vm_compute. repeat (constructor; [simpl; intuition discriminate|]). constructor. Qed.

Example C17_nonvacuous_tolerant_load :
  NoDup (map fst nv_foreign) /\ In (2%nat, VInt 5) nv_foreign /\ usable nvM 2 (VInt 5) = Some nv_half /\
  (forall j, In (0%nat, j) nv_foreign -> usable nvM 0 j = None) /\
  (forall j, In (6%nat, j) nv_foreign -> usable nvM 6 j = None) /\
  (forall j, In (7%nat, j) nv_foreign -> usable nvM 7 j = None) /\
  (forall j, In (99%nat, j) nv_foreign -> usable nvM 99 j = None).
Proof.
  split; [exact nv_foreign_nodup|]. split; [vm_compute; tauto|]. split; [vm_compute; reflexivity|].
  repeat split; intros j H; simpl in H;
    repeat (destruct H as [H|H]; [inversion H; subst; vm_compute; reflexivity|]); destruct H.
Qed.

Example C17_tolerant_load_applies :
  aget 2 (fold_left (load_entry nvM) nv_foreign []) = Some nv_half /\
  aget 0 (fold_left (load_entry nvM) nv_foreign []) = None.
Proof.
  destruct (C17_tolerant_load nvM nv_foreign 2) as [H _]. destruct (C17_tolerant_load nvM nv_foreign 0) as [_ H0].
  split.
  - apply (H (VInt 5)); [exact nv_foreign_nodup|vm_compute; tauto|vm_compute; reflexivity].
  - apply H0. intros j Hj. simpl in Hj.
    repeat (destruct Hj as [Hj|Hj]; [inversion Hj; subst; vm_compute; reflexivity|]). destruct Hj.
Qed.

(* ------------------------------------------------------------------ C17_precedence *)
(* premise: nth_error M i = Some p.  All three branches on one module: 0 configured (the file says 5000), 2 from the
   file, 1 default (the file entry is unusable), 6 not persistent (the file entry is ignored), 7 configured *)
Example C17_precedence_applies :
  let m := init_state nvM nv_cfg nv_foreign nv_loaded in
  aget 0 (vals m) = Some (VInt 4) /\ aget 2 (vals m) = Some nv_half /\ aget 1 (vals m) = Some (VStr s_a) /\
  aget 6 (vals m) = Some (VInt 0) /\ aget 3 (vals m) = Some (VBytes [7%N]).
Proof.
  intros m. unfold m.
  rewrite (C17_precedence nvM nv_cfg nv_foreign nv_loaded 0 _ eq_refl).
  rewrite (C17_precedence nvM nv_cfg nv_foreign nv_loaded 2 _ eq_refl).
  rewrite (C17_precedence nvM nv_cfg nv_foreign nv_loaded 1 _ eq_refl).
  rewrite (C17_precedence nvM nv_cfg nv_foreign nv_loaded 6 _ eq_refl).
  rewrite (C17_precedence nvM nv_cfg nv_foreign nv_loaded 3 _ eq_refl).
  vm_compute. repeat split; reflexivity.
Qed.

(* ------------------------------------------------------------------ C17_roundtrip_except_adjacent_surrogate_pair *)
(* premises: codec_ok M vs (a law quantified over parameter numbers, values and documents, but only for the values
   vs holds: finitely many instances), snapshot_of M vs = Some data, jtext data = data (the guard of the open finding:
   no string of the document holds an adjacent surrogate pair), nth_error M i = Some p, persistent p = true,
   aget i vs = Some v, aget i cfg = None.  vs = the values of the module created from the foreign document: all
   eight parameters, table-based and compound datatypes included *)
Definition nv_vs : amap := vals (init_state nvM nv_cfg nv_foreign nv_loaded).
Definition nv_doc_vs : amap :=
  [(0, VInt 4); (1, VStr s_a); (2, VInt 5); (3, VStr [66%N; 119%N; 61%N; 61%N]);
   (4, VSeq [VSeq [VInt 1; VBool false]; VSeq [VInt 9; VBool true]]);
   (5, VMap [(s_a, VFlt (FInt 2)); (s_b, VInt 1)]); (7, VFlt (FBits 4609434218613702656))]%nat.

Lemma nv_codec_ok : codec_ok nvM nv_vs.
Proof.
  intros i p v j Hn Hv He.
  do 8 (destruct i as [|i];
        [inversion Hn; subst p; vm_compute in Hv; inversion Hv; subst v; vm_compute in He; inversion He; subst j;
         vm_compute; reflexivity|]).
  destruct i; discriminate.
Qed.

Example C17_nonvacuous_roundtrip_except_adjacent_surrogate_pair :
  codec_ok nvM nv_vs /\ snapshot_of nvM nv_vs = Some nv_doc_vs /\ jtext nv_doc_vs = nv_doc_vs /\
  (exists p, nth_error nvM 2 = Some p /\ persistent p = true) /\ aget 2 nv_vs = Some nv_half /\
  aget 2 [(0%nat, VInt 8)] = None.
Proof.
  split; [exact nv_codec_ok|]. split; [vm_compute; reflexivity|]. split; [vm_compute; reflexivity|].
  split; [eexists; split; reflexivity|].
  split; vm_compute; reflexivity.
Qed.

Example C17_roundtrip_except_adjacent_surrogate_pair_applies :
  (exists raw loaded, load_file nvM {| target := Some (CW nv_doc_vs 7 7); tmp := None |} = LOk raw loaded /\
     aget 2 (vals (init_state nvM [(0%nat, VInt 8)] raw loaded)) = Some nv_half) /\
  (exists raw loaded, load_file nvM {| target := Some (CW nv_doc_vs 7 7); tmp := None |} = LOk raw loaded /\
     aget 3 (vals (init_state nvM [(0%nat, VInt 8)] raw loaded)) = Some (VBytes [7%N])) /\
  (exists raw loaded, load_file nvM {| target := Some (CW nv_doc_vs 7 7); tmp := None |} = LOk raw loaded /\
     aget 5 (vals (init_state nvM [(0%nat, VInt 8)] raw loaded)) = Some (VMap [(s_a, VFlt (FInt 2)); (s_b, VInt 1)])).
Proof.
  split; [|split].
  - eapply (C17_roundtrip_except_adjacent_surrogate_pair nvM nv_vs nv_doc_vs 7 [(0%nat, VInt 8)] 2);
      [exact nv_codec_ok|vm_compute; reflexivity|vm_compute; reflexivity|simpl; reflexivity|reflexivity|vm_compute; reflexivity|reflexivity].
  - eapply (C17_roundtrip_except_adjacent_surrogate_pair nvM nv_vs nv_doc_vs 7 [(0%nat, VInt 8)] 3);
      [exact nv_codec_ok|vm_compute; reflexivity|vm_compute; reflexivity|simpl; reflexivity|reflexivity|vm_compute; reflexivity|reflexivity].
  - eapply (C17_roundtrip_except_adjacent_surrogate_pair nvM nv_vs nv_doc_vs 7 [(0%nat, VInt 8)] 5);
      [exact nv_codec_ok|vm_compute; reflexivity|vm_compute; reflexivity|simpl; reflexivity|reflexivity|vm_compute; reflexivity|reflexivity].
Qed.

(* codec_ok is not trivially true: a scaled table in which two integers give the same double (it cannot come from
   CPython for a non-zero scale) breaks it *)
Example C17_nv_codec_ok_can_fail :
  ~ codec_ok [{| p_dt := DScaled [(1, FInt 3); (2, FInt 3)] (-1000) 0; p_pers := 1; p_hasw := false;
                 p_default := VFlt (FInt 3) |}] [(0%nat, VFlt (FInt 3))].
Proof.
  intros H. specialize (H 0%nat _ (VFlt (FInt 3)) (VInt 1) eq_refl eq_refl eq_refl). vm_compute in H. discriminate.
Qed.

(* ------------------------------------------------------------------ C17_codec_scalar *)
(* premises: scalar d = true, validate d v = Some v, export d v = Some j.  One instance per scalar kind *)
Example C17_nonvacuous_codec_scalar :
  (scalar (DInt (-5) 5) = true /\ validate (DInt (-5) 5) (VInt (-3)) = Some (VInt (-3)) /\
   export (DInt (-5) 5) (VInt (-3)) = Some (VInt (-3))) /\
  (scalar DBool = true /\ validate DBool (VBool true) = Some (VBool true) /\ export DBool (VBool true) = Some (VBool true)) /\
  (scalar (DEnum [(s_on, 1); (s_off, 0)]) = true /\ validate (DEnum [(s_on, 1); (s_off, 0)]) (VInt 1) = Some (VInt 1) /\
   export (DEnum [(s_on, 1); (s_off, 0)]) (VInt 1) = Some (VInt 1)) /\
  (scalar (DStr 1 3 false) = true /\ validate (DStr 1 3 false) (VStr s_on) = Some (VStr s_on) /\
   export (DStr 1 3 false) (VStr s_on) = Some (VStr s_on)) /\
  (scalar DFloat = true /\ validate DFloat nv_half = Some nv_half /\ export DFloat nv_half = Some nv_half).
Proof. vm_compute. repeat split; reflexivity. Qed.

Example C17_codec_scalar_applies :
  usable_dt (DInt (-5) 5) (VInt (-3)) = Some (VInt (-3)) /\ usable_dt DBool (VBool true) = Some (VBool true) /\
  usable_dt (DEnum [(s_on, 1); (s_off, 0)]) (VInt 1) = Some (VInt 1) /\
  usable_dt (DStr 1 3 false) (VStr s_on) = Some (VStr s_on) /\ usable_dt DFloat nv_half = Some nv_half.
Proof. repeat split; apply C17_codec_scalar; reflexivity. Qed.
