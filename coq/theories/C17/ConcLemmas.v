(* C17 - with updateLock the saves of the threads of one module are serialised: invariant of the transition system
   of ConcModel.v for ALL schedules *)
From Coq Require Import List Arith ZArith NArith Bool Lia.
Import ListNotations.
Require Import FV.Base.Util FV.C17.Model FV.C17.LemmasSeq FV.C17.ConcModel.

Lemma nth_set_nth : forall {A} (l : list A) i x k,
  nth_error (set_nth i x l) k = if Nat.eqb k i then (match nth_error l k with Some _ => Some x | None => None end)
                                else nth_error l k.
Proof.
  induction l as [|y l IH]; intros i x k.
  - destruct i, k; simpl; try reflexivity. destruct (Nat.eqb k i); reflexivity.
  - destruct i, k; simpl; try reflexivity. apply IH.
Qed.

Lemma skipn_cons_firstn : forall {A} (l : list A) j o rest,
  skipn j l = o :: rest ->
  firstn (S j) l = firstn j l ++ [o] /\ skipn (S j) l = rest /\ j < length l.
Proof.
  induction l as [|y l IH]; intros j o rest H.
  - destruct j; discriminate.
  - destruct j.
    + simpl in H. inversion H; subst. simpl. repeat split; auto. lia.
    + simpl in H. destruct (IH j o rest H) as [H1 [H2 H3]].
      repeat split.
      * change (firstn (S (S j)) (y :: l)) with (y :: firstn (S j) l). rewrite H1. reflexivity.
      * exact H2.
      * simpl. lia.
Qed.

Lemma skipn_nil_all : forall {A} (l : list A) j, skipn j l = [] -> firstn j l = l.
Proof.
  induction l as [|y l IH]; intros j H; destruct j; simpl in *; auto; try discriminate. now rewrite IH.
Qed.

Local Arguments save_ops : simpl never.
Local Arguments fs_run : simpl never.
Local Arguments firstn : simpl never.
Local Arguments skipn : simpl never.

(* one complete save of thread i: its operations, tagged *)
Definition blk (b : nat * nat) : list (nat * fsop) := map (pair (fst b)) (save_ops (snd b)).

Definition complete_or (T0 c : option content) : Prop := c = T0 \/ exists data n, c = Some (CW data n n).

Section Inv.
Variable M : mdesc.
Variable T0 : option content.          (* the stored file when the threads start *)

Inductive Inv (st : cstate) : Prop :=
| InvFree (blocks : list (nat * nat)) :
    c_lock st = None ->
    (forall k t, nth_error (c_thr st) k = Some t -> t_pc t = None) ->
    complete_or T0 (target (c_disk st)) ->
    c_ev st = flat_map blk blocks ->
    Inv st
| InvHeld (i : nat) (data : amap) (n j : nat) (dprev : disk) (blocks : list (nat * nat)) :
    c_lock st = Some i ->
    (forall k t, nth_error (c_thr st) k = Some t ->
                 t_pc t = if Nat.eqb k i then Some (data, n, skipn j (save_ops n)) else None) ->
    (exists t, nth_error (c_thr st) i = Some t) ->
    skipn j (save_ops n) <> [] ->
    complete_or T0 (target dprev) ->
    c_disk st = fs_run data n (firstn j (save_ops n)) dprev ->
    c_ev st = flat_map blk blocks ++ map (pair i) (firstn j (save_ops n)) ->
    Inv st.

Lemma complete_or_save : forall data n k dprev,
  complete_or T0 (target dprev) ->
  complete_or T0 (target (fs_run data n (firstn k (save_ops n)) dprev)).
Proof.
  intros data n k dprev H.
  destruct (save_all_points data n dprev k) as [E|E]; rewrite E; auto.
  right. now exists data, n.
Qed.

Lemma inv_target : forall st, Inv st -> complete_or T0 (target (c_disk st)).
Proof.
  intros st [blocks H1 H2 H3 H4 | i data n j dprev blocks H1 H2 Hi H3 H4 H5 H6]; auto.
  rewrite H5. now apply complete_or_save.
Qed.

Lemma save_ops_not_nil : forall n, save_ops n <> [].
Proof. intros n. unfold save_ops. discriminate. Qed.

Lemma inv_step : forall st i, Inv st -> Inv (cstep true M st i).
Proof.
  intros st i HI. unfold cstep.
  destruct (nth_error (c_thr st) i) as [t|] eqn:Ht; [|exact HI].
  destruct HI as [blocks H1 H2 H3 H4 | h data n j dprev blocks H1 H2 Hh H3 H4 H5 H6].
  - (* lock free: the thread is idle *)
    rewrite (H2 i t Ht).
    destruct (t_todo t) as [|a todo]; [now apply (InvFree st blocks)|].
    rewrite H1. simpl.
    destruct (save_due M _ (a_p a)) as [data|].
    + apply (InvHeld _ i data (a_n a) 0 (c_disk st) blocks); simpl; auto.
      * intros k t' Hk. rewrite nth_set_nth in Hk.
        destruct (Nat.eqb k i) eqn:E.
        -- destruct (nth_error (c_thr st) k); inversion Hk; subst. reflexivity.
        -- apply (H2 k t' Hk).
      * rewrite nth_set_nth, Nat.eqb_refl, Ht. eauto.
      * apply save_ops_not_nil.
      * now rewrite H4, app_nil_r.
    + apply (InvFree _ blocks); simpl; auto.
      intros k t' Hk. rewrite nth_set_nth in Hk.
      destruct (Nat.eqb k i) eqn:E.
      * destruct (nth_error (c_thr st) k); inversion Hk; subst. reflexivity.
      * apply (H2 k t' Hk).
  - (* lock held by h *)
    rewrite (H2 i t Ht).
    destruct (Nat.eqb i h) eqn:E.
    + apply Nat.eqb_eq in E. subst h.
      destruct (skipn j (save_ops n)) as [|o rest] eqn:Es; [contradiction|].
      destruct (skipn_cons_firstn _ _ _ _ Es) as [F1 [F2 F3]].
      assert (Hd : fst (effect data n (c_disk st) o) = fs_run data n (firstn (S j) (save_ops n)) dprev).
      { rewrite F1. unfold fs_run. rewrite fold_left_app. simpl. unfold fs_run in H5. rewrite <- H5. reflexivity. }
      destruct (effect data n (c_disk st) o) as [d' ok] eqn:Ee. cbn [fst] in Hd.
      destruct rest as [|o2 rest2].
      * (* the last operation of the save: the lock is released *)
        apply (InvFree _ (blocks ++ [(i, n)])); simpl; auto.
        -- intros k t' Hk. rewrite nth_set_nth in Hk.
           destruct (Nat.eqb k i) eqn:E.
           ++ destruct (nth_error (c_thr st) k); inversion Hk; subst. reflexivity.
           ++ specialize (H2 k t' Hk). now rewrite E in H2.
        -- rewrite Hd. now apply complete_or_save.
        -- rewrite H6, flat_map_app. cbn [flat_map]. rewrite app_nil_r. rewrite <- app_assoc. f_equal.
           unfold blk. cbn [fst snd].
           rewrite <- (skipn_nil_all (save_ops n) (S j) F2) at 2.
           rewrite F1, map_app. reflexivity.
      * apply (InvHeld _ i data n (S j) dprev blocks); cbn [c_lock c_thr c_disk c_ev]; auto.
        -- intros k t' Hk. rewrite nth_set_nth in Hk.
           destruct (Nat.eqb k i) eqn:E.
           ++ destruct (nth_error (c_thr st) k); inversion Hk; subst. simpl. now rewrite F2.
           ++ specialize (H2 k t' Hk). now rewrite E in H2.
        -- rewrite nth_set_nth, Nat.eqb_refl, Ht. eauto.
        -- rewrite F2. discriminate.
        -- rewrite H6, F1, map_app, <- app_assoc. reflexivity.
    + (* another thread: idle, and it finds the lock taken *)
      destruct (t_todo t) as [|a todo].
      * now apply (InvHeld st h data n j dprev blocks).
      * rewrite H1. simpl. now apply (InvHeld st h data n j dprev blocks).
Qed.

Lemma inv_run : forall sch st, Inv st -> Inv (crun true M sch st).
Proof.
  induction sch as [|i sch IH]; intros st H; simpl; auto. apply IH. now apply inv_step.
Qed.

End Inv.

Lemma inv_init : forall d m progs, Inv (target d) (cinit d m progs).
Proof.
  intros d m progs. apply (InvFree _ _ []); simpl; auto.
  - intros k t Hk. apply nth_error_In in Hk. apply in_map_iff in Hk. destruct Hk as [p [Hp _]]. now subst t.
  - now left.
Qed.

(* the events of a state that satisfies the invariant: complete saves one after the other, then the operations made
   so far by the one save in progress *)
Lemma inv_events : forall T0 st, Inv T0 st ->
  exists blocks, exists cur : option (nat * nat * nat),
    c_ev st = flat_map blk blocks ++
              match cur with Some (i, n, j) => map (pair i) (firstn j (save_ops n)) | None => [] end /\
    (cur = None <-> c_lock st = None).
Proof.
  intros T0 st [blocks H1 H2 H3 H4 | i data n j dprev blocks H1 H2 Hi H3 H4 H5 H6].
  - exists blocks, None. rewrite app_nil_r. split; auto. tauto.
  - exists blocks, (Some (i, n, j)). split; auto. rewrite H1. split; discriminate.
Qed.

(* every reachable state is a crash point of ONE save (the first j operations of save_ops) applied to a disk whose
   stored file is complete: exactly the situation of C17_crash_atomic_all_points *)
Lemma inv_disk : forall T0 st, Inv T0 st ->
  exists data n j dprev, c_disk st = fs_run data n (firstn j (save_ops n)) dprev /\ complete_or T0 (target dprev).
Proof.
  intros T0 st [blocks H1 H2 H3 H4 | i data n j dprev blocks H1 H2 Hi H3 H4 H5 H6].
  - exists [], 0, 0, (c_disk st). split; auto.
  - exists data, n, j, dprev. split; auto.
Qed.
