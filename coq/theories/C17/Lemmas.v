(* C17 - lemmas about the model: the file sequence of one save under every fault, what it leaves on disk,
   the persistentData / disk synchronisation invariant, tolerant loading and start-up precedence. *)
From Coq Require Import List Arith ZArith NArith Bool Lia.
Import ListNotations.
Require Import FV.Base.Util FV.C17.Model.

(* ------------------------------------------------------------------ python dicts *)
Lemma aget_aset_same : forall k v l, aget k (aset k v l) = Some v.
Proof.
  intros k v l. unfold aget. induction l as [|[k' v'] r IH]; simpl.
  - now rewrite Nat.eqb_refl.
  - destruct (Nat.eqb k k') eqn:E; simpl.
    + now rewrite Nat.eqb_refl.
    + now rewrite E.
Qed.

Lemma aget_aset_other : forall k k' v l, k <> k' -> aget k (aset k' v l) = aget k l.
Proof.
  intros k k' v l H. unfold aget. induction l as [|[k2 v2] r IH]; simpl.
  - apply Nat.eqb_neq in H. now rewrite H.
  - destruct (Nat.eqb k' k2) eqn:E; simpl.
    + apply Nat.eqb_eq in E. subst k2. apply Nat.eqb_neq in H. now rewrite H.
    + destruct (Nat.eqb k k2); auto.
Qed.

(* ------------------------------------------------------------------ one save under a fault *)
Section SaveFile.
Variable f : fault.
Variable data : amap.
Variable n : nat.

Definition tgt (s : sv) : option content := target (s_disk s).
Definition newc : option content := Some (CW data n n).

Inductive Sh (T : option content) : nat -> sv -> Prop :=
| ShRun : forall k s, s_disk s = {| target := T; tmp := Some (CW data k n) |} -> s_ctl s = CRun -> s_err s = false ->
    s_done s = false -> Sh T k s
| ShFail : forall k s, tgt s = T -> s_ctl s = CFail -> s_err s = true -> s_done s = false ->
    (exists o, f = Some (o, KErr)) -> Sh T k s
| ShAbort : forall k s, tgt s = T -> s_ctl s = CAbort -> s_err s = true -> s_done s = false ->
    (exists o, f = Some (o, KErr)) -> Sh T k s
| ShDead : forall k s, tgt s = T -> s_ctl s = CDead -> (exists o kd, f = Some (o, kd) /\ kd <> KErr) -> Sh T k s.

Lemma fault_at_some : forall o k, fault_at f o = Some k -> f = Some (o, k).
Proof.
  unfold fault_at. intros o k H. destruct f as [[o' k']|]; try discriminate.
  destruct (fsop_eqb o o') eqn:E; try discriminate. inversion H; subst.
  destruct o, o'; simpl in E; try discriminate; try reflexivity.
  apply Nat.eqb_eq in E. now subst.
Qed.

Ltac fault_cases o :=
  let E := fresh "E" in
  destruct (fault_at f o) as [[]|] eqn:E; [apply fault_at_some in E .. | idtac].

Ltac dead_fault := eexists _, _; split; [eassumption|discriminate].
Ltac sh_solve :=
  first [ solve [apply ShRun; simpl; auto]
        | solve [apply ShFail; unfold tgt; simpl; eauto]
        | solve [apply ShAbort; unfold tgt; simpl; eauto]
        | solve [apply ShDead; unfold tgt; simpl; auto; dead_fault] ].

(* is_dir() before the try block, then the open *)
Lemma sh_open : forall d, Sh (target d) 0 (exec f data n (exec f data n (sv0 d) FIsDir) FOpen).
Proof.
  intros [t tm]. unfold exec at 2. unfold apply_effect. simpl.
  fault_cases FIsDir; simpl; unfold exec, enabled, apply_effect; simpl; try sh_solve.
  fault_cases FOpen; simpl; sh_solve.
Qed.

Lemma sh_write : forall T k s i, Sh T k s -> Sh T (S k) (exec f data n s (FWrite i)).
Proof.
  intros T k [[t tm] c op er dn] i H. inversion H; subst; simpl in *; subst; unfold exec, enabled, apply_effect; simpl.
  - inversion H0; subst. fault_cases (FWrite i); simpl; sh_solve.
  - sh_solve.
  - sh_solve.
  - sh_solve.
Qed.

Lemma sh_writes : forall m T a k s, Sh T k s -> Sh T (k + m) (fold_left (exec f data n) (map FWrite (seq a m)) s).
Proof.
  induction m; intros T a k s H; simpl.
  - now rewrite Nat.add_0_r.
  - replace (k + S m) with (S k + m) by lia. apply IHm. now apply sh_write.
Qed.

Lemma sh_close : forall T k s, Sh T k s -> Sh T k (exec f data n s FClose).
Proof.
  intros T k [[t tm] c op er dn] H. inversion H; subst; simpl in *; subst; unfold exec, enabled, apply_effect; simpl;
    destruct op; simpl; try sh_solve.
  - inversion H0; subst. fault_cases FClose; simpl; sh_solve.
  - destruct H4 as [o Ho]. fault_cases FClose; simpl; try sh_solve; rewrite Ho in E; discriminate.
Qed.


(* what one save leaves behind: the complete classification *)
Definition is_crash_fault : Prop := exists o kd, f = Some (o, kd) /\ kd <> KErr.
Definition is_err_fault (o : fsop) : Prop := f = Some (o, KErr).

Inductive outcome (T : option content) (s : sv) : Prop :=
| OutOk : sres_of s = SOk -> s_disk s = {| target := newc; tmp := None |} -> s_done s = true -> outcome T s
| OutCrash : sres_of s = SCrash -> is_crash_fault -> (tgt s = T \/ tgt s = newc) -> outcome T s
| OutErr : forall o, sres_of s = SErr -> is_err_fault o ->
    ((tgt s = T /\ s_done s = false) \/ (o = FRemove /\ tgt s = newc /\ s_done s = true)) -> outcome T s.

Ltac out_solve :=
  first [ solve [apply OutOk; unfold sres_of, newc; simpl; auto]
        | solve [apply OutCrash; unfold sres_of, tgt, newc; simpl; auto; dead_fault]
        | solve [eapply OutErr; unfold sres_of, tgt, newc, is_err_fault; simpl; eauto] ].

Lemma rename_remove : forall T s, Sh T n s ->
  outcome T (exec f data n (exec f data n s FRename) FRemove).
Proof.
  intros T [[t tm] c op er dn] H. inversion H; subst; simpl in *; subst.
  - inversion H0; subst. unfold exec at 2. unfold enabled, apply_effect. simpl.
    fault_cases FRename; simpl; unfold exec, enabled, apply_effect; simpl; try out_solve.
    + rewrite E. simpl. out_solve.
    + fault_cases FRemove; simpl; out_solve.
  - destruct H4 as [o Ho]. unfold exec, enabled, apply_effect. simpl.
    fault_cases FRemove; simpl; try out_solve; rewrite Ho in E; discriminate.
  - destruct H4 as [o Ho]. unfold exec, enabled. simpl. out_solve.
  - unfold exec, enabled. simpl. out_solve.
Qed.

Lemma save_file_outcome : forall d, outcome (target d) (save_file f data n d).
Proof.
  intros d. unfold save_file, save_ops. simpl. rewrite fold_left_app. simpl.
  apply rename_remove. apply sh_close.
  change n with (0 + n) at 1. apply (sh_writes n (target d) 0 0). apply sh_open.
Qed.

End SaveFile.

(* ------------------------------------------------------------------ consequences for the stored file *)
Lemma save_file_target : forall f data n d,
  target (s_disk (save_file f data n d)) = target d \/ target (s_disk (save_file f data n d)) = Some (CW data n n).
Proof.
  intros. destruct (save_file_outcome f data n d) as [H1 H2 H3|H1 H2 H3|o H1 H2 H3].
  - right. now rewrite H2.
  - exact H3.
  - destruct H3 as [[H3 _]|[_ [H3 _]]]; auto.
Qed.

Lemma save_file_nofault : forall data n d,
  sres_of (save_file None data n d) = SOk /\ s_disk (save_file None data n d) = {| target := Some (CW data n n); tmp := None |}
  /\ s_done (save_file None data n d) = true.
Proof.
  intros. destruct (save_file_outcome None data n d) as [H1 H2 H3|H1 H2 H3|o H1 H2 H3].
  - auto.
  - destruct H2 as [o [kd [H2 _]]]. discriminate.
  - discriminate.
Qed.

(* an I/O error before the rename leaves the previous file; the only error after it is the one at remove *)
Lemma save_file_err : forall f data n d, sres_of (save_file f data n d) = SErr ->
  exists o, f = Some (o, KErr) /\
    (target (s_disk (save_file f data n d)) = target d \/ (o = FRemove /\ target (s_disk (save_file f data n d)) = Some (CW data n n))).
Proof.
  intros f data n d H. destruct (save_file_outcome f data n d) as [H1 H2 H3|H1 H2 H3|o H1 H2 H3]; try congruence.
  exists o. split; auto. destruct H3 as [[H3 _]|[E [H3 _]]]; auto.
Qed.

(* the statement after the rename is reached exactly when the new file is in place (unless the process died) *)
Lemma save_file_done : forall f data n d, sres_of (save_file f data n d) <> SCrash ->
  (s_done (save_file f data n d) = true /\ target (s_disk (save_file f data n d)) = Some (CW data n n)) \/
  (s_done (save_file f data n d) = false /\ target (s_disk (save_file f data n d)) = target d /\
   sres_of (save_file f data n d) = SErr).
Proof.
  intros f data n d H. destruct (save_file_outcome f data n d) as [H1 H2 H3|H1 H2 H3|o H1 H2 H3]; try congruence.
  - left. split; auto. now rewrite H2.
  - destruct H3 as [[H3 H4]|[_ [H3 H4]]]; [right|left]; auto.
Qed.

Lemma parse_complete : forall d n, parse (CW d n n) = PJObj (jtext d).
Proof. intros. simpl. replace (Nat.leb (n - 1) n) with true; auto. symmetry. apply Nat.leb_le. lia. Qed.

(* the stored file changes only to a complete new document *)
Definition tstep (n : nat) (d d' : disk) : Prop :=
  target d' = target d \/ exists data, target d' = Some (CW data n n).

Lemma tstep_refl : forall n d, tstep n d d.
Proof. intros; left; reflexivity. Qed.
Lemma tstep_trans : forall n a b c, tstep n a b -> tstep n b c -> tstep n a c.
Proof.
  intros n a b c [H1|[x H1]] [H2|[y H2]]; unfold tstep.
  - left; congruence.
  - right; eauto.
  - right; exists x; congruence.
  - right; eauto.
Qed.

(* reading the file c gives the document p, or what the JSON text of p reads back as (p itself unless a string of p
   holds a high surrogate directly followed by a low one, see jtext in Model.v): p is what json.load returned, or p
   is what json.dump wrote *)
Definition reads_as (c : content) (p : amap) : Prop := parse c = PJObj p \/ parse c = PJObj (jtext p).

(* persistentData describes the stored file (or is the empty dict of a module that has nothing stored) *)
Definition in_sync (d : disk) (m : mstate) : Prop :=
  match pdata m with
  | None => True
  | Some p => p = [] \/ exists c, target d = Some c /\ reads_as c p
  end.

(* the stored file is a complete document equal (python ==) to data *)
Definition holds (d : disk) (data : amap) : Prop :=
  exists c p, target d = Some c /\ reads_as c p /\ (p = data \/ snap_eqb data p = true).

Lemma in_sync_target : forall d d' m, target d' = target d -> in_sync d m -> in_sync d' m.
Proof. intros d d' m H. unfold in_sync. now rewrite H. Qed.

Definition post (f : fault) (n : nat) (d : disk) (m : mstate) (d' : disk) (m' : mstate) (dead : bool) : Prop :=
  tstep n d d' /\ (in_sync d m -> dead = true \/ in_sync d' m').

Lemma save_params_post : forall M f n d m,
  let '(d', m', o) := save_params M f n d m in post f n d m d' m' (crashed o).
Proof.
  intros M f n d m. unfold save_params.
  destruct (snapshot_of M (vals m)) as [data|].
  - destruct (differs data (pdata m)) eqn:D.
    + split.
      * destruct (save_file_target f data n d) as [H|H]; [left; exact H|right; eauto].
      * intros Hs. destruct (sres_of (save_file f data n d)) eqn:R; simpl; auto.
        -- right. destruct (save_file_done f data n d) as [[H1 H2]|[H1 [H2 H3]]]; try congruence.
           rewrite H1. unfold in_sync. simpl. right. rewrite H2. eexists; split; [reflexivity|right; apply parse_complete].
        -- right. destruct (save_file_done f data n d) as [[H1 H2]|[H1 [H2 H3]]]; try congruence.
           ++ rewrite H1. unfold in_sync. simpl. right. rewrite H2. eexists; split; [reflexivity|right; apply parse_complete].
           ++ rewrite H1. eapply in_sync_target; eauto.
    + split; [apply tstep_refl|]. intros H. right. exact H.
  - split; [apply tstep_refl|]. intros H. right. exact H.
Qed.

Lemma save_parameters_post : forall M f n d m,
  let '(d', m', o) := save_parameters M f n d m in post f n d m d' m' (crashed o).
Proof.
  intros M f n d m. unfold save_parameters. destruct (wdict m).
  - apply save_params_post.
  - split; [apply tstep_refl|]. intros H; right; exact H.
Qed.

Lemma in_sync_vals : forall d m v, in_sync d (set_vals m v) <-> in_sync d m.
Proof. intros; unfold in_sync; simpl; tauto. Qed.
Lemma in_sync_wdict : forall d m v, in_sync d (set_wdict m v) <-> in_sync d m.
Proof. intros; unfold in_sync; simpl; tauto. Qed.
Lemma in_sync_initd : forall d m v, in_sync d (set_initd m v) <-> in_sync d m.
Proof. intros; unfold in_sync; simpl; tauto. Qed.

Lemma announce_post : forall M f n d m p v,
  let '(d', m', dead) := announce M f n d m p v in post f n d m d' m' dead.
Proof.
  intros M f n d m p v. unfold announce. destruct (is_auto M p).
  - pose proof (save_parameters_post M f n d (set_vals m (aset p v (vals m)))) as H.
    destruct (save_parameters M f n d (set_vals m (aset p v (vals m)))) as [[d' m'] o].
    destruct H as [H1 H2]. split; [exact H1|]. intros Hs. apply H2. now apply in_sync_vals.
  - split; [apply tstep_refl|]. intros H; right. now apply in_sync_vals.
Qed.

(* a chain of posts *)
Definition inv_acc (f : fault) (n : nat) (d : disk) (m : mstate) (acc : disk * mstate * bool) : Prop :=
  let '(d', m', dead) := acc in post f n d m d' m' dead.

Lemma post_chain : forall f n d m d1 m1 d2 m2 dead2,
  post f n d m d1 m1 false -> post f n d1 m1 d2 m2 dead2 -> post f n d m d2 m2 dead2.
Proof.
  intros f n d m d1 m1 d2 m2 dead2 [A1 A2] [B1 B2]. split.
  - eapply tstep_trans; eauto.
  - intros Hs. destruct (A2 Hs) as [X|X]; [discriminate|]. auto.
Qed.

Lemma wi_step_inv : forall M f n d m acc pv, inv_acc f n d m acc -> inv_acc f n d m (wi_step M f n acc pv).
Proof.
  intros M f n d m [[d1 m1] dead1] pv H. unfold wi_step. destruct dead1; auto.
  destruct (aget (fst pv) (wdict m1)) as [v|]; auto.
  pose proof (announce_post M f n d1 (set_wdict m1 (adel (fst pv) (wdict m1))) (fst pv) v) as P.
  destruct (announce M f n d1 (set_wdict m1 (adel (fst pv) (wdict m1))) (fst pv) v) as [[d2 m2] dead2].
  simpl in *. eapply post_chain; [exact H|]. destruct P as [P1 P2]. split; [exact P1|].
  intros Hs. apply P2. now apply in_sync_wdict.
Qed.

Lemma fold_wi_inv : forall M f n d m l acc, inv_acc f n d m acc -> inv_acc f n d m (fold_left (wi_step M f n) l acc).
Proof. induction l; intros acc H; simpl; auto. apply IHl. now apply wi_step_inv. Qed.

Lemma write_init_post : forall M f n d m,
  let '(d', m', dead) := write_init M f n d m in post f n d m d' m' dead.
Proof.
  intros M f n d m. unfold write_init.
  pose proof (fold_wi_inv M f n d m (wdict m) (d, m, false)) as H.
  destruct (fold_left (wi_step M f n) (wdict m) (d, m, false)) as [[d' m'] dead]. apply H.
  simpl. split; [apply tstep_refl|]. intros Hs; right; exact Hs.
Qed.

(* ------------------------------------------------------------------ whole operations *)
Definition sync (s : st) : Prop := match md s with Some m => in_sync (dk s) m | None => True end.

Definition op_fault (o : op) : fault :=
  match o with
  | OInit _ f _ | OSet _ _ f _ | OSave f _ | OWriteInit f _ | OLoad f _ | OReset f _ => f
  | OCorrupt _ => None
  end.
Definition op_n (o : op) : nat :=
  match o with
  | OInit _ _ n | OSet _ _ _ n | OSave _ n | OWriteInit _ n | OLoad _ n | OReset _ n => n
  | OCorrupt _ => 0
  end.
Definition is_corrupt (o : op) : bool := match o with OCorrupt _ => true | _ => false end.

Lemma load_file_sync : forall M d raw loaded, load_file M d = LOk raw loaded ->
  raw = [] \/ exists c, target d = Some c /\ reads_as c raw.
Proof.
  intros M d raw loaded. unfold load_file. destruct (target d) as [c|].
  - destruct (parse c) eqn:P; intros H; inversion H; subst; auto. right. exists c. split; [reflexivity|left; exact P].
  - intros H; inversion H; auto.
Qed.

Lemma init_step_pdata : forall cfg loaded m ip, pdata (init_step cfg loaded m ip) = pdata m.
Proof.
  intros cfg loaded m ip. unfold init_step. destruct (persistent (snd ip)); auto.
  destruct (aget (fst ip) (vals m)); auto. destruct (amem (fst ip) cfg); auto.
  destruct (p_hasw (snd ip)); auto.
Qed.

Lemma init_state_pdata : forall M cfg raw loaded, pdata (init_state M cfg raw loaded) = Some raw.
Proof.
  intros. unfold init_state.
  assert (G : forall L m, pdata (fold_left (init_step cfg loaded) L m) = pdata m).
  { induction L; intros; simpl; auto. rewrite IHL. apply init_step_pdata. }
  now rewrite G.
Qed.

Lemma finish_sync : forall d m dead, dead = true \/ in_sync d m -> sync (fst (finish d m dead)).
Proof. intros d m dead H. unfold finish, sync. destruct dead; simpl; auto. destruct H; [discriminate|auto]. Qed.

Lemma do_init_sync : forall M cfg f n d, sync (fst (do_init M cfg f n d)).
Proof.
  intros M cfg f n d. unfold do_init.
  destruct (snd (pre_ops f init_pre)) as [[]|]; try exact I.
  destruct (load_file M d) as [raw loaded] eqn:L.
  pose proof (save_params_post M f n d (init_state M cfg raw loaded)) as P.
  destruct (save_params M f n d (init_state M cfg raw loaded)) as [[d' m'] o].
  destruct P as [_ P]. assert (S0 : in_sync d (init_state M cfg raw loaded)).
  { unfold in_sync. rewrite init_state_pdata. eapply load_file_sync; eauto. }
  specialize (P S0). unfold sync. destruct o as [|[]|]; simpl in *; auto; destruct P; auto; discriminate.
Qed.

Lemma do_init_tstep : forall M cfg f n d, tstep n d (dk (fst (do_init M cfg f n d))).
Proof.
  intros M cfg f n d. unfold do_init.
  destruct (snd (pre_ops f init_pre)) as [[]|]; try apply tstep_refl.
  destruct (load_file M d) as [raw loaded].
  pose proof (save_params_post M f n d (init_state M cfg raw loaded)) as P.
  destruct (save_params M f n d (init_state M cfg raw loaded)) as [[d' m'] o].
  destruct P as [P _]. destruct o as [|[]|]; simpl; auto.
Qed.

Lemma load_step_pdata : forall M m kv, pdata (load_step M m kv) = pdata m.
Proof.
  intros. unfold load_step. destruct (nth_error M (fst kv)) as [p|]; auto. destruct (p_hasw p); auto.
Qed.

(* every operation with every fault: the stored file stays or becomes a complete document, and persistentData
   keeps describing the stored file *)
Lemma step_post : forall M s o, is_corrupt o = false ->
  tstep (op_n o) (dk s) (dk (fst (step M s o))) /\ (sync s -> sync (fst (step M s o))).
Proof.
  intros M s o Hc. destruct o; try discriminate; simpl.
  - split; [apply do_init_tstep|]. intros _. apply do_init_sync.
  - destruct (md s) as [m|] eqn:E; simpl; [|split; [apply tstep_refl|auto]].
    pose proof (announce_post M f n (dk s) m p v) as P.
    destruct (announce M f n (dk s) m p v) as [[d' m'] dead]. destruct P as [P1 P2].
    split; [unfold finish; destruct dead; exact P1|].
    intros Hs. apply finish_sync. apply P2. unfold sync in Hs. now rewrite E in Hs.
  - destruct (md s) as [m|] eqn:E; simpl; [|split; [apply tstep_refl|auto]].
    unfold do_save. pose proof (save_parameters_post M f n (dk s) m) as P.
    destruct (save_parameters M f n (dk s) m) as [[d' m'] o]. destruct P as [P1 P2].
    split; [destruct o as [|[]|]; exact P1|].
    intros Hs. unfold sync in Hs. rewrite E in Hs. specialize (P2 Hs).
    destruct o as [|[]|]; simpl in *; unfold sync; simpl; auto; destruct P2; auto; discriminate.
  - destruct (md s) as [m|] eqn:E; simpl; [|split; [apply tstep_refl|auto]].
    pose proof (write_init_post M f n (dk s) m) as P.
    destruct (write_init M f n (dk s) m) as [[d' m'] dead]. destruct P as [P1 P2].
    split; [unfold finish; destruct dead; exact P1|].
    intros Hs. apply finish_sync. apply P2. unfold sync in Hs. now rewrite E in Hs.
  - destruct (md s) as [m|] eqn:E; simpl; [|split; [apply tstep_refl|auto]].
    unfold do_load.
    destruct (snd (pre_ops f load_pre)) as [[]|];
      try (split; [apply tstep_refl|intros Hs; unfold sync in *; simpl; try exact I; now rewrite E in Hs]).
    destruct (load_file M (dk s)) as [raw loaded] eqn:L.
    pose proof (write_init_post M f n (dk s) (fold_left (load_step M) loaded (set_pdata m (Some raw)))) as P.
    destruct (write_init M f n (dk s) (fold_left (load_step M) loaded (set_pdata m (Some raw)))) as [[d' m'] dead].
    destruct P as [P1 P2]. split; [unfold finish; destruct dead; exact P1|].
    intros _. apply finish_sync. apply P2. unfold in_sync.
    assert (G : forall l m0, pdata (fold_left (load_step M) l m0) = pdata m0).
    { induction l; intros; simpl; auto. rewrite IHl. apply load_step_pdata. }
    rewrite G. simpl. eapply load_file_sync; eauto.
  - destruct (md s) as [m|] eqn:E; simpl; [|split; [apply tstep_refl|auto]].
    unfold do_reset.
    pose proof (write_init_post M f n (dk s)
      (set_wdict m (fold_left (fun acc kv => aset (fst kv) (snd kv) acc) (initd m) (wdict m)))) as P.
    destruct (write_init M f n (dk s)
      (set_wdict m (fold_left (fun acc kv => aset (fst kv) (snd kv) acc) (initd m) (wdict m)))) as [[d' m'] dead].
    destruct P as [P1 P2]. split; [unfold finish; destruct dead; exact P1|].
    intros Hs. apply finish_sync. apply P2. apply in_sync_wdict. unfold sync in Hs. now rewrite E in Hs.
Qed.

(* no partially written document is ever the stored file *)
Definition content_ok (c : option content) : Prop :=
  match c with Some (CW _ k n) => k = n | _ => True end.
Definition op_ok (o : op) : Prop := match o with OCorrupt c => content_ok c | _ => True end.

Lemma tstep_ok : forall n d d', tstep n d d' -> content_ok (target d) -> content_ok (target d').
Proof. intros n d d' [H|[x H]] Hd; rewrite H; simpl; auto. Qed.

Lemma step_target_ok : forall M s o, op_ok o -> content_ok (target (dk s)) -> content_ok (target (dk (fst (step M s o)))).
Proof.
  intros M s o Ho Hs. destruct (is_corrupt o) eqn:C.
  - destruct o; try discriminate. simpl. exact Ho.
  - eapply tstep_ok; [apply (step_post M s o C)|exact Hs].
Qed.

Lemma run_target_ok : forall M ops s, Forall op_ok ops -> content_ok (target (dk s)) -> content_ok (target (dk (run M ops s))).
Proof.
  induction ops; intros s Hf Hs; simpl; auto. inversion Hf; subst. apply IHops; auto. now apply step_target_ok.
Qed.

(* nobody else replaces the stored file under the running module *)
Definition own_op (o : op) : Prop := is_corrupt o = false.

Lemma run_sync : forall M ops s, Forall own_op ops -> sync s -> sync (run M ops s).
Proof.
  induction ops; intros s Hf Hs; simpl; auto. inversion Hf; subst. apply IHops; auto.
  apply (step_post M s a H1); auto.
Qed.

(* a save of a synchronised module without fault puts the current snapshot on disk *)
Lemma snap_eqb_nil : forall data, snap_eqb data [] = true -> data = [].
Proof. intros [|x r]; simpl; auto. discriminate. Qed.

Lemma save_reaches_disk : forall M n d m data,
  wdict m = [] -> snapshot_of M (vals m) = Some data -> in_sync d m ->
  let '(d', m', o) := save_parameters M None n d m in
  (data = [] \/ holds d' data) /\ in_sync d' m' /\ (o = SPNothing \/ o = SPWrote SOk).
Proof.
  intros M n d m data Hw Hd Hs. unfold save_parameters, save_params. rewrite Hw, Hd.
  destruct (differs data (pdata m)) eqn:D.
  - destruct (save_file_nofault data n d) as [H1 [H2 H3]]. rewrite H1, H2, H3. repeat split; auto.
    + right. exists (CW data n n), data. simpl target.
      split; [reflexivity|split; [right; apply parse_complete|left; reflexivity]].
    + unfold in_sync. simpl. right. eexists; split; [reflexivity|right; apply parse_complete].
  - repeat split; auto. unfold differs in D. unfold in_sync in Hs. destruct (pdata m) as [p|]; [|discriminate].
    apply negb_false_iff in D. destruct Hs as [Hs|[c [Hc Hp]]].
    + subst p. left. now apply snap_eqb_nil.
    + right. exists c, p. auto.
Qed.

(* ------------------------------------------------------------------ tolerant loading *)
(* what one stored entry is worth: None = ignored (unknown key, not persistent, import / validate / export raises) *)
Definition usable (M : mdesc) (k : nat) (j : val) : option val :=
  match nth_error M k with
  | Some p => if persistent p then usable_dt (p_dt p) j else None
  | None => None
  end.

Lemma load_entry_usable : forall M acc kv,
  load_entry M acc kv = match usable M (fst kv) (snd kv) with Some v => aset (fst kv) v acc | None => acc end.
Proof.
  intros M acc [k j]. unfold load_entry, usable. simpl. destruct (nth_error M k) as [p|]; auto.
  destruct (persistent p); auto.
Qed.

Lemma load_other_keys : forall M raw acc k,
  (forall j, In (k, j) raw -> usable M k j = None) ->
  aget k (fold_left (load_entry M) raw acc) = aget k acc.
Proof.
  induction raw as [|[k' j'] r IH]; intros acc k H; simpl; auto.
  rewrite IH.
  - rewrite load_entry_usable. simpl. destruct (usable M k' j') as [v|] eqn:U; auto.
    destruct (Nat.eq_dec k k') as [->|N].
    + rewrite (H j') in U; [discriminate|left; reflexivity].
    + now apply aget_aset_other.
  - intros j Hj. apply H. right. exact Hj.
Qed.

(* a usable entry is restored whatever the other entries are; an unusable one is ignored on its own *)
Lemma load_restores : forall M raw acc k j v,
  NoDup (map fst raw) -> In (k, j) raw -> usable M k j = Some v ->
  aget k (fold_left (load_entry M) raw acc) = Some v.
Proof.
  induction raw as [|[k' j'] r IH]; intros acc k j v Hn Hi Hu; simpl in *; [contradiction|].
  inversion Hn; subst. destruct Hi as [E|Hi].
  - inversion E; subst. rewrite load_other_keys.
    + rewrite load_entry_usable. simpl. rewrite Hu. apply aget_aset_same.
    + intros j2 Hj2. exfalso. apply H1. change k with (fst (k, j2)). now apply in_map.
  - eapply IH; eauto.
Qed.

(* whatever the file contains, every value taken from it is the validated import of a stored value and can be
   stored again *)
Definition good_value (M : mdesc) (k : nat) (v : val) : Prop :=
  exists p j x, nth_error M k = Some p /\ persistent p = true /\
    import (p_dt p) j = Some x /\ validate (p_dt p) x = Some v /\ export (p_dt p) v <> None.

Lemma usable_dt_good : forall d j v, usable_dt d j = Some v ->
  exists x, import d j = Some x /\ validate d x = Some v /\ export d v <> None.
Proof.
  intros d j v. unfold usable_dt. destruct (import d j) as [x|]; [|discriminate].
  destruct (validate d x) as [y|] eqn:V; [|discriminate]. destruct (export d y) eqn:X; [|discriminate].
  intros H. inversion H; subst. exists x. repeat split; auto. congruence.
Qed.

Lemma loaded_good : forall M raw acc,
  (forall k v, aget k acc = Some v -> good_value M k v) ->
  forall k v, aget k (fold_left (load_entry M) raw acc) = Some v -> good_value M k v.
Proof.
  induction raw as [|[k' j'] r IH]; intros acc Hacc k v H; simpl in *; [now apply Hacc|].
  eapply IH; [|exact H]. clear H k v. intros k v H. rewrite load_entry_usable in H. simpl in H.
  destruct (usable M k' j') as [v'|] eqn:U; [|now apply Hacc].
  destruct (Nat.eq_dec k k') as [->|N].
  - rewrite aget_aset_same in H. inversion H; subst. unfold usable in U.
    destruct (nth_error M k') as [p|] eqn:Hn; [|discriminate]. destruct (persistent p) eqn:P; [|discriminate].
    apply usable_dt_good in U. destruct U as [x [U1 [U2 U3]]]. exists p, j', x. auto.
  - rewrite aget_aset_other in H by exact N. now apply Hacc.
Qed.

Lemma loaded_values_good : forall M d raw loaded k v,
  load_file M d = LOk raw loaded -> aget k loaded = Some v -> good_value M k v.
Proof.
  intros M d raw loaded k v. unfold load_file. destruct (target d) as [c|].
  - destruct (parse c); intros H; inversion H; subst; try (intros; discriminate).
    apply loaded_good. intros; discriminate.
  - intros H; inversion H; subst. intros; discriminate.
Qed.

(* ------------------------------------------------------------------ start-up precedence *)
Definition has_pers (i : nat) (L : list (nat * pdesc)) : bool :=
  existsb (fun ip => Nat.eqb (fst ip) i && persistent (snd ip)) L.

Definition pick (cfg loaded : amap) (i : nat) (v0 : val) : val :=
  if amem i cfg then v0 else match aget i loaded with Some v => v | None => v0 end.

Lemma pick_idem : forall cfg loaded i v0, pick cfg loaded i (pick cfg loaded i v0) = pick cfg loaded i v0.
Proof. intros. unfold pick. destruct (amem i cfg); auto. destruct (aget i loaded); auto. Qed.

Lemma init_step_vals : forall cfg loaded m ip i,
  aget i (vals (init_step cfg loaded m ip)) =
  match aget i (vals m) with
  | None => None
  | Some v0 => Some (if Nat.eqb (fst ip) i && persistent (snd ip) then pick cfg loaded i v0 else v0)
  end.
Proof.
  intros cfg loaded m [k p] i. unfold init_step. simpl.
  destruct (persistent p) eqn:P; simpl.
  - destruct (Nat.eqb k i) eqn:E; simpl.
    + apply Nat.eqb_eq in E. subst k. destruct (aget i (vals m)) as [v0|] eqn:G; simpl; [|now rewrite G].
      unfold pick. destruct (amem i cfg); simpl; [now rewrite G|].
      destruct (p_hasw p); simpl; now rewrite aget_aset_same.
    + apply Nat.eqb_neq in E. destruct (aget k (vals m)) as [vk|]; simpl.
      * destruct (amem k cfg); simpl; [destruct (aget i (vals m)); auto|].
        assert (aget i (aset k match aget k loaded with Some v => v | None => vk end (vals m)) = aget i (vals m))
          by (apply aget_aset_other; congruence).
        destruct (p_hasw p); simpl; rewrite H; destruct (aget i (vals m)); auto.
      * destruct (aget i (vals m)); auto.
  - rewrite andb_false_r. destruct (aget i (vals m)); auto.
Qed.

Lemma init_fold_vals : forall cfg loaded L m i,
  aget i (vals (fold_left (init_step cfg loaded) L m)) =
  match aget i (vals m) with
  | None => None
  | Some v0 => Some (if has_pers i L then pick cfg loaded i v0 else v0)
  end.
Proof.
  induction L as [|ip L IH]; intros m i; simpl.
  - destruct (aget i (vals m)); auto.
  - rewrite IH, init_step_vals. destruct (aget i (vals m)) as [v0|]; auto.
    destruct (Nat.eqb (fst ip) i && persistent (snd ip)); simpl; auto.
    destruct (has_pers i L); auto. now rewrite pick_idem.
Qed.

Lemma nth_indexed_from : forall (M : mdesc) a k p, nth_error M k = Some p -> In (a + k, p) (combine (seq a (length M)) M).
Proof.
  induction M as [|q M IH]; intros a k p H; destruct k; simpl in *; try discriminate.
  - inversion H; subst. left. now rewrite Nat.add_0_r.
  - right. replace (a + S k) with (S a + k) by lia. now apply IH.
Qed.

Lemma indexed_keys_from : forall (M : mdesc) a i p, In (i, p) (combine (seq a (length M)) M) -> a <= i /\ nth_error M (i - a) = Some p.
Proof.
  induction M as [|q M IH]; intros a i p H; simpl in *; [contradiction|].
  destruct H as [H|H].
  - inversion H; subst. rewrite Nat.sub_diag. auto.
  - apply IH in H. destruct H as [H1 H2]. split; [lia|]. replace (i - a) with (S (i - S a)) by lia. exact H2.
Qed.

Lemma base_vals_get : forall M cfg i p, nth_error M i = Some p ->
  aget i (base_vals M cfg) = Some (match aget i cfg with Some v => v | None => p_default p end).
Proof.
  intros M cfg i p H. unfold base_vals, indexed.
  assert (G : forall (M : mdesc) a k p, nth_error M k = Some p ->
    aget (a + k) (map (fun ip => (fst ip, match aget (fst ip) cfg with Some v => v | None => p_default (snd ip) end))
                   (combine (seq a (length M)) M)) = Some (match aget (a + k) cfg with Some v => v | None => p_default p end)).
  { clear. induction M as [|q M IH]; intros a k p H; destruct k; simpl in *; try discriminate.
    - inversion H; subst. unfold aget at 1. simpl. rewrite Nat.add_0_r, Nat.eqb_refl. reflexivity.
    - unfold aget at 1. simpl. replace (Nat.eqb (a + S k) a) with false by (symmetry; apply Nat.eqb_neq; lia).
      replace (a + S k) with (S a + k) by lia. apply (IH (S a) k p H). }
  apply (G M 0 i p H).
Qed.

Lemma has_pers_indexed : forall M i p, nth_error M i = Some p -> has_pers i (indexed M) = persistent p.
Proof.
  intros M i p H. unfold has_pers, indexed. destruct (persistent p) eqn:P.
  - apply existsb_exists. exists (i, p). split; [apply (nth_indexed_from M 0 i p H)|]. simpl. now rewrite Nat.eqb_refl.
  - destruct (existsb _ _) eqn:E; auto. apply existsb_exists in E. destruct E as [[k q] [Hin Hq]]. simpl in Hq.
    apply andb_true_iff in Hq. destruct Hq as [Hk Hq]. apply Nat.eqb_eq in Hk. subst k.
    apply indexed_keys_from in Hin. destruct Hin as [_ Hin]. rewrite Nat.sub_0_r in Hin. congruence.
Qed.

(* cfg > file > default *)
Lemma init_precedence : forall M cfg raw loaded i p, nth_error M i = Some p ->
  aget i (vals (init_state M cfg raw loaded)) =
  Some (match aget i cfg with
        | Some v => v
        | None => if persistent p then match aget i loaded with Some v => v | None => p_default p end
                  else p_default p
        end).
Proof.
  intros M cfg raw loaded i p H. unfold init_state. rewrite init_fold_vals. simpl.
  rewrite (base_vals_get M cfg i p H), (has_pers_indexed M i p H). unfold pick, amem.
  destruct (aget i cfg); destruct (persistent p); auto.
Qed.

(* ------------------------------------------------------------------ round trip through the stored file *)
Lemma snap_none : forall vs L, fold_left (snapshot_step vs) L None = None.
Proof. induction L; simpl; auto. Qed.

Definition pers_keys (L : list (nat * pdesc)) : list nat := map fst (filter (fun ip => persistent (snd ip)) L).

Lemma snap_fold : forall vs L l0 data, fold_left (snapshot_step vs) L (Some l0) = Some data ->
  (forall i p, In (i, p) L -> persistent p = true ->
     exists v j, aget i vs = Some v /\ export (p_dt p) v = Some j /\ In (i, j) data) /\
  map fst data = map fst l0 ++ pers_keys L /\ incl l0 data.
Proof.
  induction L as [|[k q] L IH]; intros l0 data H; cbn [fold_left] in H.
  - inversion H; subst. repeat split; [intros; contradiction|now rewrite app_nil_r|apply incl_refl].
  - assert (E : snapshot_step vs (Some l0) (k, q) =
                if persistent q then match aget k vs with
                                     | Some v => match export (p_dt q) v with Some j => Some (l0 ++ [(k, j)]) | None => None end
                                     | None => None end else Some l0) by reflexivity.
    rewrite E in H. clear E. unfold pers_keys. simpl. destruct (persistent q) eqn:P.
    + destruct (aget k vs) as [v|] eqn:G; [|rewrite snap_none in H; discriminate].
      destruct (export (p_dt q) v) as [j|] eqn:X; [|rewrite snap_none in H; discriminate].
      apply IH in H. destruct H as [H1 [H2 H3]]. repeat split.
      * intros i p [E|Hin] Pp.
        -- inversion E; subst. exists v, j. repeat split; auto. apply H3. apply in_or_app. right. left. reflexivity.
        -- now apply H1.
      * rewrite H2, map_app. simpl. now rewrite <- app_assoc.
      * intros x Hx. apply H3. apply in_or_app. now left.
    + apply IH in H. destruct H as [H1 [H2 H3]]. repeat split; auto.
      intros i p [E|Hin] Pp; [inversion E; subst; congruence|now apply H1].
Qed.

Lemma pers_keys_bound : forall (M : mdesc) a i, In i (pers_keys (combine (seq a (length M)) M)) -> a <= i.
Proof.
  intros M a i H. unfold pers_keys in H. apply in_map_iff in H. destruct H as [[k p] [E H]]. simpl in E. subst k.
  apply filter_In in H. destruct H as [H _]. apply indexed_keys_from in H. tauto.
Qed.

Lemma pers_keys_nodup : forall (M : mdesc) a, NoDup (pers_keys (combine (seq a (length M)) M)).
Proof.
  induction M as [|q M IH]; intros a; simpl; [constructor|].
  unfold pers_keys. simpl. destruct (persistent q); simpl; [|apply IH].
  constructor; [|apply IH]. intros H. apply pers_keys_bound in H. lia.
Qed.

Lemma snapshot_entries : forall M vs data, snapshot_of M vs = Some data ->
  NoDup (map fst data) /\
  forall i p v, nth_error M i = Some p -> persistent p = true -> aget i vs = Some v ->
    exists j, export (p_dt p) v = Some j /\ In (i, j) data.
Proof.
  intros M vs data H. unfold snapshot_of in H. apply snap_fold in H. destruct H as [H1 [H2 _]]. split.
  - rewrite H2. simpl. apply pers_keys_nodup.
  - intros i p v Hn Hp Hv. destruct (H1 i p (nth_indexed_from M 0 i p Hn) Hp) as [v' [j [A [B C]]]].
    exists j. split; auto. congruence.
Qed.

(* snapshot_of succeeds as soon as every persistent parameter has an exportable value *)
Lemma snap_fold_total : forall vs L l0,
  (forall i p, In (i, p) L -> persistent p = true -> exists v, aget i vs = Some v /\ export (p_dt p) v <> None) ->
  exists data, fold_left (snapshot_step vs) L (Some l0) = Some data.
Proof.
  induction L as [|[k q] L IH]; intros l0 H; cbn [fold_left].
  - eauto.
  - assert (E : snapshot_step vs (Some l0) (k, q) =
                if persistent q then match aget k vs with
                                     | Some v => match export (p_dt q) v with Some j => Some (l0 ++ [(k, j)]) | None => None end
                                     | None => None end else Some l0) by reflexivity.
    rewrite E. clear E. destruct (persistent q) eqn:P.
    + destruct (H k q (or_introl eq_refl) P) as [v [Hv Hx]]. rewrite Hv.
      destruct (export (p_dt q) v) as [j|]; [|congruence]. apply IH. intros i p Hin. apply H. now right.
    + apply IH. intros i p Hin. apply H. now right.
Qed.

Lemma snapshot_total : forall M vs,
  (forall i p, nth_error M i = Some p -> persistent p = true -> exists v, aget i vs = Some v /\ export (p_dt p) v <> None) ->
  snapshot_of M vs <> None.
Proof.
  intros M vs H. unfold snapshot_of. destruct (snap_fold_total vs (indexed M) []) as [data Hd].
  - intros i p Hin Hp. apply indexed_keys_from in Hin. destruct Hin as [_ Hin]. rewrite Nat.sub_0_r in Hin. eauto.
  - intros X. assert (E : Some data = None) by (etransitivity; [symmetry; exact Hd|exact X]). discriminate.
Qed.

(* the values configured and the defaults are storable (they were validated by Module.__init__ / the class) *)
Definition base_ok (M : mdesc) (cfg : amap) : Prop :=
  forall i p, nth_error M i = Some p -> persistent p = true ->
    export (p_dt p) (match aget i cfg with Some v => v | None => p_default p end) <> None.

(* start-up: whatever is on the disk, the module is created *)
Lemma startup_ok : forall M cfg n d, base_ok M cfg ->
  snd (do_init M cfg None n d) = ROk /\ md (fst (do_init M cfg None n d)) <> None.
Proof.
  intros M cfg n d Hb. unfold do_init. cbn [pre_ops init_pre fault_at snd].
  destruct (load_file M d) as [raw loaded] eqn:L.
  assert (S : snapshot_of M (vals (init_state M cfg raw loaded)) <> None).
  { apply snapshot_total. intros i p Hn Hp. rewrite (init_precedence M cfg raw loaded i p Hn), Hp.
    eexists; split; [reflexivity|]. specialize (Hb i p Hn Hp).
    destruct (aget i cfg) as [vc|]; [exact Hb|].
    destruct (aget i loaded) as [vl|] eqn:G; [|exact Hb].
    destruct (loaded_values_good M d raw loaded i vl L G) as [p' [j [x [A [_ [_ [_ E]]]]]]]. congruence. }
  unfold save_params. destruct (snapshot_of M (vals (init_state M cfg raw loaded))) as [data|]; [|congruence].
  destruct (differs data (pdata (init_state M cfg raw loaded))).
  - destruct (save_file_nofault data n d) as [E1 [E2 E3]]. rewrite E1. simpl. split; [reflexivity|discriminate].
  - simpl. split; [reflexivity|discriminate].
Qed.

(* export and the reading of stored entries invert each other on the values at hand *)
Definition codec_ok (M : mdesc) (vs : amap) : Prop :=
  forall i p v j, nth_error M i = Some p -> aget i vs = Some v -> export (p_dt p) v = Some j -> usable_dt (p_dt p) j = Some v.

Lemma roundtrip_module : forall M vs data n cfg i p v,
  codec_ok M vs -> snapshot_of M vs = Some data -> jtext data = data ->
  nth_error M i = Some p -> persistent p = true -> aget i vs = Some v -> aget i cfg = None ->
  exists raw loaded, load_file M {| target := Some (CW data n n); tmp := None |} = LOk raw loaded /\
    aget i (vals (init_state M cfg raw loaded)) = Some v.
Proof.
  intros M vs data n cfg i p v Hc Hs Hj Hn Hp Hv Hcfg.
  destruct (snapshot_entries M vs data Hs) as [Hd He]. destruct (He i p v Hn Hp Hv) as [j [Hx Hin]].
  exists data, (fold_left (load_entry M) data []). split.
  - unfold load_file. cbn [target]. now rewrite parse_complete, Hj.
  - rewrite (init_precedence M cfg data _ i p Hn), Hcfg, Hp.
    rewrite (load_restores M data [] i j v Hd Hin); auto.
    unfold usable. rewrite Hn, Hp. eapply Hc; eauto.
Qed.

(* the inversion law for the scalar datatypes (no CPython table involved): a value valid for the datatype comes back *)
Definition scalar (d : dtype) : bool :=
  match d with DInt _ _ | DBool | DEnum _ | DStr _ _ _ | DFloat => true | _ => false end.

Lemma codec_scalar : forall d v j, scalar d = true -> validate d v = Some v -> export d v = Some j -> usable_dt d j = Some v.
Proof.
  intros d v j Hs Hv H. unfold usable_dt.
  destruct d; try discriminate; destruct v; simpl in *; try discriminate.
  - inversion H; subst. simpl. destruct (Z.leb lo z && Z.leb z hi); [reflexivity|discriminate].
  - inversion H; subst. destruct b; reflexivity.
  - destruct (existsb (Z.eqb z) (map snd ms)) eqn:E; [|discriminate]. inversion H; subst. simpl. repeat (rewrite E; simpl). reflexivity.
  - inversion H; subst. destruct (str_ok minc maxc utf8 s) eqn:E; [|discriminate]. simpl. repeat (rewrite E; simpl). reflexivity.
  - inversion H; subst. reflexivity.
Qed.

(* ------------------------------------------------------------------ the text of strings *)
(* no high surrogate is directly followed by a low surrogate *)
Fixpoint no_adjacent_pair (s : str) : bool :=
  match s with
  | [] => true
  | h :: t => match t with
              | l :: _ => negb (is_high h && is_low l) && no_adjacent_pair t
              | [] => true
              end
  end.

Lemma jtext_str_id : forall s, no_adjacent_pair s = true -> jtext_str s = s.
Proof.
  induction s as [|h t IH]; [reflexivity|]. destruct t as [|l r]; [reflexivity|].
  intros H. change (negb (is_high h && is_low l) && no_adjacent_pair (l :: r) = true) in H.
  apply andb_true_iff in H. destruct H as [H1 H2]. apply negb_true_iff in H1.
  change (jtext_str (h :: l :: r)) with (if is_high h && is_low l then join_pair h l :: jtext_str r else h :: jtext_str (l :: r)).
  rewrite H1. now rewrite (IH H2).
Qed.
