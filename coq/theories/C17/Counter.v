(* C17 - why "only the rename touches the stored file" is an obligation on the code (translator facts
   only_rename_writes_target and target_touched_only_by_final_rename, and the comparison of the recorded call
   sequence with save_ops): the same save with a removal of the stored file inserted before the rename ("os.rename
   does not overwrite on all platforms") is NOT crash-atomic.  This is a statement about a hypothetical sequence,
   not a defect of /repo. *)
From Coq Require Import List Arith ZArith NArith Bool.
Import ListNotations.
Require Import FV.Base.Util FV.C17.Model.

Definition save_ops_remove_first (n : nat) : list fsop :=
  FIsDir :: FOpen :: map FWrite (seq 0 n) ++ [FClose; FRemoveTarget; FRename; FRemove].

Definition cx_old : amap := [(0, VInt 1)].
Definition cx_new : amap := [(0, VInt 2)].
Definition cx_disk : disk := {| target := Some (CW cx_old 3 3); tmp := None |}.

(* the sequence is rejected by seq_safe *)
Lemma counter_writes : forall n m a t rest,
  seq_safe n t (map FWrite (seq a m) ++ FClose :: FRemoveTarget :: rest) = false.
Proof. induction m; intros a t rest; simpl; auto. Qed.

Lemma counter_not_safe : forall n t, seq_safe n t (save_ops_remove_first n) = false.
Proof. intros n t. unfold save_ops_remove_first. cbn [seq_safe]. apply counter_writes. Qed.

(* crash point 7 (after the removal, before the rename): no stored file at all *)
Lemma counter_crash :
  target (fs_run cx_new 3 (firstn 7 (save_ops_remove_first 3)) cx_disk) = None.
Proof. vm_compute. reflexivity. Qed.

(* an OSError raised by the rename: the finally clause removes the temporary file as well - nothing is left *)
Lemma counter_ioerror :
  let s := fold_left (exec (Some (FRename, KErr)) cx_new 3) (save_ops_remove_first 3) (sv0 cx_disk) in
  sres_of s = SErr /\ target (s_disk s) = None /\ tmp (s_disk s) = None.
Proof. vm_compute. repeat split; reflexivity. Qed.
