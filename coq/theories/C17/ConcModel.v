(* C17 - several threads assigning persistent=auto parameters of ONE module at the same time.

   frappy/modulebase.py announceUpdate: the whole body, the loop over the registered parameter callbacks included,
   runs inside `with self.updateLock:`; saveParameters is one of these callbacks; __save_params has no lock of its
   own and uses one fixed temporary file name per module.  So a save is an atomic region only because of updateLock.

   Transition system: every thread has a list of assignments still to do and, while it is inside a save, the
   document it is writing, its chunk count and the file-system operations it still has to make.  One step of a
   thread = what the real thread does between two switch points of the deterministic scheduler of the harness
   (the acquisition of updateLock and every file-system call are the switch points):
     - idle thread: acquire the lock (a step of a thread that finds the lock taken changes nothing: it waits),
       store the value, and if a save is due (persistent=auto, writeDict empty, snapshot differs from persistentData)
       stop before the first file-system operation of the save, keeping the lock; else release and go on;
     - thread inside a save: perform the next file-system operation; after the last one release the lock.
   lk = false is the same system WITHOUT the lock (the callbacks called after updateLock was released): used only for
   the counterexample that shows what the lock is needed for. *)
From Coq Require Import List Arith ZArith NArith Bool.
Import ListNotations.
Require Import FV.Base.Util FV.C17.Model.

Record assign := { a_p : nat; a_v : val; a_n : nat }.   (* a_n: chunk count of the dump if this assignment saves *)

Record cthread := { t_todo : list assign; t_pc : option (amap * nat * list fsop) }.

Record cstate := {
  c_disk : disk;
  c_mod : mstate;
  c_lock : option nat;                  (* owner of updateLock *)
  c_thr : list cthread;
  c_ev : list (nat * fsop);             (* the file-system operations made so far: (thread, operation) *)
}.

Fixpoint set_nth {A} (i : nat) (x : A) (l : list A) : list A :=
  match l, i with
  | [], _ => []
  | _ :: r, 0 => x :: r
  | y :: r, S j => y :: set_nth j x r
  end.

(* is a save due after the value was stored: saveParameters is a callback of persistent=auto parameters only, does
   nothing while writeDict is non-empty, __save_params writes only when the snapshot differs from persistentData *)
Definition save_due (M : mdesc) (m : mstate) (p : nat) : option amap :=
  if is_auto M p then
    match wdict m with
    | [] => match snapshot_of M (vals m) with
            | Some data => if differs data (pdata m) then Some data else None
            | None => None
            end
    | _ => None
    end
  else None.

Definition held (l : option nat) : bool := match l with Some _ => true | None => false end.

Definition cstep (lk : bool) (M : mdesc) (st : cstate) (i : nat) : cstate :=
  match nth_error (c_thr st) i with
  | None => st
  | Some t =>
      match t_pc t with
      | Some (data, n, o :: rest) =>
          let '(d', ok) := effect data n (c_disk st) o in
          let m' := match o with FRename => if ok then set_pdata (c_mod st) (Some data) else c_mod st | _ => c_mod st end in
          match rest with
          | [] => {| c_disk := d'; c_mod := m'; c_lock := (if lk then None else c_lock st);
                     c_thr := set_nth i {| t_todo := t_todo t; t_pc := None |} (c_thr st);
                     c_ev := c_ev st ++ [(i, o)] |}
          | _ => {| c_disk := d'; c_mod := m'; c_lock := c_lock st;
                    c_thr := set_nth i {| t_todo := t_todo t; t_pc := Some (data, n, rest) |} (c_thr st);
                    c_ev := c_ev st ++ [(i, o)] |}
          end
      | Some (_, _, []) =>
          {| c_disk := c_disk st; c_mod := c_mod st; c_lock := (if lk then None else c_lock st);
             c_thr := set_nth i {| t_todo := t_todo t; t_pc := None |} (c_thr st); c_ev := c_ev st |}
      | None =>
          match t_todo t with
          | [] => st
          | a :: todo =>
              if lk && held (c_lock st) then st
              else
                let m1 := set_vals (c_mod st) (aset (a_p a) (a_v a) (vals (c_mod st))) in
                match save_due M m1 (a_p a) with
                | Some data =>
                    {| c_disk := c_disk st; c_mod := m1; c_lock := (if lk then Some i else c_lock st);
                       c_thr := set_nth i {| t_todo := todo; t_pc := Some (data, a_n a, save_ops (a_n a)) |} (c_thr st);
                       c_ev := c_ev st |}
                | None =>
                    {| c_disk := c_disk st; c_mod := m1; c_lock := c_lock st;
                       c_thr := set_nth i {| t_todo := todo; t_pc := None |} (c_thr st);
                       c_ev := c_ev st |}
                end
          end
      end
  end.

Definition cinit (d : disk) (m : mstate) (progs : list (list assign)) : cstate :=
  {| c_disk := d; c_mod := m; c_lock := None;
     c_thr := map (fun p => {| t_todo := p; t_pc := None |}) progs; c_ev := [] |}.

(* a schedule = the thread that makes the next step, for every step *)
Definition crun (lk : bool) (M : mdesc) (sch : list nat) (st : cstate) : cstate := fold_left (cstep lk M) sch st.

Definition all_done (st : cstate) : bool :=
  forallb (fun t => match t_todo t, t_pc t with [], None => true | _, _ => false end) (c_thr st).
