(* C17 - the two ways of saying "the process dies at a file-system call" agree: a crash fault (before / after) of the
   control model at the operation of index k of the save leaves exactly what the plain file-system run of the first
   k (k+1) operations leaves. *)
From Coq Require Import List Arith ZArith NArith Bool Lia FinFun.
Import ListNotations.
Require Import FV.Base.Util FV.C17.Model FV.C17.LemmasSeq.

Lemma fsop_eqb_refl : forall o, fsop_eqb o o = true.
Proof. destruct o; simpl; auto. apply Nat.eqb_refl. Qed.

Lemma fsop_eqb_neq : forall a b, a <> b -> fsop_eqb a b = false.
Proof.
  intros a b H. destruct a, b; simpl; auto; try congruence.
  destruct (Nat.eqb i i0) eqn:E; auto. apply Nat.eqb_eq in E. congruence.
Qed.

Section Link.
Variable data : amap.
Variable n : nat.

Lemma exec_fault_irrel : forall f s o, fault_at f o = None -> exec f data n s o = exec None data n s o.
Proof. intros f s o H. unfold exec. rewrite H. reflexivity. Qed.

Lemma fold_fault_irrel : forall f l s, Forall (fun o => fault_at f o = None) l ->
  fold_left (exec f data n) l s = fold_left (exec None data n) l s.
Proof.
  induction l; intros s H; simpl; auto. inversion H; subst. rewrite exec_fault_irrel by assumption. now apply IHl.
Qed.

Lemma dead_stays : forall f l s, s_ctl s = CDead -> fold_left (exec f data n) l s = s.
Proof.
  induction l; intros s H; simpl; auto.
  assert (E : exec f data n s a = s) by (unfold exec, enabled; rewrite H; reflexivity).
  rewrite E. now apply IHl.
Qed.

Lemma seq_safe_prefix : forall l1 l2 t, seq_safe n t (l1 ++ l2) = true -> seq_safe n t l1 = true.
Proof.
  induction l1 as [|o l1 IH]; intros l2 t H; simpl in *; auto.
  destruct o; try discriminate; eauto.
  destruct t as [k|]; [|discriminate]. apply andb_true_iff in H. destruct H as [H1 H2].
  rewrite H1. simpl. eauto.
Qed.

(* is the temporary file open after the sequence *)
Definition open_of (l : list fsop) (b : bool) : bool :=
  fold_left (fun b o => match o with FOpen => true | FClose => false | _ => b end) l b.

Lemma open_tracks : forall ops t s,
  seq_safe n t ops = true -> tmp_agrees data n t (s_disk s) -> s_ctl s = CRun ->
  s_open (fold_left (exec None data n) ops s) = open_of ops (s_open s).
Proof.
  induction ops as [|o ops IH]; intros t s Hs Ht Hc; simpl; auto.
  destruct s as [[tg tm] c op er dn]. simpl in Hc. subst c. unfold open_of in IH.
  destruct o; simpl in Hs; try discriminate; unfold exec at 2; unfold enabled, apply_effect; simpl in *.
  - apply (IH t); auto.
  - apply (IH t); auto.
  - apply (IH t); auto.
  - apply (IH (Some 0)); simpl; auto.
  - apply (IH (option_map S t)); auto. destruct t as [k|]; simpl in *; auto. now rewrite Ht.
  - destruct op; simpl; apply (IH t); auto.
  - destruct t as [k|]; [|discriminate]. apply andb_true_iff in Hs. destruct Hs as [Hk Hs].
    apply Nat.eqb_eq in Hk. subst k. simpl in Ht. subst tm. simpl.
    apply (IH None); simpl; auto.
  - apply (IH None); simpl; auto.
Qed.

Lemma nodup_app : forall (A : Type) (l1 l2 : list A),
  NoDup l1 -> NoDup l2 -> (forall x, In x l1 -> ~ In x l2) -> NoDup (l1 ++ l2).
Proof.
  induction l1 as [|a l1 IH]; intros l2 H1 H2 H; simpl; auto.
  inversion H1; subst. constructor.
  - intros X. apply in_app_or in X. destruct X as [X|X]; [contradiction|]. apply (H a); simpl; auto.
  - apply IH; auto. intros x Hx. apply H. now right.
Qed.

Lemma save_ops_nodup : NoDup (save_ops n).
Proof.
  unfold save_ops. constructor.
  - simpl. intros [H|H]; [discriminate|]. apply in_app_or in H. destruct H as [H|H].
    + apply in_map_iff in H. destruct H as [x [H _]]. discriminate.
    + simpl in H. intuition discriminate.
  - constructor.
    + intros H. apply in_app_or in H. destruct H as [H|H].
      * apply in_map_iff in H. destruct H as [x [H _]]. discriminate.
      * simpl in H. intuition discriminate.
    + apply nodup_app.
      * apply Injective_map_NoDup; [intros x y E; now inversion E|apply seq_NoDup].
      * repeat constructor; simpl; intuition discriminate.
      * intros x Hx. apply in_map_iff in Hx. destruct Hx as [i [Hx _]]. subst x. simpl. intuition discriminate.
Qed.

(* the operation at index k, and the sequence split there *)
Lemma split_at : forall (l : list fsop) k o, nth_error l k = Some o ->
  l = firstn k l ++ o :: skipn (S k) l.
Proof.
  induction l as [|a l IH]; intros k o H; destruct k; simpl in *; try discriminate.
  - now inversion H.
  - f_equal. now apply IH.
Qed.

Lemma firstn_succ : forall (l : list fsop) k o, nth_error l k = Some o -> firstn (S k) l = firstn k l ++ [o].
Proof.
  induction l as [|a l IH]; intros k o H; destruct k; simpl in *; try discriminate.
  - now inversion H.
  - f_equal. now apply IH.
Qed.

Lemma nth_firstn : forall (l : list fsop) k j, j < k -> nth_error (firstn k l) j = nth_error l j.
Proof.
  induction l; intros k j H; destruct k, j; simpl; auto; try lia. apply IHl. lia.
Qed.

Lemma before_differs : forall k o, nth_error (save_ops n) k = Some o ->
  Forall (fun o' => o' <> o) (firstn k (save_ops n)).
Proof.
  intros k o H. apply Forall_forall. intros x Hx E. subst x.
  apply In_nth_error in Hx. destruct Hx as [j Hj].
  assert (Hjk : j < k).
  { assert (j < length (firstn k (save_ops n))) by (apply nth_error_Some; congruence).
    rewrite firstn_length in H0. lia. }
  assert (Hj' : nth_error (save_ops n) j = Some o).
  { rewrite <- Hj. symmetry. now apply nth_firstn. }
  pose proof save_ops_nodup as N. rewrite NoDup_nth_error in N.
  assert (j = k). { apply N; [apply nth_error_Some; congruence|congruence]. }
  lia.
Qed.

Lemma open_of_writes : forall m a b, open_of (map FWrite (seq a m)) b = b.
Proof. induction m; intros a b; simpl; auto. Qed.

(* the file is open exactly between the open and the close of save_ops *)
Lemma open_before_close : forall k, nth_error (save_ops n) k = Some FClose ->
  open_of (firstn k (save_ops n)) false = true.
Proof.
  intros k H.
  assert (E : nth_error (save_ops n) (S (S n)) = Some FClose).
  { unfold save_ops. simpl. rewrite nth_error_app2; rewrite map_length, seq_length; [|lia].
    now rewrite Nat.sub_diag. }
  pose proof save_ops_nodup as N. rewrite NoDup_nth_error in N.
  assert (k = S (S n)). { apply N; [apply nth_error_Some; congruence|congruence]. }
  subst k. unfold save_ops. simpl.
  rewrite firstn_app. rewrite map_length, seq_length, Nat.sub_diag. simpl. rewrite app_nil_r.
  rewrite firstn_all2 by (rewrite map_length, seq_length; lia).
  apply open_of_writes.
Qed.

Lemma exec_crash_before : forall s o, enabled s o = true ->
  s_ctl (exec (Some (o, KCrashBefore)) data n s o) = CDead /\
  s_disk (exec (Some (o, KCrashBefore)) data n s o) = s_disk s.
Proof.
  intros s o H. unfold exec. rewrite H. simpl. rewrite fsop_eqb_refl. destruct o; split; reflexivity.
Qed.

Lemma exec_crash_after : forall s o, enabled s o = true ->
  s_ctl (exec (Some (o, KCrashAfter)) data n s o) = CDead /\
  s_disk (exec (Some (o, KCrashAfter)) data n s o) = fs_step data n (s_disk s) o.
Proof.
  intros s o H. unfold exec. rewrite H. simpl. rewrite fsop_eqb_refl. split; [reflexivity|].
  unfold apply_effect, fs_step.
  destruct o; simpl; try reflexivity; destruct (tmp (s_disk s)); reflexivity.
Qed.

Theorem crash_index_is_prefix : forall d k o,
  nth_error (save_ops n) k = Some o ->
  s_disk (save_file (Some (o, KCrashBefore)) data n d) = fs_run data n (firstn k (save_ops n)) d /\
  s_disk (save_file (Some (o, KCrashAfter)) data n d) = fs_run data n (firstn (S k) (save_ops n)) d.
Proof.
  intros d k o H.
  pose proof (split_at _ _ _ H) as Sp.
  assert (Safe : seq_safe n None (firstn k (save_ops n)) = true).
  { apply (seq_safe_prefix _ (o :: skipn (S k) (save_ops n))). rewrite <- Sp. apply save_ops_safe. }
  assert (Irr : forall kd, Forall (fun o' => fault_at (Some (o, kd)) o' = None) (firstn k (save_ops n))).
  { intros kd. eapply Forall_impl; [|apply (before_differs k o H)]. intros a Ha. simpl.
    now rewrite fsop_eqb_neq. }
  destruct (exec_nofault_agrees data n (firstn k (save_ops n)) None (sv0 d) Safe I eq_refl) as [A1 A2].
  pose proof (open_tracks (firstn k (save_ops n)) None (sv0 d) Safe I eq_refl) as A3. simpl in A3.
  assert (En : enabled (fold_left (exec None data n) (firstn k (save_ops n)) (sv0 d)) o = true).
  { unfold enabled. rewrite A2. destruct o; auto. rewrite A3. now apply open_before_close. }
  destruct (exec_crash_before _ _ En) as [B1 B2]. destruct (exec_crash_after _ _ En) as [C1 C2].
  pose proof (firstn_succ _ _ _ H) as Hk1.
  rewrite Hk1. clear Hk1.
  remember (firstn k (save_ops n)) as l1. remember (skipn (S k) (save_ops n)) as l2.
  unfold save_file. rewrite Sp. rewrite !fold_left_app. simpl. rewrite !(fold_fault_irrel _ _ _ (Irr _)).
  split.
  - rewrite dead_stays by exact B1. rewrite B2. exact A1.
  - rewrite dead_stays by exact C1. rewrite C2, A1. unfold fs_run. now rewrite fold_left_app.
Qed.
End Link.
