(* C04 — the second validation is a dead branch on reachable states.
   _setParameterValue validates the payload (import_value + validate(value, previous=cached)) and hands the result to the
   write wrapper, which validates it AGAIN (validate(value), no previous value).  C04_change_refused has a branch for
   "first validation Ok v, second validation Err e".  From a cache that holds arbitrary python values the branch fires
   (wire completes a partial struct from the cached value without looking at the members it takes from there; NonVacuity.v,
   C04_change_refused_applies_second_validation).  Here: from every cache whose values are fixed points of validation
   (cache_st), and hence from every state reachable from such a cache by any request sequence, the second validation
   returns exactly the value it was given.  Uses the idempotence theorems of the shared datatype model (C01/Idem.v,
   C01/IdemSmall.v, imported, not edited); their hypotheses on the datatypes (idem_dt: no negative-zero limit, finite
   relative resolution, distinct enum values; small_grids: scaled grids of realistic size) appear as regular_md. *)
From Coq Require Import ZArith NArith Bool List Lia.
Import ListNotations.
Require Import FV.Base.Util FV.Base.F64 FV.Base.PyVal FV.C01.Model FV.C01.Lemmas FV.C01.IdemDefs FV.C01.Idem FV.C01.IdemSmall.
Require Import FV.C04.Model FV.C04.Lemmas FV.C04.LemmasHist.

Definition regular_md (md : mdesc) : Prop :=
  forall p, In (AParam p) (md_acc md) -> idem_dt (p_dt p) = true /\ small_grids (p_dt p) = true.

(* every cached value of a described parameter is a fixed point of its datatype's validation (C01 stable) *)
Definition cache_st (md : mdesc) (c : cache) : Prop :=
  forall p, In (AParam p) (md_acc md) -> exists x, getp c (p_name p) = Some x /\ stable (p_dt p) x = true.

Lemma validate_fix d : wf d -> idem_dt d = true -> small_grids d = true -> forall v prev w,
  prev_st d prev -> dt_validate d v prev = Ok w -> dt_validate d w PNone = Ok w /\ stable d w = true.
Proof.
  intros W I G v prev w P H. destruct (validate_idempotent_small d W I G v prev w P H) as (A & _ & S).
  split; [apply res_same_ok_eq, A|exact S].
Qed.

Section Idem.
Variable E : pyenv.
Variable hook : nat -> pyval -> cache -> hres.

Notation handle := (handle E hook).
Notation step := (step E hook).
Notation final := (final E hook).

Lemma prev_of_st md c p : cache_st md c -> In (AParam p) (md_acc md) -> prev_st (p_dt p) (prev_of c p).
Proof.
  intros C I. destruct (C p I) as (x & G & S). unfold prev_of. rewrite G. right. exact S.
Qed.

(* the cache after the wrapper, for any predicate that holds for the wrapper's argument and for everything validate returns *)
Lemma write_wrapper_cache_gen (Q : pyval -> Prop) p v c d :
  Q v -> (forall r x, dt_validate (p_dt p) r PNone = Ok x -> Q x) ->
  o_cache (write_wrapper hook p v c d) = c \/
  exists x, Q x /\ o_cache (write_wrapper hook p v c d) = setp c (p_name p) x.
Proof.
  intros S V. pose proof (write_wrapper_cases hook p v c d) as H. cbn zeta in H.
  destruct H as [(e & _ & ->)|[(nv & hl & e & _ & _ & ->)|(nv & hl & Hv & _ & H)]]; try (left; reflexivity).
  destruct H as [[_ ->]|(_ & _ & _ & H)].
  - right. exists nv. rewrite store_cache. split; [exact (V _ _ Hv)|reflexivity].
  - destruct H as [(_ & _ & ->)|[(_ & _ & -> & _)|(x & -> & Hx)]]; try (left; reflexivity).
    right. exists x. rewrite store_cache. split; [|reflexivity].
    destruct Hx as [[_ ->]|(r & _ & Hr)]; [exact S|exact (V _ _ Hr)].
Qed.

(* what the dispatcher's validation returns is a fixed point of the wrapper's validation *)
Theorem second_validation_fix md c p j v : wf_md md -> regular_md md -> cache_st md c -> In (AParam p) (md_acc md) ->
  wire E (p_dt p) j (prev_of c p) = Ok v -> dt_validate (p_dt p) v PNone = Ok v /\ stable (p_dt p) v = true.
Proof.
  intros [W _] G C I Hw. destruct (G p I) as [Gi Gs].
  destruct (wire_idempotent_small E (p_dt p) (W p I) Gi Gs j _ v (prev_of_st md c p C I) Hw) as (A & _ & S).
  split; [apply res_same_ok_eq, A|exact S].
Qed.

Lemma handle_cache_st md c rq : wf_md md -> regular_md md -> cache_st md c ->
  o_cache (handle md c rq) = c \/
  exists p x, In (AParam p) (md_acc md) /\ stable (p_dt p) x = true /\ o_cache (handle md c rq) = setp c (p_name p) x.
Proof.
  intros W G C. unfold Model.handle. destruct (rq_act rq).
  2: { left. apply do_clean. }
  unfold handle_change. cbn zeta.
  destruct (negb (str_eqb (rq_mod rq) (md_name md))); [left; reflexivity|].
  destruct (lookup_export md _) as [[p|cm]|] eqn:Hl; try (left; reflexivity).
  destruct (p_constant p); [left; reflexivity|]. destruct (p_readonly p); [left; reflexivity|].
  fold (prev_of c p).
  destruct (lookup_export_in _ _ _ Hl) as (_ & Hi & _).
  destruct (wire E (p_dt p) (rq_data rq) (prev_of c p)) as [v|e] eqn:Hw; [|left; reflexivity].
  destruct (second_validation_fix md c p _ v W G C Hi Hw) as [_ Sv].
  destruct (reply_export_same p (write_wrapper hook p v c (rq_drv rq))) as (_ & _ & _ & Ec). rewrite Ec. clear Ec.
  destruct (G p Hi) as [Gi Gs].
  destruct (write_wrapper_cache_gen (fun x => stable (p_dt p) x = true) p v c (rq_drv rq) Sv) as [H|(x & Sx & H)].
  { intros r x Hr. exact (proj2 (validate_fix (p_dt p) (proj1 W p Hi) Gi Gs r PNone x (or_introl eq_refl) Hr)). }
  - left. exact H.
  - right. exists p, x. auto.
Qed.

Lemma cache_st_setp md c p x : names_unique md -> cache_st md c -> In (AParam p) (md_acc md) ->
  stable (p_dt p) x = true -> cache_st md (setp c (p_name p) x).
Proof.
  intros U C I S q Iq. rewrite getp_setp. destruct (str_eqb (p_name q) (p_name p)) eqn:Hn.
  - apply str_eqb_eq in Hn. rewrite (U q p Iq I Hn). eauto.
  - apply C, Iq.
Qed.

Theorem step_st md c rq : wf_md md -> regular_md md -> names_unique md -> cache_st md c -> cache_st md (step md c rq).
Proof.
  intros W G U C. unfold Model.step. destruct (handle_cache_st md c rq W G C) as [->|(p & x & I & S & ->)]; [exact C|].
  apply cache_st_setp; assumption.
Qed.

Theorem final_st md : wf_md md -> regular_md md -> names_unique md ->
  forall rqs c, cache_st md c -> cache_st md (final md c rqs).
Proof.
  intros W G U. unfold Model.final. induction rqs as [|rq r IH]; cbn; intros c C; [exact C|].
  apply IH. apply step_st; assumption.
Qed.

(* in every reachable state the wrapper's own validation returns its argument: the refusal branch "first validation Ok,
   second validation Err" of change_refused never fires, and the driver receives exactly the dispatcher's value *)
Theorem history_second_validation md : wf_md md -> regular_md md -> names_unique md -> forall pre c, cache_st md c ->
  let c' := final md c pre in
  forall rq p v, lookup_export md (ename rq) = Some (AParam p) ->
    wire E (p_dt p) (rq_data rq) (prev_of c' p) = Ok v ->
    dt_validate (p_dt p) v PNone = Ok v /\
    (o_drv (handle_change E hook md c' rq) <> [] -> o_drv (handle_change E hook md c' rq) = [Write (p_name p) v]).
Proof.
  intros W G U pre c C. cbn zeta. pose proof (final_st md W G U pre c C) as C'. revert C'.
  generalize (final md c pre). intros c' C' rq p v Hl Hw.
  destruct (lookup_export_in _ _ _ Hl) as (_ & Hi & _).
  destruct (second_validation_fix md c' p _ v W G C' Hi Hw) as [Hv _]. split; [exact Hv|].
  unfold handle_change. cbn zeta. fold (ename rq).
  destruct (negb (str_eqb (rq_mod rq) (md_name md))); [intros N; exfalso; apply N; reflexivity|].
  rewrite Hl. destruct (p_constant p); [intros N; exfalso; apply N; reflexivity|].
  destruct (p_readonly p); [intros N; exfalso; apply N; reflexivity|].
  fold (prev_of c' p). rewrite Hw.
  destruct (reply_export_same p (write_wrapper hook p v c' (rq_drv rq))) as (Ed & _). rewrite Ed. clear Ed.
  pose proof (write_wrapper_cases hook p v c' (rq_drv rq)) as H. cbn zeta in H.
  destruct H as [(e & He & _)|[(nv & hl & e & _ & _ & ->)|(nv & hl & Hnv & _ & H)]].
  - rewrite Hv in He. discriminate.
  - intros N; exfalso; apply N; reflexivity.
  - rewrite Hv in Hnv. injection Hnv as <-. destruct H as [[_ ->]|(_ & Hd & _)].
    + rewrite store_drv. intros N; exfalso; apply N; reflexivity.
    + intros _. exact Hd.
Qed.

End Idem.
