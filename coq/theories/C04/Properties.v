(* C04 — No invalid, forbidden or out-of-limit request ever reaches the driver.  Property theorems only; each is closed
   by a lemma of Lemmas.v / LemmasHist.v.

   Quantification: md over ALL module descriptions (any accessibles, datatypes, flags, check chains), c over all caches
   (= all prior histories, in particular all positions of the dynamic limits), rq over all requests (any payload, any
   scripted driver behaviour: returns None / Done / any read-back value / raises), E over all int()/b64decode tables,
   hook over ALL user check_<p> functions of (value, module state).

   Full property and what is proved:
   (safe)     driver called  =>  names exist and are exported, parameter writable, payload valid (wire = import + validate
              with the cached value, then the wrapper's own validate), whole check chain passed, exactly one call with
              exactly that value                                            -- C04_change_safe, C04_do_safe (unconditional;
              Command.do passes the validated argument since fix 1c127f9: no exception left)
   (checks)   "check chain passed" means: every check_<p> of the MRO up to the first hook that returns True holds, and the
              generated limit check enforces every existing <p>_min/_max/_limits   -- C04_checks_respected,
              C04_limits_respected (every layout, also <p>_limits together with <p>_min/_max since fix e1c174f; the
              former guard and C04_refuted_limits_shadow are gone)
   (refused)  otherwise error report chosen by the first failing test, cache and subscribers untouched, driver not called
              -- C04_change_refused, C04_do_refused (a do specifier without ':' is answered ProtocolError since fix
              8821998; the former exception and C04_refuted_do_specifier_without_colon are gone), C04_refusal_class,
              C04_error_clean (NO exception: from every state reachable from a cache whose values lie in their value
              sets, any error reply -- also after the driver ran -- leaves cache and subscribers alone; rests on
              C04_validated_values_export: a value of the declared value set always exports), C04_error_clean_step,
              C04_history_error_outputs, C04_reply_always_built, C04_success_announced; for ARBITRARY caches (no
              invariant assumed) C04_error_clean_except_unexportable keeps the explicit exception, and
              C04_error_clean_exportable is its special case for modules without struct-typed parameters
   (history)  lifted over every request sequence from every cache whose values lie in their value sets
              -- C04_history_invariant, C04_history_write_values, C04_history_call_values
   (current)  "satisfies the module's CURRENT dynamic limits and check hooks": with any number of threads calling write
              wrappers of the module (connection threads through the dispatcher, internal threads directly), under every
              schedule, the check chain passes on the cache of the very moment the driver is invoked
              -- C04_limits_current_at_driver_call, C04_wrapper_exclusive, C04_cache_changed_by_lock_owner_only; the
              obligation on the source (checks inside `with self.accessLock:`) is wrapper_body_under_access_lock, and
              C04_refuted_checks_outside_lock shows the statement fails for the variant with the checks before the lock *)
From Coq Require Import ZArith NArith Bool List.
Import ListNotations.
Require Import FV.Gen.C04 FV.Base.F64 FV.Base.PyVal FV.C01.Model FV.C01.Lemmas.
Require Import FV.C01.IdemDefs FV.C04.LemmasIdem.
Require Import FV.C04.Model FV.C04.Lemmas FV.C04.LemmasHist FV.C04.ConcModel FV.C04.LemmasConc FV.C04.LemmasSolo FV.C04.Refuted.

(* obligations on the facts regenerated from /repo (Gen/C04.v): the order of the tests in _setParameterValue /
   _execute_command / Command.do / the write wrapper / checkLimits, the export map, the error mapping of handle() *)
Theorem C04_source_facts :
  set_parameter_order = true /\ execute_command_order = true /\ handle_change_shape = true /\ handle_do_shape = true /\
  command_do_shape = true /\ write_wrapper_shape = true /\ wrapper_body_under_access_lock = true /\
  check_funcs_from_mro = true /\ check_limits_shape = true /\
  export_map_shape = true /\ announce_store_then_emit = true /\ handler_error_mapping = true /\ error_class_names = true.
Proof. repeat split; reflexivity. Qed.

(* a change request that reaches the driver (or succeeds without write method) passed every test, and the driver is
   called exactly once with exactly the validated value *)
Theorem C04_change_safe : forall E hook md c rq,
  let o := handle_change E hook md c rq in
  o_drv o <> [] \/ o_reply o = None ->
  exists p v w,
    rq_mod rq = md_name md /\ md_export md = true /\ In (AParam p) (md_acc md) /\ p_export p = Some (ename rq) /\
    p_readonly p = false /\ p_constant p = false /\
    wire E (p_dt p) (rq_data rq) (prev_of c p) = Ok v /\
    dt_validate (p_dt p) v PNone = Ok w /\
    checks_pass hook p v c /\
    o_drv o = (if p_haswrite p then [Write (p_name p) w] else []).
Proof. intros E hook md c rq. exact (change_safe E hook md c rq). Qed.

(* what a passed check chain guarantees: all checks before the first hook that returns True hold; if no hook returns
   True, all hooks of the MRO returned without exception and the generated limit check (if present) succeeded *)
Theorem C04_checks_respected : forall hook p v c,
  checks_pass hook p v c ->
  (exists pre post, p_checks p = pre ++ post /\ Forall (check_holds hook (p_name p) v c) pre /\
                    (post = [] \/ exists i r, post = CkUser i :: r /\ hook i v c = HStop)) /\
  ((forall i, In (CkUser i) (p_checks p) -> hook i v c <> HStop) ->
   Forall (check_holds hook (p_name p) v c) (p_checks p)).
Proof.
  intros hook p v c H. split; [apply run_checks_prefix, H|apply run_checks_all, H].
Qed.

(* the generated limit check enforces every existing limit parameter, for all layouts (also <p>_limits together with
   <p>_min/<p>_max), and refuses everything while <p>_min > <p>_max *)
Theorem C04_limits_respected : forall pn v c,
  check_limits pn v c = Ok tt -> limits_respected pn v c /\ not_inverted pn c.
Proof. exact check_limits_respected. Qed.

Theorem C04_limits_respected_int : forall pn z c, limits_respected pn (PInt z) c ->
  (forall l h, getp c (pn ++ s_limits) = Some (PTuple [PInt l; PInt h]) -> (l <= z <= h)%Z) /\
  (forall l, getp c (pn ++ s_min) = Some (PInt l) -> (l <= z)%Z) /\
  (forall h, getp c (pn ++ s_max) = Some (PInt h) -> (z <= h)%Z).
Proof. exact limits_respected_int. Qed.

(* a failing check chain was stopped by a check that does not hold *)
Theorem C04_check_refusal_justified : forall hook cks pn v c e,
  snd (run_checks hook cks pn v c) = Some e -> exists k, In k cks /\ ~ check_holds hook pn v c k.
Proof. exact run_checks_err. Qed.

(* refusal: the first failing test chooses the report; fail c e [] hl = error reply of class (report e), no driver call,
   no update, cache unchanged *)
Theorem C04_change_refused : forall E hook md c rq,
  let o := handle_change E hook md c rq in
  (rq_mod rq <> md_name md -> o = fail c (ESecop NoSuchModule) [] []) /\
  (rq_mod rq = md_name md -> (forall p, lookup_export md (ename rq) <> Some (AParam p)) ->
     o = fail c (ESecop NoSuchParameter) [] []) /\
  (forall p, rq_mod rq = md_name md -> lookup_export md (ename rq) = Some (AParam p) ->
     (p_constant p || p_readonly p = true -> o = fail c (ESecop ReadOnly) [] []) /\
     (p_constant p || p_readonly p = false ->
        (forall e, wire E (p_dt p) (rq_data rq) (prev_of c p) = Err e -> o = fail c (of_exc e) [] []) /\
        (forall v, wire E (p_dt p) (rq_data rq) (prev_of c p) = Ok v ->
           (forall e, dt_validate (p_dt p) v PNone = Err e -> o = fail c (of_exc e) [] []) /\
           (forall nv hl e, dt_validate (p_dt p) v PNone = Ok nv ->
              run_checks hook (p_checks p) (p_name p) v c = (hl, Some e) -> o = fail c e [] hl)))).
Proof. intros E hook md c rq. exact (change_refused E hook md c rq). Qed.

Theorem C04_fail_shape : forall c e hl,
  o_reply (fail c e [] hl) = Some (report e) /\ untouched c (fail c e [] hl).
Proof. intros. split; [reflexivity|apply fail_untouched]. Qed.

(* an accessible without wire name (export = False, or unexported module) is never found *)
Theorem C04_only_exported_found : forall md e a,
  lookup_export md e = Some a -> md_export md = true /\ In a (md_acc md) /\ acc_export a = Some e.
Proof. exact lookup_export_in. Qed.

(* a payload refused by the datatype is answered WrongType or RangeError (guard = C01 totality guard) *)
Theorem C04_refusal_class : forall E d j prev e,
  wire_guard E d j prev = true -> wire E d j prev = Err e ->
  report (of_exc e) = WrongType \/ report (of_exc e) = RangeError.
Proof. exact wire_refusal_class. Qed.

(* full statement: any error reply (also one caused by the driver or by its read-back value) leaves cache and subscribers
   alone.  Proved with one explicit exception: the value was stored and then cannot be exported.  Until fix 45926fd that
   happened for every nested struct lacking an optional member (finding nested-optional-struct-stored-then-error, now
   repaired); since then exportable only fails for a value lacking a MANDATORY member or carrying an unknown key, which
   validation never returns.  This form assumes NOTHING about the cache (it may hold values outside the value sets); the
   full-strength form over reachable states, without exception, is C04_error_clean below. *)
Theorem C04_error_clean_except_unexportable : forall E hook md c rq,
  o_reply (handle E hook md c rq) <> None ->
  (o_upd (handle E hook md c rq) = [] /\ o_cache (handle E hook md c rq) = c) \/
  (rq_act rq = AChange /\ exists p, lookup_export md (ename rq) = Some (AParam p) /\
     stored_unexportable p c (handle E hook md c rq)).
Proof. intros E hook md c rq. exact (error_clean_except_unexportable E hook md c rq). Qed.

(* special case, arbitrary cache: modules all of whose parameter types export EVERY python value, i.e. modules without
   struct-typed parameter (for a struct type the premise is false: NonVacuity.v,
   C04_error_clean_exportable_premise_false_for_struct_params).  Superseded by C04_error_clean. *)
Theorem C04_error_clean_exportable : forall E hook md c rq,
  (forall p x, In (AParam p) (md_acc md) -> exportable (p_dt p) x = true) ->
  o_reply (handle E hook md c rq) <> None ->
  o_upd (handle E hook md c rq) = [] /\ o_cache (handle E hook md c rq) = c.
Proof. intros E hook md c rq. exact (error_clean E hook md c rq). Qed.

(* validated values always export: StructOf/ArrayOf/TupleOf.export_value (check_type(value, True), element-wise) refuse
   no value of the declared value set -- every datatype tree (no wf needed), unbounded depth and width.  With C01
   validate_sound: whatever validate returns exports. *)
Theorem C04_validated_values_export : forall d x, in_setb d x = true -> exportable d x = true.
Proof. exact in_setb_exportable. Qed.

Theorem C04_validate_result_exports : forall d, wf d -> forall v prev r,
  prev_ok d prev -> dt_validate d v prev = Ok r -> exportable d r = true.
Proof. exact validated_exportable. Qed.

(* one request on a cache whose values lie in their value sets: ANY error reply (refused by name / flag / datatype / check
   chain, driver raised, read-back value invalid) leaves cache and subscribers alone.  No exception. *)
Theorem C04_error_clean_step : forall E hook md c rq, wf_md md -> cache_ok md c ->
  o_reply (handle E hook md c rq) <> None ->
  o_upd (handle E hook md c rq) = [] /\ o_cache (handle E hook md c rq) = c.
Proof. intros E hook md c rq. exact (error_clean_ok E hook md c rq). Qed.

(* FULL statement over histories: c' ranges over every state reachable by ANY request sequence pre (any payloads, any
   driver behaviour, any hooks) from any cache_ok cache (cache_ok is established at start-up and preserved:
   C04_history_invariant); rq is any request. *)
Theorem C04_error_clean : forall E hook md, wf_md md -> names_unique md -> forall pre c rq, cache_ok md c ->
  let c' := final E hook md c pre in
  o_reply (handle E hook md c' rq) <> None ->
  o_upd (handle E hook md c' rq) = [] /\ o_cache (handle E hook md c' rq) = c'.
Proof. intros E hook md. exact (history_error_clean E hook md). Qed.

(* the same read off the output list of a history: an output with an error reply carries no update and its cache is the
   cache the request started from *)
Theorem C04_history_error_outputs : forall E hook md, wf_md md -> names_unique md -> forall rqs c, cache_ok md c ->
  forall o, In o (run E hook md c rqs) -> o_reply o <> None ->
  o_upd o = [] /\ exists c' rq, cache_ok md c' /\ In rq rqs /\ o = handle E hook md c' rq /\ o_cache o = c'.
Proof. intros E hook md. exact (run_error_clean E hook md). Qed.

(* "return pobj.export_value()" of _setParameterValue never fails from a cache_ok cache: the reply of a change request is
   the result of the write wrapper (the WrongType branch of reply_export is dead on reachable states) *)
Theorem C04_reply_always_built : forall hook md c p v d, wf_md md -> cache_ok md c -> In (AParam p) (md_acc md) ->
  in_setb (p_dt p) v = true -> reply_export p (write_wrapper hook p v c d) = write_wrapper hook p v c d.
Proof. intros hook md c p v d. exact (reply_always_built hook md c p v d). Qed.

(* the dead branch of C04_change_refused.  _setParameterValue validates the payload (with the cached value as previous
   value) and the write wrapper validates the result again; C04_change_refused has a case "first validation Ok v, second
   validation Err e".  That case fires only from a cache holding values that validation would not return (NonVacuity.v,
   C04_change_refused_applies_second_validation).  In every state reachable from a cache whose values are fixed points
   of validation (cache_st; C01 stable) the second validation returns exactly its argument, and the driver receives
   exactly the value the dispatcher's validation produced.  regular_md = the hypotheses of the C01 idempotence theorems on
   every parameter type (idem_dt: no negative-zero limit, finite relative resolution, distinct enum values; small_grids:
   scaled grids of realistic size -- beyond them C01/Refuted.v has a counterexample to idempotence). *)
Theorem C04_second_validation_never_fails : forall E hook md, wf_md md -> regular_md md -> names_unique md ->
  forall pre c, cache_st md c ->
  let c' := final E hook md c pre in
  forall rq p v, lookup_export md (ename rq) = Some (AParam p) ->
    wire E (p_dt p) (rq_data rq) (prev_of c' p) = Ok v ->
    dt_validate (p_dt p) v PNone = Ok v /\
    (o_drv (handle_change E hook md c' rq) <> [] -> o_drv (handle_change E hook md c' rq) = [Write (p_name p) v]).
Proof. intros E hook md. exact (history_second_validation E hook md). Qed.

Theorem C04_fixed_point_cache_invariant : forall E hook md, wf_md md -> regular_md md -> names_unique md ->
  forall rqs c, cache_st md c -> cache_st md (final E hook md c rqs).
Proof. intros E hook md. exact (final_st E hook md). Qed.

(* a success reply: nothing changed (driver said Done) or exactly one value stored, announced once, and exportable *)
Theorem C04_success_announced : forall hook p v c d,
  o_reply (write_wrapper hook p v c d) = None ->
  (o_upd (write_wrapper hook p v c d) = [] /\ o_cache (write_wrapper hook p v c d) = c) \/
  (exists x, o_cache (write_wrapper hook p v c d) = setp c (p_name p) x /\
             o_upd (write_wrapper hook p v c d) = match p_export p with Some _ => [(p_name p, x)] | None => [] end /\
             (p_export p <> None -> exportable (p_dt p) x = true)).
Proof. intros hook p v c d. exact (write_wrapper_success hook p v c d). Qed.

(* commands: the function is called only for an existing exported command with a present, importable and valid argument
   (or no argument where none is declared), exactly once, with exactly the validated argument *)
Theorem C04_do_safe : forall E md c rq,
  let o := handle_do E md c rq in
  o_drv o <> [] \/ o_reply o = None ->
  exists en cm w,
    rq_acc rq = Some en /\ rq_mod rq = md_name md /\ md_export md = true /\ In (ACmd cm) (md_acc md) /\
    c_export cm = Some en /\ arg_ok E cm (rq_data rq) w /\ o_drv o = [Call (c_name cm) w].
Proof. intros E md c rq. exact (do_safe E md c rq). Qed.

(* every refused do request gets ProtocolError (no ':' in the specifier) / NoSuchModule / NoSuchCommand / WrongType /
   RangeError, and nothing is touched *)
Theorem C04_do_refused : forall E md c rq,
  let o := handle_do E md c rq in
  (rq_acc rq = None -> o = fail c (ESecop ProtocolError) [] []) /\
  (forall en, rq_acc rq = Some en ->
     (rq_mod rq <> md_name md -> o = fail c (ESecop NoSuchModule) [] []) /\
     (rq_mod rq = md_name md -> (forall cm, lookup_export md en <> Some (ACmd cm)) ->
        o = fail c (ESecop NoSuchCommand) [] []) /\
     (forall cm, rq_mod rq = md_name md -> lookup_export md en = Some (ACmd cm) ->
        (forall w, ~ arg_ok E cm (rq_data rq) w) ->
        untouched c o /\ exists cl, o_reply o = Some cl /\
          (arg_guard E cm (rq_data rq) = true -> cl = WrongType \/ cl = RangeError))).
Proof. intros E md c rq. exact (do_refused E md c rq). Qed.

Theorem C04_do_clean : forall E md c rq, o_upd (handle_do E md c rq) = [] /\ o_cache (handle_do E md c rq) = c.
Proof. intros E md c rq. exact (do_clean E md c rq). Qed.

(* histories: from any cache whose values lie in their value sets, after any request sequence (any drivers, any hooks)
   the cache still does; every write_<p> call of the whole history is for an exported, writable parameter and carries a
   value of its value set; every command call carries a value of the argument's value set *)
Theorem C04_history_invariant : forall E hook md, wf_md md -> names_unique md ->
  forall rqs c, cache_ok md c -> cache_ok md (final E hook md c rqs).
Proof. intros E hook md. exact (final_ok E hook md). Qed.

Theorem C04_history_write_values : forall E hook md, wf_md md -> names_unique md -> forall rqs c, cache_ok md c ->
  forall o pn w, In o (run E hook md c rqs) -> In (Write pn w) (o_drv o) ->
  exists p, In (AParam p) (md_acc md) /\ p_name p = pn /\ p_export p <> None /\ md_export md = true /\
            p_readonly p = false /\ p_constant p = false /\ p_haswrite p = true /\
            in_setb (p_dt p) w = true /\ o_drv o = [Write pn w].
Proof. intros E hook md. exact (history_write_values E hook md). Qed.

Theorem C04_history_call_values : forall E hook md, wf_md md -> names_unique md -> forall rqs c, cache_ok md c ->
  forall o cn w, In o (run E hook md c rqs) -> In (Call cn w) (o_drv o) ->
  exists cm, In (ACmd cm) (md_acc md) /\ c_name cm = cn /\ c_export cm <> None /\ md_export md = true /\
             o_drv o = [Call cn w] /\
             match c_arg cm with Some ad => in_setb ad w = true | None => w = PTuple [] end.
Proof. intros E hook md. exact (history_call_values E hook md). Qed.

(* demo objects *)
Definition E0 : pyenv := {| int_of := []; b64_of := [] |}.
Definition no_hooks : nat -> pyval -> cache -> hres := fun _ _ _ => HNone.
Definition s_m : str := [109%N].
Definition s_a : str := [97%N].
Definition s__a : str := [95%N; 97%N].
Definition p_a (cks : list check) : param :=
  {| p_name := s_a; p_export := Some s__a; p_dt := TInt 0 10; p_readonly := false; p_constant := false;
     p_haswrite := true; p_checks := cks |}.

(* non-vacuity: a module with a : int 0..10 (write method, generated limit check) and a_max; the limit is moved to 4,
   then 5 is refused with RangeError without touching anything, 4 reaches the driver exactly once *)
Definition s_amax : str := s_a ++ s_max.
Definition demo_md : mdesc :=
  {| md_name := s_m; md_export := true;
     md_acc := [AParam (p_a [CkAuto]);
                AParam {| p_name := s_amax; p_export := Some (95%N :: s_amax); p_dt := TInt 0 10; p_readonly := false;
                          p_constant := false; p_haswrite := false; p_checks := [] |}] |}.
Definition chg (acc : str) (z : Z) : request :=
  {| rq_act := AChange; rq_mod := s_m; rq_acc := Some acc; rq_data := PInt z; rq_drv := DNone |}.
Example C04_demo :
  map (fun o => (o_reply o, o_drv o, o_upd o))
      (run E0 no_hooks demo_md [(s_a, PInt 1); (s_amax, PInt 10)] [chg (95%N :: s_amax) 4; chg s__a 5; chg s__a 4]) =
  [(None, [], [(s_amax, PInt 4)]); (Some RangeError, [], []); (None, [Write s_a (PInt 4)], [(s_a, PInt 4)])].
Proof. vm_compute. reflexivity. Qed.
Example C04_demo_wf : wf_md demo_md /\ names_unique demo_md /\ cache_ok demo_md [(s_a, PInt 1); (s_amax, PInt 10)].
Proof.
  split; [split|split].
  - intros p [H|[H|[]]]; injection H as <-; vm_compute; exact I.
  - intros cm ad [H|[H|[]]]; discriminate.
  - intros p q [H|[H|[]]] [G|[G|[]]]; injection H as <-; injection G as <-; intros N; try reflexivity; vm_compute in N; discriminate.
  - intros p [H|[H|[]]]; injection H as <-; eexists; split; vm_compute; reflexivity.
Qed.

(* regression of the repaired defects: with a_limits = (0, 10) AND a_min = 5 the value 3 is refused; "do m" is a
   protocol error *)
Example C04_demo_both_kinds :
  check_limits s_a (PInt 3) [(s_a ++ s_limits, PTuple [PInt 0; PInt 10]); (s_a ++ s_min, PInt 5)] = Err ERange /\
  check_limits s_a (PInt 7) [(s_a ++ s_limits, PTuple [PInt 0; PInt 10]); (s_a ++ s_min, PInt 5)] = Ok tt /\
  o_reply (handle E0 no_hooks demo_md [] {| rq_act := ADo; rq_mod := s_m; rq_acc := None; rq_data := PNone; rq_drv := DNone |})
    = Some ProtocolError.
Proof. vm_compute. repeat split. Qed.

(* non-vacuity of C04_error_clean: the type of the former finding, ArrayOf(StructOf(b=IntRange(0,5), optional=['b'])).
   [{"b":1},{}] lies in the value set and exports; after it was stored (a reachable state that is not the initial one) a
   request whose driver raises, one whose read-back value is invalid and one with an invalid payload are answered with
   an error; cache and subscribers are left alone.  The premises hold for this module (demo2_premises). *)
Definition s_b : str := [98%N].
Definition d_opt : dtype := TArray (TStruct [(s_b, TInt 0 5)] [s_b] false) 0 3.
Definition demo2_md : mdesc :=
  {| md_name := s_m; md_export := true;
     md_acc := [AParam {| p_name := s_a; p_export := Some s__a; p_dt := d_opt; p_readonly := false; p_constant := false;
                          p_haswrite := true; p_checks := [] |}] |}.
Definition demo2_c0 : cache := [(s_a, PTuple [])].
Definition v_opt : pyval := PList [PDict [(s_b, PInt 1)]; PDict []].
Definition chg2 (v : pyval) (d : drv) : request :=
  {| rq_act := AChange; rq_mod := s_m; rq_acc := Some s__a; rq_data := v; rq_drv := d |}.
Example demo2_premises : wf_md demo2_md /\ names_unique demo2_md /\ cache_ok demo2_md demo2_c0.
Proof.
  split; [split|split].
  - intros p [H|[]]; injection H as <-; vm_compute; auto.
  - intros cm ad [H|[]]; discriminate.
  - intros p q [H|[]] [G|[]]; injection H as <-; injection G as <-; reflexivity.
  - intros p [H|[]]; injection H as <-; eexists; split; vm_compute; reflexivity.
Qed.
Example demo2_value_exports :
  in_setb d_opt (PTuple [PDict [(s_b, PInt 1)]; PDict []]) = true /\
  exportable d_opt (PTuple [PDict [(s_b, PInt 1)]; PDict []]) = true /\
  exportable d_opt (PTuple [PDict [(s_a, PInt 1)]]) = false.
Proof. vm_compute. repeat split. Qed.
Example demo2_reached_state :
  final E0 no_hooks demo2_md demo2_c0 [chg2 v_opt DNone] = [(s_a, PTuple [PDict [(s_b, PInt 1)]; PDict []])] /\
  map (fun o => (o_reply o, o_upd o)) (run E0 no_hooks demo2_md demo2_c0 [chg2 v_opt DNone]) =
    [(None, [(s_a, PTuple [PDict [(s_b, PInt 1)]; PDict []])])].
Proof. vm_compute. split; reflexivity. Qed.
Example demo2_error_replies :
  map (fun rq => o_reply (handle E0 no_hooks demo2_md (final E0 no_hooks demo2_md demo2_c0 [chg2 v_opt DNone]) rq))
      [chg2 (PList [PDict []]) (DRaise (ESecop HardwareError)); chg2 (PList []) (DVal (PList [PDict [(s_b, PInt 9)]]));
       chg2 (PList [PDict [(s_a, PInt 1)]]) DNone] =
  [Some HardwareError; Some RangeError; Some WrongType].
Proof. vm_compute. reflexivity. Qed.
Example C04_error_clean_applies (rq : request) :=
  let (W, UC) := demo2_premises in let (U, C) := UC in
  C04_error_clean E0 no_hooks demo2_md W U [chg2 v_opt DNone] demo2_c0 rq C.

(* ------------------------------------------------------------------ concurrent callers of the write wrappers *)
(* progs: ANY number of threads, each with ANY sequence of operations (direct calls write_<p>(v) of any parameter with
   any value and driver behaviour, change requests with any payload); sched: ANY schedule (a list of thread numbers; a
   thread that is not enabled -- finished, or waiting for the accessLock -- is skipped); c0: any initial cache; hook: any
   user check functions.  crun ... true = the transition system with validation and check loop under the accessLock
   (source fact wrapper_body_under_access_lock).  LDrv p v nv c is emitted exactly when write_<p>(nv) is invoked, c being
   the module's cache at that step.  Then: nv is the validated wrapper argument v, the WHOLE check chain of p passes on c
   (meaning: C04_checks_respected), in particular the generated limit check: every existing <p>_min/_max/_limits held in
   the cache at the moment of the driver call is respected. *)
Theorem C04_limits_current_at_driver_call : forall E hook md c0 progs sched p v nv c,
  In (LDrv p v nv c) (snd (crun E hook true md (cinit c0 progs) sched)) ->
  dt_validate (p_dt p) v PNone = Ok nv /\ checks_pass hook p v c /\
  ((forall i, In (CkUser i) (p_checks p) -> hook i v c <> HStop) -> In CkAuto (p_checks p) ->
   limits_respected (p_name p) v c /\ not_inverted (p_name p) c).
Proof. intros E hook md. exact (limits_current_at_driver_call E hook md). Qed.

(* in every reachable state at most one thread is inside a wrapper of the module, and it owns the accessLock *)
Theorem C04_wrapper_exclusive : forall E hook md c0 progs sched t u tht thu,
  let st := fst (crun E hook true md (cinit c0 progs) sched) in
  nth_error (cs_threads st) t = Some tht -> nth_error (cs_threads st) u = Some thu ->
  in_wrapper (t_pc tht) = true -> in_wrapper (t_pc thu) = true -> t = u /\ cs_owner st = Some t.
Proof. intros E hook md. exact (wrapper_exclusive E hook md). Qed.

(* from every reachable state: a step that changes the cache is a step of the lock owner, or of a thread that found the
   lock free (takes it, stores and releases within the step) *)
Theorem C04_cache_changed_by_lock_owner_only : forall E hook md c0 progs sched t st' l,
  let st := fst (crun E hook true md (cinit c0 progs) sched) in
  cstep E hook true md st t = Some (st', l) -> cs_cache st' <> cs_cache st ->
  cs_owner st = None \/ cs_owner st = Some t.
Proof.
  intros E hook md c0 progs sched t st' l. cbn zeta.
  apply (cache_changed_by_owner E hook md). apply (crun_inv E hook md c0 progs sched).
Qed.

(* the strict run the correspondence evaluates (every observed step must be enabled) is such a run *)
Theorem C04_followed_run_is_a_run : forall E hook inside md st sched fin ls,
  cfollow E hook inside md st sched = Some (fin, ls) -> crun E hook inside md st sched = (fin, ls).
Proof. intros. unfold crun. rewrite (cfollow_is_crun _ _ _ _ _ _ [] _ _ H). reflexivity. Qed.

(* the concurrent layer contains the sequential model: a thread that is idle, whose next operation is a direct call
   write_<p>(v), finds the lock free and is scheduled alone at most |check chain| + 2 times, has then finished the call,
   and final cache, driver calls, hook calls, updates and result are exactly those of Model.write_wrapper (the function
   C04_change_safe ... C04_history_write_values are about).  drvs_of/hooks_of/upds_of/ends_of project the labels. *)
Theorem C04_single_thread_is_sequential_wrapper : forall E hook md st t p v d todo,
  nth_error (cs_threads st) t = Some {| t_pc := PIdle; t_todo := TWrite p v d :: todo |} -> cs_owner st = None ->
  exists k ls, k <= length (p_checks p) + 2 /\
    crun E hook true md st (repeat t k) =
      ({| cs_cache := o_cache (write_wrapper hook p v (cs_cache st) d); cs_owner := None;
          cs_threads := set_nth t {| t_pc := PIdle; t_todo := todo |} (cs_threads st) |}, ls) /\
    drvs_of ls = o_drv (write_wrapper hook p v (cs_cache st) d) /\
    hooks_of ls = o_hooks (write_wrapper hook p v (cs_cache st) d) /\
    upds_of ls = o_upd (write_wrapper hook p v (cs_cache st) d) /\
    ends_of ls = [o_reply (write_wrapper hook p v (cs_cache st) d)].
Proof. intros E hook md. exact (solo_is_wrapper E hook md). Qed.

(* the request step of the concurrent model (pre_change) is Model.handle_change cut in front of the wrapper call *)
Theorem C04_request_is_pre_change_then_wrapper : forall E hook md c rq,
  handle_change E hook md c rq =
  match pre_change E md c rq with
  | inl e => fail c e [] []
  | inr (p, v) => reply_export p (write_wrapper hook p v c (rq_drv rq))
  end.
Proof. exact handle_change_pre. Qed.

(* why the source fact is an obligation: with validation and checks BEFORE the lock is taken, two threads and six steps
   suffice for a driver invocation whose value violates the limit held in the cache at that moment *)
Theorem C04_refuted_checks_outside_lock :
  exists E hook md c0 progs sched p v nv c e,
    In (LDrv p v nv c) (snd (crun E hook false md (cinit c0 progs) sched)) /\
    In CkAuto (p_checks p) /\ check_limits (p_name p) v c = Err e.
Proof. exact Refuted.C04_refuted_checks_outside_lock. Qed.

(* non-vacuity: thread 0 handles "change m:_a 5", thread 1 calls write_a_max(4) directly; thread 1 gets the lock first:
   the request is refused; thread 0 first: thread 1 has to wait, the driver sees 5 with a_max = 10 *)
Definition demo_progs : list (list top) :=
  [[TReq (chg s__a 5)]; [TWrite (p_a [CkAuto]) (PInt 3) DNone;
                         TWrite {| p_name := s_amax; p_export := Some (95%N :: s_amax); p_dt := TInt 0 10; p_readonly := false;
                                   p_constant := false; p_haswrite := false; p_checks := [] |} (PInt 4) DNone]].
Definition demo_c0 : cache := [(s_a, PInt 1); (s_amax, PInt 10)].
Example C04_demo_conc_limit_first :
  snd (crun E0 no_hooks true demo_md (cinit demo_c0 demo_progs) [1; 1; 1; 1; 0; 0; 0]%nat) =
  [LAcq; LAuto (PInt 3); LDrv (p_a [CkAuto]) (PInt 3) (PInt 3) demo_c0; LUpd s_a (PInt 3); LEnd None;
   LAcq; LUpd s_amax (PInt 4); LEnd None;
   LReq; LAcq; LAuto (PInt 5); LEnd (Some RangeError)].
Proof. vm_compute. reflexivity. Qed.
Example C04_demo_conc_request_first :
  snd (crun E0 no_hooks true demo_md (cinit demo_c0 demo_progs) [0; 0; 1; 0; 1; 0; 1; 1; 1; 1]%nat) =
  [LReq; LAcq; LAuto (PInt 5); LDrv (p_a [CkAuto]) (PInt 5) (PInt 5) demo_c0; LUpd s_a (PInt 5); LEnd None;
   LAcq; LAuto (PInt 3); LDrv (p_a [CkAuto]) (PInt 3) (PInt 3) [(s_a, PInt 5); (s_amax, PInt 10)]; LUpd s_a (PInt 3); LEnd None;
   LAcq; LUpd s_amax (PInt 4); LEnd None].
Proof. vm_compute. reflexivity. Qed.


Print Assumptions C04_source_facts.
Print Assumptions C04_change_safe.
Print Assumptions C04_checks_respected.
Print Assumptions C04_limits_respected.
Print Assumptions C04_limits_respected_int.
Print Assumptions C04_check_refusal_justified.
Print Assumptions C04_change_refused.
Print Assumptions C04_fail_shape.
Print Assumptions C04_only_exported_found.
Print Assumptions C04_refusal_class.
Print Assumptions C04_error_clean_except_unexportable.
Print Assumptions C04_error_clean_exportable.
Print Assumptions C04_validated_values_export.
Print Assumptions C04_validate_result_exports.
Print Assumptions C04_error_clean_step.
Print Assumptions C04_error_clean.
Print Assumptions C04_history_error_outputs.
Print Assumptions C04_reply_always_built.
Print Assumptions C04_second_validation_never_fails.
Print Assumptions C04_fixed_point_cache_invariant.
Print Assumptions C04_success_announced.
Print Assumptions C04_do_safe.
Print Assumptions C04_do_refused.
Print Assumptions C04_do_clean.
Print Assumptions C04_history_invariant.
Print Assumptions C04_history_write_values.
Print Assumptions C04_history_call_values.
Print Assumptions C04_limits_current_at_driver_call.
Print Assumptions C04_wrapper_exclusive.
Print Assumptions C04_cache_changed_by_lock_owner_only.
Print Assumptions C04_followed_run_is_a_run.
Print Assumptions C04_single_thread_is_sequential_wrapper.
Print Assumptions C04_request_is_pre_change_then_wrapper.
Print Assumptions C04_refuted_checks_outside_lock.
