From Coq Require Import List ZArith Bool.
Require Import FV.Gen.C04 FV.C04.Model.
Theorem C04_source_facts :
  set_parameter_order = true /\ execute_command_order = true /\ handle_change_shape = true /\ handle_do_shape = true /\
  command_do_shape = true /\ write_wrapper_shape = true /\ check_funcs_from_mro = true /\ check_limits_shape = true /\
  export_map_shape = true /\ announce_store_then_emit = true /\ handler_error_mapping = true /\ error_class_names = true.
Proof. repeat split; reflexivity. Qed.
Print Assumptions C04_source_facts.
