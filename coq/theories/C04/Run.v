(* C04 — correspondence driver: a case carries the module description, the user hooks, the initial cache, the request
   history (with the scripted driver behaviour) and what the implementation did per request; check_case re-runs the
   model and compares reply class, driver calls, hook calls, emitted updates and the cache after every request. *)
From Coq Require Import ZArith NArith Bool List.
Import ListNotations.
Require Import FV.Base.Util FV.Base.F64 FV.Base.PyVal FV.C01.Model FV.Gen.C04 FV.C04.Model FV.C04.ConcModel.

(* the generated check_<p> hooks: "if <cond>: <action>" *)
Inductive hcond := HcNever | HcAlways | HcGt (q : str).      (* HcGt q:  value > self.<q> *)
Inductive hact := HaRange | HaStop | HaPy.                    (* raise RangeError / return True / raise ValueError *)

Definition act_res (a : hact) : hres :=
  match a with HaRange => HRaise (ESecop RangeError) | HaStop => HStop | HaPy => HRaise EPy end.

Definition hook_of (tbl : list (nat * (hcond * hact))) (i : nat) (v : pyval) (c : cache) : hres :=
  match assoc_nat i tbl with
  | None => HNone
  | Some (HcNever, _) => HNone
  | Some (HcAlways, a) => act_res a
  | Some (HcGt q, a) =>
      match getp c q with
      | None => HRaise EPy                                      (* AttributeError *)
      | Some x => match py_gt v x with
                  | Ok true => act_res a
                  | Ok false => HNone
                  | Err _ => HRaise EPy                         (* TypeError *)
                  end
      end
  end.

Record obs := {
  ob_reply : option ecls;
  ob_drv : list call;
  ob_hooks : list (nat * pyval);
  ob_upd : list (str * pyval);
  ob_cache : cache;
}.

Record case := {
  c_env : pyenv;
  c_md : mdesc;
  c_hooks : list (nat * (hcond * hact));
  c_init : cache;
  c_reqs : list request;
  c_obs : list obs;
}.

Definition call_eqb (a b : call) : bool :=
  match a, b with
  | Write p v, Write q w => str_eqb p q && pv_same v w
  | Call p v, Call q w => str_eqb p q && pv_same v w
  | _, _ => false
  end.

Definition cache_same (m o : cache) : bool :=
  Nat.eqb (length m) (length o) &&
  forallb (fun nv : str * pyval => match getp m (fst nv) with Some x => pv_same x (snd nv) | None => false end) o.

Definition obs_ok (o : out) (b : obs) : bool :=
  opt_eqb ecls_eqb (o_reply o) (ob_reply b)
  && list_eqb call_eqb (o_drv o) (ob_drv b)
  && list_eqb (pair_eqb Nat.eqb pv_same) (o_hooks o) (ob_hooks b)
  && list_eqb (pair_eqb str_eqb pv_same) (o_upd o) (ob_upd b)
  && cache_same (o_cache o) (ob_cache b).

Fixpoint all_ok (outs : list out) (os : list obs) : bool :=
  match outs, os with
  | [], [] => true
  | o :: outs', b :: os' => obs_ok o b && all_ok outs' os'
  | _, _ => false
  end.

Definition model_outs (c : case) : list out :=
  run (c_env c) (hook_of (c_hooks c)) (c_md c) (c_init c) (c_reqs c).

Definition check_case (c : case) : bool := all_ok (model_outs c) (c_obs c).

(* for diagnosis in replay files: per request, which components agree (reply, driver calls, hook calls, updates, cache).
   (Printing model values themselves would make vm_compute normalise the proof fields of the floats.) *)
Fixpoint diag_from (outs : list out) (os : list obs) : list (bool * bool * bool * bool * bool) :=
  match outs, os with
  | o :: outs', b :: os' =>
      (opt_eqb ecls_eqb (o_reply o) (ob_reply b), list_eqb call_eqb (o_drv o) (ob_drv b),
       list_eqb (pair_eqb Nat.eqb pv_same) (o_hooks o) (ob_hooks b),
       list_eqb (pair_eqb str_eqb pv_same) (o_upd o) (ob_upd b), cache_same (o_cache o) (ob_cache b)) :: diag_from outs' os'
  | _, _ => []
  end.
Definition model_result (c : case) : list (option ecls) * list (bool * bool * bool * bool * bool) :=
  (map o_reply (model_outs c), diag_from (model_outs c) (c_obs c)).

(* ------------------------------------------------------------------ concurrent cases *)
(* real threads under the deterministic scheduler: the implementation's events in global order, each with the number of
   the thread that produced it.  Events that begin an atomic step (the thread was resumed at a synchronisation point):
   OReq (Dispatcher._lock taken), OAcq (accessLock taken), OHook, OAuto (check functions called), ODrv (driver called).
   OUpd / OEnd follow inside the same step.  OBad: anything the model has no step for. *)
Inductive oev :=
| OReq | OAcq
| OHook (i : nat) (v : pyval)
| OAuto (v : pyval)
| ODrv (pn : str) (nv : pyval) (c : cache)      (* write_<pn>(nv) entered; c = the parameter cache at this moment *)
| OUpd (pn : str) (x : pyval)
| OEnd (r : option ecls)
| OBad.

Definition starts_step (e : oev) : bool :=
  match e with OReq | OAcq | OHook _ _ | OAuto _ | ODrv _ _ _ => true | _ => false end.

Definition lab_ok (l : label) (e : oev) : bool :=
  match l, e with
  | LReq, OReq | LAcq, OAcq => true
  | LHook i v, OHook j w => Nat.eqb i j && pv_same v w
  | LAuto v, OAuto w => pv_same v w
  | LDrv p _ nv c, ODrv pn w oc => str_eqb (p_name p) pn && pv_same nv w && cache_same c oc
  | LUpd pn x, OUpd qn y => str_eqb pn qn && pv_same x y
  | LEnd r, OEnd r' => opt_eqb ecls_eqb r r'
  | _, _ => false
  end.

Fixpoint all2 {A B} (f : A -> B -> bool) (a : list A) (b : list B) : bool :=
  match a, b with
  | [], [] => true
  | x :: a', y :: b' => f x y && all2 f a' b'
  | _, _ => false
  end.

(* an operation of a thread as the harness describes it: a direct call write_<attr>(v) or a change request *)
Inductive cop := CWrite (attr : str) (v : pyval) (d : drv) | CReq (rq : request).

Fixpoint find_param (accs : list accessible) (attr : str) : option param :=
  match accs with
  | [] => None
  | AParam p :: r => if str_eqb (p_name p) attr then Some p else find_param r attr
  | _ :: r => find_param r attr
  end.

Fixpoint resolve_ops (md : mdesc) (ops : list cop) : option (list top) :=
  match ops with
  | [] => Some []
  | CReq rq :: r => option_map (cons (TReq rq)) (resolve_ops md r)
  | CWrite attr v d :: r =>
      match find_param (md_acc md) attr, resolve_ops md r with
      | Some p, Some l => Some (TWrite p v d :: l)
      | _, _ => None
      end
  end.

Fixpoint resolve_progs (md : mdesc) (progs : list (list cop)) : option (list (list top)) :=
  match progs with
  | [] => Some []
  | ops :: r =>
      match resolve_ops md ops, resolve_progs md r with
      | Some x, Some l => Some (x :: l)
      | _, _ => None
      end
  end.

Record ccase := {
  cc_env : pyenv;
  cc_md : mdesc;
  cc_hooks : list (nat * (hcond * hact));
  cc_init : cache;
  cc_progs : list (list cop);
  cc_events : list (nat * oev);
  cc_final : cache;
}.

(* the schedule = the threads of the step-starting events *)
Definition sched_of (evs : list (nat * oev)) : list nat :=
  map fst (filter (fun e : nat * oev => starts_step (snd e)) evs).

(* an event that does not start a step belongs to the thread of the event before it *)
Fixpoint tids_ok (prev : option nat) (evs : list (nat * oev)) : bool :=
  match evs with
  | [] => true
  | (t, e) :: r =>
      (if starts_step e then true else match prev with Some u => Nat.eqb t u | None => false end) && tids_ok (Some t) r
  end.

Definition thread_done (th : thread) : bool :=
  match t_pc th, t_todo th with PIdle, [] => true | _, _ => false end.

Definition conc_follow (c : ccase) : option (cstate * list label) :=
  match resolve_progs (cc_md c) (cc_progs c) with
  | None => None
  | Some progs =>
      cfollow (cc_env c) (hook_of (cc_hooks c)) true (cc_md c) (cinit (cc_init c) progs) (sched_of (cc_events c))
  end.

(* the model, with validation and checks under the accessLock, can take exactly the implementation's steps in the
   implementation's order and emits exactly its events; all threads have finished; the lock is free; same final cache *)
Definition check_conc (c : ccase) : bool :=
  match conc_follow c with
  | None => false
  | Some (fin, ls) =>
      all2 lab_ok ls (map snd (cc_events c)) && tids_ok None (cc_events c)
      && forallb thread_done (cs_threads fin)
      && match cs_owner fin with None => true | Some _ => false end
      && cache_same (cs_cache fin) (cc_final c)
  end.

Inductive xcase := XSeq (c : case) | XConc (c : ccase).
Definition check_xcase (x : xcase) : bool :=
  match x with XSeq c => check_case c | XConc c => check_conc c end.

(* diagnosis: were all steps enabled in the model; number of leading events the model reproduces; final cache equal *)
Fixpoint agree_prefix (ls : list label) (evs : list oev) : nat :=
  match ls, evs with
  | l :: ls', e :: evs' => if lab_ok l e then S (agree_prefix ls' evs') else O
  | _, _ => O
  end.
Definition conc_result (c : ccase) : bool * nat * nat * bool :=
  match conc_follow c with
  | None =>
      (* how far does the skipping run get *)
      match resolve_progs (cc_md c) (cc_progs c) with
      | None => (false, O, O, false)
      | Some progs =>
          let r := crun (cc_env c) (hook_of (cc_hooks c)) true (cc_md c) (cinit (cc_init c) progs) (sched_of (cc_events c)) in
          (false, agree_prefix (snd r) (map snd (cc_events c)), length (cc_events c), false)
      end
  | Some (fin, ls) =>
      (true, agree_prefix ls (map snd (cc_events c)), length (cc_events c), cache_same (cs_cache fin) (cc_final c))
  end.
