(* C04 — correspondence driver: a case carries the module description, the user hooks, the initial cache, the request
   history (with the scripted driver behaviour) and what the implementation did per request; check_case re-runs the
   model and compares reply class, driver calls, hook calls, emitted updates and the cache after every request. *)
From Coq Require Import ZArith NArith Bool List.
Import ListNotations.
Require Import FV.Base.Util FV.Base.F64 FV.Base.PyVal FV.C01.Model FV.Gen.C04 FV.C04.Model.

(* the generated check_<p> hooks: "if <cond>: <action>" *)
Inductive hcond := HcNever | HcAlways | HcGt (q : str).      (* HcGt q:  value > self.<q> *)
Inductive hact := HaRange | HaStop | HaPy.                    (* raise RangeError / return True / raise ValueError *)

Definition act_res (a : hact) : hres :=
  match a with HaRange => HRaise (ESecop RangeError) | HaStop => HStop | HaPy => HRaise EPy end.

Definition hook_of (tbl : list (nat * (hcond * hact))) (i : nat) (v : pyval) (c : cache) : hres :=
  match assoc_nat i tbl with
  | None => HNone
  | Some (HcNever, _) => HNone
  | Some (HcAlways, a) => act_res a
  | Some (HcGt q, a) =>
      match getp c q with
      | None => HRaise EPy                                      (* AttributeError *)
      | Some x => match py_gt v x with
                  | Ok true => act_res a
                  | Ok false => HNone
                  | Err _ => HRaise EPy                         (* TypeError *)
                  end
      end
  end.

Record obs := {
  ob_reply : option ecls;
  ob_drv : list call;
  ob_hooks : list (nat * pyval);
  ob_upd : list (str * pyval);
  ob_cache : cache;
}.

Record case := {
  c_env : pyenv;
  c_md : mdesc;
  c_hooks : list (nat * (hcond * hact));
  c_init : cache;
  c_reqs : list request;
  c_obs : list obs;
}.

Definition call_eqb (a b : call) : bool :=
  match a, b with
  | Write p v, Write q w => str_eqb p q && pv_same v w
  | Call p v, Call q w => str_eqb p q && pv_same v w
  | _, _ => false
  end.

Definition cache_same (m o : cache) : bool :=
  Nat.eqb (length m) (length o) &&
  forallb (fun nv : str * pyval => match getp m (fst nv) with Some x => pv_same x (snd nv) | None => false end) o.

Definition obs_ok (o : out) (b : obs) : bool :=
  opt_eqb ecls_eqb (o_reply o) (ob_reply b)
  && list_eqb call_eqb (o_drv o) (ob_drv b)
  && list_eqb (pair_eqb Nat.eqb pv_same) (o_hooks o) (ob_hooks b)
  && list_eqb (pair_eqb str_eqb pv_same) (o_upd o) (ob_upd b)
  && cache_same (o_cache o) (ob_cache b).

Fixpoint all_ok (outs : list out) (os : list obs) : bool :=
  match outs, os with
  | [], [] => true
  | o :: outs', b :: os' => obs_ok o b && all_ok outs' os'
  | _, _ => false
  end.

Definition model_outs (c : case) : list out :=
  run (c_env c) (hook_of (c_hooks c)) (c_md c) (c_init c) (c_reqs c).

Definition check_case (c : case) : bool := all_ok (model_outs c) (c_obs c).

(* for diagnosis in replay files: per request, which components agree (reply, driver calls, hook calls, updates, cache).
   (Printing model values themselves would make vm_compute normalise the proof fields of the floats.) *)
Fixpoint diag_from (outs : list out) (os : list obs) : list (bool * bool * bool * bool * bool) :=
  match outs, os with
  | o :: outs', b :: os' =>
      (opt_eqb ecls_eqb (o_reply o) (ob_reply b), list_eqb call_eqb (o_drv o) (ob_drv b),
       list_eqb (pair_eqb Nat.eqb pv_same) (o_hooks o) (ob_hooks b),
       list_eqb (pair_eqb str_eqb pv_same) (o_upd o) (ob_upd b), cache_same (o_cache o) (ob_cache b)) :: diag_from outs' os'
  | _, _ => []
  end.
Definition model_result (c : case) : list (option ecls) * list (bool * bool * bool * bool * bool) :=
  (map o_reply (model_outs c), diag_from (model_outs c) (c_obs c)).
