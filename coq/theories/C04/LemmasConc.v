(* C04 — concurrent layer, proofs: while a thread is between the acquire of the accessLock and the driver call nobody
   else changes the module's cache, so the check chain it went through is the check chain of the cache AT the driver call.
   Invariant over fold_left of the step function, for all programs, schedules, hooks and drivers. *)
From Coq Require Import ZArith NArith Bool List Lia.
Import ListNotations.
Require Import FV.Base.Util FV.Base.F64 FV.Base.PyVal FV.C01.Model FV.C04.Model FV.C04.Lemmas FV.C04.ConcModel.

(* ------------------------------------------------------------------ list update *)
Lemma nth_set_nth_same {A} n (x y : A) l : nth_error l n = Some y -> nth_error (set_nth n x l) n = Some x.
Proof.
  revert n. induction l as [|a l IH]; intros [|n]; cbn; try discriminate; auto.
Qed.

Lemma nth_set_nth_other {A} n m (x : A) l : n <> m -> nth_error (set_nth n x l) m = nth_error l m.
Proof.
  revert n m. induction l as [|a l IH]; intros [|n] [|m] H; cbn; auto; try congruence.
Qed.

Section ConcLemmas.
Variable E : pyenv.
Variable hook : nat -> pyval -> cache -> hres.
Variable md : mdesc.

Notation run_checks := (run_checks hook).
Notation tstep := (tstep E hook true md).
Notation cstep := (cstep E hook true md).
Notation crun := (crun E hook true md).
Notation crun_step := (crun_step E hook true md).

(* what is known about a thread in control state q when the module cache is c and the lock owner o *)
Definition tinv (c : cache) (o : option nat) (t : nat) (q : pc) : Prop :=
  match q with
  | PIdle | PWait _ => True
  | PChk w nv rest =>
      o = Some t /\ dt_validate (p_dt (w_p w)) (w_v w) PNone = Ok nv /\
      snd (run_checks (p_checks (w_p w)) (p_name (w_p w)) (w_v w) c) = snd (run_checks rest (p_name (w_p w)) (w_v w) c)
  | PAcq _ _ => False
  | PDrv w nv =>
      o = Some t /\ dt_validate (p_dt (w_p w)) (w_v w) PNone = Ok nv /\ checks_pass hook (w_p w) (w_v w) c
  end.

(* the statement about one label: a driver invocation carries the validated value, and the whole check chain of the
   parameter passes on the cache of that moment *)
Definition drv_ok (l : label) : Prop :=
  match l with
  | LDrv p v nv c => dt_validate (p_dt p) v PNone = Ok nv /\ checks_pass hook p v c
  | _ => True
  end.

Lemma do_store_labels w x c : Forall drv_ok (snd (do_store w x c)).
Proof.
  unfold do_store. cbn. apply Forall_app. split.
  - apply Forall_forall. intros l H. apply in_map_iff in H. destruct H as (u & <- & _). exact I.
  - repeat constructor.
Qed.

Definition sres_ok (t : nat) (r : sres) : Prop :=
  let '(c', o', q, l) := r in tinv c' o' t q /\ Forall drv_ok l.

Lemma after_checks_ok w nv c t :
  dt_validate (p_dt (w_p w)) (w_v w) PNone = Ok nv -> checks_pass hook (w_p w) (w_v w) c ->
  sres_ok t (after_checks w nv c t).
Proof.
  intros V P. unfold after_checks. destruct (p_haswrite (w_p w)).
  - cbn. repeat split; auto.
  - pose proof (do_store_labels w nv c) as L. destruct (do_store w nv c) as [c' l]. cbn in *. split; [exact I|exact L].
Qed.

Lemma next_pc_ok w nv rest c t :
  dt_validate (p_dt (w_p w)) (w_v w) PNone = Ok nv ->
  snd (run_checks (p_checks (w_p w)) (p_name (w_p w)) (w_v w) c) = snd (run_checks rest (p_name (w_p w)) (w_v w) c) ->
  sres_ok t (next_pc true w nv rest c (Some t) t).
Proof.
  intros V P. unfold next_pc. destruct rest as [|k r].
  - apply after_checks_ok; [exact V|exact P].
  - cbn. repeat split; auto.
Qed.

Lemma enter_ok w c t : sres_ok t (enter true w c (Some t) t).
Proof.
  unfold enter. destruct (dt_validate (p_dt (w_p w)) (w_v w) PNone) as [nv|e] eqn:V.
  - apply next_pc_ok; [exact V|reflexivity].
  - cbn. split; [exact I|repeat constructor].
Qed.

Lemma sres_ok_cons t c' o' q l x : drv_ok x -> sres_ok t (c', o', q, l) -> sres_ok t (c', o', q, x :: l).
Proof. intros X [A B]. split; [exact A|constructor; assumption]. Qed.

Lemma check_step_ok w nv k rest c t :
  tinv c (Some t) t (PChk w nv (k :: rest)) -> sres_ok t (check_step hook true w nv k rest c (Some t) t).
Proof.
  intros (_ & V & P). unfold check_step. destruct k as [|i].
  - cbn in P. destruct (check_limits (p_name (w_p w)) (w_v w) c) as [[]|e] eqn:C.
    + pose proof (next_pc_ok w nv rest c t V P) as N.
      destruct (next_pc true w nv rest c (Some t) t) as [[[c' o'] q] l]. apply sres_ok_cons; [exact I|exact N].
    + cbn. split; [exact I|repeat constructor].
  - cbn in P. destruct (hook i (w_v w) c) eqn:H.
    + assert (P' : snd (run_checks (p_checks (w_p w)) (p_name (w_p w)) (w_v w) c) =
                   snd (run_checks rest (p_name (w_p w)) (w_v w) c)).
      { rewrite P. destruct (run_checks rest (p_name (w_p w)) (w_v w) c) as [l0 o0]. reflexivity. }
      pose proof (next_pc_ok w nv rest c t V P') as N.
      destruct (next_pc true w nv rest c (Some t) t) as [[[c' o'] q] l]. apply sres_ok_cons; [exact I|exact N].
    + pose proof (next_pc_ok w nv [] c t V P) as N.
      destruct (next_pc true w nv [] c (Some t) t) as [[[c' o'] q] l]. apply sres_ok_cons; [exact I|exact N].
    + cbn. split; [exact I|repeat constructor].
Qed.

Lemma drv_step_labels w nv c :
  dt_validate (p_dt (w_p w)) (w_v w) PNone = Ok nv -> checks_pass hook (w_p w) (w_v w) c ->
  Forall drv_ok (snd (drv_step w nv c)).
Proof.
  intros V P. unfold drv_step. assert (D : drv_ok (LDrv (w_p w) (w_v w) nv c)) by (split; assumption).
  destruct (drv_norm (w_drv w)) as [| |r|e].
  - pose proof (do_store_labels w (w_v w) c) as L. destruct (do_store w (w_v w) c) as [c' l]. cbn in *. constructor; assumption.
  - cbn. repeat constructor; assumption.
  - destruct (dt_validate (p_dt (w_p w)) r PNone) as [x|e].
    + pose proof (do_store_labels w x c) as L. destruct (do_store w x c) as [c' l]. cbn in *. constructor; assumption.
    + cbn. repeat constructor; assumption.
  - cbn. repeat constructor; assumption.
Qed.

Lemma begin_op_ok w c o t r : begin_op true w c o t = Some r -> o = None /\ sres_ok t r.
Proof.
  unfold begin_op. destruct o as [u|]; [discriminate|].
  pose proof (enter_ok w c t) as N. destruct (enter true w c (Some t) t) as [[[c' o'] q] l].
  intros H. injection H as <-. split; [reflexivity|]. apply sres_ok_cons; [exact I|exact N].
Qed.

(* a step of thread t: its own invariant is re-established, all emitted driver labels are fine, and the step either
   leaves cache and lock alone, or found the lock free, or was made by the lock owner *)
Lemma tstep_self t c o th c' o' th' l :
  tstep t c o th = Some (c', o', th', l) -> tinv c o t (t_pc th) ->
  tinv c' o' t (t_pc th') /\ Forall drv_ok l /\ ((c' = c /\ o' = o) \/ o = None \/ o = Some t).
Proof.
  unfold ConcModel.tstep. destruct (t_pc th) as [|w|w nv rest|w nv|w nv] eqn:Q.
  - destruct (t_todo th) as [|[p v d|rq] todo]; [discriminate| |].
    + destruct (begin_op true _ c o t) as [r|] eqn:B; [|discriminate].
      apply begin_op_ok in B. destruct B as [-> S]. destruct r as [[[c1 o1] q1] l1]. cbn.
      intros H _. injection H as <- <- <- <-. destruct S as [S1 S2]. cbn. auto.
    + destruct (rq_act rq); [|discriminate].
      destruct (pre_change E md c rq) as [e|[p v]]; intros H _; injection H as <- <- <- <-; cbn;
        (split; [exact I|split; [repeat constructor|left; auto]]).
  - destruct (begin_op true w c o t) as [r|] eqn:B; [|discriminate].
    apply begin_op_ok in B. destruct B as [-> S]. destruct r as [[[c1 o1] q1] l1]. cbn.
    intros H _. injection H as <- <- <- <-. destruct S as [S1 S2]. cbn. auto.
  - destruct rest as [|k rest]; [discriminate|].
    intros H T. pose proof T as (-> & _). pose proof (check_step_ok w nv k rest c t T) as S.
    destruct (check_step hook true w nv k rest c (Some t) t) as [[[c1 o1] q1] l1].
    injection H as <- <- <- <-. destruct S as [S1 S2]. cbn. auto.
  - intros _ [].
  - intros H (-> & V & P). pose proof (drv_step_labels w nv c V P) as L.
    destruct (drv_step w nv c) as [c1 l1]. injection H as <- <- <- <-. cbn in *. auto.
Qed.

Lemma tinv_other c o c' o' t u q :
  tinv c o u q -> (c' = c /\ o' = o) \/ o = None \/ o = Some t -> u <> t -> tinv c' o' u q.
Proof.
  intros T F N. destruct q as [|w|w nv rest|w nv|w nv]; cbn in *; auto.
  - destruct T as (O & V & P). destruct F as [[-> ->]|[->| ->]]; [auto|discriminate|injection O as ->; contradiction].
  - destruct T as (O & V & P). destruct F as [[-> ->]|[->| ->]]; [auto|discriminate|injection O as ->; contradiction].
Qed.

(* ------------------------------------------------------------------ the global invariant *)
Definition cinv (st : cstate) : Prop :=
  forall u th, nth_error (cs_threads st) u = Some th -> tinv (cs_cache st) (cs_owner st) u (t_pc th).

Lemma cstep_inv st t st' l : cinv st -> cstep st t = Some (st', l) -> cinv st' /\ Forall drv_ok l.
Proof.
  intros I. unfold ConcModel.cstep. destruct (nth_error (cs_threads st) t) as [th|] eqn:N; [|discriminate].
  destruct (tstep t (cs_cache st) (cs_owner st) th) as [[[[c' o'] th'] l']|] eqn:S; [|discriminate].
  intros H. injection H as <- <-.
  destruct (tstep_self _ _ _ _ _ _ _ _ S (I _ _ N)) as (T & L & F).
  split; [|exact L]. intros u thu. cbn. destruct (Nat.eq_dec t u) as [<-|D].
  - rewrite (nth_set_nth_same _ _ _ _ N). intros G. injection G as <-. exact T.
  - rewrite (nth_set_nth_other _ _ _ _ D). intros G. apply (tinv_other _ _ _ _ t _ _ (I _ _ G) F). auto.
Qed.

Lemma cinit_inv c progs : cinv (cinit c progs).
Proof.
  intros u th. unfold cinit. cbn. intros H. apply nth_error_In, in_map_iff in H. destruct H as (todo & <- & _). exact I.
Qed.

Lemma crun_from st acc sched :
  cinv st -> Forall drv_ok acc ->
  cinv (fst (fold_left crun_step sched (st, acc))) /\ Forall drv_ok (snd (fold_left crun_step sched (st, acc))).
Proof.
  revert st acc. induction sched as [|t r IH]; intros st acc I A; cbn [fold_left]; [auto|].
  assert (Hs : crun_step (st, acc) t =
               match cstep st t with Some (st', l) => (st', acc ++ l) | None => (st, acc) end).
  { unfold ConcModel.crun_step. cbn. destruct (cstep st t) as [[st' l]|]; reflexivity. }
  rewrite Hs. destruct (cstep st t) as [[st' l]|] eqn:S.
  - destruct (cstep_inv _ _ _ _ I S) as [I' L]. apply IH; [exact I'|apply Forall_app; auto].
  - apply IH; assumption.
Qed.

(* every state reached from an initial state, under every schedule *)
Lemma crun_inv c progs sched :
  cinv (fst (crun (cinit c progs) sched)) /\ Forall drv_ok (snd (crun (cinit c progs) sched)).
Proof. apply crun_from; [apply cinit_inv|constructor]. Qed.

(* main lemma: the check chain passes on the cache of the moment of the driver call *)
Lemma limits_current_at_driver_call c0 progs sched p v nv c :
  In (LDrv p v nv c) (snd (crun (cinit c0 progs) sched)) ->
  dt_validate (p_dt p) v PNone = Ok nv /\ checks_pass hook p v c /\
  ((forall i, In (CkUser i) (p_checks p) -> hook i v c <> HStop) -> In CkAuto (p_checks p) ->
   limits_respected (p_name p) v c /\ not_inverted (p_name p) c).
Proof.
  intros H. destruct (crun_inv c0 progs sched) as [_ L].
  rewrite Forall_forall in L. specialize (L _ H). destruct L as [V P]. split; [exact V|split; [exact P|]].
  intros NS A. pose proof (run_checks_all hook _ _ _ _ P NS) as F. rewrite Forall_forall in F.
  specialize (F _ A). cbn in F. apply check_limits_respected, F.
Qed.

(* mutual exclusion: at most one thread is between acquire and release *)
Definition in_wrapper (q : pc) : bool := match q with PChk _ _ _ | PDrv _ _ | PAcq _ _ => true | _ => false end.

Lemma wrapper_exclusive c0 progs sched t u tht thu :
  let st := fst (crun (cinit c0 progs) sched) in
  nth_error (cs_threads st) t = Some tht -> nth_error (cs_threads st) u = Some thu ->
  in_wrapper (t_pc tht) = true -> in_wrapper (t_pc thu) = true -> t = u /\ cs_owner st = Some t.
Proof.
  cbn zeta. destruct (crun_inv c0 progs sched) as [I _]. intros A B X Y.
  pose proof (I _ _ A) as TA. pose proof (I _ _ B) as TB.
  destruct (t_pc tht); try discriminate; destruct (t_pc thu); try discriminate; cbn in TA, TB;
    try contradiction; destruct TA as (OA & _); destruct TB as (OB & _); rewrite OA in OB; injection OB as <-; auto.
Qed.

(* the cache only changes in a step of the lock owner (or of a thread that takes the free lock in that step) *)
Lemma cache_changed_by_owner st t st' l :
  cinv st -> cstep st t = Some (st', l) -> cs_cache st' <> cs_cache st -> cs_owner st = None \/ cs_owner st = Some t.
Proof.
  intros I. unfold ConcModel.cstep. destruct (nth_error (cs_threads st) t) as [th|] eqn:N; [|discriminate].
  destruct (tstep t (cs_cache st) (cs_owner st) th) as [[[[c' o'] th'] l']|] eqn:S; [|discriminate].
  intros H. injection H as <- <-. cbn. intros D.
  destruct (tstep_self _ _ _ _ _ _ _ _ S (I _ _ N)) as (_ & _ & [[-> _]|F]); [contradiction|exact F].
Qed.

End ConcLemmas.

(* ------------------------------------------------------------------ the strict run of the correspondence is a run *)
Lemma cfollow_is_crun E hook inside md sched : forall st acc fin ls,
  cfollow E hook inside md st sched = Some (fin, ls) ->
  fold_left (crun_step E hook inside md) sched (st, acc) = (fin, acc ++ ls).
Proof.
  induction sched as [|t r IH]; intros st acc fin ls; cbn.
  - intros H. injection H as <- <-. rewrite app_nil_r. reflexivity.
  - assert (Hs : crun_step E hook inside md (st, acc) t =
                 match cstep E hook inside md st t with Some (st', l) => (st', acc ++ l) | None => (st, acc) end).
    { unfold crun_step. cbn. destruct (cstep E hook inside md st t) as [[st' l]|]; reflexivity. }
    rewrite Hs. destruct (cstep E hook inside md st t) as [[st' l]|]; [|discriminate].
    destruct (cfollow E hook inside md st' r) as [[fin' ls']|] eqn:F; [|discriminate].
    intros H. injection H as <- <-. rewrite (IH _ (acc ++ l) _ _ F), app_assoc. reflexivity.
Qed.

(* ------------------------------------------------------------------ the request step of the concurrent model *)
(* pre_change is Model.handle_change cut in front of the wrapper call *)
Lemma handle_change_pre E hook md c rq :
  handle_change E hook md c rq =
  match pre_change E md c rq with
  | inl e => fail c e [] []
  | inr (p, v) => reply_export p (write_wrapper hook p v c (rq_drv rq))
  end.
Proof.
  unfold handle_change, pre_change. destruct (negb (str_eqb (rq_mod rq) (md_name md))); [reflexivity|].
  destruct (lookup_export md _) as [[p|cm]|]; try reflexivity.
  destruct (p_constant p); [reflexivity|]. destruct (p_readonly p); [reflexivity|].
  destruct (wire E (p_dt p) (rq_data rq) _); reflexivity.
Qed.
