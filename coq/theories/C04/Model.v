(* C04 — executable model of the request path  client request -> Dispatcher -> write wrapper / Command.do -> driver.
   Mirrors, branch by branch:
     frappy/protocol/dispatcher.py   handle_change / handle_do / _setParameterValue / _execute_command
     frappy/modulebase.py            new_wfunc (write wrapper), checkLimits, announceUpdate (store + emit), _add_accessible (export map)
     frappy/params.py                Command.do
     frappy/protocol/interface/handler.py   exception -> error class of the report
   Datatype validation/import is the shared model FV.C01.Model.  No proofs here. *)
From Coq Require Import ZArith NArith Bool List.
Import ListNotations.
Require Import FV.Base.Util FV.Base.F64 FV.Base.PyVal FV.C01.Model.

(* ------------------------------------------------------------------ errors *)
(* SECoP error class names as they appear in an error report *)
Inductive ecls := NoSuchModule | NoSuchParameter | NoSuchCommand | ReadOnly | WrongType | RangeError
                | HardwareError | InternalError | ProtocolError.

Definition ecls_eqb (a b : ecls) : bool :=
  match a, b with
  | NoSuchModule, NoSuchModule | NoSuchParameter, NoSuchParameter | NoSuchCommand, NoSuchCommand
  | ReadOnly, ReadOnly | WrongType, WrongType | RangeError, RangeError | HardwareError, HardwareError
  | InternalError, InternalError | ProtocolError, ProtocolError => true
  | _, _ => false
  end.

(* an exception travelling up to RequestHandler.handle: an instance of a SECoPError subclass (with its name)
   or any other Python exception *)
Inductive err := ESecop (c : ecls) | EPy.

(* datatypes raise RangeError / WrongTypeError (SECoP errors) or leak a Python exception *)
Definition of_exc (e : exc) : err :=
  match e with ERange => ESecop RangeError | EWrongType => ESecop WrongType | _ => EPy end.

(* handler.py: "except SECoPError as err: err.name" / "except Exception: 'InternalError'" *)
Definition report (e : err) : ecls := match e with ESecop c => c | EPy => InternalError end.

(* ------------------------------------------------------------------ module description *)
Inductive check := CkAuto | CkUser (id : nat).     (* generated checkLimits lambda / user check_<p> *)

Record param := {
  p_name : str;                 (* attribute name *)
  p_export : option str;        (* exported (wire) name; None = not exported *)
  p_dt : dtype;
  p_readonly : bool;
  p_constant : bool;            (* constant is not None *)
  p_haswrite : bool;            (* the class has a write_<p> method *)
  p_checks : list check;        (* check_<p> functions found in the dicts of the MRO, in MRO order *)
}.

Record command := {
  c_name : str;
  c_export : option str;
  c_arg : option dtype;
  c_res : option dtype;
}.

Inductive accessible := AParam (p : param) | ACmd (c : command).

Definition acc_export (a : accessible) : option str :=
  match a with AParam p => p_export p | ACmd c => c_export c end.

Record mdesc := {
  md_name : str;
  md_export : bool;             (* module property export; False: no accessible gets a wire name *)
  md_acc : list accessible;
}.

(* parameter cache: attribute name -> value *)
Definition cache := list (str * pyval).
Definition getp (c : cache) (n : str) : option pyval := assoc_str n c.
Definition setp (c : cache) (n : str) (v : pyval) : cache := dict_set n v c.

(* Module._add_accessible: accessiblename2attr[accessible.export] = name, only when exported *)
Fixpoint find_export (accs : list accessible) (ename : str) : option accessible :=
  match accs with
  | [] => None
  | a :: r => match acc_export a with
              | Some e => if str_eqb ename e then Some a else find_export r ename
              | None => find_export r ename
              end
  end.
Definition lookup_export (md : mdesc) (ename : str) : option accessible :=
  if md_export md then find_export (md_acc md) ename else None.

(* ------------------------------------------------------------------ python number comparison *)
(* None = TypeError; Some None = unordered (nan) *)
Definition fcmp (x y : f64) : option comparison :=
  if flt x y then Some Lt else if feq x y then Some Eq else if flt y x then Some Gt else None.
Definition as_num (v : pyval) : pyval := match v with PBool b => PInt (if b then 1 else 0)%Z | _ => v end.
Definition num_cmp (a b : pyval) : option (option comparison) :=
  match as_num a, as_num b with
  | PInt x, PInt y => Some (Some (Z.compare x y))
  | PFloat x, PFloat y => Some (fcmp x y)
  | PInt x, PFloat y => Some (cmp_Z_f x y)
  | PFloat x, PInt y => Some (option_map CompOpp (cmp_Z_f y x))
  | _, _ => None
  end.
Definition py_lt (a b : pyval) : res bool :=
  match num_cmp a b with None => Err EType | Some (Some Lt) => Ok true | Some _ => Ok false end.
Definition py_le (a b : pyval) : res bool :=
  match num_cmp a b with None => Err EType | Some (Some Lt) | Some (Some Eq) => Ok true | Some _ => Ok false end.
Definition py_gt (a b : pyval) : res bool := py_lt b a.

(* ------------------------------------------------------------------ Module.checkLimits *)
Definition s_limits : str := [95; 108; 105; 109; 105; 116; 115]%N.   (* _limits *)
Definition s_min : str := [95; 109; 105; 110]%N.                       (* _min *)
Definition s_max : str := [95; 109; 97; 120]%N.                        (* _max *)
Definition s_target : str := [116; 97; 114; 103; 101; 116]%N.          (* target *)

(* try: min_, max_ = getattr(self, pname + '_limits'); if not min_ <= value <= max_: raise RangeError
   except AttributeError: pass          -- no return: <p>_min / <p>_max are checked as well (fix e1c174f) *)
Definition check_tuple (pn : str) (v : pyval) (c : cache) : res unit :=
  match getp c (pn ++ s_limits) with
  | Some (PTuple [lo; hi]) =>
      py_le lo v >>= fun b1 =>
      if b1 then py_le v hi >>= fun b2 => if b2 then Ok tt else Err ERange
      else Err ERange
  | Some _ => Err EValue                                  (* unpacking fails *)
  | None => Ok tt
  end.

Definition check_minmax (pn : str) (v : pyval) (c : cache) : res unit :=
  let lo := match getp c (pn ++ s_min) with Some x => x | None => PFloat (finf true) end in
  let hi := match getp c (pn ++ s_max) with Some x => x | None => PFloat (finf false) end in
  py_gt lo hi >>= fun inv =>
  if inv then Err ERange else
  py_lt v lo >>= fun below =>
  if below then Err ERange else
  py_gt v hi >>= fun above =>
  if above then Err ERange else Ok tt.

Definition check_limits (pn : str) (v : pyval) (c : cache) : res unit :=
  check_tuple pn v c >>= fun _ => check_minmax pn v c.

(* ------------------------------------------------------------------ user code: hooks and driver *)
Inductive hres := HNone | HStop | HRaise (e : err).       (* returns falsy / returns truthy / raises *)
Inductive drv := DNone | DDone | DVal (v : pyval) | DRaise (e : err).
(* a function returning the value None is a function returning None *)
Definition drv_norm (d : drv) : drv := match d with DVal PNone => DNone | _ => d end.

Inductive call := Write (p : str) (v : pyval) | Call (c : str) (v : pyval).

Inductive action := AChange | ADo.

Record request := {
  rq_act : action;
  rq_mod : str;
  rq_acc : option str;          (* part of the specifier after the first colon, if any *)
  rq_data : pyval;
  rq_drv : drv;                 (* what the driver function does if it is called during this request *)
}.

Record out := {
  o_reply : option ecls;        (* None: success reply; Some c: error report of class c *)
  o_drv : list call;            (* calls of write_<p> / command functions *)
  o_hooks : list (nat * pyval); (* calls of user check_<p> hooks *)
  o_upd : list (str * pyval);   (* updates emitted to subscribers: attribute name, new value *)
  o_cache : cache;
}.

(* StructOf/ArrayOf/TupleOf.export_value: check_type(value, True) -- since fix 45926fd optional members may be absent,
   mandatory ones must be present, unknown keys are refused -- then the members element-wise; leaves always export. *)
Fixpoint exportable (d : dtype) (v : pyval) {struct d} : bool :=
  match d with
  | TArray elem _ _ =>
      match v with PTuple l | PList l => forallb (exportable elem) l | _ => true end
  | TTuple elems =>
      match v with
      | PTuple l | PList l =>
          (fix go (ds : list dtype) (l : list pyval) : bool :=
             match ds, l with d1 :: ds', x :: r => exportable d1 x && go ds' r | _, _ => true end) elems l
      | _ => true
      end
  | TStruct members optional _ =>
      match v with
      | PDict kv =>
          forallb (fun m : str * dtype => mem_str (fst m) optional || mem_str (fst m) (map fst kv)) members &&
          forallb (fun p : str * pyval =>
                     (fix find (ms : list (str * dtype)) : bool :=
                        match ms with
                        | [] => false
                        | (n, d1) :: ms' => if str_eqb (fst p) n then exportable d1 (snd p) else find ms'
                        end) members) kv
      | _ => true
      end
  | _ => true
  end.

Section Handlers.
Variable E : pyenv.
Variable hook : nat -> pyval -> cache -> hres.            (* user check_<p> hooks: any function of value and module state *)

Definition fail (c : cache) (e : err) (dl : list call) (hl : list (nat * pyval)) : out :=
  {| o_reply := Some (report e); o_drv := dl; o_hooks := hl; o_upd := []; o_cache := c |}.

(* for c in check_funcs: if c(self, value): break *)
Fixpoint run_checks (cks : list check) (pn : str) (v : pyval) (c : cache) : list (nat * pyval) * option err :=
  match cks with
  | [] => ([], None)
  | CkAuto :: r =>
      match check_limits pn v c with
      | Ok _ => run_checks r pn v c
      | Err e => ([], Some (of_exc e))
      end
  | CkUser i :: r =>
      match hook i v c with
      | HNone => let '(l, o) := run_checks r pn v c in ((i, v) :: l, o)
      | HStop => ([(i, v)], None)
      | HRaise e => ([(i, v)], Some e)
      end
  end.

(* announceUpdate(pname, value, validate=False): store, then updateCallback if exported.  The callback builds the update
   message with pobj.export_value() BEFORE anything is sent: a stored value that does not export raises WrongTypeError
   out of announceUpdate, after the cache was written *)
Definition store (p : param) (x : pyval) (c : cache) (dl : list call) (hl : list (nat * pyval)) : out :=
  match p_export p with
  | Some _ =>
      if exportable (p_dt p) x then
        {| o_reply := None; o_drv := dl; o_hooks := hl; o_upd := [(p_name p, x)]; o_cache := setp c (p_name p) x |}
      else
        {| o_reply := Some WrongType; o_drv := dl; o_hooks := hl; o_upd := []; o_cache := setp c (p_name p) x |}
  | None => {| o_reply := None; o_drv := dl; o_hooks := hl; o_upd := []; o_cache := setp c (p_name p) x |}
  end.

(* _setParameterValue: return pobj.export_value(), ... -- the reply is built from the cached value *)
Definition reply_export (p : param) (o : out) : out :=
  match o_reply o with
  | Some _ => o
  | None =>
      match getp (o_cache o) (p_name p) with
      | Some x => if exportable (p_dt p) x then o
                  else {| o_reply := Some WrongType; o_drv := o_drv o; o_hooks := o_hooks o; o_upd := o_upd o;
                          o_cache := o_cache o |}
      | None => o
      end
  end.

(* HasAccessibles.__init_subclass__.new_wfunc *)
Definition write_wrapper (p : param) (v : pyval) (c : cache) (d : drv) : out :=
  match dt_validate (p_dt p) v PNone with
  | Err e => fail c (of_exc e) [] []
  | Ok nv =>
      let '(hl, oe) := run_checks (p_checks p) (p_name p) v c in
      match oe with
      | Some e => fail c e [] hl
      | None =>
          if p_haswrite p then
            let dl := [Write (p_name p) nv] in
            match drv_norm d with
            | DDone => {| o_reply := None; o_drv := dl; o_hooks := hl; o_upd := []; o_cache := c |}
            | DNone => store p v c dl hl
            | DVal r =>
                match dt_validate (p_dt p) r PNone with
                | Ok x => store p x c dl hl
                | Err e => fail c (of_exc e) dl hl
                end
            | DRaise e => fail c e dl hl
            end
          else store p nv c [] hl
      end
  end.

(* Dispatcher.handle_change + _setParameterValue *)
Definition handle_change (md : mdesc) (c : cache) (rq : request) : out :=
  if negb (str_eqb (rq_mod rq) (md_name md)) then fail c (ESecop NoSuchModule) [] [] else
  let ename := match rq_acc rq with Some a => a | None => s_target end in
  match lookup_export md ename with
  | Some (AParam p) =>
      if p_constant p then fail c (ESecop ReadOnly) [] [] else
      if p_readonly p then fail c (ESecop ReadOnly) [] [] else
      let prev := match getp c (p_name p) with Some x => x | None => PNone end in
      match wire E (p_dt p) (rq_data rq) prev with
      | Err e => fail c (of_exc e) [] []
      | Ok v => reply_export p (write_wrapper p v c (rq_drv rq))
      end
  | _ => fail c (ESecop NoSuchParameter) [] []
  end.

(* Command.do after the argument has been prepared: call, convert the result *)
Definition call_cmd (cm : command) (a : pyval) (c : cache) (d : drv) : out :=
  let dl := [Call (c_name cm) a] in
  match d with
  | DRaise e => fail c e dl []
  | _ =>
      let r := match d with DVal r => r | DDone => POpaque | _ => PNone end in    (* Done: an object without peculiarities *)
      match c_res cm with
      | Some rd =>
          match dt_call rd r with
          | Ok _ => {| o_reply := None; o_drv := dl; o_hooks := []; o_upd := []; o_cache := c |}
          | Err e => fail c (of_exc e) dl []
          end
      | None => {| o_reply := None; o_drv := dl; o_hooks := []; o_upd := []; o_cache := c |}
      end
  end.

(* Command.do *)
Definition do_cmd (cm : command) (c : cache) (rq : request) : out :=
  match c_arg cm with
  | Some ad =>
      match rq_data rq with
      | PNone => fail c (ESecop WrongType) [] []
      | j =>
          match dt_import E ad j with
          | Err e => fail c (of_exc e) [] []
          | Ok a =>
              match dt_validate ad a PNone with
              | Err e => fail c (of_exc e) [] []
              | Ok w => call_cmd cm w c (rq_drv rq)       (* argument = self.argument.validate(argument) *)
              end
          end
      end
  | None =>
      match rq_data rq with
      | PNone => call_cmd cm (PTuple []) c (rq_drv rq)
      | _ => fail c (ESecop WrongType) [] []
      end
  end.

(* Dispatcher.handle_do + _execute_command *)
Definition handle_do (md : mdesc) (c : cache) (rq : request) : out :=
  match rq_acc rq with
  | None => fail c (ESecop ProtocolError) [] []            (* if ':' not in specifier: raise ProtocolError (fix 8821998) *)
  | Some ename =>
      if negb (str_eqb (rq_mod rq) (md_name md)) then fail c (ESecop NoSuchModule) [] [] else
      match lookup_export md ename with
      | Some (ACmd cm) => do_cmd cm c rq
      | _ => fail c (ESecop NoSuchCommand) [] []
      end
  end.

Definition handle (md : mdesc) (c : cache) (rq : request) : out :=
  match rq_act rq with AChange => handle_change md c rq | ADo => handle_do md c rq end.

(* a history of requests: outputs in order, final cache *)
Fixpoint run (md : mdesc) (c : cache) (rqs : list request) : list out :=
  match rqs with
  | [] => []
  | rq :: r => let o := handle md c rq in o :: run md (o_cache o) r
  end.

Definition step (md : mdesc) (c : cache) (rq : request) : cache := o_cache (handle md c rq).
Definition final (md : mdesc) (c : cache) (rqs : list request) : cache := fold_left (step md) rqs c.

End Handlers.
