(* C04 — why "the whole body of new_wfunc is under self.accessLock" is an obligation on the source: the same transition
   system with validation and check loop BEFORE the lock is taken (inside = false) has a run in which the driver is
   called with a value that violates the limit held in the cache at that moment.  This is not a defect of the code as it
   is; it is the witness that the theorem C04_limits_current_at_driver_call needs the lock around the checks. *)
From Coq Require Import ZArith NArith Bool List.
Import ListNotations.
Require Import FV.Base.Util FV.Base.F64 FV.Base.PyVal FV.C01.Model FV.C04.Model FV.C04.ConcModel.

Definition r_env : pyenv := {| int_of := []; b64_of := [] |}.
Definition r_hook : nat -> pyval -> cache -> hres := fun _ _ _ => HNone.
Definition r_a : str := [97%N].
Definition r_amax : str := r_a ++ s_max.
Definition r_pa : param :=
  {| p_name := r_a; p_export := Some (95%N :: r_a); p_dt := TInt 0 10; p_readonly := false; p_constant := false;
     p_haswrite := true; p_checks := [CkAuto] |}.
Definition r_pamax : param :=
  {| p_name := r_amax; p_export := Some (95%N :: r_amax); p_dt := TInt 0 10; p_readonly := false; p_constant := false;
     p_haswrite := false; p_checks := [] |}.
Definition r_md : mdesc := {| md_name := [109%N]; md_export := true; md_acc := [AParam r_pa; AParam r_pamax] |}.
Definition r_cache : cache := [(r_a, PInt 1); (r_amax, PInt 10)].
(* thread 0: write_a(5)            thread 1: write_a_max(2) *)
Definition r_progs : list (list top) := [[TWrite r_pa (PInt 5) DNone]; [TWrite r_pamax (PInt 2) DNone]].
(* 0 enters and validates, 0 passes checkLimits (5 <= 10), 1 enters, 1 takes the lock and stores a_max = 2,
   0 takes the lock, 0 calls the driver *)
Definition r_sched : list nat := [0; 0; 1; 1; 0; 0]%nat.

Definition is_auto (k : check) : bool := match k with CkAuto => true | CkUser _ => false end.

(* a driver invocation of a parameter with a generated limit check whose value violates the limits of that moment *)
Definition violated (l : label) : bool :=
  match l with
  | LDrv p v nv c => existsb is_auto (p_checks p) &&
                     match check_limits (p_name p) v c with Ok _ => false | Err _ => true end
  | _ => false
  end.

Lemma violated_in ls : existsb violated ls = true ->
  exists p v nv c e, In (LDrv p v nv c) ls /\ In CkAuto (p_checks p) /\ check_limits (p_name p) v c = Err e.
Proof.
  intros H. apply existsb_exists in H. destruct H as (l & I & V).
  destruct l as [| | | | |p v nv c| |]; try discriminate. cbn in V.
  apply andb_true_iff in V. destruct V as [A V].
  apply existsb_exists in A. destruct A as (k & A & K). destruct k; [|discriminate].
  destruct (check_limits (p_name p) v c) as [u|e] eqn:C; [discriminate|]. exists p, v, nv, c, e. auto.
Qed.

Theorem C04_refuted_checks_outside_lock :
  exists E hook md c0 progs sched p v nv c e,
    In (LDrv p v nv c) (snd (crun E hook false md (cinit c0 progs) sched)) /\
    In CkAuto (p_checks p) /\ check_limits (p_name p) v c = Err e.
Proof.
  exists r_env, r_hook, r_md, r_cache, r_progs, r_sched.
  apply violated_in. vm_compute. reflexivity.
Qed.

(* what the run looks like: write_a(5) reaches the driver while the cache holds a_max = 2 *)
Example refuted_run_labels :
  snd (crun r_env r_hook false r_md (cinit r_cache r_progs) r_sched) =
  [LCall; LAuto (PInt 5); LCall; LAcq; LUpd r_amax (PInt 2); LEnd None; LAcq;
   LDrv r_pa (PInt 5) (PInt 5) [(r_a, PInt 1); (r_amax, PInt 2)]; LUpd r_a (PInt 5); LEnd None].
Proof. vm_compute. reflexivity. Qed.

(* with the checks under the lock the same schedule is not executable (thread 1 waits at the acquire) ... *)
Example with_lock_blocked : cfollow r_env r_hook true r_md (cinit r_cache r_progs) r_sched = None.
Proof. vm_compute. reflexivity. Qed.
(* ... and whatever is executable of it calls the driver within the limits *)
Example with_lock_no_violation :
  existsb violated (snd (crun r_env r_hook true r_md (cinit r_cache r_progs) r_sched)) = false.
Proof. vm_compute. reflexivity. Qed.
