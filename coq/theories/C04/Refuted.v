(* C04 — witnesses (by computation) for the places where the pinned code, and therefore the faithful model, violates the
   property. *)
From Coq Require Import ZArith NArith Bool List.
Import ListNotations.
Require Import FV.Base.Util FV.Base.F64 FV.Base.PyVal FV.C01.Model FV.C04.Model FV.C04.Lemmas.

Definition E0 : pyenv := {| int_of := []; b64_of := [] |}.
Definition no_hooks : nat -> pyval -> cache -> hres := fun _ _ _ => HNone.

Definition s_m : str := [109%N].
Definition s_a : str := [97%N].
Definition s_k : str := [107%N].
Definition s__a : str := [95%N; 97%N].
Definition s__k : str := [95%N; 107%N].

Definition p_a (cks : list check) : param :=
  {| p_name := s_a; p_export := Some s__a; p_dt := TInt 0 10; p_readonly := false; p_constant := false;
     p_haswrite := true; p_checks := cks |}.
Definition md0 : mdesc :=
  {| md_name := s_m; md_export := true;
     md_acc := [AParam (p_a []); ACmd {| c_name := s_k; c_export := Some s__k; c_arg := None; c_res := None |}] |}.

(* finding C04/do-specifier-without-colon: "do m" on an existing module m is answered InternalError (the unguarded
   specifier.split(':', 1) of handle_do raises ValueError), not with a NoSuch.../Protocol error class *)
Theorem C04_refuted_do_specifier_without_colon :
  exists md c rq, rq_act rq = ADo /\ rq_mod rq = md_name md /\ rq_acc rq = None /\
                  o_reply (handle E0 no_hooks md c rq) = Some InternalError.
Proof.
  exists md0, [(s_a, PInt 5)],
         {| rq_act := ADo; rq_mod := s_m; rq_acc := None; rq_data := PNone; rq_drv := DNone |}.
  repeat split.
Qed.

(* why C04_limits_respected carries the guard limits_well_shaped: with <p>_limits AND <p>_min present, checkLimits
   returns after the <p>_limits test, so 3 passes although a_min = 5.  This is the known finding
   C18/limits-tuple-shadows-min-max (listed there, not re-listed for C04; such layouts are not generated here). *)
Theorem C04_refuted_limits_shadow :
  exists pn v c, check_limits pn v c = Ok tt /\ ~ limits_respected pn v c.
Proof.
  exists s_a, (PInt 3), [(s_a ++ s_limits, PTuple [PInt 0; PInt 10]); (s_a ++ s_min, PInt 5)].
  split; [vm_compute; reflexivity|].
  intros (_ & B & _). specialize (B (PInt 5) eq_refl). vm_compute in B. discriminate.
Qed.
