(* C04 — histories: the cache invariant (every cached value lies in the value set of its datatype) is preserved by every
   request, whatever the driver and the hooks do; consequently over any request sequence from any such cache every driver
   call carries a value of the declared value set.  Uses the soundness theorems of the shared datatype model (C01). *)
From Coq Require Import ZArith NArith Bool List Lia.
Import ListNotations.
Require Import FV.Base.Util FV.Base.F64 FV.Base.PyVal FV.C01.Model FV.C01.Lemmas FV.C04.Model FV.C04.Lemmas.

Definition wf_md (md : mdesc) : Prop :=
  (forall p, In (AParam p) (md_acc md) -> wf (p_dt p)) /\
  (forall cm ad, In (ACmd cm) (md_acc md) -> c_arg cm = Some ad -> wf ad).

(* attribute names of a python class are unique *)
Definition names_unique (md : mdesc) : Prop :=
  forall p q, In (AParam p) (md_acc md) -> In (AParam q) (md_acc md) -> p_name p = p_name q -> p = q.

Definition cache_ok (md : mdesc) (c : cache) : Prop :=
  forall p, In (AParam p) (md_acc md) -> exists x, getp c (p_name p) = Some x /\ in_setb (p_dt p) x = true.

(* ------------------------------------------------------------------ validated values always export *)
(* StructOf/ArrayOf/TupleOf.export_value only refuse a value lacking a mandatory member or carrying an unknown key
   (check_type(value, True) since 45926fd), element-wise.  No value of the declared value set is refused: no condition on
   the datatype is needed, unbounded depth and width. *)
Lemma entry_ok_weaken (Q1 Q2 : dtype -> pyval -> bool) ms p :
  Forall (fun m : str * dtype => forall y, Q1 (snd m) y = true -> Q2 (snd m) y = true) ms ->
  entry_ok Q1 ms p = true -> entry_ok Q2 ms p = true.
Proof.
  destruct p as [k y]. induction 1 as [|[n d1] ms H1 HF IH]; [discriminate|].
  unfold entry_ok in *. cbn [fst snd] in *. destruct (str_eqb k n); [apply H1|exact IH].
Qed.

Lemma exportable_struct ms o c kv :
  exportable (TStruct ms o c) (PDict kv) =
  forallb (fun m : str * dtype => mem_str (fst m) o || mem_str (fst m) (map fst kv)) ms &&
  forallb (entry_ok exportable ms) kv.
Proof. reflexivity. Qed.

Lemma forallb_map_fst {B} (f : str -> bool) (l : list (str * B)) :
  forallb f (map fst l) = forallb (fun m => f (fst m)) l.
Proof. induction l as [|x r IH]; cbn; [reflexivity|]. rewrite IH. reflexivity. Qed.

Theorem in_setb_exportable : forall d x, in_setb d x = true -> exportable d x = true.
Proof.
  induction d using dtype_nested_ind; intros x Hx; try reflexivity.
  - (* array *)
    destruct x; try (cbn in Hx; discriminate). cbn [in_setb] in Hx. cbn [exportable].
    apply andb_prop in Hx. destruct Hx as [_ Hx].
    apply forallb_forall. intros y Hy. apply IHd. exact (proj1 (forallb_forall _ _) Hx y Hy).
  - (* tuple *)
    destruct x; try (cbn in Hx; discriminate). rewrite in_setb_tuple in Hx. cbn [exportable].
    revert l Hx. induction H as [|d1 es Hd HF IH]; intros l Hx; destruct l as [|y l]; try reflexivity.
    cbn [all2] in Hx. apply andb_prop in Hx. destruct Hx as [A B]. rewrite (Hd y A). cbn [andb]. exact (IH l B).
  - (* struct *)
    destruct x; try (cbn in Hx; discriminate). rewrite in_setb_struct in Hx. rewrite exportable_struct.
    apply andb_prop in Hx. destruct Hx as [A B]. apply andb_true_intro. split.
    + rewrite forallb_map_fst in B. exact B.
    + apply forallb_forall. intros p Hp. apply (entry_ok_weaken in_setb exportable ms p H).
      exact (proj1 (forallb_forall _ _) A p Hp).
Qed.

Corollary validated_exportable d : wf d -> forall v prev r,
  prev_ok d prev -> dt_validate d v prev = Ok r -> exportable d r = true.
Proof. intros W v prev r P H. apply in_setb_exportable. exact (validate_sound d W v prev r P H). Qed.

Section Hist.
Variable E : pyenv.
Variable hook : nat -> pyval -> cache -> hres.

Notation handle := (handle E hook).
Notation run := (run E hook).
Notation step := (step E hook).
Notation final := (final E hook).

Lemma prev_of_ok md c p : cache_ok md c -> In (AParam p) (md_acc md) -> prev_ok (p_dt p) (prev_of c p).
Proof.
  intros C I. destruct (C p I) as (x & G & S). unfold prev_of. rewrite G. right. exact S.
Qed.

(* the cache after a request: unchanged, or one parameter replaced by a value of its value set *)
Lemma handle_cache_shape md c rq : wf_md md -> cache_ok md c ->
  o_cache (handle md c rq) = c \/
  exists p x, In (AParam p) (md_acc md) /\ in_setb (p_dt p) x = true /\ o_cache (handle md c rq) = setp c (p_name p) x.
Proof.
  intros [W _] C. unfold Model.handle. destruct (rq_act rq).
  2: { left. apply do_clean. }
  unfold handle_change. cbn zeta.
  destruct (negb (str_eqb (rq_mod rq) (md_name md))); [left; reflexivity|].
  destruct (lookup_export md _) as [[p|cm]|] eqn:Hl; try (left; reflexivity).
  destruct (p_constant p); [left; reflexivity|]. destruct (p_readonly p); [left; reflexivity|].
  fold (prev_of c p).
  destruct (lookup_export_in _ _ _ Hl) as (_ & Hi & _).
  destruct (wire E (p_dt p) (rq_data rq) (prev_of c p)) as [v|e] eqn:Hw; [|left; reflexivity].
  pose proof (wire_sound E (p_dt p) (W p Hi) _ _ _ (prev_of_ok md c p C Hi) Hw) as Sv.
  destruct (reply_export_same p (write_wrapper hook p v c (rq_drv rq))) as (_ & _ & _ & Ec). rewrite Ec. clear Ec.
  pose proof (write_wrapper_cases hook p v c (rq_drv rq)) as H. cbn zeta in H.
  destruct H as [(e & _ & ->)|[(nv & hl & e & _ & _ & ->)|(nv & hl & Hv & _ & H)]]; try (left; reflexivity).
  pose proof (validate_sound (p_dt p) (W p Hi) v PNone nv (or_introl eq_refl) Hv) as Snv.
  destruct H as [[_ ->]|(_ & _ & _ & H)].
  - right. exists p, nv. rewrite store_cache. auto.
  - destruct H as [(_ & _ & ->)|[(_ & _ & -> & _)|(x & -> & Hx)]]; try (left; reflexivity).
    right. exists p, x. rewrite store_cache. repeat split; auto.
    destruct Hx as [[_ ->]|(r & _ & Hr)]; [exact Sv|].
    exact (validate_sound (p_dt p) (W p Hi) r PNone x (or_introl eq_refl) Hr).
Qed.

Lemma cache_ok_setp md c p x : names_unique md -> cache_ok md c -> In (AParam p) (md_acc md) ->
  in_setb (p_dt p) x = true -> cache_ok md (setp c (p_name p) x).
Proof.
  intros U C I S q Iq. rewrite getp_setp. destruct (str_eqb (p_name q) (p_name p)) eqn:Hn.
  - apply str_eqb_eq in Hn. rewrite (U q p Iq I Hn). eauto.
  - apply C, Iq.
Qed.

Theorem step_ok md c rq : wf_md md -> names_unique md -> cache_ok md c -> cache_ok md (step md c rq).
Proof.
  intros W U C. unfold Model.step. destruct (handle_cache_shape md c rq W C) as [->|(p & x & I & S & ->)]; [exact C|].
  apply cache_ok_setp; assumption.
Qed.

Theorem final_ok md : wf_md md -> names_unique md -> forall rqs c, cache_ok md c -> cache_ok md (final md c rqs).
Proof.
  intros W U. unfold Model.final. induction rqs as [|rq r IH]; cbn; intros c C; [exact C|].
  apply IH. apply step_ok; assumption.
Qed.

(* every output of a history is the output of one request on a cache satisfying any step-invariant *)
Lemma run_reach md (I : cache -> Prop) : (forall c rq, I c -> I (step md c rq)) ->
  forall rqs c, I c -> forall o, In o (run md c rqs) -> exists c' rq, I c' /\ In rq rqs /\ o = handle md c' rq.
Proof.
  intros P. induction rqs as [|rq r IH]; cbn; intros c Ic o Ho; [contradiction|].
  destruct Ho as [<-|Ho].
  - exists c, rq. auto.
  - destruct (IH _ (P c rq Ic) o Ho) as (c' & rq' & A & B & D). exists c', rq'. auto.
Qed.

Theorem history_write_values md : wf_md md -> names_unique md -> forall rqs c, cache_ok md c ->
  forall o pn w, In o (run md c rqs) -> In (Write pn w) (o_drv o) ->
  exists p, In (AParam p) (md_acc md) /\ p_name p = pn /\ p_export p <> None /\ md_export md = true /\
            p_readonly p = false /\ p_constant p = false /\ p_haswrite p = true /\
            in_setb (p_dt p) w = true /\ o_drv o = [Write pn w].
Proof.
  intros W U rqs c C o pn w Ho Hw.
  destruct (run_reach md (cache_ok md) (fun c rq => step_ok md c rq W U) rqs c C o Ho) as (c' & rq & C' & _ & ->).
  unfold Model.handle in *. destruct (rq_act rq).
  - assert (N : o_drv (handle_change E hook md c' rq) <> []) by (intros N; rewrite N in Hw; contradiction).
    destruct (change_safe E hook md c' rq (or_introl N)) as (p & v & w' & _ & Hex & Hi & Hx & Hr & Hc & _ & Hv & _ & Hd).
    rewrite Hd in Hw. destruct (p_haswrite p) eqn:Hh; [|contradiction].
    destruct Hw as [Hw|[]]. injection Hw as <- <-.
    exists p. repeat split; auto.
    + rewrite Hx. discriminate.
    + destruct W as [W _]. exact (validate_sound (p_dt p) (W p Hi) v PNone w' (or_introl eq_refl) Hv).
  - assert (N : o_drv (handle_do E md c' rq) <> []) by (intros N; rewrite N in Hw; contradiction).
    destruct (do_safe E md c' rq (or_introl N)) as (en & cm & w' & _ & _ & _ & _ & _ & _ & Hd).
    rewrite Hd in Hw. destruct Hw as [Hw|[]]. discriminate.
Qed.

Theorem history_call_values md : wf_md md -> names_unique md -> forall rqs c, cache_ok md c ->
  forall o cn w, In o (run md c rqs) -> In (Call cn w) (o_drv o) ->
  exists cm, In (ACmd cm) (md_acc md) /\ c_name cm = cn /\ c_export cm <> None /\ md_export md = true /\
             o_drv o = [Call cn w] /\
             match c_arg cm with Some ad => in_setb ad w = true | None => w = PTuple [] end.
Proof.
  intros W U rqs c C o cn w Ho Hw.
  destruct (run_reach md (cache_ok md) (fun c rq => step_ok md c rq W U) rqs c C o Ho) as (c' & rq & C' & _ & ->).
  unfold Model.handle in *. destruct (rq_act rq).
  - assert (N : o_drv (handle_change E hook md c' rq) <> []) by (intros N; rewrite N in Hw; contradiction).
    destruct (change_safe E hook md c' rq (or_introl N)) as (p & v & w' & _ & _ & _ & _ & _ & _ & _ & _ & _ & Hd).
    rewrite Hd in Hw. destruct (p_haswrite p); [|contradiction]. destruct Hw as [Hw|[]]. discriminate.
  - assert (N : o_drv (handle_do E md c' rq) <> []) by (intros N; rewrite N in Hw; contradiction).
    destruct (do_safe E md c' rq (or_introl N)) as (en & cm & w' & _ & _ & Hex & Hi & Hx & Ha & Hd).
    rewrite Hd in Hw. destruct Hw as [Hw|[]]. injection Hw as <- <-.
    exists cm. repeat split; auto.
    + rewrite Hx. discriminate.
    + unfold arg_ok in Ha. destruct (c_arg cm) as [ad|] eqn:Hc.
      * destruct Ha as (_ & a & _ & Hv). destruct W as [_ W].
        exact (validate_sound ad (W cm ad Hi Hc) a PNone w' (or_introl eq_refl) Hv).
      * apply Ha.
Qed.

(* ------------------------------------------------------------------ error replies from reachable states *)
(* the cache after the wrapper: unchanged, or the written parameter replaced by a value of its value set *)
Lemma write_wrapper_cache_shape p v c d : wf (p_dt p) -> in_setb (p_dt p) v = true ->
  o_cache (write_wrapper hook p v c d) = c \/
  exists x, in_setb (p_dt p) x = true /\ o_cache (write_wrapper hook p v c d) = setp c (p_name p) x.
Proof.
  intros W S. pose proof (write_wrapper_cases hook p v c d) as H. cbn zeta in H.
  destruct H as [(e & _ & ->)|[(nv & hl & e & _ & _ & ->)|(nv & hl & Hv & _ & H)]]; try (left; reflexivity).
  destruct H as [[_ ->]|(_ & _ & _ & H)].
  - right. exists nv. rewrite store_cache. split; [|reflexivity].
    exact (validate_sound (p_dt p) W v PNone nv (or_introl eq_refl) Hv).
  - destruct H as [(_ & _ & ->)|[(_ & _ & -> & _)|(x & -> & Hx)]]; try (left; reflexivity).
    right. exists x. rewrite store_cache. split; [|reflexivity].
    destruct Hx as [[_ ->]|(r & _ & Hr)]; [exact S|].
    exact (validate_sound (p_dt p) W r PNone x (or_introl eq_refl) Hr).
Qed.

(* announceUpdate never fails for a value of the value set: an error out of the wrapper leaves cache and subscribers alone *)
Lemma write_wrapper_error_clean p v c d : wf (p_dt p) -> in_setb (p_dt p) v = true ->
  o_reply (write_wrapper hook p v c d) <> None ->
  o_upd (write_wrapper hook p v c d) = [] /\ o_cache (write_wrapper hook p v c d) = c.
Proof.
  intros W S R. pose proof (write_wrapper_cases hook p v c d) as H. cbn zeta in H.
  assert (St : forall x dl hl, in_setb (p_dt p) x = true -> o_reply (store p x c dl hl) = None).
  { intros x dl hl Sx. destruct (store_reply p x c dl hl) as [(N & _)|(_ & _ & _ & X)]; [exact N|].
    rewrite (in_setb_exportable _ _ Sx) in X. discriminate. }
  destruct H as [(e & _ & Eo)|[(nv & hl & e & _ & _ & Eo)|(nv & hl & Hv & _ & [[_ Hs]|(_ & _ & _ & H)])]].
  - rewrite Eo. split; reflexivity.
  - rewrite Eo. split; reflexivity.
  - exfalso. apply R. rewrite Hs. apply St. exact (validate_sound (p_dt p) W v PNone nv (or_introl eq_refl) Hv).
  - destruct H as [(_ & U & C)|[(_ & U & C & _)|(x & Hx & Hy)]]; auto.
    exfalso. apply R. rewrite Hx. apply St. destruct Hy as [[_ ->]|(r & _ & Hr)]; [exact S|].
    exact (validate_sound (p_dt p) W r PNone x (or_introl eq_refl) Hr).
Qed.

(* _setParameterValue: "return pobj.export_value()" never fails from a cache_ok cache: the reply is the wrapper's result *)
Lemma reply_always_built md c p v d : wf_md md -> cache_ok md c -> In (AParam p) (md_acc md) ->
  in_setb (p_dt p) v = true -> reply_export p (write_wrapper hook p v c d) = write_wrapper hook p v c d.
Proof.
  intros [W _] C I S. set (w := write_wrapper hook p v c d).
  destruct (o_reply w) as [cl|] eqn:R.
  - apply reply_export_err. rewrite R. discriminate.
  - destruct (reply_export_cases p w R) as [H|(x & G & X & _)]; [exact H|]. exfalso.
    assert (Sx : in_setb (p_dt p) x = true).
    { destruct (write_wrapper_cache_shape p v c d (W p I) S) as [Ec|(y & Sy & Ec)]; fold w in Ec; rewrite Ec in G.
      - destruct (C p I) as (x0 & G0 & S0). rewrite G0 in G. injection G as <-. exact S0.
      - rewrite getp_setp_same in G. injection G as <-. exact Sy. }
    rewrite (in_setb_exportable _ _ Sx) in X. discriminate.
Qed.

(* ANY error reply (refusal, check chain, driver raised, read-back invalid) from a cache whose values lie in their value
   sets: no update, cache unchanged -- no exception *)
Theorem error_clean_ok md c rq : wf_md md -> cache_ok md c ->
  o_reply (handle md c rq) <> None -> o_upd (handle md c rq) = [] /\ o_cache (handle md c rq) = c.
Proof.
  intros W C. unfold Model.handle. destruct (rq_act rq).
  2: { intros _. apply do_clean. }
  unfold handle_change. cbn zeta.
  destruct (negb (str_eqb (rq_mod rq) (md_name md))); [split; reflexivity|].
  destruct (lookup_export md _) as [[p|cm]|] eqn:Hl; try (split; reflexivity).
  destruct (p_constant p); [split; reflexivity|]. destruct (p_readonly p); [split; reflexivity|].
  fold (prev_of c p).
  destruct (lookup_export_in _ _ _ Hl) as (_ & Hi & _).
  destruct (wire E (p_dt p) (rq_data rq) (prev_of c p)) as [v|e] eqn:Hw; [|split; reflexivity].
  pose proof (wire_sound E (p_dt p) (proj1 W p Hi) _ _ _ (prev_of_ok md c p C Hi) Hw) as Sv.
  rewrite (reply_always_built md c p v (rq_drv rq) W C Hi Sv).
  apply write_wrapper_error_clean; [exact (proj1 W p Hi)|exact Sv].
Qed.

(* ... in every reachable state: after any request sequence pre (any drivers, any hooks) from a cache_ok cache *)
Theorem history_error_clean md : wf_md md -> names_unique md -> forall pre c rq, cache_ok md c ->
  let c' := final md c pre in
  o_reply (handle md c' rq) <> None -> o_upd (handle md c' rq) = [] /\ o_cache (handle md c' rq) = c'.
Proof.
  intros W U pre c rq C. cbn zeta. apply error_clean_ok; [exact W|]. apply final_ok; assumption.
Qed.

(* the same read off the list of outputs: an output with an error reply carries no update and hands its own start cache on *)
Theorem run_error_clean md : wf_md md -> names_unique md -> forall rqs c, cache_ok md c ->
  forall o, In o (run md c rqs) -> o_reply o <> None ->
  o_upd o = [] /\ exists c' rq, cache_ok md c' /\ In rq rqs /\ o = handle md c' rq /\ o_cache o = c'.
Proof.
  intros W U rqs c C o Ho R.
  destruct (run_reach md (cache_ok md) (fun c rq => step_ok md c rq W U) rqs c C o Ho) as (c' & rq & C' & Hr & ->).
  destruct (error_clean_ok md c' rq W C' R) as [A B]. split; [exact A|]. exists c', rq. auto.
Qed.

End Hist.
