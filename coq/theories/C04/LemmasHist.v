(* C04 — histories: the cache invariant (every cached value lies in the value set of its datatype) is preserved by every
   request, whatever the driver and the hooks do; consequently over any request sequence from any such cache every driver
   call carries a value of the declared value set.  Uses the soundness theorems of the shared datatype model (C01). *)
From Coq Require Import ZArith NArith Bool List Lia.
Import ListNotations.
Require Import FV.Base.Util FV.Base.F64 FV.Base.PyVal FV.C01.Model FV.C01.Lemmas FV.C04.Model FV.C04.Lemmas.

Definition wf_md (md : mdesc) : Prop :=
  (forall p, In (AParam p) (md_acc md) -> wf (p_dt p)) /\
  (forall cm ad, In (ACmd cm) (md_acc md) -> c_arg cm = Some ad -> wf ad).

(* attribute names of a python class are unique *)
Definition names_unique (md : mdesc) : Prop :=
  forall p q, In (AParam p) (md_acc md) -> In (AParam q) (md_acc md) -> p_name p = p_name q -> p = q.

Definition cache_ok (md : mdesc) (c : cache) : Prop :=
  forall p, In (AParam p) (md_acc md) -> exists x, getp c (p_name p) = Some x /\ in_setb (p_dt p) x = true.

Section Hist.
Variable E : pyenv.
Variable hook : nat -> pyval -> cache -> hres.

Notation handle := (handle E hook).
Notation run := (run E hook).
Notation step := (step E hook).
Notation final := (final E hook).

Lemma prev_of_ok md c p : cache_ok md c -> In (AParam p) (md_acc md) -> prev_ok (p_dt p) (prev_of c p).
Proof.
  intros C I. destruct (C p I) as (x & G & S). unfold prev_of. rewrite G. right. exact S.
Qed.

(* the cache after a request: unchanged, or one parameter replaced by a value of its value set *)
Lemma handle_cache_shape md c rq : wf_md md -> cache_ok md c ->
  o_cache (handle md c rq) = c \/
  exists p x, In (AParam p) (md_acc md) /\ in_setb (p_dt p) x = true /\ o_cache (handle md c rq) = setp c (p_name p) x.
Proof.
  intros [W _] C. unfold Model.handle. destruct (rq_act rq).
  2: { left. apply do_clean. }
  unfold handle_change. cbn zeta.
  destruct (negb (str_eqb (rq_mod rq) (md_name md))); [left; reflexivity|].
  destruct (lookup_export md _) as [[p|cm]|] eqn:Hl; try (left; reflexivity).
  destruct (p_constant p); [left; reflexivity|]. destruct (p_readonly p); [left; reflexivity|].
  fold (prev_of c p).
  destruct (lookup_export_in _ _ _ Hl) as (_ & Hi & _).
  destruct (wire E (p_dt p) (rq_data rq) (prev_of c p)) as [v|e] eqn:Hw; [|left; reflexivity].
  pose proof (wire_sound E (p_dt p) (W p Hi) _ _ _ (prev_of_ok md c p C Hi) Hw) as Sv.
  destruct (reply_export_same p (write_wrapper hook p v c (rq_drv rq))) as (_ & _ & _ & Ec). rewrite Ec. clear Ec.
  pose proof (write_wrapper_cases hook p v c (rq_drv rq)) as H. cbn zeta in H.
  destruct H as [(e & _ & ->)|[(nv & hl & e & _ & _ & ->)|(nv & hl & Hv & _ & H)]]; try (left; reflexivity).
  pose proof (validate_sound (p_dt p) (W p Hi) v PNone nv (or_introl eq_refl) Hv) as Snv.
  destruct H as [[_ ->]|(_ & _ & _ & H)].
  - right. exists p, nv. rewrite store_cache. auto.
  - destruct H as [(_ & _ & ->)|[(_ & _ & -> & _)|(x & -> & Hx)]]; try (left; reflexivity).
    right. exists p, x. rewrite store_cache. repeat split; auto.
    destruct Hx as [[_ ->]|(r & _ & Hr)]; [exact Sv|].
    exact (validate_sound (p_dt p) (W p Hi) r PNone x (or_introl eq_refl) Hr).
Qed.

Lemma cache_ok_setp md c p x : names_unique md -> cache_ok md c -> In (AParam p) (md_acc md) ->
  in_setb (p_dt p) x = true -> cache_ok md (setp c (p_name p) x).
Proof.
  intros U C I S q Iq. rewrite getp_setp. destruct (str_eqb (p_name q) (p_name p)) eqn:Hn.
  - apply str_eqb_eq in Hn. rewrite (U q p Iq I Hn). eauto.
  - apply C, Iq.
Qed.

Theorem step_ok md c rq : wf_md md -> names_unique md -> cache_ok md c -> cache_ok md (step md c rq).
Proof.
  intros W U C. unfold Model.step. destruct (handle_cache_shape md c rq W C) as [->|(p & x & I & S & ->)]; [exact C|].
  apply cache_ok_setp; assumption.
Qed.

Theorem final_ok md : wf_md md -> names_unique md -> forall rqs c, cache_ok md c -> cache_ok md (final md c rqs).
Proof.
  intros W U. unfold Model.final. induction rqs as [|rq r IH]; cbn; intros c C; [exact C|].
  apply IH. apply step_ok; assumption.
Qed.

(* every output of a history is the output of one request on a cache satisfying any step-invariant *)
Lemma run_reach md (I : cache -> Prop) : (forall c rq, I c -> I (step md c rq)) ->
  forall rqs c, I c -> forall o, In o (run md c rqs) -> exists c' rq, I c' /\ In rq rqs /\ o = handle md c' rq.
Proof.
  intros P. induction rqs as [|rq r IH]; cbn; intros c Ic o Ho; [contradiction|].
  destruct Ho as [<-|Ho].
  - exists c, rq. auto.
  - destruct (IH _ (P c rq Ic) o Ho) as (c' & rq' & A & B & D). exists c', rq'. auto.
Qed.

Theorem history_write_values md : wf_md md -> names_unique md -> forall rqs c, cache_ok md c ->
  forall o pn w, In o (run md c rqs) -> In (Write pn w) (o_drv o) ->
  exists p, In (AParam p) (md_acc md) /\ p_name p = pn /\ p_export p <> None /\ md_export md = true /\
            p_readonly p = false /\ p_constant p = false /\ p_haswrite p = true /\
            in_setb (p_dt p) w = true /\ o_drv o = [Write pn w].
Proof.
  intros W U rqs c C o pn w Ho Hw.
  destruct (run_reach md (cache_ok md) (fun c rq => step_ok md c rq W U) rqs c C o Ho) as (c' & rq & C' & _ & ->).
  unfold Model.handle in *. destruct (rq_act rq).
  - assert (N : o_drv (handle_change E hook md c' rq) <> []) by (intros N; rewrite N in Hw; contradiction).
    destruct (change_safe E hook md c' rq (or_introl N)) as (p & v & w' & _ & Hex & Hi & Hx & Hr & Hc & _ & Hv & _ & Hd).
    rewrite Hd in Hw. destruct (p_haswrite p) eqn:Hh; [|contradiction].
    destruct Hw as [Hw|[]]. injection Hw as <- <-.
    exists p. repeat split; auto.
    + rewrite Hx. discriminate.
    + destruct W as [W _]. exact (validate_sound (p_dt p) (W p Hi) v PNone w' (or_introl eq_refl) Hv).
  - assert (N : o_drv (handle_do E md c' rq) <> []) by (intros N; rewrite N in Hw; contradiction).
    destruct (do_safe E md c' rq (or_introl N)) as (en & cm & w' & _ & _ & _ & _ & _ & _ & Hd).
    rewrite Hd in Hw. destruct Hw as [Hw|[]]. discriminate.
Qed.

Theorem history_call_values md : wf_md md -> names_unique md -> forall rqs c, cache_ok md c ->
  forall o cn w, In o (run md c rqs) -> In (Call cn w) (o_drv o) ->
  exists cm, In (ACmd cm) (md_acc md) /\ c_name cm = cn /\ c_export cm <> None /\ md_export md = true /\
             o_drv o = [Call cn w] /\
             match c_arg cm with Some ad => in_setb ad w = true | None => w = PTuple [] end.
Proof.
  intros W U rqs c C o cn w Ho Hw.
  destruct (run_reach md (cache_ok md) (fun c rq => step_ok md c rq W U) rqs c C o Ho) as (c' & rq & C' & _ & ->).
  unfold Model.handle in *. destruct (rq_act rq).
  - assert (N : o_drv (handle_change E hook md c' rq) <> []) by (intros N; rewrite N in Hw; contradiction).
    destruct (change_safe E hook md c' rq (or_introl N)) as (p & v & w' & _ & _ & _ & _ & _ & _ & _ & _ & _ & Hd).
    rewrite Hd in Hw. destruct (p_haswrite p); [|contradiction]. destruct Hw as [Hw|[]]. discriminate.
  - assert (N : o_drv (handle_do E md c' rq) <> []) by (intros N; rewrite N in Hw; contradiction).
    destruct (do_safe E md c' rq (or_introl N)) as (en & cm & w' & _ & _ & Hex & Hi & Hx & Ha & Hd).
    rewrite Hd in Hw. destruct Hw as [Hw|[]]. injection Hw as <- <-.
    exists cm. repeat split; auto.
    + rewrite Hx. discriminate.
    + unfold arg_ok in Ha. destruct (c_arg cm) as [ad|] eqn:Hc.
      * destruct Ha as (_ & a & _ & Hv). destruct W as [_ W].
        exact (validate_sound ad (W cm ad Hi Hc) a PNone w' (or_introl eq_refl) Hv).
      * apply Ha.
Qed.

End Hist.
