(* C04 — concurrent layer: several threads call write wrappers of ONE module (directly, as a poll thread / state machine /
   other module does, or through Dispatcher.handle_change as a connection thread does).

   frappy/modulebase.py, HasAccessibles.__init_subclass__.new_wfunc:

       with self.accessLock:                      <- acquire: a synchronisation point
           validate = ...datatype.validate
           try:
               new_value = validate(value)
               for c in check_funcs:              <- every check_<p> call (user hook, generated checkLimits lambda) reads the
                   if c(self, value): break          module state; the harness makes each call a synchronisation point
               if wfunc: new_value = wfunc(self, new_value)     <- driver call: a synchronisation point
                   ... Done / None / read-back validate
           except SECoPError: ... raise
           self.announceUpdate(pname, new_value, validate=False)
           return new_value

   One atomic step of the model = the code from one synchronisation point up to the next one (the harness runs the real
   threads under harness/dsched.py with exactly these switch points).  The flag `inside` says whether validation and the
   check loop run under the accessLock (true: the code as it is, pinned by the translator fact wrapper_body_under_access_lock)
   or before it is taken (false: the variant refuted in Refuted.v).  No proofs here. *)
From Coq Require Import ZArith NArith Bool List.
Import ListNotations.
Require Import FV.Base.Util FV.Base.F64 FV.Base.PyVal FV.C01.Model FV.C04.Model.

(* one activation of a write wrapper: write_<p>(v); w_drv = what the driver does if it is called; w_req = the call was
   made by Dispatcher._setParameterValue (the reply is then built from the exported cache value) *)
Record wop := { w_p : param; w_v : pyval; w_drv : drv; w_req : bool }.

(* what a thread does next: a direct call of write_<p>(v), or a change request handled by the dispatcher *)
Inductive top := TWrite (p : param) (v : pyval) (d : drv) | TReq (rq : request).

Inductive pc :=
| PIdle                                                (* between two operations *)
| PWait (w : wop)                                      (* request passed the dispatcher tests; wrapper not yet entered *)
| PChk (w : wop) (nv : pyval) (rest : list check)      (* validated to nv; `rest` = check functions still to be called *)
| PAcq (w : wop) (nv : pyval)                          (* inside = false only: checks passed, accessLock not yet taken *)
| PDrv (w : wop) (nv : pyval).                         (* checks passed, lock held, driver not yet called *)

Record thread := { t_pc : pc; t_todo : list top }.

(* what an observer sees, in global order *)
Inductive label :=
| LReq                                                 (* Dispatcher._lock taken, request examined up to the wrapper call *)
| LAcq                                                 (* accessLock taken *)
| LCall                                                (* inside = false only: wrapper entered without the lock *)
| LHook (i : nat) (v : pyval)                          (* user check_<p> hook i called with v *)
| LAuto (v : pyval)                                    (* generated checkLimits lambda called with v *)
| LDrv (p : param) (v nv : pyval) (c : cache)          (* driver write_<p>(nv) invoked (wrapper argument v); c = the cache
                                                          of the module AT THIS MOMENT *)
| LUpd (pn : str) (x : pyval)                          (* update emitted *)
| LEnd (r : option ecls).                              (* the operation returned (None) / raised (error class) *)

Record cstate := { cs_cache : cache; cs_owner : option nat; cs_threads : list thread }.

Fixpoint set_nth {A} (n : nat) (x : A) (l : list A) : list A :=
  match l, n with
  | [], _ => []
  | _ :: r, O => x :: r
  | y :: r, S n' => y :: set_nth n' x r
  end.

(* Dispatcher.handle_change + _setParameterValue up to the call of write_<p>: Model.handle_change without the wrapper *)
Definition pre_change (E : pyenv) (md : mdesc) (c : cache) (rq : request) : err + (param * pyval) :=
  if negb (str_eqb (rq_mod rq) (md_name md)) then inl (ESecop NoSuchModule) else
  let ename := match rq_acc rq with Some a => a | None => s_target end in
  match lookup_export md ename with
  | Some (AParam p) =>
      if p_constant p then inl (ESecop ReadOnly) else
      if p_readonly p then inl (ESecop ReadOnly) else
      let prev := match getp c (p_name p) with Some x => x | None => PNone end in
      match wire E (p_dt p) (rq_data rq) prev with
      | Err e => inl (of_exc e)
      | Ok v => inr (p, v)
      end
  | _ => inl (ESecop NoSuchParameter)
  end.

Section Conc.
Variable E : pyenv.
Variable hook : nat -> pyval -> cache -> hres.
Variable inside : bool.        (* validation and check loop under the accessLock *)
Variable md : mdesc.

(* result of one thread step: new cache, new lock owner, new control state, emitted labels *)
Definition sres := (cache * option nat * pc * list label)%type.

(* the lock is given back when the wrapper is left during validation / checks: only if it was taken at all *)
Definition rel (o : option nat) : option nat := if inside then None else o.

(* _setParameterValue: "return pobj.export_value(), ..." after the wrapper returned *)
Definition finish (w : wop) (c : cache) (r : option ecls) : option ecls :=
  match r with
  | Some _ => r
  | None =>
      if w_req w then
        match getp c (p_name (w_p w)) with
        | Some x => if exportable (p_dt (w_p w)) x then None else Some WrongType
        | None => None
        end
      else None
  end.

(* announceUpdate(pname, x, validate=False); return *)
Definition do_store (w : wop) (x : pyval) (c : cache) : cache * list label :=
  let o := store (w_p w) x c [] [] in
  (o_cache o, map (fun u : str * pyval => LUpd (fst u) (snd u)) (o_upd o) ++ [LEnd (finish w (o_cache o) (o_reply o))]).

(* validation and checks are through and the lock is held: up to the driver call, or (no write method) to the end *)
Definition after_checks (w : wop) (nv : pyval) (c : cache) (t : nat) : sres :=
  if p_haswrite (w_p w) then (c, Some t, PDrv w nv, [])
  else let '(c', l) := do_store w nv c in (c', None, PIdle, l).

Definition next_pc (w : wop) (nv : pyval) (rest : list check) (c : cache) (o : option nat) (t : nat) : sres :=
  match rest with
  | _ :: _ => (c, o, PChk w nv rest, [])
  | [] => if inside then after_checks w nv c t else (c, o, PAcq w nv, [])
  end.

(* new_value = validate(value) *)
Definition enter (w : wop) (c : cache) (o : option nat) (t : nat) : sres :=
  match dt_validate (p_dt (w_p w)) (w_v w) PNone with
  | Err e => (c, rel o, PIdle, [LEnd (Some (report (of_exc e)))])
  | Ok nv => next_pc w nv (p_checks (w_p w)) c o t
  end.

(* if c(self, value): break *)
Definition check_step (w : wop) (nv : pyval) (k : check) (rest : list check) (c : cache) (o : option nat) (t : nat) : sres :=
  let pn := p_name (w_p w) in
  let v := w_v w in
  match k with
  | CkAuto =>
      match check_limits pn v c with
      | Ok _ => let '(c', o', q, l) := next_pc w nv rest c o t in (c', o', q, LAuto v :: l)
      | Err e => (c, rel o, PIdle, [LAuto v; LEnd (Some (report (of_exc e)))])
      end
  | CkUser i =>
      match hook i v c with
      | HNone => let '(c', o', q, l) := next_pc w nv rest c o t in (c', o', q, LHook i v :: l)
      | HStop => let '(c', o', q, l) := next_pc w nv [] c o t in (c', o', q, LHook i v :: l)
      | HRaise e => (c, rel o, PIdle, [LHook i v; LEnd (Some (report e))])
      end
  end.

(* new_value = wfunc(self, new_value) ... announceUpdate; the lock is released on the way out *)
Definition drv_step (w : wop) (nv : pyval) (c : cache) : cache * list label :=
  let p := w_p w in
  let lab := LDrv p (w_v w) nv c in
  match drv_norm (w_drv w) with
  | DDone => (c, [lab; LEnd (finish w c None)])
  | DNone => let '(c', l) := do_store w (w_v w) c in (c', lab :: l)
  | DVal r =>
      match dt_validate (p_dt p) r PNone with
      | Ok x => let '(c', l) := do_store w x c in (c', lab :: l)
      | Err e => (c, [lab; LEnd (Some (report (of_exc e)))])
      end
  | DRaise e => (c, [lab; LEnd (Some (report e))])
  end.

(* the wrapper is entered: with the lock (it must be free: the lock is an RLock, but no thread of the model calls a
   wrapper from inside a wrapper) or without *)
Definition begin_op (w : wop) (c : cache) (o : option nat) (t : nat) : option sres :=
  if inside then
    match o with
    | Some _ => None
    | None => let '(c', o', q, l) := enter w c (Some t) t in Some (c', o', q, LAcq :: l)
    end
  else let '(c', o', q, l) := enter w c o t in Some (c', o', q, LCall :: l).

Definition tstep (t : nat) (c : cache) (o : option nat) (th : thread) : option (cache * option nat * thread * list label) :=
  let mk (r : sres) (todo : list top) :=
    let '(c', o', q, l) := r in (c', o', {| t_pc := q; t_todo := todo |}, l) in
  match t_pc th with
  | PIdle =>
      match t_todo th with
      | [] => None
      | TWrite p v d :: todo =>
          option_map (fun r => mk r todo) (begin_op {| w_p := p; w_v := v; w_drv := d; w_req := false |} c o t)
      | TReq rq :: todo =>
          match rq_act rq with
          | ADo => None
          | AChange =>
              match pre_change E md c rq with
              | inl e => Some (c, o, {| t_pc := PIdle; t_todo := todo |}, [LReq; LEnd (Some (report e))])
              | inr (p, v) =>
                  Some (c, o, {| t_pc := PWait {| w_p := p; w_v := v; w_drv := rq_drv rq; w_req := true |}; t_todo := todo |},
                        [LReq])
              end
          end
      end
  | PWait w => option_map (fun r => mk r (t_todo th)) (begin_op w c o t)
  | PChk w nv [] => None
  | PChk w nv (k :: rest) => Some (mk (check_step w nv k rest c o t) (t_todo th))
  | PAcq w nv =>
      match o with
      | Some _ => None
      | None => let '(c', o', q, l) := after_checks w nv c t in Some (c', o', {| t_pc := q; t_todo := t_todo th |}, LAcq :: l)
      end
  | PDrv w nv =>
      let '(c', l) := drv_step w nv c in Some (c', None, {| t_pc := PIdle; t_todo := t_todo th |}, l)
  end.

(* one step of thread t; None: t does not exist, has finished, or waits for the lock *)
Definition cstep (st : cstate) (t : nat) : option (cstate * list label) :=
  match nth_error (cs_threads st) t with
  | None => None
  | Some th =>
      match tstep t (cs_cache st) (cs_owner st) th with
      | None => None
      | Some (c', o', th', l) =>
          Some ({| cs_cache := c'; cs_owner := o'; cs_threads := set_nth t th' (cs_threads st) |}, l)
      end
  end.

(* a schedule is any list of thread numbers; a choice that is not enabled is skipped *)
Definition crun_step (acc : cstate * list label) (t : nat) : cstate * list label :=
  match cstep (fst acc) t with
  | Some (st', l) => (st', snd acc ++ l)
  | None => acc
  end.
Definition crun (st : cstate) (sched : list nat) : cstate * list label := fold_left crun_step sched (st, []).

(* the strict form used by the correspondence: every scheduled step must be enabled *)
Fixpoint cfollow (st : cstate) (sched : list nat) : option (cstate * list label) :=
  match sched with
  | [] => Some (st, [])
  | t :: r =>
      match cstep st t with
      | None => None
      | Some (st', l) =>
          match cfollow st' r with
          | None => None
          | Some (fin, ls) => Some (fin, l ++ ls)
          end
      end
  end.

End Conc.

Definition cinit (c : cache) (progs : list (list top)) : cstate :=
  {| cs_cache := c; cs_owner := None; cs_threads := map (fun todo => {| t_pc := PIdle; t_todo := todo |}) progs |}.
