(* C04 — lemmas about the request path model.  E (CPython int()/b64decode data) and hook (the user's check_<p>
   functions, ANY function of value and module state) are section variables: everything holds for all of them. *)
From Coq Require Import ZArith NArith Bool List Lia.
Import ListNotations.
Require Import FV.Base.Util FV.Base.F64 FV.Base.PyVal FV.C01.Model FV.C01.Lemmas FV.C04.Model.

(* ------------------------------------------------------------------ cache primitives *)
Lemma getp_setp c n x n' : getp (setp c n x) n' = if str_eqb n' n then Some x else getp c n'.
Proof.
  unfold getp, setp. induction c as [|[k v] c IH]; cbn.
  - destruct (str_eqb n' n); reflexivity.
  - destruct (str_eqb n k) eqn:Hnk; cbn.
    + apply str_eqb_eq in Hnk. subst k. destruct (str_eqb n' n); reflexivity.
    + destruct (str_eqb n' k) eqn:Hk.
      * apply str_eqb_eq in Hk. subst k.
        destruct (str_eqb n' n) eqn:Hn; [|reflexivity].
        apply str_eqb_eq in Hn. subst n'. rewrite str_eqb_refl in Hnk. discriminate.
      * exact IH.
Qed.

Lemma getp_setp_same c n x : getp (setp c n x) n = Some x.
Proof. rewrite getp_setp, str_eqb_refl. reflexivity. Qed.

Lemma getp_setp_other c n x n' : n' <> n -> getp (setp c n x) n' = getp c n'.
Proof.
  intros H. rewrite getp_setp. destruct (str_eqb n' n) eqn:Hn; [|reflexivity].
  apply str_eqb_eq in Hn. contradiction.
Qed.

(* ------------------------------------------------------------------ export map *)
Lemma find_export_in accs e a : find_export accs e = Some a -> In a accs /\ acc_export a = Some e.
Proof.
  induction accs as [|x r IH]; cbn; [discriminate|].
  destruct (acc_export x) as [e'|] eqn:Hx.
  - destruct (str_eqb e e') eqn:He.
    + intros H. injection H as <-. apply str_eqb_eq in He. subst e'. split; [left; reflexivity|exact Hx].
    + intros H. destruct (IH H). split; [right|]; assumption.
  - intros H. destruct (IH H). split; [right|]; assumption.
Qed.

Lemma lookup_export_in md e a : lookup_export md e = Some a ->
  md_export md = true /\ In a (md_acc md) /\ acc_export a = Some e.
Proof.
  unfold lookup_export. destruct (md_export md); [|discriminate].
  intros H. destruct (find_export_in _ _ _ H). auto.
Qed.

(* an accessible without wire name is never found *)
Lemma find_export_exported accs e a : find_export accs e = Some a -> acc_export a <> None.
Proof. intros H. destruct (find_export_in _ _ _ H) as [_ H2]. rewrite H2. discriminate. Qed.

(* ------------------------------------------------------------------ python number comparison on ints *)
Lemma py_lt_int x y : py_lt (PInt x) (PInt y) = Ok (x <? y)%Z.
Proof. unfold py_lt, num_cmp. cbn. unfold Z.ltb. destruct (x ?= y)%Z; reflexivity. Qed.
Lemma py_le_int x y : py_le (PInt x) (PInt y) = Ok (x <=? y)%Z.
Proof. unfold py_le, num_cmp. cbn. unfold Z.leb. destruct (x ?= y)%Z; reflexivity. Qed.
Lemma py_gt_int x y : py_gt (PInt x) (PInt y) = Ok (y <? x)%Z.
Proof. unfold py_gt. apply py_lt_int. Qed.

(* ------------------------------------------------------------------ checkLimits *)
(* the three ways a value can satisfy the limit parameters, read off the cache *)
Definition inside_limits (pn : str) (v : pyval) (c : cache) : Prop :=
  forall lo hi, getp c (pn ++ s_limits) = Some (PTuple [lo; hi]) -> py_le lo v = Ok true /\ py_le v hi = Ok true.
Definition inside_min (pn : str) (v : pyval) (c : cache) : Prop :=
  forall lo, getp c (pn ++ s_min) = Some lo -> py_lt v lo = Ok false.
Definition inside_max (pn : str) (v : pyval) (c : cache) : Prop :=
  forall hi, getp c (pn ++ s_max) = Some hi -> py_gt v hi = Ok false.
Definition not_inverted (pn : str) (c : cache) : Prop :=
  forall lo hi, getp c (pn ++ s_min) = Some lo -> getp c (pn ++ s_max) = Some hi -> py_gt lo hi = Ok false.

Lemma bind_bool_ok (r : res bool) (f : bool -> res unit) :
  r >>= f = Ok tt -> exists b, r = Ok b /\ f b = Ok tt.
Proof. destruct r as [b|e]; cbn; [eauto|discriminate]. Qed.

Lemma bind_unit_ok (r : res unit) (f : unit -> res unit) : r >>= f = Ok tt -> r = Ok tt /\ f tt = Ok tt.
Proof. destruct r as [[]|e]; cbn; [auto|discriminate]. Qed.

Lemma check_tuple_ok pn v c : check_tuple pn v c = Ok tt -> inside_limits pn v c.
Proof.
  unfold check_tuple, inside_limits. intros H lo hi G. rewrite G in H.
  apply bind_bool_ok in H. destruct H as (b1 & H1 & H). destruct b1; [|discriminate].
  apply bind_bool_ok in H. destruct H as (b2 & H2 & H). destruct b2; [|discriminate]. auto.
Qed.

Lemma check_minmax_ok pn v c : check_minmax pn v c = Ok tt ->
  inside_min pn v c /\ inside_max pn v c /\ not_inverted pn c.
Proof.
  unfold check_minmax, inside_min, inside_max, not_inverted. cbn zeta. intros H.
  apply bind_bool_ok in H. destruct H as (b1 & H1 & H). destruct b1; [discriminate|].
  apply bind_bool_ok in H. destruct H as (b2 & H2 & H). destruct b2; [discriminate|].
  apply bind_bool_ok in H. destruct H as (b3 & H3 & H). destruct b3; [discriminate|].
  repeat split.
  - intros lo G. rewrite G in H2. exact H2.
  - intros hi G. rewrite G in H3. exact H3.
  - intros lo hi G1 G2. rewrite G1, G2 in H1. exact H1.
Qed.

(* the property's reading: every limit parameter that exists is respected -- for every layout, also <p>_limits
   together with <p>_min/<p>_max (checkLimits no longer returns after the <p>_limits test) *)
Definition limits_respected (pn : str) (v : pyval) (c : cache) : Prop :=
  inside_limits pn v c /\ inside_min pn v c /\ inside_max pn v c.

Lemma check_limits_respected pn v c :
  check_limits pn v c = Ok tt -> limits_respected pn v c /\ not_inverted pn c.
Proof.
  unfold check_limits, limits_respected. intros H. apply bind_unit_ok in H. destruct H as [H1 H2].
  destruct (check_minmax_ok pn v c H2) as (A & B & C). split; [split; [apply check_tuple_ok, H1|auto]|exact C].
Qed.

(* integers: the readable form *)
Lemma limits_respected_int pn z c : limits_respected pn (PInt z) c ->
  (forall l h, getp c (pn ++ s_limits) = Some (PTuple [PInt l; PInt h]) -> (l <= z <= h)%Z) /\
  (forall l, getp c (pn ++ s_min) = Some (PInt l) -> (l <= z)%Z) /\
  (forall h, getp c (pn ++ s_max) = Some (PInt h) -> (z <= h)%Z).
Proof.
  intros (A & B & C). repeat split.
  - destruct (A _ _ H) as [H1 _]. rewrite py_le_int in H1. injection H1 as H1. apply Z.leb_le, H1.
  - destruct (A _ _ H) as [_ H1]. rewrite py_le_int in H1. injection H1 as H1. apply Z.leb_le, H1.
  - intros l G. specialize (B _ G). rewrite py_lt_int in B. injection B as B. apply Z.ltb_ge, B.
  - intros h G. specialize (C _ G). rewrite py_gt_int in C. injection C as C. apply Z.ltb_ge, C.
Qed.

Section WithUserCode.
Variable E : pyenv.
Variable hook : nat -> pyval -> cache -> hres.

Notation run_checks := (run_checks hook).
Notation write_wrapper := (write_wrapper hook).
Notation handle_change := (handle_change E hook).
Notation handle_do := (handle_do E).
Notation handle := (handle E hook).
Notation run := (run E hook).
Notation step := (step E hook).
Notation final := (final E hook).

(* ------------------------------------------------------------------ check chain *)
Definition check_holds (pn : str) (v : pyval) (c : cache) (k : check) : Prop :=
  match k with CkAuto => check_limits pn v c = Ok tt | CkUser i => hook i v c = HNone end.

Definition checks_pass (p : param) (v : pyval) (c : cache) : Prop :=
  snd (run_checks (p_checks p) (p_name p) v c) = None.

(* a chain that ends without exception: every check up to the first hook returning True holds *)
Lemma run_checks_prefix cks pn v c : snd (run_checks cks pn v c) = None ->
  exists pre post, cks = pre ++ post /\ Forall (check_holds pn v c) pre /\
                   (post = [] \/ exists i r, post = CkUser i :: r /\ hook i v c = HStop).
Proof.
  induction cks as [|k r IH]; cbn.
  - intros _. exists [], []. repeat split; auto.
  - destruct k as [|i].
    + destruct (check_limits pn v c) as [[]|e] eqn:Hc; [|discriminate].
      intros H. destruct (IH H) as (pre & post & -> & F & T).
      exists (CkAuto :: pre), post. repeat split; auto.
    + destruct (hook i v c) eqn:Hh.
      * destruct (Model.run_checks hook r pn v c) as [l o] eqn:Hr. cbn. intros H. cbn in IH. specialize (IH H).
        destruct IH as (pre & post & -> & F & T).
        exists (CkUser i :: pre), post. repeat split; auto.
      * intros _. exists [], (CkUser i :: r). repeat split; auto. right. eauto.
      * discriminate.
Qed.

Lemma run_checks_all cks pn v c : snd (run_checks cks pn v c) = None ->
  (forall i, In (CkUser i) cks -> hook i v c <> HStop) -> Forall (check_holds pn v c) cks.
Proof.
  intros H N. destruct (run_checks_prefix _ _ _ _ H) as (pre & post & -> & F & [->|(i & r & -> & S)]).
  - rewrite app_nil_r. exact F.
  - exfalso. apply (N i); [apply in_or_app; right; left; reflexivity|exact S].
Qed.

(* a chain that raises was stopped by a check that does not hold *)
Lemma run_checks_err cks pn v c e : snd (run_checks cks pn v c) = Some e ->
  exists k, In k cks /\ ~ check_holds pn v c k.
Proof.
  induction cks as [|k r IH]; cbn; [discriminate|].
  destruct k as [|i].
  - destruct (check_limits pn v c) as [[]|e'] eqn:Hc.
    + intros H. destruct (IH H) as (k & I & N). eauto.
    + intros _. exists CkAuto. split; [auto|]. cbn. rewrite Hc. discriminate.
  - destruct (hook i v c) eqn:Hh.
    + destruct (Model.run_checks hook r pn v c) as [l o] eqn:Hr. cbn. intros H. cbn in IH.
      destruct (IH H) as (k & I & N). eauto.
    + discriminate.
    + intros _. exists (CkUser i). split; [auto|]. cbn. rewrite Hh. discriminate.
Qed.

(* ------------------------------------------------------------------ outputs of the building blocks *)
Definition untouched (c : cache) (o : out) : Prop := o_drv o = [] /\ o_upd o = [] /\ o_cache o = c.

Lemma fail_untouched c e hl : untouched c (fail c e [] hl).
Proof. repeat split. Qed.

(* projections of store *)
Lemma store_drv p x c dl hl : o_drv (store p x c dl hl) = dl.
Proof. unfold store. destruct (p_export p); [destruct (exportable _ _)|]; reflexivity. Qed.
Lemma store_hooks p x c dl hl : o_hooks (store p x c dl hl) = hl.
Proof. unfold store. destruct (p_export p); [destruct (exportable _ _)|]; reflexivity. Qed.
Lemma store_cache p x c dl hl : o_cache (store p x c dl hl) = setp c (p_name p) x.
Proof. unfold store. destruct (p_export p); [destruct (exportable _ _)|]; reflexivity. Qed.
(* the stored value is announced, unless it cannot be exported: then WrongType, no update, cache already written *)
Lemma store_reply p x c dl hl :
  (o_reply (store p x c dl hl) = None /\
     o_upd (store p x c dl hl) = match p_export p with Some _ => [(p_name p, x)] | None => [] end /\
     (p_export p <> None -> exportable (p_dt p) x = true)) \/
  (o_reply (store p x c dl hl) = Some WrongType /\ o_upd (store p x c dl hl) = [] /\
     p_export p <> None /\ exportable (p_dt p) x = false).
Proof.
  unfold store. destruct (p_export p) as [e|].
  - destruct (exportable (p_dt p) x) eqn:X; [left|right]; repeat split; auto; discriminate.
  - left. repeat split. intros N. contradiction.
Qed.

(* the write wrapper: all outcomes *)
Lemma write_wrapper_cases p v c d :
  let o := write_wrapper p v c d in
  (exists e, dt_validate (p_dt p) v PNone = Err e /\ o = fail c (of_exc e) [] []) \/
  (exists nv hl e, dt_validate (p_dt p) v PNone = Ok nv /\ run_checks (p_checks p) (p_name p) v c = (hl, Some e) /\
                   o = fail c e [] hl) \/
  (exists nv hl, dt_validate (p_dt p) v PNone = Ok nv /\ run_checks (p_checks p) (p_name p) v c = (hl, None) /\
     ((p_haswrite p = false /\ o = store p nv c [] hl) \/
      (p_haswrite p = true /\ o_drv o = [Write (p_name p) nv] /\ o_hooks o = hl /\
        ((o_reply o <> None /\ o_upd o = [] /\ o_cache o = c) \/
         (o_reply o = None /\ o_upd o = [] /\ o_cache o = c /\ drv_norm d = DDone) \/
         (exists x, o = store p x c [Write (p_name p) nv] hl /\
                    (drv_norm d = DNone /\ x = v \/ exists r, drv_norm d = DVal r /\ dt_validate (p_dt p) r PNone = Ok x)))))).
Proof.
  unfold Model.write_wrapper. cbn zeta.
  destruct (dt_validate (p_dt p) v PNone) as [nv|e] eqn:Hv; [|left; eauto].
  right. destruct (Model.run_checks hook (p_checks p) (p_name p) v c) as [hl [e|]] eqn:Hr.
  - left. exists nv, hl, e. auto.
  - right. exists nv, hl. split; [reflexivity|]. split; [reflexivity|].
    destruct (p_haswrite p); [right|left; auto]. split; [reflexivity|].
    destruct (drv_norm d) as [| |r|e] eqn:Hd.
    + rewrite store_drv, store_hooks. split; [reflexivity|]. split; [reflexivity|].
      right; right. exists v. split; [reflexivity|]. left; auto.
    + split; [reflexivity|]. split; [reflexivity|]. right; left. repeat split.
    + destruct (dt_validate (p_dt p) r PNone) as [x|e] eqn:Hr2.
      * rewrite store_drv, store_hooks. split; [reflexivity|]. split; [reflexivity|].
        right; right. exists x. split; [reflexivity|]. right. eauto.
      * split; [reflexivity|]. split; [reflexivity|]. left. repeat split. cbn. discriminate.
    + split; [reflexivity|]. split; [reflexivity|]. left. repeat split. cbn. discriminate.
Qed.

(* an error out of the write wrapper leaves cache and subscribers alone -- except when the value was already stored and
   then turned out not to be exportable (finding nested-optional-struct-stored-then-error) *)
Definition stored_unexportable (p : param) (c : cache) (o : out) : Prop :=
  exists x, exportable (p_dt p) x = false /\ o_reply o = Some WrongType /\ o_upd o = [] /\
            o_cache o = setp c (p_name p) x.

Lemma write_wrapper_error p v c d :
  o_reply (write_wrapper p v c d) <> None ->
  (o_upd (write_wrapper p v c d) = [] /\ o_cache (write_wrapper p v c d) = c) \/
  stored_unexportable p c (write_wrapper p v c d).
Proof.
  pose proof (write_wrapper_cases p v c d) as H. cbn zeta in H.
  assert (S : forall x dl hl, o_reply (store p x c dl hl) <> None -> stored_unexportable p c (store p x c dl hl)).
  { intros x dl hl R. destruct (store_reply p x c dl hl) as [(N & _)|(N & U & _ & X)]; [contradiction|].
    exists x. rewrite store_cache. auto. }
  destruct H as [(e & _ & ->)|[(nv & hl & e & _ & _ & ->)|(nv & hl & _ & _ & [[_ Hs]|(_ & _ & _ & H)])]]; intros R.
  - left. split; reflexivity.
  - left. split; reflexivity.
  - right. rewrite Hs in *. apply S, R.
  - destruct H as [(_ & U & C)|[(_ & U & C & _)|(x & Hx & _)]]; auto.
    right. rewrite Hx in *. apply S, R.
Qed.

(* the write wrapper changes at most the written parameter *)
Lemma write_wrapper_frame p v c d n :
  n <> p_name p -> getp (o_cache (write_wrapper p v c d)) n = getp c n.
Proof.
  intros N. pose proof (write_wrapper_cases p v c d) as H. cbn zeta in H.
  destruct H as [(e & _ & ->)|[(nv & hl & e & _ & _ & ->)|(nv & hl & _ & _ & [[_ ->]|(_ & _ & _ & H)])]]; try reflexivity.
  - rewrite store_cache. apply getp_setp_other, N.
  - destruct H as [(_ & _ & ->)|[(_ & _ & -> & _)|(x & -> & _)]]; try reflexivity.
    rewrite store_cache. apply getp_setp_other, N.
Qed.

(* a successful write wrapper: nothing changed (Done), or one value stored, announced and exportable *)
Lemma write_wrapper_success p v c d :
  o_reply (write_wrapper p v c d) = None ->
  (o_upd (write_wrapper p v c d) = [] /\ o_cache (write_wrapper p v c d) = c) \/
  (exists x, o_cache (write_wrapper p v c d) = setp c (p_name p) x /\
             o_upd (write_wrapper p v c d) = match p_export p with Some _ => [(p_name p, x)] | None => [] end /\
             (p_export p <> None -> exportable (p_dt p) x = true)).
Proof.
  pose proof (write_wrapper_cases p v c d) as H. cbn zeta in H.
  assert (S : forall x dl hl, o_reply (store p x c dl hl) = None ->
     exists y, o_cache (store p x c dl hl) = setp c (p_name p) y /\
       o_upd (store p x c dl hl) = match p_export p with Some _ => [(p_name p, y)] | None => [] end /\
       (p_export p <> None -> exportable (p_dt p) y = true)).
  { intros x dl hl R. destruct (store_reply p x c dl hl) as [(_ & U & X)|(N & _)]; [|congruence].
    exists x. rewrite store_cache. auto. }
  destruct H as [(e & _ & ->)|[(nv & hl & e & _ & _ & ->)|(nv & hl & _ & _ & [[_ Hs]|(_ & _ & _ & H)])]]; intros R;
    try discriminate.
  - right. rewrite Hs in *. apply S, R.
  - destruct H as [(N & _)|[(_ & U & C & _)|(x & Hx & _)]]; [contradiction|auto|].
    right. rewrite Hx in *. apply S, R.
Qed.

(* the reply built from the cache *)
Lemma reply_export_same p o : o_drv (reply_export p o) = o_drv o /\ o_hooks (reply_export p o) = o_hooks o /\
  o_upd (reply_export p o) = o_upd o /\ o_cache (reply_export p o) = o_cache o.
Proof.
  unfold reply_export. destruct (o_reply o); [auto|].
  destruct (getp (o_cache o) (p_name p)) as [x|]; [|auto]. destruct (exportable (p_dt p) x); auto.
Qed.
Lemma reply_export_none p o : o_reply (reply_export p o) = None -> o_reply o = None.
Proof.
  unfold reply_export. destruct (o_reply o) eqn:R; [rewrite R; auto|reflexivity].
Qed.
Lemma reply_export_err p o : o_reply o <> None -> reply_export p o = o.
Proof. unfold reply_export. destruct (o_reply o); [reflexivity|contradiction]. Qed.
Lemma reply_export_cases p o : o_reply o = None ->
  reply_export p o = o \/
  (exists x, getp (o_cache o) (p_name p) = Some x /\ exportable (p_dt p) x = false /\
             o_reply (reply_export p o) = Some WrongType).
Proof.
  intros R. unfold reply_export. rewrite R.
  destruct (getp (o_cache o) (p_name p)) as [x|]; [|auto].
  destruct (exportable (p_dt p) x) eqn:X; [auto|]. right. exists x. auto.
Qed.

Definition ename (rq : request) : str := match rq_acc rq with Some a => a | None => s_target end.
Definition prev_of (c : cache) (p : param) : pyval := match getp c (p_name p) with Some x => x | None => PNone end.

(* ------------------------------------------------------------------ change: safety *)
Theorem change_safe md c rq :
  let o := handle_change md c rq in
  o_drv o <> [] \/ o_reply o = None ->
  exists p v w,
    rq_mod rq = md_name md /\ md_export md = true /\ In (AParam p) (md_acc md) /\ p_export p = Some (ename rq) /\
    p_readonly p = false /\ p_constant p = false /\
    wire E (p_dt p) (rq_data rq) (prev_of c p) = Ok v /\
    dt_validate (p_dt p) v PNone = Ok w /\
    checks_pass p v c /\
    o_drv o = (if p_haswrite p then [Write (p_name p) w] else []).
Proof.
  unfold Model.handle_change. cbn zeta.
  destruct (str_eqb (rq_mod rq) (md_name md)) eqn:Hm; cbn [negb].
  2: { intros [H|H]; [exfalso; apply H; reflexivity|discriminate]. }
  fold (ename rq).
  destruct (lookup_export md (ename rq)) as [[p|cm]|] eqn:Hl.
  2,3: intros [H|H]; [exfalso; apply H; reflexivity|discriminate].
  destruct (p_constant p) eqn:Hc. { intros [H|H]; [exfalso; apply H; reflexivity|discriminate]. }
  destruct (p_readonly p) eqn:Hr. { intros [H|H]; [exfalso; apply H; reflexivity|discriminate]. }
  fold (prev_of c p).
  destruct (wire E (p_dt p) (rq_data rq) (prev_of c p)) as [v|e] eqn:Hw.
  2: { intros [H|H]; [exfalso; apply H; reflexivity|discriminate]. }
  destruct (lookup_export_in _ _ _ Hl) as (He & Hi & Hx). cbn in Hx.
  apply str_eqb_eq in Hm.
  destruct (reply_export_same p (write_wrapper p v c (rq_drv rq))) as (Ed & _).
  rewrite Ed. intros Hyp.
  assert (Hyp' : o_drv (write_wrapper p v c (rq_drv rq)) <> [] \/ o_reply (write_wrapper p v c (rq_drv rq)) = None).
  { destruct Hyp as [H|H]; [left; exact H|right; apply (reply_export_none p), H]. }
  clear Hyp. revert Hyp'.
  pose proof (write_wrapper_cases p v c (rq_drv rq)) as H. cbn zeta in H.
  destruct H as [(e & _ & ->)|[(nv & hl & e & _ & _ & ->)|(nv & hl & Hv & Hk & H)]].
  - intros [H|H]; [exfalso; apply H; reflexivity|discriminate].
  - intros [H|H]; [exfalso; apply H; reflexivity|discriminate].
  - intros _. exists p, v, nv. repeat split; auto.
    + unfold checks_pass. rewrite Hk. reflexivity.
    + destruct H as [[Hh ->]|(Hh & Hd & _)]; rewrite Hh; [apply store_drv|exact Hd].
Qed.

(* ------------------------------------------------------------------ change: refusal, first failing test decides *)
Theorem change_refused md c rq :
  let o := handle_change md c rq in
  (rq_mod rq <> md_name md -> o = fail c (ESecop NoSuchModule) [] []) /\
  (rq_mod rq = md_name md -> (forall p, lookup_export md (ename rq) <> Some (AParam p)) ->
     o = fail c (ESecop NoSuchParameter) [] []) /\
  (forall p, rq_mod rq = md_name md -> lookup_export md (ename rq) = Some (AParam p) ->
     (p_constant p || p_readonly p = true -> o = fail c (ESecop ReadOnly) [] []) /\
     (p_constant p || p_readonly p = false ->
        (forall e, wire E (p_dt p) (rq_data rq) (prev_of c p) = Err e -> o = fail c (of_exc e) [] []) /\
        (forall v, wire E (p_dt p) (rq_data rq) (prev_of c p) = Ok v ->
           (forall e, dt_validate (p_dt p) v PNone = Err e -> o = fail c (of_exc e) [] []) /\
           (forall nv hl e, dt_validate (p_dt p) v PNone = Ok nv ->
              run_checks (p_checks p) (p_name p) v c = (hl, Some e) -> o = fail c e [] hl)))).
Proof.
  unfold Model.handle_change. cbn zeta. fold (ename rq). split; [|split].
  - intros N. destruct (str_eqb (rq_mod rq) (md_name md)) eqn:Hm; [|reflexivity].
    apply str_eqb_eq in Hm. contradiction.
  - intros -> N. rewrite str_eqb_refl. cbn [negb].
    destruct (lookup_export md (ename rq)) as [[p|cm]|] eqn:Hl; try reflexivity. exfalso. apply (N p). reflexivity.
  - intros p Hm Hl. rewrite Hm, str_eqb_refl, Hl. cbn [negb]. fold (prev_of c p). split.
    + intros H. destruct (p_constant p); [reflexivity|]. cbn in H. rewrite H. reflexivity.
    + intros H. apply orb_false_elim in H. destruct H as [H1 H2]. rewrite H1, H2. split.
      * intros e W. rewrite W. reflexivity.
      * intros v W. rewrite W. unfold Model.write_wrapper. split.
        -- intros e V. rewrite V. reflexivity.
        -- intros nv hl e V K. rewrite V, K. reflexivity.
Qed.

(* a datatype refusal is answered WrongType or RangeError (the C01 totality guard: representable scaled values, a dict
   as cached struct value) *)
Lemma bad_value_report e : is_bad_value e = true -> report (of_exc e) = WrongType \/ report (of_exc e) = RangeError.
Proof. destruct e; cbn; try discriminate; auto. Qed.

Theorem wire_refusal_class d j prev e :
  wire_guard E d j prev = true -> wire E d j prev = Err e ->
  report (of_exc e) = WrongType \/ report (of_exc e) = RangeError.
Proof.
  intros G W. pose proof (wire_total E d j prev G) as T. rewrite W in T. apply bad_value_report, T.
Qed.

(* ------------------------------------------------------------------ every error reply leaves cache and subscribers alone *)
Lemma handle_change_error md c rq :
  o_reply (handle_change md c rq) <> None ->
  (o_upd (handle_change md c rq) = [] /\ o_cache (handle_change md c rq) = c) \/
  (exists p, lookup_export md (ename rq) = Some (AParam p) /\ stored_unexportable p c (handle_change md c rq)).
Proof.
  unfold Model.handle_change. cbn zeta. fold (ename rq).
  destruct (negb (str_eqb (rq_mod rq) (md_name md))); [left; split; reflexivity|].
  destruct (lookup_export md (ename rq)) as [[p|cm]|] eqn:Hl; try (left; split; reflexivity).
  destruct (p_constant p); [left; split; reflexivity|]. destruct (p_readonly p); [left; split; reflexivity|].
  destruct (wire E (p_dt p) (rq_data rq) _) as [v|e]; [|left; split; reflexivity].
  set (w := write_wrapper p v c (rq_drv rq)).
  destruct (reply_export_same p w) as (_ & _ & Eu & Ec). rewrite Eu, Ec.
  destruct (o_reply w) as [cl|] eqn:R.
  - (* the wrapper itself failed *)
    assert (R' : o_reply w <> None) by (rewrite R; discriminate).
    rewrite (reply_export_err p w R'). intros _.
    destruct (write_wrapper_error p v c (rq_drv rq) R') as [H|H]; [left; exact H|right; exists p; split; [reflexivity|exact H]].
  - (* the wrapper succeeded, the reply could not be built: only possible when nothing was stored *)
    intros N. destruct (reply_export_cases p w R) as [H|(x & G & X & _)]; [rewrite H, R in N; contradiction|].
    destruct (write_wrapper_success p v c (rq_drv rq) R) as [H|(y & C & _ & Y)]; [left; exact H|].
    exfalso. fold w in C. rewrite C, getp_setp_same in G. injection G as <-.
    destruct (lookup_export_in _ _ _ Hl) as (_ & _ & Hx). cbn in Hx.
    rewrite Y in X; [discriminate|]. rewrite Hx. discriminate.
Qed.

Lemma call_cmd_clean cm a c d : o_upd (call_cmd cm a c d) = [] /\ o_cache (call_cmd cm a c d) = c /\
  o_drv (call_cmd cm a c d) = [Call (c_name cm) a].
Proof.
  unfold call_cmd. destruct d as [| |r|e]; cbn; try (destruct (c_res cm) as [rd|]; [destruct (dt_call rd _)|]); repeat split.
Qed.

Lemma do_cmd_clean cm c rq : o_upd (do_cmd E cm c rq) = [] /\ o_cache (do_cmd E cm c rq) = c.
Proof.
  unfold do_cmd. destruct (c_arg cm) as [ad|].
  - destruct (rq_data rq); try (split; reflexivity);
      (destruct (dt_import E ad _) as [a|e]; [|split; reflexivity];
       destruct (dt_validate ad a PNone) as [w|e]; [|split; reflexivity];
       destruct (call_cmd_clean cm w c (rq_drv rq)) as (A & B & _); split; assumption).
  - destruct (rq_data rq); try (split; reflexivity).
    destruct (call_cmd_clean cm (PTuple []) c (rq_drv rq)) as (A & B & _); split; assumption.
Qed.

(* a do request never changes the cache and never emits an update (the scripted command function does nothing else) *)
Theorem do_clean md c rq : o_upd (handle_do md c rq) = [] /\ o_cache (handle_do md c rq) = c.
Proof.
  unfold Model.handle_do. destruct (rq_acc rq) as [en|]; [|split; reflexivity].
  destruct (negb (str_eqb (rq_mod rq) (md_name md))); [split; reflexivity|].
  destruct (lookup_export md en) as [[p|cm]|]; try (split; reflexivity). apply do_cmd_clean.
Qed.

Theorem error_clean_except_unexportable md c rq :
  o_reply (handle md c rq) <> None ->
  (o_upd (handle md c rq) = [] /\ o_cache (handle md c rq) = c) \/
  (rq_act rq = AChange /\ exists p, lookup_export md (ename rq) = Some (AParam p) /\
     stored_unexportable p c (handle md c rq)).
Proof.
  unfold Model.handle. destruct (rq_act rq).
  - intros R. destruct (handle_change_error md c rq R) as [H|H]; [left; exact H|right; split; [reflexivity|exact H]].
  - intros _. left. apply do_clean.
Qed.

(* values that always export: no struct below the top level of the type can lack a member *)
Theorem error_clean md c rq :
  (forall p x, In (AParam p) (md_acc md) -> exportable (p_dt p) x = true) ->
  o_reply (handle md c rq) <> None -> o_upd (handle md c rq) = [] /\ o_cache (handle md c rq) = c.
Proof.
  intros X R. destruct (error_clean_except_unexportable md c rq R) as [H|(_ & p & Hl & x & Hx & _)]; [exact H|].
  destruct (lookup_export_in _ _ _ Hl) as (_ & Hi & _). rewrite (X p x Hi) in Hx. discriminate.
Qed.

(* ------------------------------------------------------------------ do: safety and refusal *)
Definition arg_ok (cm : command) (j : pyval) (w : pyval) : Prop :=
  match c_arg cm with
  | Some ad => j <> PNone /\ exists a, dt_import E ad j = Ok a /\ dt_validate ad a PNone = Ok w
  | None => j = PNone /\ w = PTuple []
  end.

Lemma do_cmd_cases cm c rq :
  let o := do_cmd E cm c rq in
  (o_drv o = [] /\ o_reply o <> None /\
     match c_arg cm with
     | Some ad => (rq_data rq = PNone /\ o_reply o = Some WrongType) \/
                  (exists e, dt_import E ad (rq_data rq) = Err e /\ o_reply o = Some (report (of_exc e))) \/
                  (exists a e, dt_import E ad (rq_data rq) = Ok a /\ dt_validate ad a PNone = Err e /\
                               o_reply o = Some (report (of_exc e)))
     | None => rq_data rq <> PNone /\ o_reply o = Some WrongType
     end) \/
  (exists w, arg_ok cm (rq_data rq) w /\ o_drv o = [Call (c_name cm) w]).
Proof.
  unfold do_cmd, arg_ok. cbn zeta. destruct (c_arg cm) as [ad|].
  - destruct (rq_data rq) eqn:Hj;
      try (left; repeat split; [cbn; discriminate|left; split; reflexivity]);
      (destruct (dt_import E ad _) as [a|e] eqn:Hi;
       [|left; repeat split; [cbn; discriminate|right; left; eauto]];
       destruct (dt_validate ad a PNone) as [w|e] eqn:Hv;
       [|left; repeat split; [cbn; discriminate|right; right; eauto]];
       right; exists w; split; [split; [discriminate|eauto]|apply call_cmd_clean]).
  - destruct (rq_data rq) eqn:Hj;
      try (left; repeat split; cbn; discriminate).
    right. exists (PTuple []). split; [auto|apply call_cmd_clean].
Qed.

Theorem do_safe md c rq :
  let o := handle_do md c rq in
  o_drv o <> [] \/ o_reply o = None ->
  exists en cm w,
    rq_acc rq = Some en /\ rq_mod rq = md_name md /\ md_export md = true /\ In (ACmd cm) (md_acc md) /\
    c_export cm = Some en /\ arg_ok cm (rq_data rq) w /\ o_drv o = [Call (c_name cm) w].
Proof.
  unfold Model.handle_do. cbn zeta.
  destruct (rq_acc rq) as [en|]. 2: { intros [H|H]; [exfalso; apply H; reflexivity|discriminate]. }
  destruct (str_eqb (rq_mod rq) (md_name md)) eqn:Hm; cbn [negb].
  2: { intros [H|H]; [exfalso; apply H; reflexivity|discriminate]. }
  destruct (lookup_export md en) as [[p|cm]|] eqn:Hl.
  1,3: intros [H|H]; [exfalso; apply H; reflexivity|discriminate].
  destruct (lookup_export_in _ _ _ Hl) as (He & Hi & Hx). cbn in Hx. apply str_eqb_eq in Hm.
  pose proof (do_cmd_cases cm c rq) as H. cbn zeta in H.
  destruct H as [(D & R & _)|(w & A & D)].
  - intros [H|H]; [exfalso; apply H, D|contradiction].
  - intros _. exists en, cm, w. repeat split; auto.
Qed.

Definition arg_guard (cm : command) (j : pyval) : bool :=
  match c_arg cm with Some ad => wire_guard E ad j PNone | None => true end.

Theorem do_refused md c rq :
  let o := handle_do md c rq in
  (rq_acc rq = None -> o = fail c (ESecop ProtocolError) [] []) /\
  (forall en, rq_acc rq = Some en ->
     (rq_mod rq <> md_name md -> o = fail c (ESecop NoSuchModule) [] []) /\
     (rq_mod rq = md_name md -> (forall cm, lookup_export md en <> Some (ACmd cm)) ->
        o = fail c (ESecop NoSuchCommand) [] []) /\
     (forall cm, rq_mod rq = md_name md -> lookup_export md en = Some (ACmd cm) ->
        (forall w, ~ arg_ok cm (rq_data rq) w) ->
        untouched c o /\ exists cl, o_reply o = Some cl /\
          (arg_guard cm (rq_data rq) = true -> cl = WrongType \/ cl = RangeError))).
Proof.
  unfold Model.handle_do. cbn zeta. split; [intros ->; reflexivity|].
  intros en ->. split; [|split].
  - intros N. destruct (str_eqb (rq_mod rq) (md_name md)) eqn:Hm; [|reflexivity].
    apply str_eqb_eq in Hm. contradiction.
  - intros -> N. rewrite str_eqb_refl. cbn [negb].
    destruct (lookup_export md en) as [[p|cm]|] eqn:Hl; try reflexivity. exfalso. apply (N cm). reflexivity.
  - intros cm Hm Hl Hn. rewrite Hm, str_eqb_refl, Hl. cbn [negb].
    pose proof (do_cmd_cases cm c rq) as C. cbn zeta in C. destruct C as [(D & _ & C)|(w & A & _)].
    2: { exfalso. apply (Hn w A). }
    split. { split; [exact D|apply do_cmd_clean]. }
    unfold arg_guard. destruct (c_arg cm) as [ad|].
    + destruct C as [[_ R]|[(e & I & R)|(a & e & I & V & R)]].
      * eexists. split; [exact R|]. auto.
      * eexists. split; [exact R|]. intros _. apply bad_value_report.
        pose proof (import_total E ad (rq_data rq)) as T. rewrite I in T. exact T.
      * eexists. split; [exact R|]. unfold wire_guard. rewrite I. intros G. apply bad_value_report.
        pose proof (validate_total ad a PNone G) as T. rewrite V in T. exact T.
    + destruct C as [_ R]. eexists. split; [exact R|]. auto.
Qed.

End WithUserCode.
