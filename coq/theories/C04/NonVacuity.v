(* C04 — vacuity audit: every theorem of Properties.v that has premises is APPLIED here at one concrete, non-trivial
   instance with all premises discharged by computation:
     - sequential: a module of the kind harness/props/C04.py builds -- int parameter a (write method, user hook
       "value > self.a_max: raise RangeError" above the generated limit check), limit parameters a_max and a_limits,
       a struct parameter with an optional member, a readonly parameter, a command with int argument and one without
       argument -- a cache holding a value for every parameter, and a history of 16 requests (accepted, refused by hook /
       limit / datatype / name / readonly, do requests, driver raising);
     - concurrent: three threads (two connection threads handling change requests, one internal thread calling two write
       wrappers directly), a schedule in which all three take steps and two of them are made to wait for the accessLock.
     - two cases built by the harness itself (hc: rand_case, sequential; hcc: corpus case, two real threads), encoded by
       harness/props/C04.py: the premises of the history theorems and of C04_limits_current_at_driver_call hold for them.
   `Example x := T args proofs` is a direct application of theorem T: its type is the conclusion of T at the instance.
   No theorem of C04/Properties.v was found vacuous.  Two scope remarks are recorded and proved:
     - the premise of C04_error_clean_exportable (forall x, exportable ...) is false for every module with a struct-typed
       parameter (C04_error_clean_exportable_premise_false_for_struct_params);
     - the branch "wire Ok, second validation Err" of C04_change_refused fires only from a cache that is not cache_ok
       (C04_change_refused_applies_second_validation).
   Repair of both remarks (section at the end): C04_error_clean / C04_error_clean_step / C04_history_error_outputs /
   C04_reply_always_built / C04_validated_values_export are applied at the module WITH the struct parameter, in a state
   reached by six requests, to requests that fail after the driver ran; C04_second_validation_never_fails and
   C04_fixed_point_cache_invariant are applied at the same module (its premises regular_md / cache_st hold). *)
From Coq Require Import ZArith NArith Bool List Lia.
Import ListNotations.
Require Import FV.Gen.C04 FV.Base.Util FV.Base.F64 FV.Base.PyVal FV.C01.Model FV.C01.Lemmas.
Require Import FV.C01.IdemDefs FV.C04.LemmasIdem.
Require Import FV.C04.Model FV.C04.Lemmas FV.C04.LemmasHist FV.C04.ConcModel FV.C04.LemmasConc FV.C04.LemmasSolo
  FV.C04.Run FV.C04.Properties.

(* ------------------------------------------------------------------ the instance *)
Definition n_m : str := [109%N].
Definition n_a : str := [97%N].
Definition n_amax : str := n_a ++ s_max.
Definition n_alim : str := n_a ++ s_limits.
Definition n_s : str := [115%N].
Definition n_r : str := [114%N].
Definition n_f : str := [102%N].
Definition n_go : str := [103%N; 111%N].
Definition n_stop : str := [115%N; 116%N; 111%N; 112%N].
Definition ka : str := [107%N; 97%N].
Definition kb : str := [107%N; 98%N].
Definition us (s : str) : str := 95%N :: s.

Definition pa : param :=
  {| p_name := n_a; p_export := Some (us n_a); p_dt := TInt 0 10; p_readonly := false; p_constant := false;
     p_haswrite := true; p_checks := [CkUser 0; CkAuto] |}.
Definition pamax : param :=
  {| p_name := n_amax; p_export := Some (us n_amax); p_dt := TInt 0 10; p_readonly := false; p_constant := false;
     p_haswrite := false; p_checks := [] |}.
Definition palim : param :=
  {| p_name := n_alim; p_export := Some (us n_alim); p_dt := TTuple [TInt 0 10; TInt 0 10]; p_readonly := false;
     p_constant := false; p_haswrite := false; p_checks := [] |}.
Definition d_s : dtype := TStruct [(ka, TInt 0 5); (kb, TBool)] [kb] false.
Definition ps : param :=
  {| p_name := n_s; p_export := Some (us n_s); p_dt := d_s;
     p_readonly := false; p_constant := false; p_haswrite := true; p_checks := [CkUser 1; CkUser 2] |}.
Definition pr : param :=
  {| p_name := n_r; p_export := Some (us n_r); p_dt := TBool; p_readonly := true; p_constant := false;
     p_haswrite := false; p_checks := [] |}.
Definition cgo : command := {| c_name := n_go; c_export := Some n_go; c_arg := Some (TInt 0 5); c_res := None |}.
Definition cstop : command := {| c_name := n_stop; c_export := Some n_stop; c_arg := None; c_res := Some TBool |}.
Definition nv_md : mdesc :=
  {| md_name := n_m; md_export := true;
     md_acc := [AParam pa; AParam pamax; AParam palim; AParam ps; AParam pr; ACmd cgo; ACmd cstop] |}.
(* the hooks, built the way Run.check_case builds them: 0 = "if value > self.a_max: raise RangeError",
   1 = "return True" (stops the chain), 2 = "raise ValueError" (never reached behind hook 1) *)
Definition nv_hook := hook_of [(0%nat, (HcGt n_amax, HaRange)); (1%nat, (HcAlways, HaStop)); (2%nat, (HcAlways, HaPy))].
Definition nv_c : cache :=
  [(n_a, PInt 1); (n_amax, PInt 6); (n_alim, PTuple [PInt 2; PInt 8]); (n_s, PDict [(ka, PInt 1)]); (n_r, PBool true)].
Definition nv_E : pyenv := {| int_of := []; b64_of := [] |}.
Definition chgr (acc : str) (v : pyval) (d : drv) : request :=
  {| rq_act := AChange; rq_mod := n_m; rq_acc := Some acc; rq_data := v; rq_drv := d |}.
Definition dor (acc : option str) (v : pyval) (d : drv) : request :=
  {| rq_act := ADo; rq_mod := n_m; rq_acc := acc; rq_data := v; rq_drv := d |}.

Definition hist : list request :=
  [chgr (us n_a) (PInt 4) DNone;                                   (* 0  accepted, write_a(4) *)
   chgr (us n_a) (PInt 7) DNone;                                   (* 1  hook 0: 7 > a_max = 6 *)
   chgr (us n_amax) (PInt 3) DNone;                                (* 2  the limit is moved *)
   chgr (us n_a) (PInt 4) DNone;                                   (* 3  now refused *)
   chgr (us n_alim) (PList [PInt 3; PInt 9]) DNone;                (* 4 *)
   chgr (us n_s) (PDict [(ka, PInt 2); (kb, PBool true)]) (DVal (PDict [(ka, PInt 3)]));   (* 5  read-back value stored *)
   chgr (us n_r) (PBool false) DNone;                              (* 6  ReadOnly *)
   chgr (us n_a) (PStr ka) DNone; chgr (us n_a) (PInt 11) DNone;   (* 7, 8  WrongType, RangeError *)
   dor (Some n_go) (PInt 3) DNone; dor (Some n_go) (PInt 9) DNone; dor (Some n_go) PNone DNone;   (* 9, 10, 11 *)
   dor (Some n_stop) PNone (DVal (PBool true)); dor None PNone DNone;                          (* 12, 13 *)
   chgr (us n_a) (PInt 3) (DRaise (ESecop HardwareError));         (* 14 driver raises *)
   chgr (us n_a) (PInt 2) (DVal (PInt 3))].                        (* 15 below a_limits *)

Example nv_hist_outcomes :
  map (fun o => (o_reply o, o_drv o)) (run nv_E nv_hook nv_md nv_c hist) =
  [(None, [Write n_a (PInt 4)]); (Some RangeError, []); (None, []); (Some RangeError, []); (None, []);
   (None, [Write n_s (PDict [(ka, PInt 2); (kb, PBool true)])]); (Some ReadOnly, []); (Some WrongType, []);
   (Some RangeError, []); (None, [Call n_go (PInt 3)]); (Some RangeError, []); (Some WrongType, []);
   (None, [Call n_stop (PTuple [])]); (Some ProtocolError, []); (Some HardwareError, [Write n_a (PInt 3)]);
   (Some RangeError, [])].
Proof. vm_compute. reflexivity. Qed.

(* ------------------------------------------------------------------ C04_change_safe *)
Definition rq_ok := chgr (us n_a) (PInt 4) DNone.
Lemma nv_change_prem : o_drv (handle_change nv_E nv_hook nv_md nv_c rq_ok) <> [].
Proof. vm_compute. discriminate. Qed.
Example C04_change_safe_applies := C04_change_safe nv_E nv_hook nv_md nv_c rq_ok (or_introl nv_change_prem).
(* the other disjunct of the premise: success without write method (a_max), driver not called *)
Lemma nv_change_prem2 : o_reply (handle_change nv_E nv_hook nv_md nv_c (chgr (us n_amax) (PInt 3) DNone)) = None.
Proof. vm_compute. reflexivity. Qed.
Example C04_change_safe_applies_nowrite :=
  C04_change_safe nv_E nv_hook nv_md nv_c (chgr (us n_amax) (PInt 3) DNone) (or_intror nv_change_prem2).

(* ------------------------------------------------------------------ C04_checks_respected *)
Lemma nv_checks_pass : checks_pass nv_hook pa (PInt 4) nv_c.
Proof. vm_compute. reflexivity. Qed.
Lemma nv_no_stop : forall i, In (CkUser i) (p_checks pa) -> nv_hook i (PInt 4) nv_c <> HStop.
Proof. intros i [H|[H|[]]]; inversion H; subst; vm_compute; discriminate. Qed.
Example C04_checks_respected_applies :
  Forall (check_holds nv_hook n_a (PInt 4) nv_c) [CkUser 0; CkAuto].
Proof. exact (proj2 (C04_checks_respected nv_hook pa (PInt 4) nv_c nv_checks_pass) nv_no_stop). Qed.
(* a chain cut by a hook that returns True: hook 1 stops, hook 2 (which would raise) is not reached *)
Lemma nv_checks_pass_stop : checks_pass nv_hook ps (PDict [(ka, PInt 2)]) nv_c.
Proof. vm_compute. reflexivity. Qed.
Example C04_checks_respected_applies_stop := proj1 (C04_checks_respected nv_hook ps (PDict [(ka, PInt 2)]) nv_c nv_checks_pass_stop).

(* ------------------------------------------------------------------ C04_limits_respected, C04_limits_respected_int *)
Lemma nv_limits_ok : check_limits n_a (PInt 4) nv_c = Ok tt.
Proof. vm_compute. reflexivity. Qed.
Example C04_limits_respected_applies : limits_respected n_a (PInt 4) nv_c /\ not_inverted n_a nv_c.
Proof. apply C04_limits_respected. exact nv_limits_ok. Qed.
(* the implications inside the conclusion fire on this cache: a_limits = (2, 8) and a_max = 6 exist *)
Example C04_limits_respected_int_applies : (2 <= 4 <= 8)%Z /\ (4 <= 6)%Z.
Proof.
  destruct (C04_limits_respected_int n_a 4%Z nv_c (proj1 C04_limits_respected_applies)) as (A & _ & C).
  split; [exact (A 2%Z 8%Z eq_refl)|exact (C 6%Z eq_refl)].
Qed.
(* all three kinds at once (layout a_limits + a_min + a_max), min and max present: not_inverted fires too *)
Definition c_all : cache := [(n_a ++ s_limits, PTuple [PInt 0; PInt 10]); (n_a ++ s_min, PInt 5); (n_a ++ s_max, PInt 9)].
Example C04_limits_respected_applies_all_kinds :
  (0 <= 7 <= 10)%Z /\ (5 <= 7)%Z /\ (7 <= 9)%Z /\ py_gt (PInt 5) (PInt 9) = Ok false.
Proof.
  assert (H : check_limits n_a (PInt 7) c_all = Ok tt) by (vm_compute; reflexivity).
  destruct (C04_limits_respected n_a (PInt 7) c_all H) as [L N].
  destruct (C04_limits_respected_int n_a 7%Z c_all L) as (A & B & C).
  split; [exact (A 0%Z 10%Z eq_refl)|]. split; [exact (B 5%Z eq_refl)|]. split; [exact (C 9%Z eq_refl)|].
  exact (N _ _ eq_refl eq_refl).
Qed.

(* ------------------------------------------------------------------ C04_check_refusal_justified *)
Lemma nv_chain_fails : snd (run_checks nv_hook (p_checks pa) n_a (PInt 7) nv_c) = Some (ESecop RangeError).
Proof. vm_compute. reflexivity. Qed.
Example C04_check_refusal_justified_applies :=
  C04_check_refusal_justified nv_hook (p_checks pa) n_a (PInt 7) nv_c (ESecop RangeError) nv_chain_fails.

(* ------------------------------------------------------------------ C04_change_refused: every branch *)
Section Refused.
Definition rq_badmod : request := {| rq_act := AChange; rq_mod := [113%N]; rq_acc := Some (us n_a); rq_data := PInt 4; rq_drv := DNone |}.
Example C04_change_refused_applies_module :
  handle_change nv_E nv_hook nv_md nv_c rq_badmod = fail nv_c (ESecop NoSuchModule) [] [].
Proof. apply (proj1 (C04_change_refused nv_E nv_hook nv_md nv_c rq_badmod)). vm_compute. discriminate. Qed.
(* the attribute name instead of the wire name; and the wire name of a command *)
Example C04_change_refused_applies_name :
  handle_change nv_E nv_hook nv_md nv_c (chgr n_a (PInt 4) DNone) = fail nv_c (ESecop NoSuchParameter) [] [] /\
  handle_change nv_E nv_hook nv_md nv_c (chgr n_go (PInt 4) DNone) = fail nv_c (ESecop NoSuchParameter) [] [].
Proof.
  split.
  - apply (proj1 (proj2 (C04_change_refused nv_E nv_hook nv_md nv_c (chgr n_a (PInt 4) DNone)))); [reflexivity|].
    intros p. vm_compute. discriminate.
  - apply (proj1 (proj2 (C04_change_refused nv_E nv_hook nv_md nv_c (chgr n_go (PInt 4) DNone)))); [reflexivity|].
    intros p. vm_compute. discriminate.
Qed.
Lemma nv_lookup_r : lookup_export nv_md (ename (chgr (us n_r) (PBool false) DNone)) = Some (AParam pr).
Proof. vm_compute. reflexivity. Qed.
Example C04_change_refused_applies_readonly :
  handle_change nv_E nv_hook nv_md nv_c (chgr (us n_r) (PBool false) DNone) = fail nv_c (ESecop ReadOnly) [] [].
Proof.
  apply (proj1 (proj2 (proj2 (C04_change_refused nv_E nv_hook nv_md nv_c (chgr (us n_r) (PBool false) DNone)))
                 pr eq_refl nv_lookup_r)).
  reflexivity.
Qed.
Lemma nv_lookup_a v d : lookup_export nv_md (ename (chgr (us n_a) v d)) = Some (AParam pa).
Proof. vm_compute. reflexivity. Qed.
Example C04_change_refused_applies_payload :
  handle_change nv_E nv_hook nv_md nv_c (chgr (us n_a) (PStr ka) DNone) = fail nv_c (ESecop WrongType) [] [] /\
  handle_change nv_E nv_hook nv_md nv_c (chgr (us n_a) (PInt 11) DNone) = fail nv_c (ESecop RangeError) [] [].
Proof.
  split.
  - apply (proj1 (proj2 (proj2 (proj2 (C04_change_refused nv_E nv_hook nv_md nv_c (chgr (us n_a) (PStr ka) DNone)))
                   pa eq_refl (nv_lookup_a _ _)) eq_refl) EWrongType).
    vm_compute. reflexivity.
  - apply (proj1 (proj2 (proj2 (proj2 (C04_change_refused nv_E nv_hook nv_md nv_c (chgr (us n_a) (PInt 11) DNone)))
                   pa eq_refl (nv_lookup_a _ _)) eq_refl) ERange).
    vm_compute. reflexivity.
Qed.
Example C04_change_refused_applies_checks :
  handle_change nv_E nv_hook nv_md nv_c (chgr (us n_a) (PInt 7) DNone) = fail nv_c (ESecop RangeError) [] [(0%nat, PInt 7)].
Proof.
  apply (proj2 (proj2 (proj2 (proj2 (proj2 (C04_change_refused nv_E nv_hook nv_md nv_c (chgr (us n_a) (PInt 7) DNone)))
                   pa eq_refl (nv_lookup_a _ _)) eq_refl) (PInt 7) ltac:(vm_compute; reflexivity))
           (PInt 7) [(0%nat, PInt 7)] (ESecop RangeError)); vm_compute; reflexivity.
Qed.
End Refused.

(* ------------------------------------------------------------------ C04_only_exported_found, C04_refusal_class *)
Example C04_only_exported_found_applies := C04_only_exported_found nv_md (us n_a) (AParam pa) (nv_lookup_a PNone DNone).

Example C04_refusal_class_applies :
  (report (of_exc ERange) = WrongType \/ report (of_exc ERange) = RangeError) /\
  (report (of_exc EWrongType) = WrongType \/ report (of_exc EWrongType) = RangeError).
Proof.
  split.
  - apply (C04_refusal_class nv_E (TInt 0 10) (PInt 11) (PInt 1)); vm_compute; reflexivity.
  - (* a struct with a previous value: the guard (cached value is a dict) holds, a mandatory member is missing *)
    apply (C04_refusal_class nv_E d_s (PDict [(kb, PBool true)]) (PDict [(ka, PInt 1)])); vm_compute; reflexivity.
Qed.

(* ------------------------------------------------------------------ error replies leave everything alone *)
Lemma nv_err_reply : o_reply (handle nv_E nv_hook nv_md nv_c (chgr (us n_a) (PInt 7) DNone)) <> None.
Proof. vm_compute. discriminate. Qed.
Example C04_error_clean_except_unexportable_applies :=
  C04_error_clean_except_unexportable nv_E nv_hook nv_md nv_c (chgr (us n_a) (PInt 7) DNone) nv_err_reply.
(* an error AFTER the driver was called *)
Lemma nv_err_reply_drv : o_reply (handle nv_E nv_hook nv_md nv_c (chgr (us n_a) (PInt 3) (DRaise (ESecop HardwareError)))) <> None.
Proof. vm_compute. discriminate. Qed.
Example C04_error_clean_except_unexportable_applies_drv :=
  C04_error_clean_except_unexportable nv_E nv_hook nv_md nv_c _ nv_err_reply_drv.

(* C04_error_clean_exportable: its premise quantifies over ALL values x.  It holds exactly for modules without struct
   types: here the module without the struct parameter. *)
Definition nv_md_flat : mdesc :=
  {| md_name := n_m; md_export := true; md_acc := [AParam pa; AParam pamax; AParam palim; AParam pr; ACmd cgo; ACmd cstop] |}.
Lemma nv_flat_exportable : forall p x, In (AParam p) (md_acc nv_md_flat) -> exportable (p_dt p) x = true.
Proof.
  intros p x [H|[H|[H|[H|[H|[H|[]]]]]]]; try discriminate; injection H as <-; try reflexivity.
  destruct x; try reflexivity; destruct l as [|a [|b r]]; reflexivity.
Qed.
Lemma nv_err_reply_flat : o_reply (handle nv_E nv_hook nv_md_flat nv_c (chgr (us n_a) (PInt 3) (DRaise (ESecop HardwareError)))) <> None.
Proof. vm_compute. discriminate. Qed.
Example C04_error_clean_exportable_applies :=
  C04_error_clean_exportable nv_E nv_hook nv_md_flat nv_c _ nv_flat_exportable nv_err_reply_flat.
(* SCOPE REMARK (not a vacuity): for a module with a struct-typed parameter the premise is false -- a dict with an
   unknown key is not exportable -- so for such modules only C04_error_clean_except_unexportable applies. *)
Example C04_error_clean_exportable_premise_excludes_structs :
  ~ (forall p x, In (AParam p) (md_acc nv_md) -> exportable (p_dt p) x = true).
Proof.
  intros H. specialize (H ps (PDict [(n_a, PNone)]) (or_intror (or_intror (or_intror (or_introl eq_refl))))).
  vm_compute in H. discriminate.
Qed.

(* the same for EVERY module that declares a parameter of struct type (members, optional list, client flag arbitrary):
   a dict with one key longer than every member name is not exportable *)
Definition fresh_key (ms : list (str * dtype)) : str :=
  repeat 0%N (S (fold_right (fun m acc => Nat.max (length (fst m)) acc) 0 ms)).
Lemma fresh_key_longer ms m : In m ms -> length (fst m) < length (fresh_key ms).
Proof.
  unfold fresh_key. rewrite repeat_length. induction ms as [|x r IH]; cbn; [contradiction|].
  intros [->|H]; [lia|]. specialize (IH H). lia.
Qed.
Lemma struct_value_not_exportable ms opt cl : exportable (TStruct ms opt cl) (PDict [(fresh_key ms, PNone)]) = false.
Proof.
  cbn [exportable forallb snd fst]. apply andb_false_intro2. rewrite andb_true_r.
  pose proof (fresh_key_longer ms) as L. generalize dependent (fresh_key ms). intros k L.
  induction ms as [|[n d1] r IH]; [reflexivity|].
  destruct (str_eqb k n) eqn:Hk.
  - apply str_eqb_eq in Hk. subst n. specialize (L (k, d1) (or_introl eq_refl)). cbn in L. lia.
  - apply IH. intros m Hm. apply L. right. exact Hm.
Qed.
Theorem C04_error_clean_exportable_premise_false_for_struct_params md p ms opt cl :
  In (AParam p) (md_acc md) -> p_dt p = TStruct ms opt cl ->
  ~ (forall p x, In (AParam p) (md_acc md) -> exportable (p_dt p) x = true).
Proof.
  intros I D H. specialize (H p (PDict [(fresh_key ms, PNone)]) I). rewrite D, struct_value_not_exportable in H. discriminate.
Qed.

(* ------------------------------------------------------------------ C04_success_announced *)
Lemma nv_ww_ok : o_reply (write_wrapper nv_hook pa (PInt 4) nv_c DNone) = None.
Proof. vm_compute. reflexivity. Qed.
Example C04_success_announced_applies := C04_success_announced nv_hook pa (PInt 4) nv_c DNone nv_ww_ok.
Lemma nv_ww_ok_readback : o_reply (write_wrapper nv_hook ps (PDict [(ka, PInt 2)]) nv_c (DVal (PDict [(ka, PInt 3); (kb, PBool false)]))) = None.
Proof. vm_compute. reflexivity. Qed.
Example C04_success_announced_applies_readback := C04_success_announced nv_hook ps _ nv_c _ nv_ww_ok_readback.

(* ------------------------------------------------------------------ commands *)
Lemma nv_do_prem : o_drv (handle_do nv_E nv_md nv_c (dor (Some n_go) (PInt 3) DNone)) <> [].
Proof. vm_compute. discriminate. Qed.
Example C04_do_safe_applies := C04_do_safe nv_E nv_md nv_c (dor (Some n_go) (PInt 3) DNone) (or_introl nv_do_prem).
Lemma nv_do_prem0 : o_reply (handle_do nv_E nv_md nv_c (dor (Some n_stop) PNone (DVal (PBool true)))) = None.
Proof. vm_compute. reflexivity. Qed.
Example C04_do_safe_applies_noarg := C04_do_safe nv_E nv_md nv_c _ (or_intror nv_do_prem0).

Example C04_do_refused_applies_nocolon :
  handle_do nv_E nv_md nv_c (dor None PNone DNone) = fail nv_c (ESecop ProtocolError) [] [].
Proof. apply (proj1 (C04_do_refused nv_E nv_md nv_c (dor None PNone DNone))). reflexivity. Qed.
Example C04_do_refused_applies_module :
  handle_do nv_E nv_md nv_c {| rq_act := ADo; rq_mod := [113%N]; rq_acc := Some n_go; rq_data := PInt 3; rq_drv := DNone |}
  = fail nv_c (ESecop NoSuchModule) [] [].
Proof.
  apply (proj1 (proj2 (C04_do_refused nv_E nv_md nv_c
           {| rq_act := ADo; rq_mod := [113%N]; rq_acc := Some n_go; rq_data := PInt 3; rq_drv := DNone |}) n_go eq_refl)).
  vm_compute. discriminate.
Qed.
(* do on the wire name of a parameter *)
Example C04_do_refused_applies_name :
  handle_do nv_E nv_md nv_c (dor (Some (us n_a)) (PInt 3) DNone) = fail nv_c (ESecop NoSuchCommand) [] [].
Proof.
  apply (proj1 (proj2 (proj2 (C04_do_refused nv_E nv_md nv_c (dor (Some (us n_a)) (PInt 3) DNone)) (us n_a) eq_refl)));
    [reflexivity|]. intros cm. vm_compute. discriminate.
Qed.
Lemma nv_lookup_go : lookup_export nv_md n_go = Some (ACmd cgo).
Proof. vm_compute. reflexivity. Qed.
(* argument out of range: no w with arg_ok, the guard holds, hence RangeError/WrongType and nothing touched *)
Lemma nv_arg_bad : forall w, ~ arg_ok nv_E cgo (PInt 9) w.
Proof.
  intros w (_ & a & Hi & Hv). vm_compute in Hi. injection Hi as <-. vm_compute in Hv. discriminate.
Qed.
Example C04_do_refused_applies_argument :
  untouched nv_c (handle_do nv_E nv_md nv_c (dor (Some n_go) (PInt 9) DNone)) /\
  exists cl, o_reply (handle_do nv_E nv_md nv_c (dor (Some n_go) (PInt 9) DNone)) = Some cl /\ (cl = WrongType \/ cl = RangeError).
Proof.
  destruct (proj2 (proj2 (proj2 (C04_do_refused nv_E nv_md nv_c (dor (Some n_go) (PInt 9) DNone)) n_go eq_refl))
              cgo eq_refl nv_lookup_go nv_arg_bad) as (U & cl & Hc & G).
  split; [exact U|]. exists cl. split; [exact Hc|]. apply G. vm_compute. reflexivity.
Qed.
(* argument missing *)
Lemma nv_arg_missing : forall w, ~ arg_ok nv_E cgo PNone w.
Proof. intros w (H & _). apply H. reflexivity. Qed.
Example C04_do_refused_applies_noargument :=
  proj2 (proj2 (proj2 (C04_do_refused nv_E nv_md nv_c (dor (Some n_go) PNone DNone)) n_go eq_refl))
    cgo eq_refl nv_lookup_go nv_arg_missing.

(* ------------------------------------------------------------------ histories *)
Lemma nv_wf_md : wf_md nv_md.
Proof.
  split.
  - intros p [H|[H|[H|[H|[H|[H|[H|[]]]]]]]]; try discriminate; injection H as <-; vm_compute; auto.
  - intros cm ad [H|[H|[H|[H|[H|[H|[H|[]]]]]]]]; try discriminate; injection H as <-; intros G; try discriminate;
      injection G as <-; exact I.
Qed.
Lemma nv_names_unique : names_unique nv_md.
Proof.
  intros p q Hp Hq.
  destruct Hp as [H|[H|[H|[H|[H|[H|[H|[]]]]]]]]; try discriminate; injection H as <-;
  destruct Hq as [G|[G|[G|[G|[G|[G|[G|[]]]]]]]]; try discriminate; injection G as <-;
  intros N; try reflexivity; vm_compute in N; discriminate.
Qed.
Lemma nv_cache_ok : cache_ok nv_md nv_c.
Proof.
  intros p [H|[H|[H|[H|[H|[H|[H|[]]]]]]]]; try discriminate; injection H as <-; eexists; split; vm_compute; reflexivity.
Qed.
Example C04_history_invariant_applies : cache_ok nv_md (final nv_E nv_hook nv_md nv_c hist).
Proof. exact (C04_history_invariant nv_E nv_hook nv_md nv_wf_md nv_names_unique hist nv_c nv_cache_ok). Qed.
(* the final cache is not the initial one: four parameters were rewritten *)
Example nv_final_differs :
  final nv_E nv_hook nv_md nv_c hist =
  [(n_a, PInt 4); (n_amax, PInt 3); (n_alim, PTuple [PInt 3; PInt 9]); (n_s, PDict [(ka, PInt 3)]); (n_r, PBool true)].
Proof. vm_compute. reflexivity. Qed.

Definition out_at (i : nat) : out := nth i (run nv_E nv_hook nv_md nv_c hist) (fail [] EPy [] []).
Lemma out_at_in i : i < 16 -> In (out_at i) (run nv_E nv_hook nv_md nv_c hist).
Proof. intros H. apply nth_In. change (i < 16). exact H. Qed.
(* request 14 of the history: write_a(3), after which the driver raises *)
Example C04_history_write_values_applies :=
  C04_history_write_values nv_E nv_hook nv_md nv_wf_md nv_names_unique hist nv_c nv_cache_ok
    (out_at 14) n_a (PInt 3) (out_at_in 14 ltac:(lia)) ltac:(vm_compute; left; reflexivity).
(* request 5: the struct value *)
Example C04_history_write_values_applies_struct :=
  C04_history_write_values nv_E nv_hook nv_md nv_wf_md nv_names_unique hist nv_c nv_cache_ok
    (out_at 5) n_s (PDict [(ka, PInt 2); (kb, PBool true)]) (out_at_in 5 ltac:(lia)) ltac:(vm_compute; left; reflexivity).
Example C04_history_call_values_applies :=
  C04_history_call_values nv_E nv_hook nv_md nv_wf_md nv_names_unique hist nv_c nv_cache_ok
    (out_at 9) n_go (PInt 3) (out_at_in 9 ltac:(lia)) ltac:(vm_compute; left; reflexivity).
Example C04_history_call_values_applies_noarg :=
  C04_history_call_values nv_E nv_hook nv_md nv_wf_md nv_names_unique hist nv_c nv_cache_ok
    (out_at 12) n_stop (PTuple []) (out_at_in 12 ltac:(lia)) ltac:(vm_compute; left; reflexivity).

(* the datatype side of wf_md / cache_ok is not restricted to integers: a module with a double, a scaled and an
   array-of-struct parameter, every value of the cache inside its value set (boolean computations only) *)
Definition d_f : dtype := TFloat fzero (of_Z 10) fzero (fmk 1 (-20)).
Definition d_sc : dtype := TScaled (fmk 1 (-1)) fzero (of_Z 10).
Definition d_arr : dtype := TArray d_s 0 3.
Definition mkp (n : str) (d : dtype) : param :=
  {| p_name := n; p_export := Some (us n); p_dt := d; p_readonly := false; p_constant := false; p_haswrite := true; p_checks := [] |}.
Definition nv_md_f : mdesc :=
  {| md_name := n_m; md_export := true; md_acc := [AParam (mkp n_f d_f); AParam (mkp n_s d_sc); AParam (mkp n_r d_arr)] |}.
Definition nv_c_f : cache :=
  [(n_f, PFloat (of_Z 3)); (n_s, PFloat (fmk 5 (-1))); (n_r, PTuple [PDict [(ka, PInt 1)]; PDict [(ka, PInt 2); (kb, PBool true)]])].
Lemma nv_wf_md_f : wf_md nv_md_f.
Proof.
  split.
  - intros p [H|[H|[H|[]]]]; injection H as <-; vm_compute; auto.
  - intros cm ad [H|[H|[H|[]]]]; discriminate.
Qed.
Lemma nv_names_unique_f : names_unique nv_md_f.
Proof.
  intros p q [H|[H|[H|[]]]] [G|[G|[G|[]]]]; injection H as <-; injection G as <-; intros N; try reflexivity;
    vm_compute in N; discriminate.
Qed.
Lemma nv_cache_ok_f : cache_ok nv_md_f nv_c_f.
Proof.
  intros p [H|[H|[H|[]]]]; injection H as <-.
  - exists (PFloat (of_Z 3)). split; [reflexivity|vm_compute; reflexivity].
  - exists (PFloat (fmk 5 (-1))). split; [reflexivity|vm_compute; reflexivity].
  - eexists. split; [reflexivity|vm_compute; reflexivity].
Qed.
Definition hist_f : list request :=
  [chgr (us n_f) (PInt 7) DNone; chgr (us n_s) (PFloat (fmk 3 0)) DNone; chgr (us n_f) (PInt 70) DNone;
   chgr (us n_r) (PList [PDict [(ka, PInt 5)]]) DNone].
Example nv_hist_f_outcomes :
  map o_reply (run nv_E nv_hook nv_md_f nv_c_f hist_f) = [None; None; Some RangeError; None].
Proof. vm_compute. reflexivity. Qed.
Example C04_history_invariant_applies_floats : cache_ok nv_md_f (final nv_E nv_hook nv_md_f nv_c_f hist_f).
Proof. exact (C04_history_invariant nv_E nv_hook nv_md_f nv_wf_md_f nv_names_unique_f hist_f nv_c_f nv_cache_ok_f). Qed.

(* ------------------------------------------------------------------ a case built by the harness itself *)
(* harness/props/C04.py, rand_case (random.Random(2024), first suitable draw), run on the implementation and encoded by
   encode_seq: scaled parameter a (hooks on two MRO levels, limit a_min), double c (limit c_limits), struct d, command k
   with a tuple argument; 9 requests; initial cache = the snapshot of all parameter values after module creation.  The
   premises of the history theorems hold for it, and check_case accepts it. *)
Definition hc : case :=
  {| c_env := {| int_of := []; b64_of := [] |}; c_md := {| md_name := [109%N]; md_export := true; md_acc := [(AParam
  {| p_name := [97%N]; p_export := (Some [95%N; 97%N]); p_dt := (TScaled (fmk (1)%Z (-1)%Z) fzero (fmk (5)%Z (1)%Z));
  p_readonly := false; p_constant := false; p_haswrite := true; p_checks := [(CkUser 1%nat); (CkUser 0%nat)] |});
  (AParam {| p_name := [99%N]; p_export := (Some [120%N; 49%N]); p_dt := (TFloat fzero (fmk (5)%Z (1)%Z) fzero (fmk
  (4533471823554859)%Z (-75)%Z)); p_readonly := false; p_constant := false; p_haswrite := false; p_checks := [CkAuto]
  |}); (AParam {| p_name := [100%N]; p_export := (Some [95%N; 100%N]); p_dt := (TStruct [([98%N], (TString (0)%Z
  (0)%Z false))] [] false); p_readonly := false; p_constant := false; p_haswrite := true; p_checks := [] |}); (AParam
  {| p_name := [97%N; 95%N; 109%N; 105%N; 110%N]; p_export := (Some [95%N; 97%N; 95%N; 109%N; 105%N; 110%N]); p_dt :=
  (TScaled (fmk (1)%Z (-1)%Z) fzero (fmk (5)%Z (1)%Z)); p_readonly := false; p_constant := false; p_haswrite :=
  false; p_checks := [] |}); (AParam {| p_name := [99%N; 95%N; 108%N; 105%N; 109%N; 105%N; 116%N; 115%N]; p_export :=
  (Some [95%N; 99%N; 95%N; 108%N; 105%N; 109%N; 105%N; 116%N; 115%N]); p_dt := (TTuple [(TFloat fzero (fmk (5)%Z
  (1)%Z) fzero (fmk (4533471823554859)%Z (-75)%Z)); (TFloat fzero (fmk (5)%Z (1)%Z) fzero (fmk (4533471823554859)%Z
  (-75)%Z))]); p_readonly := false; p_constant := false; p_haswrite := false; p_checks := [] |}); (ACmd {| c_name :=
  [107%N]; c_export := (Some [120%N; 50%N]); c_arg := (Some (TTuple [(TString (0)%Z (2)%Z false); TBool])); c_res :=
  None |})] |}; c_hooks := [(0%nat, (HcAlways, HaPy)); (1%nat, (HcAlways, HaRange))]; c_init := [([97%N], (PFloat
  (fmk (5)%Z (1)%Z))); ([97%N; 95%N; 109%N; 105%N; 110%N], (PFloat (fmk (3)%Z (-1)%Z))); ([99%N], (PFloat (fmk (7)%Z
  (-1)%Z))); ([99%N; 95%N; 108%N; 105%N; 109%N; 105%N; 116%N; 115%N], (PTuple [(PFloat (fmk (7)%Z (0)%Z)); (PFloat
  (fmk (9)%Z (0)%Z))])); ([100%N], (PDict [([98%N], (PStr []))]))]; c_reqs := [{| rq_act := AChange; rq_mod :=
  [109%N]; rq_acc := (Some [95%N; 100%N]); rq_data := (PList [(PList [])]); rq_drv := DNone |}; {| rq_act := AChange;
  rq_mod := [109%N]; rq_acc := (Some [95%N; 99%N; 95%N; 108%N; 105%N; 109%N; 105%N; 116%N; 115%N]); rq_data := (PList
  [(PFloat (fmk (944473296573929)%Z (-73)%Z)); (PFloat fzero)]); rq_drv := DNone |}; {| rq_act := AChange; rq_mod :=
  [109%N]; rq_acc := (Some [95%N; 99%N; 95%N; 108%N; 105%N; 109%N; 105%N; 116%N; 115%N]); rq_data := (PList [(PFloat
  fzero); (PFloat (fmk (5)%Z (-1)%Z))]); rq_drv := (DVal (PTuple [(PInt (3)%Z); (PFloat (fmk (21)%Z (-1)%Z))])) |};
  {| rq_act := AChange; rq_mod := [109%N]; rq_acc := (Some [95%N; 97%N]); rq_data := (PInt (-1)%Z); rq_drv := DDone
  |}; {| rq_act := ADo; rq_mod := [109%N]; rq_acc := None; rq_data := PNone; rq_drv := DNone |}; {| rq_act := ADo;
  rq_mod := [109%N]; rq_acc := (Some [120%N; 50%N]); rq_data := (PList [(PStr [90%N]); (PBool true)]); rq_drv :=
  DNone |}; {| rq_act := AChange; rq_mod := [109%N]; rq_acc := None; rq_data := (PDict []); rq_drv := (DRaise (ESecop
  HardwareError)) |}; {| rq_act := ADo; rq_mod := [109%N]; rq_acc := (Some [120%N; 50%N]); rq_data := (PList [(PStr
  [90%N]); (PInt (1)%Z)]); rq_drv := DNone |}; {| rq_act := AChange; rq_mod := [109%N]; rq_acc := (Some [97%N; 58%N;
  98%N]); rq_data := (PList [(PFloat (fmk (6004799503160661)%Z (-54)%Z)); (PFloat (fmk (7)%Z (-1)%Z))]); rq_drv :=
  (DVal (PTuple [(PFloat (fmk (5)%Z (1)%Z)); (PFloat (fmk (1)%Z (-1074)%Z))])) |}]; c_obs := [{| ob_reply := (Some
  WrongType); ob_drv := []; ob_hooks := []; ob_upd := []; ob_cache := [([97%N], (PFloat (fmk (5)%Z (1)%Z))); ([97%N;
  95%N; 109%N; 105%N; 110%N], (PFloat (fmk (3)%Z (-1)%Z))); ([99%N], (PFloat (fmk (7)%Z (-1)%Z))); ([99%N; 95%N;
  108%N; 105%N; 109%N; 105%N; 116%N; 115%N], (PTuple [(PFloat (fmk (7)%Z (0)%Z)); (PFloat (fmk (9)%Z (0)%Z))]));
  ([100%N], (PDict [([98%N], (PStr []))]))] |}; {| ob_reply := None; ob_drv := []; ob_hooks := []; ob_upd := [([99%N;
  95%N; 108%N; 105%N; 109%N; 105%N; 116%N; 115%N], (PTuple [(PFloat (fmk (944473296573929)%Z (-73)%Z)); (PFloat
  fzero)]))]; ob_cache := [([97%N], (PFloat (fmk (5)%Z (1)%Z))); ([97%N; 95%N; 109%N; 105%N; 110%N], (PFloat (fmk
  (3)%Z (-1)%Z))); ([99%N], (PFloat (fmk (7)%Z (-1)%Z))); ([99%N; 95%N; 108%N; 105%N; 109%N; 105%N; 116%N; 115%N],
  (PTuple [(PFloat (fmk (944473296573929)%Z (-73)%Z)); (PFloat fzero)])); ([100%N], (PDict [([98%N], (PStr []))]))]
  |}; {| ob_reply := None; ob_drv := []; ob_hooks := []; ob_upd := [([99%N; 95%N; 108%N; 105%N; 109%N; 105%N; 116%N;
  115%N], (PTuple [(PFloat fzero); (PFloat (fmk (5)%Z (-1)%Z))]))]; ob_cache := [([97%N], (PFloat (fmk (5)%Z
  (1)%Z))); ([97%N; 95%N; 109%N; 105%N; 110%N], (PFloat (fmk (3)%Z (-1)%Z))); ([99%N], (PFloat (fmk (7)%Z (-1)%Z)));
  ([99%N; 95%N; 108%N; 105%N; 109%N; 105%N; 116%N; 115%N], (PTuple [(PFloat fzero); (PFloat (fmk (5)%Z (-1)%Z))]));
  ([100%N], (PDict [([98%N], (PStr []))]))] |}; {| ob_reply := (Some RangeError); ob_drv := []; ob_hooks := [];
  ob_upd := []; ob_cache := [([97%N], (PFloat (fmk (5)%Z (1)%Z))); ([97%N; 95%N; 109%N; 105%N; 110%N], (PFloat (fmk
  (3)%Z (-1)%Z))); ([99%N], (PFloat (fmk (7)%Z (-1)%Z))); ([99%N; 95%N; 108%N; 105%N; 109%N; 105%N; 116%N; 115%N],
  (PTuple [(PFloat fzero); (PFloat (fmk (5)%Z (-1)%Z))])); ([100%N], (PDict [([98%N], (PStr []))]))] |}; {| ob_reply
  := (Some ProtocolError); ob_drv := []; ob_hooks := []; ob_upd := []; ob_cache := [([97%N], (PFloat (fmk (5)%Z
  (1)%Z))); ([97%N; 95%N; 109%N; 105%N; 110%N], (PFloat (fmk (3)%Z (-1)%Z))); ([99%N], (PFloat (fmk (7)%Z (-1)%Z)));
  ([99%N; 95%N; 108%N; 105%N; 109%N; 105%N; 116%N; 115%N], (PTuple [(PFloat fzero); (PFloat (fmk (5)%Z (-1)%Z))]));
  ([100%N], (PDict [([98%N], (PStr []))]))] |}; {| ob_reply := None; ob_drv := [(Call [107%N] (PTuple [(PStr [90%N]);
  (PBool true)]))]; ob_hooks := []; ob_upd := []; ob_cache := [([97%N], (PFloat (fmk (5)%Z (1)%Z))); ([97%N; 95%N;
  109%N; 105%N; 110%N], (PFloat (fmk (3)%Z (-1)%Z))); ([99%N], (PFloat (fmk (7)%Z (-1)%Z))); ([99%N; 95%N; 108%N;
  105%N; 109%N; 105%N; 116%N; 115%N], (PTuple [(PFloat fzero); (PFloat (fmk (5)%Z (-1)%Z))])); ([100%N], (PDict
  [([98%N], (PStr []))]))] |}; {| ob_reply := (Some NoSuchParameter); ob_drv := []; ob_hooks := []; ob_upd := [];
  ob_cache := [([97%N], (PFloat (fmk (5)%Z (1)%Z))); ([97%N; 95%N; 109%N; 105%N; 110%N], (PFloat (fmk (3)%Z
  (-1)%Z))); ([99%N], (PFloat (fmk (7)%Z (-1)%Z))); ([99%N; 95%N; 108%N; 105%N; 109%N; 105%N; 116%N; 115%N], (PTuple
  [(PFloat fzero); (PFloat (fmk (5)%Z (-1)%Z))])); ([100%N], (PDict [([98%N], (PStr []))]))] |}; {| ob_reply := None;
  ob_drv := [(Call [107%N] (PTuple [(PStr [90%N]); (PBool true)]))]; ob_hooks := []; ob_upd := []; ob_cache :=
  [([97%N], (PFloat (fmk (5)%Z (1)%Z))); ([97%N; 95%N; 109%N; 105%N; 110%N], (PFloat (fmk (3)%Z (-1)%Z))); ([99%N],
  (PFloat (fmk (7)%Z (-1)%Z))); ([99%N; 95%N; 108%N; 105%N; 109%N; 105%N; 116%N; 115%N], (PTuple [(PFloat fzero);
  (PFloat (fmk (5)%Z (-1)%Z))])); ([100%N], (PDict [([98%N], (PStr []))]))] |}; {| ob_reply := (Some
  NoSuchParameter); ob_drv := []; ob_hooks := []; ob_upd := []; ob_cache := [([97%N], (PFloat (fmk (5)%Z (1)%Z)));
  ([97%N; 95%N; 109%N; 105%N; 110%N], (PFloat (fmk (3)%Z (-1)%Z))); ([99%N], (PFloat (fmk (7)%Z (-1)%Z))); ([99%N;
  95%N; 108%N; 105%N; 109%N; 105%N; 116%N; 115%N], (PTuple [(PFloat fzero); (PFloat (fmk (5)%Z (-1)%Z))])); ([100%N],
  (PDict [([98%N], (PStr []))]))] |}] |}.
Example hc_checks : check_case hc = true.
Proof. vm_compute. reflexivity. Qed.
Ltac acc_cases :=
  repeat match goal with
  | H : _ \/ _ |- _ => destruct H as [H|H]
  | H : False |- _ => destruct H
  | H : AParam _ = AParam _ |- _ => injection H as <-
  | H : ACmd _ = ACmd _ |- _ => injection H as <-
  | H : ACmd _ = AParam _ |- _ => discriminate H
  | H : AParam _ = ACmd _ |- _ => discriminate H
  end.
Lemma hc_wf : wf_md (c_md hc).
Proof.
  split.
  - intros p H. unfold hc in H. cbn [c_md md_acc In] in H. acc_cases; vm_compute; auto.
  - intros cm ad H. unfold hc in H. cbn [c_md md_acc In] in H. acc_cases. intros G. injection G as <-. vm_compute. auto.
Qed.
Lemma hc_unique : names_unique (c_md hc).
Proof.
  intros p q Hp Hq. unfold hc in Hp, Hq. cbn [c_md md_acc In] in Hp, Hq. acc_cases; intros N; try reflexivity;
    vm_compute in N; discriminate.
Qed.
Lemma hc_cache_ok : cache_ok (c_md hc) (c_init hc).
Proof.
  intros p H. unfold hc in H. cbn [c_md md_acc In] in H. acc_cases; (eexists; split; [reflexivity|vm_compute; reflexivity]).
Qed.
Example C04_history_invariant_applies_harness_case :
  cache_ok (c_md hc) (final (c_env hc) (hook_of (c_hooks hc)) (c_md hc) (c_init hc) (c_reqs hc)).
Proof. exact (C04_history_invariant _ _ _ hc_wf hc_unique _ _ hc_cache_ok). Qed.
Example hc_size : (length (md_acc (c_md hc)), length (c_reqs hc), length (c_init hc)) = (6, 9, 5).
Proof. vm_compute. reflexivity. Qed.

(* ------------------------------------------------------------------ concurrent layer *)
(* thread 0: connection thread "change m:_a 4"; thread 1: internal thread write_a_max(4); write_a(3);
   thread 2: connection thread "change m:_a 9" (refused by hook 0 once a_max = 4) *)
Definition progs : list (list top) :=
  [[TReq (chgr (us n_a) (PInt 4) DNone)];
   [TWrite pamax (PInt 4) DNone; TWrite pa (PInt 3) DNone];
   [TReq (chgr (us n_a) (PInt 9) DNone)]].
(* threads 2 and 1 are chosen while thread 0 holds the accessLock (positions 4 and 5): skipped *)
Definition sched : list nat := [1; 0; 2; 0; 2; 1; 0; 0; 0; 2; 2; 1; 1; 1; 1]%nat.
Definition c_mid : cache := setp nv_c n_amax (PInt 4).                  (* after write_a_max(4) *)
Definition c_late : cache := setp c_mid n_a (PInt 4).                   (* after write_a(4) *)
Example nv_conc_labels :
  snd (crun nv_E nv_hook true nv_md (cinit nv_c progs) sched) =
  [LAcq; LUpd n_amax (PInt 4); LEnd None; LReq; LReq;
   LAcq; LHook 0 (PInt 4); LAuto (PInt 4); LDrv pa (PInt 4) (PInt 4) c_mid; LUpd n_a (PInt 4); LEnd None;
   LAcq; LHook 0 (PInt 9); LEnd (Some RangeError);
   LAcq; LHook 0 (PInt 3); LAuto (PInt 3); LDrv pa (PInt 3) (PInt 3) c_late; LUpd n_a (PInt 3); LEnd None].
Proof. vm_compute. reflexivity. Qed.

Lemma nv_drv_label : In (LDrv pa (PInt 4) (PInt 4) c_mid) (snd (crun nv_E nv_hook true nv_md (cinit nv_c progs) sched)).
Proof. rewrite nv_conc_labels. cbn. tauto. Qed.
Lemma nv_no_stop_mid : forall i, In (CkUser i) (p_checks pa) -> nv_hook i (PInt 4) c_mid <> HStop.
Proof. intros i [H|[H|[]]]; inversion H; subst; vm_compute; discriminate. Qed.
(* the limit that counts is the one of the moment of the driver call (a_max = 4, moved by thread 1), not the initial 6 *)
Example C04_limits_current_at_driver_call_applies :
  dt_validate (p_dt pa) (PInt 4) PNone = Ok (PInt 4) /\ checks_pass nv_hook pa (PInt 4) c_mid /\ (2 <= 4 <= 8)%Z /\ (4 <= 4)%Z.
Proof.
  destruct (C04_limits_current_at_driver_call nv_E nv_hook nv_md nv_c progs sched pa (PInt 4) (PInt 4) c_mid nv_drv_label)
    as (V & P & L).
  destruct (L nv_no_stop_mid (or_intror (or_introl eq_refl))) as [LR _].
  destruct (C04_limits_respected_int n_a 4%Z c_mid LR) as (A & _ & C).
  split; [exact V|]. split; [exact P|]. split; [exact (A 2%Z 8%Z eq_refl)|exact (C 4%Z eq_refl)].
Qed.

(* the state in which thread 0 is about to call the driver; threads 1 and 2 have been refused the lock *)
Definition sched_mid : list nat := [1; 0; 2; 0; 2; 1; 0; 0]%nat.
Definition st_mid : cstate := fst (crun nv_E nv_hook true nv_md (cinit nv_c progs) sched_mid).
Definition th_dummy : thread := {| t_pc := PIdle; t_todo := [] |}.
Lemma nv_th0 : nth_error (cs_threads st_mid) 0 = Some (nth 0 (cs_threads st_mid) th_dummy).
Proof. vm_compute. reflexivity. Qed.
Lemma nv_th0_in : in_wrapper (t_pc (nth 0 (cs_threads st_mid) th_dummy)) = true.
Proof. vm_compute. reflexivity. Qed.
Example C04_wrapper_exclusive_applies : cs_owner st_mid = Some 0%nat.
Proof.
  exact (proj2 (C04_wrapper_exclusive nv_E nv_hook nv_md nv_c progs sched_mid 0%nat 0%nat _ _ nv_th0 nv_th0 nv_th0_in nv_th0_in)).
Qed.
(* and the other two threads are outside although both have been scheduled meanwhile *)
Example nv_others_outside :
  map (fun th => in_wrapper (t_pc th)) (cs_threads st_mid) = [true; false; false] /\
  map (fun th => length (t_todo th)) (cs_threads st_mid) = [0; 1; 0]%nat.
Proof. vm_compute. split; reflexivity. Qed.

(* the next step of thread 0 (driver call + store) changes the cache: it is the owner *)
Definition step_mid := cstep nv_E nv_hook true nv_md st_mid 0.
Definition st_next : cstate := match step_mid with Some (s, _) => s | None => st_mid end.
Definition l_next : list label := match step_mid with Some (_, l) => l | None => [] end.
Lemma nv_step_mid : cstep nv_E nv_hook true nv_md st_mid 0 = Some (st_next, l_next).
Proof. vm_compute. reflexivity. Qed.
Lemma nv_step_changes : cs_cache st_next <> cs_cache st_mid.
Proof. vm_compute. discriminate. Qed.
Example C04_cache_changed_by_lock_owner_only_applies : cs_owner st_mid = None \/ cs_owner st_mid = Some 0%nat.
Proof.
  exact (C04_cache_changed_by_lock_owner_only nv_E nv_hook nv_md nv_c progs sched_mid 0%nat st_next l_next nv_step_mid nv_step_changes).
Qed.
(* the other disjunct: write_a_max (no write method) takes the free lock, stores and releases within one step *)
Definition step_first := cstep nv_E nv_hook true nv_md (fst (crun nv_E nv_hook true nv_md (cinit nv_c progs) [])) 1.
Lemma nv_step_first :
  cstep nv_E nv_hook true nv_md (fst (crun nv_E nv_hook true nv_md (cinit nv_c progs) [])) 1 =
  Some (match step_first with Some (s, _) => s | None => cinit nv_c progs end,
        match step_first with Some (_, l) => l | None => [] end).
Proof. vm_compute. reflexivity. Qed.
Example C04_cache_changed_by_lock_owner_only_applies_free :=
  C04_cache_changed_by_lock_owner_only nv_E nv_hook nv_md nv_c progs [] 1%nat _ _ nv_step_first
    ltac:(vm_compute; discriminate).

(* the strict run: the same schedule without the two refused choices *)
Definition sched_strict : list nat := [1; 0; 2; 0; 0; 0; 0; 2; 2; 1; 1; 1; 1]%nat.
Lemma nv_follow : exists fin ls, cfollow nv_E nv_hook true nv_md (cinit nv_c progs) sched_strict = Some (fin, ls).
Proof. eexists. eexists. vm_compute. reflexivity. Qed.
Example C04_followed_run_is_a_run_applies :
  exists fin ls, crun nv_E nv_hook true nv_md (cinit nv_c progs) sched_strict = (fin, ls) /\ length ls = 20.
Proof.
  destruct nv_follow as (fin & ls & H). exists fin, ls. split.
  - exact (C04_followed_run_is_a_run nv_E nv_hook true nv_md _ _ fin ls H).
  - vm_compute in H. injection H as _ <-. reflexivity.
Qed.
(* the skipping schedule `sched` is NOT followed strictly (two choices are not enabled): cfollow is a real restriction *)
Example nv_sched_not_strict : cfollow nv_E nv_hook true nv_md (cinit nv_c progs) sched = None.
Proof. vm_compute. reflexivity. Qed.

(* solo: in the state after [1; 0; 2] (thread 0 and 2 have passed the dispatcher and wait in front of the wrapper, the
   lock is free) thread 1 runs write_a(3) alone *)
Definition st_solo : cstate := fst (crun nv_E nv_hook true nv_md (cinit nv_c progs) [1; 0; 2]%nat).
Lemma nv_solo_thread : nth_error (cs_threads st_solo) 1 = Some {| t_pc := PIdle; t_todo := TWrite pa (PInt 3) DNone :: [] |}.
Proof. vm_compute. reflexivity. Qed.
Lemma nv_solo_free : cs_owner st_solo = None.
Proof. vm_compute. reflexivity. Qed.
Example C04_single_thread_is_sequential_wrapper_applies :=
  C04_single_thread_is_sequential_wrapper nv_E nv_hook nv_md st_solo 1%nat pa (PInt 3) DNone [] nv_solo_thread nv_solo_free.
Example nv_solo_other_threads_waiting :
  map (fun th => match t_pc th with PWait _ => true | _ => false end) (cs_threads st_solo) = [true; false; true].
Proof. vm_compute. reflexivity. Qed.

(* ------------------------------------------------------------------ a concurrent case built by the harness itself *)
(* corpus/C04/conc_limit_moved_during_request.json, case 12, run on the implementation under harness/dsched.py and encoded
   by enc_conc: connection thread "change m:_a 5" against an internal thread write_a_limits((6, 9)); the schedule is the
   one the correspondence derives from the observed events (sched_of).  check_conc accepts it; the premise of
   C04_limits_current_at_driver_call holds for its run. *)
Definition hcc : ccase :=
  {| cc_env := {| int_of := []; b64_of := [] |}; cc_md := {| md_name := [109%N]; md_export := true; md_acc :=
  [(AParam {| p_name := [97%N]; p_export := (Some [95%N; 97%N]); p_dt := (TInt (0)%Z (10)%Z); p_readonly := false;
  p_constant := false; p_haswrite := true; p_checks := [CkAuto] |}); (AParam {| p_name := [98%N]; p_export := (Some
  [95%N; 98%N]); p_dt := (TInt (0)%Z (10)%Z); p_readonly := false; p_constant := false; p_haswrite := false; p_checks
  := [] |}); (AParam {| p_name := [97%N; 95%N; 108%N; 105%N; 109%N; 105%N; 116%N; 115%N]; p_export := (Some [95%N;
  97%N; 95%N; 108%N; 105%N; 109%N; 105%N; 116%N; 115%N]); p_dt := (TTuple [(TInt (0)%Z (10)%Z); (TInt (0)%Z
  (10)%Z)]); p_readonly := false; p_constant := false; p_haswrite := false; p_checks := [] |})] |}; cc_hooks := [];
  cc_init := [([97%N], (PInt (1)%Z)); ([97%N; 95%N; 108%N; 105%N; 109%N; 105%N; 116%N; 115%N], (PTuple [(PInt (0)%Z);
  (PInt (10)%Z)])); ([98%N], (PInt (7)%Z))]; cc_progs := [[(CReq {| rq_act := AChange; rq_mod := [109%N]; rq_acc :=
  (Some [95%N; 97%N]); rq_data := (PInt (5)%Z); rq_drv := DNone |})]; [(CWrite [97%N; 95%N; 108%N; 105%N; 109%N;
  105%N; 116%N; 115%N] (PTuple [(PInt (6)%Z); (PInt (9)%Z)]) DNone)]]; cc_events := [(0%nat, OReq); (0%nat, OAcq);
  (0%nat, (OAuto (PInt (5)%Z))); (0%nat, (ODrv [97%N] (PInt (5)%Z) [([97%N], (PInt (1)%Z)); ([97%N; 95%N; 108%N;
  105%N; 109%N; 105%N; 116%N; 115%N], (PTuple [(PInt (0)%Z); (PInt (10)%Z)])); ([98%N], (PInt (7)%Z))])); (0%nat,
  (OUpd [97%N] (PInt (5)%Z))); (0%nat, (OEnd None)); (1%nat, OAcq); (1%nat, (OUpd [97%N; 95%N; 108%N; 105%N; 109%N;
  105%N; 116%N; 115%N] (PTuple [(PInt (6)%Z); (PInt (9)%Z)]))); (1%nat, (OEnd None))]; cc_final := [([97%N], (PInt
  (5)%Z)); ([97%N; 95%N; 108%N; 105%N; 109%N; 105%N; 116%N; 115%N], (PTuple [(PInt (6)%Z); (PInt (9)%Z)])); ([98%N],
  (PInt (7)%Z))] |}.
Example hcc_checks : check_conc hcc = true.
Proof. vm_compute. reflexivity. Qed.
Definition hcc_progs : list (list top) := match resolve_progs (cc_md hcc) (cc_progs hcc) with Some l => l | None => [] end.
Definition hcc_pa : param := match find_param (md_acc (cc_md hcc)) [97%N] with Some p => p | None => pa end.
Example hcc_shape : length hcc_progs = 2 /\ sched_of (cc_events hcc) = [0; 0; 0; 0; 1]%nat.
Proof. vm_compute. split; reflexivity. Qed.
Lemma hcc_drv_label :
  In (LDrv hcc_pa (PInt 5) (PInt 5) (cc_init hcc))
     (snd (crun (cc_env hcc) (hook_of (cc_hooks hcc)) true (cc_md hcc) (cinit (cc_init hcc) hcc_progs) (sched_of (cc_events hcc)))).
Proof. apply (nth_error_In _ 3). vm_compute. reflexivity. Qed.
Example C04_limits_current_at_driver_call_applies_harness_case : (0 <= 5 <= 10)%Z.
Proof.
  destruct (C04_limits_current_at_driver_call _ _ _ _ _ _ _ _ _ _ hcc_drv_label) as (_ & _ & L).
  assert (NS : forall i, In (CkUser i) (p_checks hcc_pa) -> hook_of (cc_hooks hcc) i (PInt 5) (cc_init hcc) <> HStop).
  { intros i [H|[]]. discriminate. }
  destruct (L NS (or_introl eq_refl)) as [LR _].
  destruct (C04_limits_respected_int _ _ _ LR) as (A & _ & _).
  exact (A 0%Z 10%Z eq_refl).
Qed.

(* ------------------------------------------------------------------ REMARK: one branch of C04_change_refused *)
(* The branch "wire ... = Ok v, then dt_validate (p_dt p) v PNone = Err e" (the wrapper's own validation refuses what the
   dispatcher's validation returned) fires only from a cache that is not cache_ok: wire completes a struct from the cached
   value without validating the members taken from it.  Instance: cached s = {ka: 1, kb: 7} (kb : bool holds 7). *)
Definition c_bad : cache := [(n_a, PInt 1); (n_amax, PInt 6); (n_alim, PTuple [PInt 2; PInt 8]);
                             (n_s, PDict [(ka, PInt 1); (kb, PInt 7)]); (n_r, PBool true)].
Example nv_second_validation_branch :
  wire nv_E d_s (PDict [(ka, PInt 2)]) (prev_of c_bad ps) = Ok (PDict [(ka, PInt 2); (kb, PInt 7)]) /\
  dt_validate d_s (PDict [(ka, PInt 2); (kb, PInt 7)]) PNone = Err EWrongType.
Proof. vm_compute. split; reflexivity. Qed.
Lemma nv_lookup_s v d : lookup_export nv_md (ename (chgr (us n_s) v d)) = Some (AParam ps).
Proof. vm_compute. reflexivity. Qed.
Example C04_change_refused_applies_second_validation :
  handle_change nv_E nv_hook nv_md c_bad (chgr (us n_s) (PDict [(ka, PInt 2)]) DNone) = fail c_bad (ESecop WrongType) [] [].
Proof.
  apply (proj1 (proj2 (proj2 (proj2 (proj2 (C04_change_refused nv_E nv_hook nv_md c_bad (chgr (us n_s) (PDict [(ka, PInt 2)]) DNone)))
                   ps eq_refl (nv_lookup_s _ _)) eq_refl) _ (proj1 nv_second_validation_branch)) EWrongType).
  exact (proj2 nv_second_validation_branch).
Qed.
(* from a cache_ok cache the branch is dead for this request: what wire returns validates again *)
Example nv_second_validation_ok_cache :
  wire nv_E d_s (PDict [(ka, PInt 2)]) (prev_of nv_c ps) = Ok (PDict [(ka, PInt 2)]) /\
  dt_validate d_s (PDict [(ka, PInt 2)]) PNone = Ok (PDict [(ka, PInt 2)]).
Proof. vm_compute. split; reflexivity. Qed.

(* ------------------------------------------------------------------ error replies without exception (repair of remark 1) *)
(* one step, the module with the struct parameter (premise of C04_error_clean_exportable false), error AFTER the driver ran *)
Example C04_error_clean_step_applies :=
  C04_error_clean_step nv_E nv_hook nv_md nv_c _ nv_wf_md nv_cache_ok nv_err_reply_drv.
(* a reachable state: after requests 0..4 of hist and a change of the struct s (a, a_max, a_limits and s were rewritten).
   Then a partial struct change (the optional member is taken from the cache) whose driver raises a non-SECoP
   exception, and one whose driver returns an invalid read-back value: both are error replies issued after write_s
   was called *)
Definition pre6 : list request := firstn 5 hist ++ [chgr (us n_s) (PDict [(ka, PInt 2); (kb, PBool true)]) DNone].
Definition rq_s_raise := chgr (us n_s) (PDict [(ka, PInt 4)]) (DRaise EPy).
Definition rq_s_badread := chgr (us n_s) (PDict [(ka, PInt 4)]) (DVal (PDict [(kb, PBool true)])).
Example nv_pre6_state :
  final nv_E nv_hook nv_md nv_c pre6 =
  [(n_a, PInt 4); (n_amax, PInt 3); (n_alim, PTuple [PInt 3; PInt 9]); (n_s, PDict [(ka, PInt 2); (kb, PBool true)]);
   (n_r, PBool true)] /\
  map (fun rq => let o := handle nv_E nv_hook nv_md (final nv_E nv_hook nv_md nv_c pre6) rq in (o_reply o, o_drv o))
      [rq_s_raise; rq_s_badread] =
  [(Some InternalError, [Write n_s (PDict [(ka, PInt 4); (kb, PBool true)])]);
   (Some WrongType, [Write n_s (PDict [(ka, PInt 4); (kb, PBool true)])])].
Proof. vm_compute. split; reflexivity. Qed.
Lemma nv_err_s_raise : o_reply (handle nv_E nv_hook nv_md (final nv_E nv_hook nv_md nv_c pre6) rq_s_raise) <> None.
Proof. vm_compute. discriminate. Qed.
Lemma nv_err_s_badread : o_reply (handle nv_E nv_hook nv_md (final nv_E nv_hook nv_md nv_c pre6) rq_s_badread) <> None.
Proof. vm_compute. discriminate. Qed.
Example C04_error_clean_applies_raise :=
  C04_error_clean nv_E nv_hook nv_md nv_wf_md nv_names_unique pre6 nv_c rq_s_raise nv_cache_ok nv_err_s_raise.
Example C04_error_clean_applies_badread :=
  C04_error_clean nv_E nv_hook nv_md nv_wf_md nv_names_unique pre6 nv_c rq_s_badread nv_cache_ok nv_err_s_badread.
(* request 14 of hist: HardwareError after write_a(3) *)
Lemma nv_out14_err : o_reply (out_at 14) <> None.
Proof. vm_compute. discriminate. Qed.
Example C04_history_error_outputs_applies :=
  C04_history_error_outputs nv_E nv_hook nv_md nv_wf_md nv_names_unique hist nv_c nv_cache_ok (out_at 14)
    (out_at_in 14 ltac:(lia)) nv_out14_err.
(* validated values export: an array of structs, one of them without the optional member, one complete *)
Lemma nv_arr_in_set : in_setb d_arr (PTuple [PDict [(ka, PInt 1)]; PDict [(ka, PInt 2); (kb, PBool false)]]) = true.
Proof. vm_compute. reflexivity. Qed.
Example C04_validated_values_export_applies := C04_validated_values_export d_arr _ nv_arr_in_set.
(* ... while not every python value exports (the conclusion is not trivially true): unknown key / mandatory member absent *)
Example nv_not_everything_exports :
  exportable d_arr (PTuple [PDict [(ka, PInt 1); (n_a, PNone)]]) = false /\ exportable d_arr (PTuple [PDict [(kb, PBool true)]]) = false.
Proof. vm_compute. split; reflexivity. Qed.
Lemma nv_validate_s : dt_validate d_s (PDict [(ka, PInt 2)]) PNone = Ok (PDict [(ka, PInt 2)]).
Proof. vm_compute. reflexivity. Qed.
Example C04_validate_result_exports_applies :=
  C04_validate_result_exports d_s ltac:(vm_compute; auto) (PDict [(ka, PInt 2)]) PNone _ (or_introl eq_refl) nv_validate_s.
Lemma nv_ps_in : In (AParam ps) (md_acc nv_md).
Proof. right; right; right; left; reflexivity. Qed.
Example C04_reply_always_built_applies :=
  C04_reply_always_built nv_hook nv_md nv_c ps (PDict [(ka, PInt 2)]) DNone nv_wf_md nv_cache_ok nv_ps_in
    ltac:(vm_compute; reflexivity).

(* ------------------------------------------------------------------ the second validation (repair of remark 2) *)
Lemma nv_regular : regular_md nv_md.
Proof.
  intros p [H|[H|[H|[H|[H|[H|[H|[]]]]]]]]; try discriminate; injection H as <-; vm_compute; split; reflexivity.
Qed.
Lemma nv_cache_st : cache_st nv_md nv_c.
Proof.
  intros p [H|[H|[H|[H|[H|[H|[H|[]]]]]]]]; try discriminate; injection H as <-;
    (eexists; split; [vm_compute; reflexivity|]); vm_compute; reflexivity.
Qed.
(* the cache c_bad of the remark is not a cache of fixed points *)
Example nv_c_bad_not_st : ~ cache_st nv_md c_bad.
Proof. intros H. destruct (H ps nv_ps_in) as (x & G & S). vm_compute in G. injection G as <-. vm_compute in S. discriminate. Qed.
Example C04_fixed_point_cache_invariant_applies : cache_st nv_md (final nv_E nv_hook nv_md nv_c hist).
Proof. exact (C04_fixed_point_cache_invariant nv_E nv_hook nv_md nv_wf_md nv_regular nv_names_unique hist nv_c nv_cache_st). Qed.
(* after six requests: the partial change {ka: 4} is completed from the cached {ka: 2, kb: true}; the wrapper's validation
   returns the completed value unchanged and write_s receives it *)
Definition rq_s_partial := chgr (us n_s) (PDict [(ka, PInt 4)]) DNone.
Lemma nv_wire_partial :
  wire nv_E (p_dt ps) (rq_data rq_s_partial) (prev_of (final nv_E nv_hook nv_md nv_c pre6) ps) =
  Ok (PDict [(ka, PInt 4); (kb, PBool true)]).
Proof. vm_compute. reflexivity. Qed.
Example C04_second_validation_never_fails_applies :=
  C04_second_validation_never_fails nv_E nv_hook nv_md nv_wf_md nv_regular nv_names_unique pre6 nv_c nv_cache_st
    rq_s_partial ps _ (nv_lookup_s _ _) nv_wire_partial.
Example nv_partial_reaches_driver :
  o_drv (handle_change nv_E nv_hook nv_md (final nv_E nv_hook nv_md nv_c pre6) rq_s_partial) <> [].
Proof. vm_compute. discriminate. Qed.

(* ------------------------------------------------------------------ theorems without premises, for completeness *)
Example C04_fail_shape_applies := C04_fail_shape nv_c (ESecop RangeError) [(0%nat, PInt 7)].
Example C04_do_clean_applies := C04_do_clean nv_E nv_md nv_c (dor (Some n_go) (PInt 3) (DRaise EPy)).
Example C04_request_is_pre_change_then_wrapper_applies := C04_request_is_pre_change_then_wrapper nv_E nv_hook nv_md nv_c rq_ok.
Example C04_source_facts_applies := C04_source_facts.
