(* C04 — the concurrent model restricted to one uninterrupted thread IS the sequential write wrapper of Model.v: a direct
   call write_<p>(v) run to its end from a state with a free lock produces exactly the driver calls, hook calls, updates,
   result and cache of Model.write_wrapper.  (Ties the concurrent layer to the model all other C04 theorems are about.) *)
From Coq Require Import ZArith NArith Bool List Lia.
Import ListNotations.
Require Import FV.Base.Util FV.Base.F64 FV.Base.PyVal FV.C01.Model FV.C04.Model FV.C04.Lemmas FV.C04.ConcModel FV.C04.LemmasConc.

(* projections of a label list onto the components of Model.out *)
Definition drvs_of (ls : list label) : list call :=
  flat_map (fun l => match l with LDrv p _ nv _ => [Write (p_name p) nv] | _ => [] end) ls.
Definition hooks_of (ls : list label) : list (nat * pyval) :=
  flat_map (fun l => match l with LHook i v => [(i, v)] | _ => [] end) ls.
Definition upds_of (ls : list label) : list (str * pyval) :=
  flat_map (fun l => match l with LUpd pn x => [(pn, x)] | _ => [] end) ls.
Definition ends_of (ls : list label) : list (option ecls) :=
  flat_map (fun l => match l with LEnd r => [r] | _ => [] end) ls.

Definition same_out (c' : cache) (ls : list label) (o : out) : Prop :=
  c' = o_cache o /\ drvs_of ls = o_drv o /\ hooks_of ls = o_hooks o /\ upds_of ls = o_upd o /\ ends_of ls = [o_reply o].

Section Solo.
Variable E : pyenv.
Variable hook : nat -> pyval -> cache -> hres.
Variable md : mdesc.

Notation tstep := (tstep E hook true md).

(* thread t alone: steps until it is idle again, at most n *)
Fixpoint titer (n : nat) (t : nat) (c : cache) (o : option nat) (th : thread) : cache * option nat * thread * list label :=
  match n with
  | O => (c, o, th, [])
  | S n' =>
      match tstep t c o th with
      | None => (c, o, th, [])
      | Some (c', o', th', l) =>
          match t_pc th' with
          | PIdle => (c', o', th', l)
          | _ => let '(c2, o2, th2, l2) := titer n' t c' o' th' in (c2, o2, th2, l ++ l2)
          end
      end
  end.

(* the part of write_wrapper after validation and checks *)
Definition wtail (p : param) (v nv : pyval) (c : cache) (d : drv) (hl : list (nat * pyval)) : out :=
  if p_haswrite p then
    let dl := [Write (p_name p) nv] in
    match drv_norm d with
    | DDone => {| o_reply := None; o_drv := dl; o_hooks := hl; o_upd := []; o_cache := c |}
    | DNone => store p v c dl hl
    | DVal r =>
        match dt_validate (p_dt p) r PNone with
        | Ok x => store p x c dl hl
        | Err e => fail c (of_exc e) dl hl
        end
    | DRaise e => fail c e dl hl
    end
  else store p nv c [] hl.

Lemma write_wrapper_split p v c d :
  write_wrapper hook p v c d =
  match dt_validate (p_dt p) v PNone with
  | Err e => fail c (of_exc e) [] []
  | Ok nv =>
      match snd (run_checks hook (p_checks p) (p_name p) v c) with
      | Some e => fail c e [] (fst (run_checks hook (p_checks p) (p_name p) v c))
      | None => wtail p v nv c d (fst (run_checks hook (p_checks p) (p_name p) v c))
      end
  end.
Proof.
  unfold write_wrapper, wtail. destruct (dt_validate (p_dt p) v PNone) as [nv|e]; [|reflexivity].
  destruct (run_checks hook (p_checks p) (p_name p) v c) as [hl [e|]]; reflexivity.
Qed.

Lemma store_proj p x c dl hl :
  o_drv (store p x c dl hl) = dl /\ o_hooks (store p x c dl hl) = hl /\
  o_upd (store p x c dl hl) = o_upd (store p x c [] []) /\ o_reply (store p x c dl hl) = o_reply (store p x c [] []) /\
  o_cache (store p x c dl hl) = o_cache (store p x c [] []).
Proof. unfold store. destruct (p_export p); [destruct (exportable (p_dt p) x)|]; cbn; auto. Qed.

Lemma upds_of_map us : upds_of (map (fun u : str * pyval => LUpd (fst u) (snd u)) us) = us.
Proof. induction us as [|[a b] r IH]; cbn; [reflexivity|]. unfold upds_of in IH. rewrite IH. reflexivity. Qed.
Lemma drvs_of_map us : drvs_of (map (fun u : str * pyval => LUpd (fst u) (snd u)) us) = [].
Proof. induction us as [|[a b] r IH]; cbn; auto. Qed.
Lemma hooks_of_map us : hooks_of (map (fun u : str * pyval => LUpd (fst u) (snd u)) us) = [].
Proof. induction us as [|[a b] r IH]; cbn; auto. Qed.
Lemma ends_of_map us : ends_of (map (fun u : str * pyval => LUpd (fst u) (snd u)) us) = [].
Proof. induction us as [|[a b] r IH]; cbn; auto. Qed.

(* labels of do_store for a direct call (w_req = false), projected *)
Lemma do_store_proj w x c :
  w_req w = false ->
  let '(c', l) := do_store w x c in
  let o := store (w_p w) x c [] [] in
  c' = o_cache o /\ drvs_of l = [] /\ hooks_of l = [] /\ upds_of l = o_upd o /\ ends_of l = [o_reply o].
Proof.
  intros R. unfold do_store. cbn zeta.
  assert (F : finish w (o_cache (store (w_p w) x c [] [])) (o_reply (store (w_p w) x c [] [])) =
              o_reply (store (w_p w) x c [] [])).
  { unfold finish. rewrite R. destruct (o_reply (store (w_p w) x c [] [])); reflexivity. }
  rewrite F. unfold drvs_of, hooks_of, upds_of, ends_of. rewrite !flat_map_app. cbn.
  fold (drvs_of (map (fun u : str * pyval => LUpd (fst u) (snd u)) (o_upd (store (w_p w) x c [] [])))).
  fold (hooks_of (map (fun u : str * pyval => LUpd (fst u) (snd u)) (o_upd (store (w_p w) x c [] [])))).
  fold (upds_of (map (fun u : str * pyval => LUpd (fst u) (snd u)) (o_upd (store (w_p w) x c [] [])))).
  fold (ends_of (map (fun u : str * pyval => LUpd (fst u) (snd u)) (o_upd (store (w_p w) x c [] [])))).
  rewrite drvs_of_map, hooks_of_map, upds_of_map, ends_of_map. rewrite !app_nil_r. cbn. auto.
Qed.


(* what is claimed about the rest of an operation: final cache, labels and the out record o agree, the hook calls made so
   far being hl0 *)
Definition agrees (hl0 : list (nat * pyval)) (r : cache * option nat * thread * list label) (todo : list top) (o : out) : Prop :=
  let '(c', o', th', ls) := r in
  t_pc th' = PIdle /\ t_todo th' = todo /\ o' = None /\
  c' = o_cache o /\ drvs_of ls = o_drv o /\ hl0 ++ hooks_of ls = o_hooks o /\ upds_of ls = o_upd o /\ ends_of ls = [o_reply o].

Lemma agrees_cons hl0 c' o' th' ls todo o x :
  drvs_of [x] = [] -> hooks_of [x] = [] -> upds_of [x] = [] -> ends_of [x] = [] ->
  agrees hl0 (c', o', th', ls) todo o -> agrees hl0 (c', o', th', x :: ls) todo o.
Proof.
  unfold agrees. intros A B C D H. change (x :: ls) with ([x] ++ ls).
  unfold drvs_of, hooks_of, upds_of, ends_of in *. rewrite !flat_map_app, A, B, C, D. exact H.
Qed.

(* the driver step *)
Lemma drv_run n t w nv c todo hl0 :
  w_req w = false ->
  agrees hl0 (titer (S n) t c (Some t) {| t_pc := PDrv w nv; t_todo := todo |}) todo
         (wtail (w_p w) (w_v w) nv c (w_drv w) hl0) \/ p_haswrite (w_p w) = false.
Proof.
  intros R. destruct (p_haswrite (w_p w)) eqn:W; [left|right; reflexivity].
  cbn [titer]. unfold ConcModel.tstep. cbn [t_pc t_todo]. unfold drv_step, wtail. rewrite W.
  destruct (drv_norm (w_drv w)) as [| |r|e].
  - pose proof (do_store_proj w (w_v w) c R) as P. destruct (do_store w (w_v w) c) as [c' l]. cbn [t_pc].
    destruct (store_proj (w_p w) (w_v w) c [Write (p_name (w_p w)) nv] hl0) as (S1 & S2 & S3 & S4 & S5).
    destruct P as (P1 & P2 & P3 & P4 & P5). unfold agrees. cbn [t_pc t_todo].
    rewrite S1, S2, S3, S4, S5. unfold drvs_of, hooks_of, upds_of, ends_of in *. cbn [flat_map].
    rewrite P2, P3, P4, P5. cbn. rewrite ?app_nil_r. repeat split; auto.
  - unfold agrees, finish. rewrite R. cbn. rewrite ?app_nil_r. repeat split; auto.
  - destruct (dt_validate (p_dt (w_p w)) r PNone) as [x|e].
    + pose proof (do_store_proj w x c R) as P. destruct (do_store w x c) as [c' l]. cbn [t_pc].
      destruct (store_proj (w_p w) x c [Write (p_name (w_p w)) nv] hl0) as (S1 & S2 & S3 & S4 & S5).
      destruct P as (P1 & P2 & P3 & P4 & P5). unfold agrees. cbn [t_pc t_todo].
      rewrite S1, S2, S3, S4, S5. unfold drvs_of, hooks_of, upds_of, ends_of in *. cbn [flat_map].
      rewrite P2, P3, P4, P5. cbn. rewrite ?app_nil_r. repeat split; auto.
    + unfold agrees. cbn. rewrite ?app_nil_r. repeat split; auto.
  - unfold agrees. cbn. rewrite ?app_nil_r. repeat split; auto.
Qed.

(* continue after the result of a step *)
Definition cont (n t : nat) (todo : list top) (r : sres) : cache * option nat * thread * list label :=
  let '(c', o', q, l) := r in
  match q with
  | PIdle => (c', o', {| t_pc := PIdle; t_todo := todo |}, l)
  | _ => let '(c2, o2, th2, l2) := titer n t c' o' {| t_pc := q; t_todo := todo |} in (c2, o2, th2, l ++ l2)
  end.

Lemma titer_chk n t c o w nv k rest todo :
  titer (S n) t c o {| t_pc := PChk w nv (k :: rest); t_todo := todo |} =
  cont n t todo (check_step hook true w nv k rest c o t).
Proof.
  cbn [titer]. unfold ConcModel.tstep. cbn [t_pc t_todo].
  destruct (check_step hook true w nv k rest c o t) as [[[c' o'] q] l]. cbn. destruct q; reflexivity.
Qed.

Lemma after_run n t w nv c todo hl0 :
  w_req w = false ->
  agrees hl0 (cont (S n) t todo (after_checks w nv c t)) todo (wtail (w_p w) (w_v w) nv c (w_drv w) hl0).
Proof.
  intros R. unfold after_checks. destruct (p_haswrite (w_p w)) eqn:W.
  - unfold cont. destruct (drv_run n t w nv c todo hl0 R) as [A|A]; [|congruence].
    destruct (titer (S n) t c (Some t) {| t_pc := PDrv w nv; t_todo := todo |}) as [[[c2 o2] th2] l2]. exact A.
  - pose proof (do_store_proj w nv c R) as P. destruct (do_store w nv c) as [c' l]. unfold cont.
    unfold wtail. rewrite W. destruct (store_proj (w_p w) nv c [] hl0) as (S1 & S2 & S3 & S4 & S5).
    destruct P as (P1 & P2 & P3 & P4 & P5). unfold agrees. cbn [t_pc t_todo].
    rewrite S1, S2, S3, S4, S5, P2, P3, P4, P5, app_nil_r. repeat split; auto.
Qed.

Lemma agrees_hook hl0 i v r todo o :
  agrees (hl0 ++ [(i, v)]) r todo o ->
  agrees hl0 (let '(c2, o2, th2, l2) := r in (c2, o2, th2, [LHook i v] ++ l2)) todo o.
Proof.
  destruct r as [[[c2 o2] th2] l2]. unfold agrees. intros (A & B & C & D & F & G & H & I).
  cbn. rewrite <- app_assoc in G. cbn in G. repeat split; auto.
Qed.

Lemma agrees_auto hl0 v r todo o :
  agrees hl0 r todo o -> agrees hl0 (let '(c2, o2, th2, l2) := r in (c2, o2, th2, [LAuto v] ++ l2)) todo o.
Proof. destruct r as [[[c2 o2] th2] l2]. unfold agrees. cbn. auto. Qed.

Definition fail_or_tail (w : wop) (nv : pyval) (c : cache) (hl : list (nat * pyval)) (oe : option err) : out :=
  match oe with
  | Some e => fail c e [] hl
  | None => wtail (w_p w) (w_v w) nv c (w_drv w) hl
  end.

(* cont after next_pc, given the claim for the remaining checks *)
Lemma next_run n t w nv rest c todo hl0 :
  w_req w = false ->
  (forall k r, rest = k :: r ->
     agrees hl0 (titer (S n) t c (Some t) {| t_pc := PChk w nv rest; t_todo := todo |}) todo
            (fail_or_tail w nv c (hl0 ++ fst (run_checks hook rest (p_name (w_p w)) (w_v w) c))
                          (snd (run_checks hook rest (p_name (w_p w)) (w_v w) c)))) ->
  agrees hl0 (cont (S n) t todo (next_pc true w nv rest c (Some t) t)) todo
         (fail_or_tail w nv c (hl0 ++ fst (run_checks hook rest (p_name (w_p w)) (w_v w) c))
                       (snd (run_checks hook rest (p_name (w_p w)) (w_v w) c))).
Proof.
  intros R H. unfold next_pc. destruct rest as [|k r].
  - cbn [run_checks fst snd fail_or_tail]. rewrite app_nil_r. apply after_run, R.
  - specialize (H k r eq_refl). unfold cont.
    destruct (titer (S n) t c (Some t) {| t_pc := PChk w nv (k :: r); t_todo := todo |}) as [[[c2 o2] th2] l2]. exact H.
Qed.

Lemma chk_run t w nv c todo : w_req w = false -> forall rest n hl0, length rest <= n -> rest <> [] ->
  agrees hl0 (titer (S n) t c (Some t) {| t_pc := PChk w nv rest; t_todo := todo |}) todo
         (fail_or_tail w nv c (hl0 ++ fst (run_checks hook rest (p_name (w_p w)) (w_v w) c))
                       (snd (run_checks hook rest (p_name (w_p w)) (w_v w) c))).
Proof.
  intros R. induction rest as [|k r IH]; intros n hl0 L N; [contradiction|].
  destruct n as [|n]; [cbn in L; lia|]. cbn in L. assert (L' : length r <= n) by lia.
  rewrite titer_chk. unfold check_step. destruct k as [|i].
  - cbn [run_checks]. destruct (check_limits (p_name (w_p w)) (w_v w) c) as [[]|e].
    + assert (X := next_run n t w nv r c todo hl0 R).
      destruct (next_pc true w nv r c (Some t) t) as [[[c' o'] q] l] eqn:NP.
      assert (Y : agrees hl0 (cont (S n) t todo (c', o', q, l)) todo
                    (fail_or_tail w nv c (hl0 ++ fst (run_checks hook r (p_name (w_p w)) (w_v w) c))
                                  (snd (run_checks hook r (p_name (w_p w)) (w_v w) c)))).
      { apply X. intros k2 r2 ->. apply IH; [exact L'|discriminate]. }
      clear X. revert Y. unfold cont. destruct q; try (destruct (titer (S n) t c' o' _) as [[[c2 o2] th2] l2]);
        unfold agrees; cbn; auto.
    + unfold cont, agrees. cbn. rewrite app_nil_r. repeat split; auto.
  - cbn [run_checks]. destruct (hook i (w_v w) c) as [| |e].
    + assert (X := next_run n t w nv r c todo (hl0 ++ [(i, w_v w)]) R).
      destruct (next_pc true w nv r c (Some t) t) as [[[c' o'] q] l] eqn:NP.
      assert (Y : agrees (hl0 ++ [(i, w_v w)]) (cont (S n) t todo (c', o', q, l)) todo
                    (fail_or_tail w nv c ((hl0 ++ [(i, w_v w)]) ++ fst (run_checks hook r (p_name (w_p w)) (w_v w) c))
                                  (snd (run_checks hook r (p_name (w_p w)) (w_v w) c)))).
      { apply X. intros k2 r2 ->. apply IH; [exact L'|discriminate]. }
      clear X. destruct (run_checks hook r (p_name (w_p w)) (w_v w) c) as [hl oe]. cbn [fst snd] in *.
      rewrite <- app_assoc in Y. cbn [app] in Y.
      revert Y. unfold cont. destruct q; try (destruct (titer (S n) t c' o' _) as [[[c2 o2] th2] l2]);
        unfold agrees; cbn; rewrite <- ?app_assoc; cbn; auto.
    + cbn [fst snd fail_or_tail].
      assert (Y := after_run n t w nv c todo (hl0 ++ [(i, w_v w)]) R).
      unfold next_pc. destruct (after_checks w nv c t) as [[[c' o'] q] l].
      revert Y. unfold cont. destruct q; try (destruct (titer (S n) t c' o' _) as [[[c2 o2] th2] l2]);
        unfold agrees; cbn; rewrite <- ?app_assoc; cbn; auto.
    + unfold cont, agrees. cbn. repeat split; auto.
Qed.

(* a direct call write_<p>(v), alone, from a state with a free lock, run to its end *)
Lemma solo_write t c p v d todo n : length (p_checks p) + 2 <= n ->
  agrees [] (titer n t c None {| t_pc := PIdle; t_todo := TWrite p v d :: todo |}) todo (write_wrapper hook p v c d).
Proof.
  intros L. destruct n as [|n]; [lia|]. rewrite write_wrapper_split.
  cbn [titer]. unfold ConcModel.tstep. cbn [t_pc t_todo]. unfold begin_op, enter. cbn [w_p w_v w_drv w_req].
  set (w := {| w_p := p; w_v := v; w_drv := d; w_req := false |}).
  destruct (dt_validate (p_dt p) v PNone) as [nv|e].
  - assert (R : w_req w = false) by reflexivity.
    destruct n as [|n]; [lia|].
    assert (X := next_run n t w nv (p_checks p) c todo [] R).
    destruct (next_pc true w nv (p_checks p) c (Some t) t) as [[[c' o'] q] l] eqn:NP.
    assert (Y : agrees [] (cont (S n) t todo (c', o', q, l)) todo
                  (fail_or_tail w nv c ([] ++ fst (run_checks hook (p_checks p) (p_name p) v c))
                                (snd (run_checks hook (p_checks p) (p_name p) v c)))).
    { apply X. intros k2 r2 E2. apply (chk_run t w nv c todo R); [lia|rewrite E2; discriminate]. }
    clear X. cbn [app] in Y. unfold fail_or_tail in Y. cbn [option_map].
    revert Y. unfold cont. destruct q; try (destruct (titer (S n) t c' o' _) as [[[c2 o2] th2] l2]);
      unfold agrees; cbn [t_pc t_todo w_p w_v w_drv w]; cbn; auto.
  - unfold agrees. cbn. repeat split; auto.
Qed.

(* ------------------------------------------------------------------ the same on whole states: thread t scheduled k times *)
Lemma set_nth_id {A} n (x : A) l : nth_error l n = Some x -> set_nth n x l = l.
Proof. revert n. induction l as [|a l IH]; intros [|n]; cbn; try discriminate; [congruence|intros H; f_equal; auto]. Qed.

Lemma set_nth_twice {A} n (x y : A) l : set_nth n y (set_nth n x l) = set_nth n y l.
Proof. revert n. induction l as [|a l IH]; intros [|n]; cbn; auto. f_equal. auto. Qed.

Lemma titer_crun n t : forall st th, nth_error (cs_threads st) t = Some th ->
  let '(c', o', th', ls) := titer n t (cs_cache st) (cs_owner st) th in
  exists k, k <= n /\ forall acc,
    fold_left (crun_step E hook true md) (repeat t k) (st, acc) =
    ({| cs_cache := c'; cs_owner := o'; cs_threads := set_nth t th' (cs_threads st) |}, acc ++ ls).
Proof.
  induction n as [|n IH]; intros st th N.
  - cbn. exists 0. split; [lia|]. intros acc. cbn. rewrite (set_nth_id _ _ _ N), app_nil_r. destruct st; reflexivity.
  - cbn [titer]. destruct (tstep t (cs_cache st) (cs_owner st) th) as [[[[c1 o1] th1] l1]|] eqn:TS.
    + assert (CS : cstep E hook true md st t =
                   Some ({| cs_cache := c1; cs_owner := o1; cs_threads := set_nth t th1 (cs_threads st) |}, l1)).
      { unfold cstep. rewrite N, TS. reflexivity. }
      assert (ONE : forall acc, crun_step E hook true md (st, acc) t =
                    ({| cs_cache := c1; cs_owner := o1; cs_threads := set_nth t th1 (cs_threads st) |}, acc ++ l1)).
      { intros acc. unfold crun_step. cbn [fst snd]. rewrite CS. reflexivity. }
      destruct (t_pc th1) eqn:Q;
        try (exists 1; split; [lia|]; intros acc; cbn [repeat fold_left]; rewrite ONE; reflexivity).
      all: set (st1 := {| cs_cache := c1; cs_owner := o1; cs_threads := set_nth t th1 (cs_threads st) |}) in *;
        assert (N1 : nth_error (cs_threads st1) t = Some th1) by (apply (nth_set_nth_same _ _ _ _ N));
        specialize (IH st1 th1 N1); cbn [cs_cache cs_owner cs_threads st1] in IH;
        destruct (titer n t c1 o1 th1) as [[[c2 o2] th2] l2]; destruct IH as (k & K & F);
        exists (S k); (split; [lia|]); intros acc; cbn [repeat fold_left]; rewrite ONE, F, set_nth_twice, app_assoc;
        reflexivity.
    + exists 0. split; [lia|]. intros acc. cbn. rewrite (set_nth_id _ _ _ N), app_nil_r. destruct st; reflexivity.
Qed.

(* thread t, idle, next operation write_<p>(v), lock free: scheduled alone at most |checks| + 2 times it has finished the
   call, and cache, driver calls, hook calls, updates and result are those of the sequential Model.write_wrapper *)
Lemma solo_is_wrapper st t p v d todo :
  nth_error (cs_threads st) t = Some {| t_pc := PIdle; t_todo := TWrite p v d :: todo |} -> cs_owner st = None ->
  exists k ls, k <= length (p_checks p) + 2 /\
    crun E hook true md st (repeat t k) =
      ({| cs_cache := o_cache (write_wrapper hook p v (cs_cache st) d); cs_owner := None;
          cs_threads := set_nth t {| t_pc := PIdle; t_todo := todo |} (cs_threads st) |}, ls) /\
    drvs_of ls = o_drv (write_wrapper hook p v (cs_cache st) d) /\
    hooks_of ls = o_hooks (write_wrapper hook p v (cs_cache st) d) /\
    upds_of ls = o_upd (write_wrapper hook p v (cs_cache st) d) /\
    ends_of ls = [o_reply (write_wrapper hook p v (cs_cache st) d)].
Proof.
  intros N O.
  pose proof (titer_crun (length (p_checks p) + 2) t st _ N) as T.
  pose proof (solo_write t (cs_cache st) p v d todo (length (p_checks p) + 2) (le_n _)) as A.
  rewrite O in T.
  destruct (titer (length (p_checks p) + 2) t (cs_cache st) None {| t_pc := PIdle; t_todo := TWrite p v d :: todo |})
    as [[[c' o'] th'] ls].
  destruct T as (k & K & F). destruct A as (A1 & A2 & A3 & A4 & A5 & A6 & A7 & A8).
  exists k, ls. split; [exact K|]. unfold crun. rewrite (F []). cbn [app].
  destruct th' as [q td]. cbn in A1, A2. subst. repeat split; auto.
Qed.

End Solo.
