(* C12 - vacuity audit: every property theorem with premises is applied at a concrete, non-trivial instance
   (the client built by Run.v: predefined names and error tables of FV.Gen.C12), and the premise of C12_e2e_write is
   shown to be unsatisfiable by the conversion tables that Run.check_case builds (imp_of over a finite list). *)
From Coq Require Import List Arith ZArith NArith Bool Lia.
Import ListNotations.
Require Import FV.Base.Util FV.Gen.C12 FV.C12.Model FV.C12.Lemmas FV.C12.ConcModel FV.C12.ConcLemmas FV.C12.ReModel FV.C12.ReLemmas
  FV.C12.Run FV.C12.Properties.

(* ------------------------------------------------------------------ description with two modules *)
Definition nv_d : dsc :=
  [([109%N], [{| a_name := s_value; a_cmd := false; a_dt := 0 |}; {| a_name := s_target; a_cmd := false; a_dt := 1 |}]);
   ([110%N], [{| a_name := s_value; a_cmd := false; a_dt := 2 |}])].
Definition nv_C : client := the_client nv_d.

Lemma nv_colon_free : colon_free nv_d.
Proof. intros m accs [H|[H|[]]]; inversion H; reflexivity. Qed.

Example C12_identifier_full_applies : forall act,
  resolve nv_C act (Some (mk_ident [109%N] s_target)) = Some ([109%N], internalize predefined_names s_target).
Proof.
  intro act.
  eapply (C12_identifier_full predefined_names error_classes error_names nv_d [109%N] _
           {| a_name := s_target; a_cmd := false; a_dt := 1 |} act nv_colon_free).
  - left; reflexivity.
  - right; left; reflexivity.
Qed.
Example C12_identifier_shorthand_applies :
  resolve nv_C AChanged (Some [109%N]) = Some ([109%N], s_target) /\
  resolve nv_C AUpdate (Some [110%N]) = Some ([110%N], s_value).
Proof.
  split.
  - eapply (C12_identifier_shorthand predefined_names error_classes error_names nv_d [109%N] _
             {| a_name := s_target; a_cmd := false; a_dt := 1 |} AChanged nv_colon_free).
    + left; reflexivity.
    + right; left; reflexivity.
    + discriminate.
    + reflexivity.
  - eapply (C12_identifier_shorthand predefined_names error_classes error_names nv_d [110%N] _
             {| a_name := s_value; a_cmd := false; a_dt := 2 |} AUpdate nv_colon_free).
    + right; left; reflexivity.
    + left; reflexivity.
    + discriminate.
    + reflexivity.
Qed.
Example C12_identifier_unknown_applies : forall act,
  resolve nv_C act (Some (mk_ident [109%N] [120%N])) = None.
Proof.
  intro act. apply C12_identifier_unknown; [|reflexivity].
  intros m accs a H1 H2.
  destruct H1 as [H1|[H1|[]]]; inversion H1; subst; clear H1.
  - destruct H2 as [H2|[H2|[]]]; subst; discriminate.
  - destruct H2 as [H2|[]]; subst; discriminate.
Qed.

(* ------------------------------------------------------------------ sequential model *)
Definition nv_imp : nat -> nat -> option nat :=
  imp_of [(0, 0, Some 10); (0, 1, Some 11); (1, 0, Some 20); (2, 0, None)].
Definition nv_W : nat -> beh := beh_of [(0, BUnreg); (3, BExc)].
Definition nv_msg (id : str) (p : nat) (t : tq) : msg :=
  {| m_action := AUpdate; m_ident := Some id;
     m_data := DList [{| i_payload := p; i_kind := IKHashable |}; {| i_payload := 99; i_kind := IKDict t |}] |}.
Definition nv_ops1 : list op :=
  [OReg KNode CItem 1; OReg KNode CItem 2; OReg (KMod [109%N]) CEvent 3; OReg (KPar [109%N] s_value) CEvent 4;
   ORecv (nv_msg [109%N] 0 (TNum (TFin 50))) 100].
Definition nv_s1 : st := run nv_C nv_imp nv_W (st0 [0]) nv_ops1.

Example C12_callbacks_once_applies : exists new,
  let m := nv_msg [109%N] 1 TAbsent in
  let k := ([109%N], s_value) in let e := (Some 11, TFin 200%Z, None) in
  level_lists nv_s1 CItem k = [2] /\ level_lists nv_s1 CEvent k = [3; 4] /\
  log (recv nv_C nv_imp nv_W nv_s1 m 200) = new ++ log nv_s1 /\
  rev (filter is_upd new) = [InvUpd 2 CItem k e; InvUpd 3 CEvent k e; InvUpd 4 CEvent k e] /\
  cache_get k (cache (recv nv_C nv_imp nv_W nv_s1 m 200)) = Some e.
Proof.
  destruct (C12_callbacks_once_in_order nv_C nv_imp nv_W nv_s1 (nv_msg [109%N] 1 TAbsent) 200
              ([109%N], s_value) (Some 11, TFin 200%Z, None) eq_refl) as [new [A [B D]]].
  exists new. cbv zeta. split; [reflexivity|]. split; [reflexivity|]. split; [exact A|]. split; [|exact D].
  rewrite B. reflexivity.
Qed.

Definition nv_ops2 : list op :=
  [ORecv (nv_msg [109%N] 1 (TNum (TFin 999))) 200; OReg KNode CEvent 5; ORecv (nv_msg (mk_ident [109%N] s_target) 0 TAbsent) 300].
Example C12_timestamp_not_future_applies :
  cache (run nv_C nv_imp nv_W nv_s1 nv_ops2) =
    [(([109%N], s_value), (Some 11, TFin 200%Z, None)); (([109%N], s_target), (Some 20, TFin 300%Z, None))] /\
  cache_le (cache (run nv_C nv_imp nv_W nv_s1 nv_ops2)) 300.
Proof.
  split; [vm_compute; reflexivity|].
  apply (C12_timestamp_not_future nv_C nv_imp nv_W nv_ops2 nv_s1 100).
  - assert (H1 : cache_le (cache nv_s1) (final_now 0 nv_ops1)).
    { apply (C12_timestamp_not_future nv_C nv_imp nv_W nv_ops1 (st0 [0]) 0).
      - intros k v ts er [].
      - simpl. lia. }
    exact H1.
  - simpl. lia.
Qed.

(* lines that are not accepted: rejected payload (import fails), unorderable timestamp, no identifier *)
Example C12_malformed_skipped_applies :
  let bad1 := nv_msg [110%N] 0 TAbsent in let bad2 := nv_msg [109%N] 0 TBad in
  decode nv_C nv_imp 150 bad1 = OFail /\ decode nv_C nv_imp 150 bad2 = OFail /\
  cache (recv nv_C nv_imp nv_W nv_s1 bad1 150) = cache nv_s1 /\
  cache (run nv_C nv_imp nv_W nv_s1 (ORecv bad2 150 :: nv_ops2)) = cache (run nv_C nv_imp nv_W nv_s1 nv_ops2).
Proof.
  cbv zeta. split; [reflexivity|]. split; [reflexivity|]. split.
  - destruct (C12_malformed_skipped nv_C nv_imp nv_W nv_s1 (nv_msg [110%N] 0 TAbsent) 150) as [[new [_ [_ [H _]]]] _].
    + intros k e H. vm_compute in H. discriminate.
    + exact H.
  - destruct (C12_malformed_skipped nv_C nv_imp nv_W nv_s1 (nv_msg [109%N] 0 TBad) 150) as [_ H].
    + intros k e H. vm_compute in H. discriminate.
    + exact (H nv_s1 [] nv_ops2).
Qed.

Example C12_register_immediate_applies :
  log (register nv_W nv_s1 KNode CEvent 7) =
    rev (map (fun a => InvUpd 7 CEvent (fst a) (snd a)) (reg_args nv_s1 KNode)) ++ log nv_s1 /\
  reg_args nv_s1 KNode <> [].
Proof.
  split; [|vm_compute; discriminate].
  apply (C12_register_immediate nv_W nv_s1 KNode CEvent 7). discriminate.
Qed.

(* ------------------------------------------------------------------ C12_e2e_write
   History: the first version of the theorem had the premises "forall x, exists j, exp_c x = Some j /\ imp_n j = Some x"
   (and the same for exp_n / imp_c) over ALL value ids.  (a) they are satisfiable by total conversions, (b) they are NOT
   satisfiable by what Run.check_case passes (imp_of over a finite table): such a function is None beyond the largest
   listed payload.  The theorem is now the pointwise statement (Properties.v) and applies to tables (c). *)
Definition old_e2e_premise (ex im : nat -> option nat) : Prop := forall x, exists j, ex x = Some j /\ im j = Some x.
Example C12_e2e_write_old_premise_total : old_e2e_premise (fun x => Some (S x)) (fun j => Some (pred j)).
Proof. intro x. exists (S x). split; reflexivity. Qed.

Fixpoint tbl_bound (l : list (nat * nat * option nat)) : nat :=
  match l with [] => 0 | (_, j, _) :: r => Nat.max (S j) (tbl_bound r) end.
Lemma imp_of_beyond : forall l dt x, tbl_bound l <= x -> imp_of l dt x = None.
Proof.
  induction l as [|[[d j] r] l IH]; intros dt x H; [reflexivity|].
  change (tbl_bound ((d, j, r) :: l)) with (Nat.max (S j) (tbl_bound l)) in H.
  change (imp_of ((d, j, r) :: l) dt x) with (if Nat.eqb d dt && Nat.eqb x j then r else imp_of l dt x).
  destruct (Nat.eqb x j) eqn:E.
  - apply Nat.eqb_eq in E. lia.
  - rewrite andb_false_r. apply IH. lia.
Qed.
Lemma C12_e2e_write_old_premise_unsatisfiable_for_tables : forall exp dt (imp_n : nat -> option nat),
  ~ old_e2e_premise (imp_of exp dt) imp_n.
Proof.
  intros exp dt imp_n H. destruct (H (tbl_bound exp)) as [j [E _]].
  rewrite imp_of_beyond in E by lia. discriminate.
Qed.
(* (c) the theorem as it is now, at total conversions and at tables *)
Example C12_e2e_write_applies_total : forall v r,
  e2e_write (fun x => Some (S x)) (fun j => Some (pred j)) (fun x => Some (x + 2)) (fun j => Some (j - 2)) v r
  = (Some v, Some r).
Proof.
  intros v r. apply C12_e2e_write.
  - exists (S v). split; reflexivity.
  - exists (r + 2). split; [reflexivity|]. cbv beta. rewrite Nat.add_sub. reflexivity.
Qed.
Example C12_e2e_write_applies_on_tables :
  let exp := [(0, 5, Some 50); (0, 6, Some 60)] in let imp := [(0, 50, Some 5); (0, 60, Some 6)] in
  e2e_write (imp_of exp 0) (imp_of imp 0) (imp_of exp 0) (imp_of imp 0) 5 6 = (Some 5, Some 6).
Proof. cbv zeta. apply C12_e2e_write; eexists; split; reflexivity. Qed.
Example C12_e2e_struct_members_applies :
  struct_get 0 (struct_validate [(0, 11); (1, 22)] [(1, 33)]) = Some 11 /\
  struct_get 1 (struct_validate [(0, 11); (1, 22)] [(1, 33)]) = Some 33 /\
  map fst (struct_validate [(0, 11); (1, 22)] [(1, 33)]) = [0; 1].
Proof.
  destruct (C12_e2e_struct_members [(0, 11); (1, 22)] [(1, 33)]) as [G K].
  split; [rewrite G; reflexivity|]. split; [rewrite G; reflexivity|].
  rewrite K; [reflexivity|]. intros kv [H|[]]. subst kv. right. left. reflexivity.
Qed.

(* ------------------------------------------------------------------ concurrent model: prefixes of the schedule of
   C12_conc_demo (two callers, same cache key, answers in opposite order, an update in between) *)
Definition nv_cC : client := the_client cdemo_d.
Definition nv_cimp : nat -> nat -> option nat := fun _ j => Some j.
Definition nv_cW : nat -> beh := fun _ => BOk.
Definition nv_cb : st := register nv_cW (st0 [0]) KNode CItem 1.
Definition nv_progs : list (list call) :=
  [[{| k_kind := RChange; k_ident := cdemo_ident; k_key := cdemo_key |}];
   [{| k_kind := RRead; k_ident := cdemo_ident; k_key := cdemo_key |}]].
Definition nv_cs (n : nat) : cst := crun nv_cC nv_cimp nv_cW (cinit nv_cb nv_progs) (firstn n cdemo_steps).

(* first clause at the moment the receive thread is about to release caller 0 *)
Example C12_reply_cached_applies_RSet :
  rx (nv_cs 4) = RSet 0 (cdemo_msg AChanged 1) 100 /\
  cache_get cdemo_key (cache (base (nv_cs 4))) = Some (Some 1, TFin 100%Z, None).
Proof.
  split; [reflexivity|].
  destruct (C12_reply_cached_before_release nv_cC nv_cimp nv_cW nv_cb nv_progs (firstn 4 cdemo_steps)) as [H _].
  apply (H 0 (cdemo_msg AChanged 1) 100%Z); reflexivity.
Qed.
(* second clause: caller 0 released, two newer lines processed before it runs *)
Example C12_reply_cached_applies_released :
  (exists c, nth_error (cls (nv_cs 10)) 0 = Some c /\
     c_st c = CReleased (cdemo_msg AChanged 1) 100
                [(cdemo_key, (Some 3, TFin 120%Z, None)); (cdemo_key, (Some 2, TFin 110%Z, None))]) /\
  cache_get cdemo_key (cache (base (nv_cs 10))) = Some (Some 3, TFin 120%Z, None).
Proof.
  split; [eexists; split; reflexivity|].
  destruct (C12_reply_cached_before_release nv_cC nv_cimp nv_cW nv_cb nv_progs (firstn 10 cdemo_steps)) as [_ H].
  exact (H 0 _ (cdemo_msg AChanged 1) 100%Z
            [(cdemo_key, (Some 3, TFin 120%Z, None)); (cdemo_key, (Some 2, TFin 110%Z, None))]
            eq_refl eq_refl cdemo_key (Some 1, TFin 100%Z, None) eq_refl).
Qed.

Definition nv_later : list (key * entry) :=
  [(cdemo_key, (Some 3, TFin 120%Z, None)); (cdemo_key, (Some 2, TFin 110%Z, None))].
Definition nv_c0 : caller :=
  {| c_calls := [{| k_kind := RChange; k_ident := cdemo_ident; k_key := cdemo_key |}]; c_pc := 0;
     c_st := CReleased (cdemo_msg AChanged 1) 100 nv_later |}.
Example C12_released_call_applies :
  nth_error (cls (nv_cs 10)) 0 = Some nv_c0 /\
  cstep_fn nv_cC nv_cimp nv_cW (nv_cs 10) (SWake 0) =
    finish (nv_cs 10) 0 nv_c0 (OSeen (Some (Some 3, TFin 120%Z, None))) (base (nv_cs 10)) (cls (nv_cs 10)).
Proof.
  split; [vm_compute; reflexivity|].
  exact (C12_released_call_sees_its_reply nv_cC nv_cimp nv_cW nv_cb nv_progs (firstn 10 cdemo_steps) 0 nv_c0
           {| k_kind := RChange; k_ident := cdemo_ident; k_key := cdemo_key |} (cdemo_msg AChanged 1) 100%Z nv_later
           (Some 1, TFin 100%Z, None) eq_refl eq_refl eq_refl eq_refl (or_introl eq_refl)).
Qed.
(* the error_read branch of the disjunction *)
Definition nv_progs_e : list (list call) := [[{| k_kind := RRead; k_ident := cdemo_ident; k_key := cdemo_key |}]].
Definition nv_steps_e : list cstep :=
  [SSend 0; SRecv cdemo_err 100; SRxUpdate; SRxSet 0; SRecv (cdemo_msg AUpdate 2) 110; SRxUpdate].
Definition nv_se : cst := crun nv_cC nv_cimp nv_cW (cinit nv_cb nv_progs_e) nv_steps_e.
Definition nv_later_e : list (key * entry) := [(cdemo_key, (Some 2, TFin 110%Z, None))].
Definition nv_c0e : caller :=
  {| c_calls := [{| k_kind := RRead; k_ident := cdemo_ident; k_key := cdemo_key |}]; c_pc := 0;
     c_st := CReleased cdemo_err 100 nv_later_e |}.
Example C12_released_call_applies_error_read :
  is_error_reply cdemo_err = true /\ nth_error (cls nv_se) 0 = Some nv_c0e /\
  cstep_fn nv_cC nv_cimp nv_cW nv_se (SWake 0) =
    finish nv_se 0 nv_c0e (OSeen (Some (Some 2, TFin 110%Z, None))) (base nv_se) (cls nv_se).
Proof.
  split; [reflexivity|]. split; [vm_compute; reflexivity|].
  exact (C12_released_call_sees_its_reply nv_cC nv_cimp nv_cW nv_cb nv_progs_e nv_steps_e 0 nv_c0e
           {| k_kind := RRead; k_ident := cdemo_ident; k_key := cdemo_key |} cdemo_err 100%Z nv_later_e
           (None, TFin 100%Z, Some (s_InternalError, [120%N])) eq_refl eq_refl eq_refl eq_refl (or_intror eq_refl)).
Qed.

Example C12_conc_is_sequential_applies :
  stuck (nv_cs 12) = false /\ length (done (nv_cs 12)) = 3 /\
  rev (done (nv_cs 12)) ++ in_progress (rx (nv_cs 12)) = arrived (firstn 12 cdemo_steps).
Proof.
  split; [reflexivity|]. split; [reflexivity|].
  apply (C12_conc_is_sequential nv_cC nv_cimp nv_cW nv_cb nv_progs (firstn 12 cdemo_steps)). reflexivity.
Qed.

(* ------------------------------------------------------------------ re-entrant callbacks *)
Definition nv_rW : nat -> rbeh :=
  rbeh_of [(0, {| r_acts := [AcReg KNode CEvent 2; AcUnreg (KMod [109%N]) CItem 7]; r_fin := BUnreg |});
           (1, {| r_acts := []; r_fin := BExc |})].
Definition nv_rs : rst := rrun nv_rW (rst0 [0]) [RReg KNode CEvent 1; RReg KNode CEvent 3; RReg (KMod [109%N]) CItem 7].
Definition nv_re : entry := (Some 1, TFin 100%Z, None).
Definition nv_rs' : rst := rcallback nv_rW CEvent KNode re_demo_key nv_re nv_rs.
Definition nv_new : list rinv := firstn (length (rlog nv_rs') - length (rlog nv_rs)) (rlog nv_rs').
Lemma nv_new_eq : rlog nv_rs' = nv_new ++ rlog nv_rs.
Proof. vm_compute. reflexivity. Qed.

Example C12_nonvacuous_reentrant_state :
  rcbs nv_rs CEvent KNode = [1; 3] /\ rcbs nv_rs' CEvent KNode = [3; 2] /\
  rpopped nv_rW CEvent KNode re_demo_key nv_re nv_rs = false /\
  raised 1 nv_new = 1 /\ added 1 CEvent KNode nv_new = 0 /\ added 2 CEvent KNode nv_new = 1.
Proof. vm_compute. repeat split; reflexivity. Qed.

Example C12_reentrant_applies :
  rev (disp_of nv_new) = [(1, CEvent, KNode, re_demo_key, nv_re); (3, CEvent, KNode, re_demo_key, nv_re)] /\
  cnt 1 (rcbs nv_rs' CEvent KNode) <= cnt 1 (rcbs nv_rs CEvent KNode) - raised 1 nv_new.
Proof.
  destruct (C12_callbacks_once_with_reentrant_registration nv_rW CEvent KNode re_demo_key nv_re nv_rs)
    as [new [E [D [_ [_ H]]]]].
  fold nv_rs' in E, H. rewrite nv_new_eq in E. apply app_inv_tail in E. subst new. split.
  - rewrite D. reflexivity.
  - apply H; reflexivity.
Qed.
Example C12_oneshot_gone_applies : ~ In 1 (rcbs nv_rs' CEvent KNode).
Proof.
  destruct (C12_oneshot_gone_after_unregister nv_rW CEvent KNode re_demo_key nv_re nv_rs 1) as [new [E H]].
  fold nv_rs' in E, H. rewrite nv_new_eq in E. apply app_inv_tail in E. subst new.
  apply H; try reflexivity; vm_compute; lia.
Qed.
Example C12_not_registered_applies : forall cn' lv' k' e', ~ In (2, cn', lv', k', e') (disp_of nv_new).
Proof.
  destruct (C12_not_registered_not_dispatched nv_rW CEvent KNode re_demo_key nv_re nv_rs 2) as [new [E H]].
  - vm_compute. intros [H|[H|[]]]; discriminate.
  - fold nv_rs' in E. rewrite nv_new_eq in E. apply app_inv_tail in E. subst new. exact H.
Qed.
Example C12_list_popped_applies : rpopped nv_rW CEvent KNode re_demo_key nv_re nv_rs = false.
Proof.
  apply C12_list_popped_only_by_inner_unregister.
  intro n. destruct n as [|[|n]]; reflexivity.
Qed.
