(* C12 -- witnesses for the two places where the pinned code violates the property (faithful model). *)
From Coq Require Import List Arith ZArith NArith Bool.
Import ListNotations.
Require Import FV.C12.Model.

(* 1. A line of an update action WITHOUT identifier ("update . [2.5, {}]") is about no parameter, yet it is
      accepted for the parameter value of a module that is literally called None
      (frappy/client/__init__.py:459-464 formats the missing identifier into f'{ident}:value'). *)
Definition wd : dsc := [(s_None, [{| a_name := s_value; a_cmd := false; a_dt := 0 |}])].
Definition wm : msg :=
  {| m_action := AUpdate; m_ident := None;
     m_data := DList [{| i_payload := 0; i_kind := IKHashable |}; {| i_payload := 1; i_kind := IKDict TAbsent |}] |}.

Theorem C12_refuted_missing_ident :
  exists (d : dsc) (m : msg) (now : Z) (e : entry),
    (forall mn accs, In (mn, accs) d -> has_colon mn = false) /\
    m_ident m = None /\
    forall W, cache_get (s_None, s_value)
                (cache (run (mk_client [] [] [] d) (fun _ _ => Some 7) W (st0 [0]) [ORecv m now])) = Some e.
Proof.
  exists wd, wm, 100%Z, (Some 7, TFin 100%Z, None). split; [|split].
  - intros mn accs [H|[]]. inversion H. reflexivity.
  - reflexivity.
  - intro W. vm_compute. reflexivity.
Qed.

(* 2. The node validates a written array against the previous value of the parameter and thereby cuts it to
      the previous length (frappy/protocol/dispatcher.py:165 + ArrayOf.validate in frappy/datatypes.py):
      the driver does not receive what the caller passed. *)
Theorem C12_refuted_array_write_truncated :
  exists (prev v : list nat), prev <> [] /\ array_validate prev v <> v.
Proof. exists [0], [1; 2]. split; [discriminate|]. vm_compute. discriminate. Qed.
