(* C12 -- witness for the place where the pinned code violates the property (faithful model). *)
From Coq Require Import List Arith ZArith NArith Bool.
Import ListNotations.
Require Import FV.C12.Model.

(* 1. A line of an update action WITHOUT identifier ("update . [2.5, {}]") is about no parameter, yet it is
      accepted for the parameter value of a module that is literally called None
      (frappy/client/__init__.py:459-464 formats the missing identifier into f'{ident}:value'). *)
Definition wd : dsc := [(s_None, [{| a_name := s_value; a_cmd := false; a_dt := 0 |}])].
Definition wm : msg :=
  {| m_action := AUpdate; m_ident := None;
     m_data := DList [{| i_payload := 0; i_kind := IKHashable |}; {| i_payload := 1; i_kind := IKDict TAbsent |}] |}.

Theorem C12_refuted_missing_ident :
  exists (d : dsc) (m : msg) (now : Z) (e : entry),
    (forall mn accs, In (mn, accs) d -> has_colon mn = false) /\
    m_ident m = None /\
    forall W, cache_get (s_None, s_value)
                (cache (run (mk_client [] [] [] d) (fun _ _ => Some 7) W (st0 [0]) [ORecv m now])) = Some e.
Proof.
  exists wd, wm, 100%Z, (Some 7, TFin 100%Z, None). split; [|split].
  - intros mn accs [H|[]]. inversion H. reflexivity.
  - reflexivity.
  - intro W. vm_compute. reflexivity.
Qed.

(* (A second witness, the node cutting a written array to the length of the previous value, was proved here until
   the repository fixed ArrayOf.validate in commit 672d284; the model follows the code, see Model.array_validate and
   Properties.C12_e2e_array_exact.) *)
