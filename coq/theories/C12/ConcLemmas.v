(* C12 -- lemmas about the concurrent model (ConcModel.v): invariants over ALL step sequences (= all schedules of
   receive thread, transmissions and callers, all peer scripts).  No guard: since repository commit 276f60f a caller
   never writes the cache for an error that came from a reply. *)
From Coq Require Import List Arith ZArith NArith Bool Lia.
Import ListNotations.
Require Import FV.C12.Model FV.C12.Lemmas FV.C12.ConcModel.

(* ------------------------------------------------------------------ list helpers *)
Lemma Forall_upd_nth : forall {A} (P : A -> Prop) f i l,
  Forall P l -> (forall x, P x -> P (f x)) -> Forall P (upd_nth i f l).
Proof.
  intros A P f i l. revert i. induction l as [|x l IH]; intros i H Hf; simpl.
  - destruct i; constructor.
  - inversion H; subst. destruct i; constructor; auto.
Qed.
Lemma nth_error_upd_nth : forall {A} (f : A -> A) i l c,
  nth_error l i = Some c -> nth_error (upd_nth i f l) i = Some (f c).
Proof.
  intros A f i l. revert i. induction l as [|x l IH]; intros [|i] c H; simpl in *; try discriminate.
  - inversion H; reflexivity.
  - apply IH; auto.
Qed.
Lemma last_write_notin : forall k later e, (forall e', ~ In (k, e') later) -> last_write k later e = e.
Proof.
  induction later as [|[k' e'] r IH]; intros e H; simpl; auto.
  destruct (key_eqb k k') eqn:E.
  - apply key_eqb_eq in E. subst. exfalso. apply (H e'). left; reflexivity.
  - apply IH. intros e2 I. apply (H e2). right; exact I.
Qed.
Section Conc.
Variable C : client.
Variable imp : nat -> nat -> option nat.
Variable W : nat -> beh.

(* ------------------------------------------------------------------ the invariant *)
(* a released caller that has not run yet: the cache entry of the parameter of its reply is the import of the reply,
   or the newest write made since *)
Definition rel_ok (ch : list (key * entry)) (c : caller) : Prop :=
  match c_st c with
  | CReleased m now later =>
      forall k e, decode C imp now (cm_msg m) = OUpd k e -> cache_get k ch = Some (last_write k later e)
  | _ => True
  end.
(* the receive thread about to set the event: the cache holds the import of the reply *)
Definition rx_ok (ch : list (key * entry)) (r : rxpc) : Prop :=
  match r with
  | RSet _ m now => forall k e, decode C imp now (cm_msg m) = OUpd k e -> cache_get k ch = Some e
  | _ => True
  end.
Definition inv (s : cst) : Prop :=
  rx_ok (cache (base s)) (rx s) /\ Forall (rel_ok (cache (base s))) (cls s).

Lemma inv_stuck : forall s, inv s -> inv (mk_stuck s).
Proof. intros s H. exact H. Qed.

Lemma note_write_ok : forall ch k e c, rel_ok ch c -> rel_ok (cache_set k e ch) (note_write k e c).
Proof.
  intros ch k e c H. unfold rel_ok, note_write in *. destruct (c_st c) as [| | |m now later] eqn:S; simpl; try rewrite S; auto.
  intros k0 e0 D. simpl. destruct (key_eqb k0 k) eqn:E.
  - apply key_eqb_eq in E. subst. apply cache_get_set_same.
  - rewrite cache_get_set_other.
    + apply H; auto.
    + intro X. subst. rewrite key_eqb_refl in E. discriminate.
Qed.

(* steps of a caller that leave cache and receive thread alone *)
Lemma inv_frame : forall s s' i f,
  inv s -> cache (base s') = cache (base s) -> rx s' = rx s -> cls s' = upd_nth i f (cls s) ->
  (forall c, rel_ok (cache (base s)) (f c)) -> inv s'.
Proof.
  intros s s' i f [H1 H2] Hc Hr Hl Hf. unfold inv. rewrite Hc, Hr, Hl. split; auto.
  apply Forall_upd_nth; auto.
Qed.

Lemma inv_do_match : forall s m now b cl,
  Forall (rel_ok (cache b)) cl ->
  (forall k e, decode C imp now (cm_msg m) = OUpd k e -> cache_get k (cache b) = Some e) ->
  inv (do_match s m now b cl).
Proof.
  intros s m now b cl HF HD. unfold do_match. destruct (find_caller m cl 0) as [i|]; unfold inv; simpl; split; auto.
  apply Forall_upd_nth; auto. intros c0 _. exact I.
Qed.

Lemma inv_wake : forall s i c k m, inv s -> inv (wake C s i c k m).
Proof.
  intros s i c k m H. unfold wake.
  assert (F : forall o, inv (finish s i c o (base s) (cls s))).
  { intro o. eapply (inv_frame s _ i advance); eauto; try reflexivity; try (intro c0; exact I). }
  destruct (is_error_reply m); auto.
  destruct (k_kind k); auto.
  destruct (reply_error C m); auto.
Qed.

Lemma inv_step : forall s x, inv s -> inv (cstep_fn C imp W s x).
Proof.
  intros s x H. destruct x as [m now| |i|i|i]; unfold cstep_fn.
  - (* SRecv *)
    destruct (rx s) eqn:R; try (apply inv_stuck; exact H).
    destruct H as [H1 H2].
    destruct (decode C imp now (cm_msg m)) as [| |k e] eqn:D.
    + apply inv_do_match; auto. intros k e D'. rewrite D in D'. discriminate.
    + unfold inv; simpl. rewrite callback_herr_cache. split; [exact I|auto].
    + unfold inv; simpl. split; [exact I|auto].
  - (* SRxUpdate *)
    destruct (rx s) as [|m now|] eqn:R; try (apply inv_stuck; exact H).
    destruct (decode C imp now (cm_msg m)) as [| |k e] eqn:D; try (apply inv_stuck; exact H).
    destruct H as [H1 H2].
    apply inv_do_match.
    + rewrite update_value_cache. rewrite Forall_forall in *. intros c I.
      apply in_map_iff in I. destruct I as [c0 [E I]]. subst c. apply note_write_ok. apply H2; auto.
    + intros k' e' D'. rewrite D in D'. inversion D'; subst. rewrite update_value_cache. apply cache_get_set_same.
  - (* SRxSet *)
    destruct (rx s) as [| |j m now] eqn:R; try (apply inv_stuck; exact H).
    destruct (Nat.eqb i j); try (apply inv_stuck; exact H).
    destruct H as [H1 H2]. rewrite R in H1. simpl in H1.
    unfold inv; simpl. split; [exact I|].
    apply Forall_upd_nth; auto; intros c _; unfold rel_ok; simpl; exact H1.
  - (* SSend *)
    destruct (nth_error (cls s) i) as [c|]; try (apply inv_stuck; exact H).
    destruct (c_st c); try (apply inv_stuck; exact H).
    destruct (cur_call c); try (apply inv_stuck; exact H).
    eapply (inv_frame s _ i (set_cstate CWaiting)); eauto; try reflexivity; try (intro c0; exact I).
  - (* SWake *)
    destruct (nth_error (cls s) i) as [c|]; try (apply inv_stuck; exact H).
    destruct (c_st c); try (apply inv_stuck; exact H).
    destruct (cur_call c); try (apply inv_stuck; exact H).
    apply inv_wake; exact H.
Qed.

Lemma inv_run : forall steps s, inv s -> inv (crun C imp W s steps).
Proof.
  unfold crun. induction steps as [|x r IH]; intros s H; simpl in *; auto.
  apply IH. apply inv_step; auto.
Qed.

Lemma inv_init : forall b progs, inv (cinit b progs).
Proof.
  intros b progs. unfold inv, cinit; simpl. split; [exact I|].
  rewrite Forall_forall. intros c H. apply in_map_iff in H. destruct H as [p [E _]]. subst c. exact I.
Qed.

(* ------------------------------------------------------------------ released callers *)
Theorem reply_cached_before_release : forall b progs steps,
  let s := crun C imp W (cinit b progs) steps in
  (forall i m now, rx s = RSet i m now ->
     forall k e, decode C imp now (cm_msg m) = OUpd k e -> cache_get k (cache (base s)) = Some e) /\
  (forall i c m now later, nth_error (cls s) i = Some c -> c_st c = CReleased m now later ->
     forall k e, decode C imp now (cm_msg m) = OUpd k e ->
     cache_get k (cache (base s)) = Some (last_write k later e)).
Proof.
  intros b progs steps s.
  destruct (inv_run steps (cinit b progs) (inv_init b progs)) as [H1 H2]. fold s in H1, H2. split.
  - intros i m now R k e D. rewrite R in H1. simpl in H1. apply H1; auto.
  - intros i c m now later Hn Hs k e D. rewrite Forall_forall in H2.
    specialize (H2 c (nth_error_In _ _ Hn)). unfold rel_ok in H2. rewrite Hs in H2. apply H2; auto.
Qed.

(* the release step itself: the caller becomes runnable with the cache holding the import of its reply *)
Theorem release_step : forall s i m now,
  inv s -> rx s = RSet i m now ->
  let s' := cstep_fn C imp W s (SRxSet i) in
  stuck s' = stuck s /\ rx s' = RIdle /\
  (forall c, nth_error (cls s) i = Some c -> nth_error (cls s') i = Some (set_cstate (CReleased m now []) c)) /\
  (forall k e, decode C imp now (cm_msg m) = OUpd k e -> cache_get k (cache (base s')) = Some e).
Proof.
  intros s i m now [H1 H2] R. simpl. rewrite R, Nat.eqb_refl. simpl. repeat split; auto.
  - intros c Hn. apply nth_error_upd_nth; auto.
  - rewrite R in H1. exact H1.
Qed.

Lemma released_ok : forall s i c m now later,
  inv s -> nth_error (cls s) i = Some c -> c_st c = CReleased m now later ->
  forall k e, decode C imp now (cm_msg m) = OUpd k e -> cache_get k (cache (base s)) = Some (last_write k later e).
Proof.
  intros s i c m now later [_ H2] Hn Hs k e D. rewrite Forall_forall in H2.
  specialize (H2 c (nth_error_In _ _ Hn)). unfold rel_ok in H2. rewrite Hs in H2. apply H2; auto.
Qed.

(* an error_read reply as the sequential model decodes it is the error get_reply raises *)
Lemma decode_errread : forall now m k e,
  m_action (cm_msg m) = AErrRead -> decode C imp now (cm_msg m) = OUpd k e ->
  exists ts err, e = (None, ts, Some err) /\ reply_error C m = Some err.
Proof.
  intros now [mm o] k e A D. simpl in *. unfold reply_error. simpl. unfold decode in D. rewrite A in D. simpl in D.
  destruct (m_data mm) as [| |items]; try discriminate.
  { destruct (resolve C AErrRead (m_ident mm)); discriminate. }
  destruct (resolve C AErrRead (m_ident mm)) as [k0|]; try discriminate.
  destruct items as [|name [|text [|[p2 [t| | |]] r]]]; simpl in D; try discriminate.
  simpl.
  destruct (make_error C (i_kind name) (i_kind text)) as [err|]; try discriminate.
  destruct (tmin now t) as [ts|]; try discriminate.
  destruct (assoc_last key_eqb k0 (params C)); try discriminate.
  inversion D; subst. exists ts, err. auto.
Qed.

(* what a call sees when it returns: after reply / changed, and after error_read for a read, the entry made by the
   receive thread from the answering line -- or from the newest line for the parameter processed since; the caller
   itself changes neither cache nor callbacks (no second update, one round of callbacks per message) *)
Theorem wake_sees_reply : forall s i c k m now later e,
  inv s -> nth_error (cls s) i = Some c -> c_st c = CReleased m now later -> cur_call c = Some k ->
  decode C imp now (cm_msg m) = OUpd (k_key k) e -> (is_error_reply m = false \/ k_kind k = RRead) ->
  cstep_fn C imp W s (SWake i) =
  finish s i c (OSeen (Some (last_write (k_key k) later e))) (base s) (cls s).
Proof.
  intros s i c k m now later e H Hn Hs Hc D Hk.
  simpl. rewrite Hn, Hs, Hc. unfold wake.
  rewrite (released_ok s i c m now later H Hn Hs _ _ D).
  destruct (is_error_reply m) eqn:IE; auto.
  destruct Hk as [X|K]; [discriminate|]. rewrite K.
  unfold is_error_reply in IE. destruct (m_action (cm_msg m)) eqn:A; try discriminate.
  - destruct (decode_errread now m _ _ A D) as [ts [err [_ RE]]]. rewrite RE. reflexivity.
  - unfold decode in D. rewrite A in D. simpl in D. destruct (m_data (cm_msg m)); discriminate.
Qed.

(* ------------------------------------------------------------------ the sequential state of every schedule *)
Lemma done_ops_cons : forall m now d, done_ops ((m, now) :: d) = done_ops d ++ [ORecv (cm_msg m) now].
Proof. intros. unfold done_ops. simpl. rewrite map_app. reflexivity. Qed.

Definition seq_ok (b0 : st) (s : cst) : Prop := base s = run C imp W b0 (done_ops (done s)).

Lemma seq_recv : forall b0 s m now b,
  seq_ok b0 s -> b = recv C imp W (base s) (cm_msg m) now ->
  b = run C imp W b0 (done_ops ((m, now) :: done s)).
Proof.
  intros b0 s m now b H E. rewrite done_ops_cons. unfold run. rewrite fold_left_app. simpl.
  unfold seq_ok, run in H. rewrite <- H. exact E.
Qed.

Lemma seq_do_match : forall b0 s m now b cl,
  seq_ok b0 s -> b = recv C imp W (base s) (cm_msg m) now -> seq_ok b0 (do_match s m now b cl).
Proof.
  intros b0 s m now b cl H E. unfold do_match. destruct (find_caller m cl 0); unfold seq_ok; simpl;
    eapply seq_recv; eauto.
Qed.

Lemma wake_base_done : forall s i c k m,
  base (wake C s i c k m) = base s /\ done (wake C s i c k m) = done s /\ rx (wake C s i c k m) = rx s /\
  stuck (wake C s i c k m) = stuck s.
Proof.
  intros. unfold wake.
  destruct (is_error_reply m); auto.
  destruct (k_kind k); auto.
  destruct (reply_error C m); auto.
Qed.

Lemma seq_step : forall b0 s x, seq_ok b0 s -> seq_ok b0 (cstep_fn C imp W s x).
Proof.
  intros b0 s x H. destruct x as [m now| |i|i|i]; unfold cstep_fn.
  - destruct (rx s); try exact H.
    destruct (decode C imp now (cm_msg m)) as [| |k e] eqn:D.
    + apply seq_do_match; auto. unfold recv. rewrite D. reflexivity.
    + unfold seq_ok; simpl. eapply seq_recv; eauto. unfold recv. rewrite D. reflexivity.
    + exact H.
  - destruct (rx s) as [|m now|]; try exact H.
    destruct (decode C imp now (cm_msg m)) as [| |k e] eqn:D; try exact H.
    apply seq_do_match; auto. unfold recv. rewrite D. reflexivity.
  - destruct (rx s) as [| |j m now]; try exact H. destruct (Nat.eqb i j); exact H.
  - destruct (nth_error (cls s) i) as [c|]; try exact H.
    destruct (c_st c); try exact H. destruct (cur_call c); exact H.
  - destruct (nth_error (cls s) i) as [c|]; try exact H.
    destruct (c_st c); try exact H. destruct (cur_call c) as [k|]; try exact H.
    unfold seq_ok. destruct (wake_base_done s i c k m) as [-> [-> _]]. exact H.
Qed.

(* for every schedule: cache, callback lists and invocation log are those of the sequential model run over the
   completely processed lines in arrival order -- so every theorem about [run] (cache = last message, every callback
   exactly once per accepted line, arrival order) holds for the concurrent client as well *)
Theorem conc_is_sequential : forall b progs steps,
  let s := crun C imp W (cinit b progs) steps in
  base s = run C imp W b (done_ops (done s)).
Proof.
  intros b progs steps. simpl.
  assert (G : forall st s0, seq_ok b s0 -> seq_ok b (crun C imp W s0 st)).
  { unfold crun. induction st as [|x r IH]; intros s0 H0; simpl in *; auto.
    apply IH. apply seq_step; auto. }
  apply G. reflexivity.
Qed.

(* ------------------------------------------------------------------ [done] is the arrival order *)
Definition arrived (steps : list cstep) : list (cmsg * Z) :=
  flat_map (fun x => match x with SRecv m now => [(m, now)] | _ => [] end) steps.
Definition in_progress (r : rxpc) : list (cmsg * Z) :=
  match r with RUpdate m now => [(m, now)] | _ => [] end.

Lemma stuck_step : forall s x, stuck s = true -> stuck (cstep_fn C imp W s x) = true.
Proof.
  intros s x H. destruct x as [m now| |i|i|i]; unfold cstep_fn.
  - destruct (rx s); auto. destruct (decode C imp now (cm_msg m)); auto.
    unfold do_match. destruct (find_caller m (cls s) 0); auto.
  - destruct (rx s) as [|m now|]; auto. destruct (decode C imp now (cm_msg m)); auto.
    unfold do_match. destruct (find_caller _ _ 0); auto.
  - destruct (rx s) as [| |j m now]; auto. destruct (Nat.eqb i j); auto.
  - destruct (nth_error (cls s) i) as [c|]; auto. destruct (c_st c); auto. destruct (cur_call c); auto.
  - destruct (nth_error (cls s) i) as [c|]; auto. destruct (c_st c); auto. destruct (cur_call c) as [k|]; auto.
    destruct (wake_base_done s i c k m) as [_ [_ [_ ->]]]. exact H.
Qed.

Definition arr_ok (pre : list (cmsg * Z)) (s : cst) : Prop := rev (done s) ++ in_progress (rx s) = pre.

Lemma arr_step : forall pre s x,
  arr_ok pre s -> stuck (cstep_fn C imp W s x) = false ->
  arr_ok (pre ++ arrived [x]) (cstep_fn C imp W s x).
Proof.
  intros pre s x H NS. unfold arr_ok in *.
  destruct x as [m now| |i|i|i]; unfold cstep_fn in *; simpl arrived; rewrite ?app_nil_r.
  - destruct (rx s) eqn:R; try (simpl in NS; discriminate).
    simpl in H. rewrite app_nil_r in H.
    destruct (decode C imp now (cm_msg m)).
    + unfold do_match. destruct (find_caller m (cls s) 0); simpl; rewrite app_nil_r, H; reflexivity.
    + simpl. rewrite app_nil_r, H. reflexivity.
    + simpl. rewrite H. reflexivity.
  - destruct (rx s) as [|m now|] eqn:R; try (simpl in NS; discriminate).
    destruct (decode C imp now (cm_msg m)); try (simpl in NS; discriminate).
    simpl in H. unfold do_match. destruct (find_caller _ _ 0); simpl; rewrite app_nil_r; exact H.
  - destruct (rx s) as [| |j m now] eqn:R; try (simpl in NS; discriminate).
    destruct (Nat.eqb i j); try (simpl in NS; discriminate). simpl in *. exact H.
  - destruct (nth_error (cls s) i) as [c|]; try (simpl in NS; discriminate).
    destruct (c_st c); try (simpl in NS; discriminate). destruct (cur_call c); try (simpl in NS; discriminate).
    simpl. exact H.
  - destruct (nth_error (cls s) i) as [c|]; try (simpl in NS; discriminate).
    destruct (c_st c); try (simpl in NS; discriminate). destruct (cur_call c) as [k|]; try (simpl in NS; discriminate).
    destruct (wake_base_done s i c k m) as [_ [-> [-> _]]]. exact H.
Qed.

(* in a run that followed the implementation (never stuck) the processed lines plus the one in progress are exactly
   the received lines, in the order of their arrival *)
Theorem done_is_arrival_order : forall b progs steps,
  let s := crun C imp W (cinit b progs) steps in
  stuck s = false -> rev (done s) ++ in_progress (rx s) = arrived steps.
Proof.
  intros b progs steps. simpl.
  assert (G : forall st pre s0, arr_ok pre s0 -> stuck (crun C imp W s0 st) = false ->
                                arr_ok (pre ++ arrived st) (crun C imp W s0 st)).
  { unfold crun. induction st as [|x r IH]; intros pre s0 H0 NS; simpl in *.
    - rewrite app_nil_r. exact H0.
    - assert (NS1 : stuck (cstep_fn C imp W s0 x) = false).
      { destruct (stuck (cstep_fn C imp W s0 x)) eqn:E; auto.
        assert (X : stuck (fold_left (cstep_fn C imp W) r (cstep_fn C imp W s0 x)) = true).
        { clear IH NS. revert E. generalize (cstep_fn C imp W s0 x). induction r as [|y r IHr]; intros s1 E; simpl; auto.
          apply IHr. apply stuck_step; auto. }
        rewrite X in NS. discriminate. }
      specialize (IH (pre ++ arrived [x]) _ (arr_step pre s0 x H0 NS1) NS).
      unfold arrived in *. simpl. simpl in IH. rewrite app_nil_r in IH. rewrite <- app_assoc in IH. exact IH. }
  intro NS. apply (G steps [] (cinit b progs)); auto. reflexivity.
Qed.

End Conc.
