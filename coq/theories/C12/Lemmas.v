(* C12 -- lemmas: frame properties of the callback machinery, cache as a pure fold over the messages,
   exactly-once invocation, timestamp invariant, identifier resolution. *)
From Coq Require Import List Arith ZArith NArith Bool Lia.
Import ListNotations.
Require Import FV.C12.Model.

(* ------------------------------------------------------------------ equalities *)
Lemma str_eqb_eq : forall a b, str_eqb a b = true <-> a = b.
Proof.
  induction a as [|x a IH]; destruct b as [|y b]; simpl; split; intro H; try discriminate; auto.
  - apply andb_true_iff in H. destruct H as [H1 H2]. apply N.eqb_eq in H1. apply IH in H2. subst; auto.
  - inversion H; subst. apply andb_true_iff. split; [apply N.eqb_refl|apply IH; auto].
Qed.
Lemma str_eqb_refl : forall a, str_eqb a a = true.
Proof. intro a. apply str_eqb_eq. reflexivity. Qed.
Lemma key_eqb_eq : forall a b, key_eqb a b = true <-> a = b.
Proof.
  intros [a1 a2] [b1 b2]. unfold key_eqb. simpl. rewrite andb_true_iff, !str_eqb_eq.
  split; [intros [-> ->]; auto|intro H; inversion H; auto].
Qed.
Lemma key_eqb_refl : forall a, key_eqb a a = true.
Proof. intro a. apply key_eqb_eq. reflexivity. Qed.
Lemma key_eqb_neq : forall a b, key_eqb a b = false <-> a <> b.
Proof.
  intros a b. split.
  - intros H E. apply key_eqb_eq in E. congruence.
  - intro H. destruct (key_eqb a b) eqn:E; auto. apply key_eqb_eq in E. contradiction.
Qed.
Lemma ckey_eqb_eq : forall a b, ckey_eqb a b = true <-> a = b.
Proof.
  intros [|m|m p] [|m'|m' p']; simpl; split; intro H; try discriminate; auto.
  - apply str_eqb_eq in H. subst; auto.
  - inversion H. apply str_eqb_refl.
  - apply andb_true_iff in H. destruct H as [H1 H2]. apply str_eqb_eq in H1, H2. subst; auto.
  - inversion H. rewrite !str_eqb_refl. reflexivity.
Qed.
Lemma cbname_eqb_eq : forall a b, cbname_eqb a b = true <-> a = b.
Proof. intros [] []; simpl; split; intro H; try discriminate; auto. Qed.

(* ------------------------------------------------------------------ cache primitives *)
Lemma cache_get_set_same : forall k e l, cache_get k (cache_set k e l) = Some e.
Proof.
  induction l as [|[k' e'] l IH]; simpl.
  - rewrite key_eqb_refl. reflexivity.
  - destruct (key_eqb k k') eqn:E; simpl; rewrite ?key_eqb_refl, ?E; auto.
Qed.
Lemma cache_get_set_other : forall k k' e l, k <> k' -> cache_get k' (cache_set k e l) = cache_get k' l.
Proof.
  induction l as [|[k2 e2] l IH]; simpl; intro N.
  - assert (key_eqb k' k = false) as -> by (apply key_eqb_neq; auto). reflexivity.
  - destruct (key_eqb k k2) eqn:E; simpl.
    + apply key_eqb_eq in E. subst k2.
      assert (key_eqb k' k = false) as -> by (apply key_eqb_neq; auto). reflexivity.
    + destruct (key_eqb k' k2); auto.
Qed.
Lemma cache_set_In : forall k e l k' e', In (k', e') (cache_set k e l) -> (k', e') = (k, e) \/ In (k', e') l.
Proof.
  induction l as [|[k2 e2] l IH]; simpl; intros k' e' H.
  - destruct H as [H|[]]. left; auto.
  - destruct (key_eqb k k2); simpl in H.
    + destruct H as [H|H]; [left; auto|right; right; auto].
    + destruct H as [H|H]; [right; left; auto|]. apply IH in H. destruct H; auto.
Qed.

(* ------------------------------------------------------------------ frame lemmas: callbacks never touch the cache *)
Lemma run_herr_cache : forall W copy s, cache (run_herr W copy s) = cache s.
Proof.
  induction copy as [|c r IH]; intro s; simpl; auto.
  destruct (W (ctr s)); rewrite IH; reflexivity.
Qed.
Lemma callback_herr_cache : forall W s, cache (callback_herr W s) = cache s.
Proof. intros. apply run_herr_cache. Qed.
Lemma run_upd_cache : forall W cn k pk e copy s, cache (run_upd W cn k pk e copy s) = cache s.
Proof.
  induction copy as [|c r IH]; intro s; simpl; auto.
  destruct (W (ctr s)); rewrite IH; simpl; auto. rewrite callback_herr_cache. reflexivity.
Qed.
Lemma callback_cache : forall W cn k pk e s, cache (callback W cn k pk e s) = cache s.
Proof. intros. apply run_upd_cache. Qed.
Lemma levels_cache : forall W cn pk e s, cache (levels W cn pk e s) = cache s.
Proof. intros. unfold levels. rewrite !callback_cache. reflexivity. Qed.
Lemma update_value_cache : forall W pk e s, cache (update_value W pk e s) = cache_set pk e (cache s).
Proof. intros. unfold update_value. rewrite !levels_cache. reflexivity. Qed.
Lemma run_reg_cache : forall W cn c args s b, cache (fst (run_reg W cn c args s b)) = cache s.
Proof.
  induction args as [|[pk e] r IH]; intros s b; simpl; auto.
  rewrite IH. reflexivity.
Qed.
Lemma register_cache : forall W s k cn c, cache (register W s k cn c) = cache s.
Proof.
  intros. unfold register.
  destruct (run_reg W cn c _ s true) as [s1 ap] eqn:E.
  assert (cache s1 = cache s) by (change s1 with (fst (s1, ap)); rewrite <- E; apply run_reg_cache).
  destruct ap; simpl; auto.
Qed.

(* the cache after any history is a pure function of the received messages *)
Definition cache_step (C : client) (imp : nat -> nat -> option nat) (c : list (key * entry)) (o : op) : list (key * entry) :=
  match o with
  | ORecv m now => match decode C imp now m with OUpd k e => cache_set k e c | _ => c end
  | _ => c
  end.
Lemma step_cache : forall C imp W s o, cache (step C imp W s o) = cache_step C imp (cache s) o.
Proof.
  intros. destruct o as [m now|k cn c|k cn c]; simpl.
  - unfold recv. destruct (decode C imp now m); auto using callback_herr_cache, update_value_cache.
  - apply register_cache.
  - reflexivity.
Qed.
Lemma run_cache : forall C imp W ops s, cache (run C imp W s ops) = fold_left (cache_step C imp) ops (cache s).
Proof.
  induction ops as [|o ops IH]; intro s; simpl; auto.
  unfold run in *. simpl. rewrite IH, step_cache. reflexivity.
Qed.

(* specification: the meaning of the last message accepted for parameter k *)
Definition last_upd (C : client) (imp : nat -> nat -> option nat) (k : key) (acc : option entry) (o : op) : option entry :=
  match o with
  | ORecv m now => match decode C imp now m with
                   | OUpd k' e => if key_eqb k' k then Some e else acc
                   | _ => acc
                   end
  | _ => acc
  end.
Lemma cache_is_last : forall C imp k ops c,
  cache_get k (fold_left (cache_step C imp) ops c) = fold_left (last_upd C imp k) ops (cache_get k c).
Proof.
  induction ops as [|o ops IH]; intro c; simpl; auto.
  rewrite IH. f_equal.
  destruct o as [m now| |]; simpl; auto.
  destruct (decode C imp now m) as [| |k' e]; auto.
  destruct (key_eqb k' k) eqn:E.
  - apply key_eqb_eq in E. subst. apply cache_get_set_same.
  - apply cache_get_set_other. apply key_eqb_neq. auto.
Qed.

(* a message that is not accepted changes nothing, and what follows is processed as if it had not arrived *)
Lemma skipped_cache : forall C imp W s1 ops1 m now ops2,
  (forall k e, decode C imp now m <> OUpd k e) ->
  cache (run C imp W s1 (ops1 ++ ORecv m now :: ops2)) = cache (run C imp W s1 (ops1 ++ ops2)).
Proof.
  intros. rewrite !run_cache, !fold_left_app. simpl.
  destruct (decode C imp now m) as [| |k e] eqn:E; auto. exfalso. eapply H; eauto.
Qed.

(* ------------------------------------------------------------------ timestamps *)
Definition ts_le (t : tnum) (now : Z) : Prop :=
  match t with TFin z => (z <= now)%Z | TNInf => True | _ => False end.
Lemma tmin_le : forall now t ts, tmin now t = Some ts -> ts_le ts now.
Proof.
  intros now t ts H. destruct t as [|[z| | |]|]; simpl in H; inversion H; subst; simpl; auto; try lia.
  destruct (Z.ltb z now) eqn:E; [apply Z.ltb_lt in E|]; lia.
Qed.
Lemma decode_ts : forall C imp now m k v ts er, decode C imp now m = OUpd k (v, ts, er) -> ts_le ts now.
Proof.
  intros C imp now m k v ts er H. unfold decode in H.
  destruct (m_data m) as [| |items]; try discriminate;
    destruct (negb (is_update_message (m_action m))); try discriminate;
    destruct (resolve C (m_action m) (m_ident m)); try discriminate.
  destruct (is_error_action (m_action m)).
  - destruct (nth_error items 2) as [[p2 [t| | |]]|]; try discriminate.
    destruct (nth_error items 0); try discriminate. destruct (nth_error items 1); try discriminate.
    destruct (make_error C _ _); try discriminate.
    destruct (tmin now t) eqn:T; try discriminate.
    destruct (assoc_last key_eqb k0 (params C)); try discriminate.
    inversion H; subst. eapply tmin_le; eauto.
  - destruct (nth_error items 1) as [[p2 [t| | |]]|]; try discriminate.
    destruct (nth_error items 0); try discriminate.
    destruct (tmin now t) eqn:T; try discriminate.
    destruct (assoc_last key_eqb k0 (params C)); try discriminate.
    destruct (imp _ _); try discriminate.
    inversion H; subst. eapply tmin_le; eauto.
Qed.
Lemma ts_le_mono : forall t a b, ts_le t a -> (a <= b)%Z -> ts_le t b.
Proof. intros [z| | |] a b H L; simpl in *; auto; lia. Qed.

Definition cache_le (c : list (key * entry)) (now : Z) : Prop :=
  forall k v ts er, In (k, (v, ts, er)) c -> ts_le ts now.
(* the clock of the receiving thread does not go backwards *)
Fixpoint clock_ok (now0 : Z) (ops : list op) : Prop :=
  match ops with
  | [] => True
  | ORecv _ now :: r => (now0 <= now)%Z /\ clock_ok now r
  | _ :: r => clock_ok now0 r
  end.
Fixpoint final_now (now0 : Z) (ops : list op) : Z :=
  match ops with
  | [] => now0
  | ORecv _ now :: r => final_now now r
  | _ :: r => final_now now0 r
  end.
Lemma timestamps_not_future : forall C imp ops c now0,
  cache_le c now0 -> clock_ok now0 ops -> cache_le (fold_left (cache_step C imp) ops c) (final_now now0 ops).
Proof.
  induction ops as [|o ops IH]; intros c now0 Hc Hk; simpl; auto.
  destruct o as [m now|k cn cb|k cn cb]; simpl in *; [|apply IH; auto|apply IH; auto].
  destruct Hk as [L Hk]. apply IH; auto.
  assert (cache_le c now) as Hc' by (intros k v ts er I; eapply ts_le_mono; [eapply Hc; eauto|auto]).
  destruct (decode C imp now m) as [| |k [[v ts] er]] eqn:D; auto.
  intros k' v' ts' er' I. apply cache_set_In in I. destruct I as [I|I].
  - inversion I; subst. eapply decode_ts; eauto.
  - eapply Hc'; eauto.
Qed.

(* ------------------------------------------------------------------ callbacks: every registered one exactly once *)
Definition is_upd (i : inv) : bool := match i with InvUpd _ _ _ _ => true | InvErr _ => false end.

Lemma set_cbs_other : forall s cn k l cn' k', (cn', k') <> (cn, k) -> cbs (set_cbs s cn k l) cn' k' = cbs s cn' k'.
Proof.
  intros. simpl. destruct (cbname_eqb cn cn') eqn:E1; simpl; auto.
  destruct (ckey_eqb k k') eqn:E2; auto.
  apply cbname_eqb_eq in E1. apply ckey_eqb_eq in E2. subst. contradiction.
Qed.

Lemma run_herr_spec : forall W copy s, exists new,
  log (run_herr W copy s) = new ++ log s /\ filter is_upd new = [] /\
  (forall cn k, cn <> CHErr -> cbs (run_herr W copy s) cn k = cbs s cn k).
Proof.
  induction copy as [|c r IH]; intro s; simpl.
  - exists []. auto.
  - destruct (W (ctr s)) eqn:B;
    (match goal with |- context [run_herr W r ?S] => destruct (IH S) as [new [L [F Fr]]] end;
     exists (new ++ [InvErr c]); split; [|split];
     [ rewrite L; simpl; rewrite <- app_assoc; reflexivity
     | rewrite filter_app, F; reflexivity
     | intros cn k N; rewrite Fr by auto;
       try (rewrite set_cbs_other by (intro E; inversion E; contradiction)); reflexivity ]).
Qed.

Lemma run_upd_spec : forall W cn k pk e copy s, cn <> CHErr -> exists new,
  log (run_upd W cn k pk e copy s) = new ++ log s /\
  filter is_upd new = rev (map (fun c => InvUpd c cn pk e) copy) /\
  (forall cn' k', cn' <> CHErr -> (cn', k') <> (cn, k) -> cbs (run_upd W cn k pk e copy s) cn' k' = cbs s cn' k').
Proof.
  induction copy as [|c r IH]; intros s N; simpl.
  - exists []. auto.
  - destruct (W (ctr s)) eqn:B.
    + match goal with |- context [run_upd W cn k pk e r ?S] => destruct (IH S N) as [new [L [F Fr]]] end.
      exists (new ++ [InvUpd c cn pk e]). split; [|split].
      * rewrite L. simpl. rewrite <- app_assoc. reflexivity.
      * rewrite filter_app, F. reflexivity.
      * intros. rewrite Fr by auto. reflexivity.
    + match goal with |- context [run_upd W cn k pk e r ?S] => destruct (IH S N) as [new [L [F Fr]]] end.
      exists (new ++ [InvUpd c cn pk e]). split; [|split].
      * rewrite L. simpl. rewrite <- app_assoc. reflexivity.
      * rewrite filter_app, F. reflexivity.
      * intros. rewrite Fr by auto. rewrite set_cbs_other by auto. reflexivity.
    + match goal with |- context [callback_herr W ?S] =>
        destruct (run_herr_spec W (cbs S CHErr KNode) S) as [nh [Lh [Fh Frh]]] end.
      match goal with |- context [run_upd W cn k pk e r ?S] => destruct (IH S N) as [new [L [F Fr]]] end.
      exists (new ++ nh ++ [InvUpd c cn pk e]). split; [|split].
      * rewrite L. unfold callback_herr. rewrite Lh. simpl. rewrite <- !app_assoc. reflexivity.
      * rewrite !filter_app, F, Fh. reflexivity.
      * intros. rewrite Fr by auto. unfold callback_herr. rewrite Frh by auto. reflexivity.
Qed.

Lemma callback_spec : forall W cn k pk e s, cn <> CHErr -> exists new,
  log (callback W cn k pk e s) = new ++ log s /\
  rev (filter is_upd new) = map (fun c => InvUpd c cn pk e) (cbs s cn k) /\
  (forall cn' k', cn' <> CHErr -> (cn', k') <> (cn, k) -> cbs (callback W cn k pk e s) cn' k' = cbs s cn' k').
Proof.
  intros. destruct (run_upd_spec W cn k pk e (cbs s cn k) s H) as [new [L [F Fr]]].
  exists new. split; [exact L|split; [|exact Fr]]. rewrite F, rev_involutive. reflexivity.
Qed.

Definition level_lists (s : st) (cn : cbname) (pk : key) : list nat :=
  cbs s cn KNode ++ cbs s cn (KMod (fst pk)) ++ cbs s cn (KPar (fst pk) (snd pk)).

Lemma levels_spec : forall W cn pk e s, cn <> CHErr -> exists new,
  log (levels W cn pk e s) = new ++ log s /\
  rev (filter is_upd new) = map (fun c => InvUpd c cn pk e) (level_lists s cn pk) /\
  (forall cn' k', cn' <> CHErr -> cn' <> cn -> cbs (levels W cn pk e s) cn' k' = cbs s cn' k').
Proof.
  intros W cn pk e s N. unfold levels, level_lists.
  destruct (callback_spec W cn KNode pk e s N) as [n1 [L1 [F1 R1]]].
  set (s1 := callback W cn KNode pk e s) in *.
  destruct (callback_spec W cn (KMod (fst pk)) pk e s1 N) as [n2 [L2 [F2 R2]]].
  set (s2 := callback W cn (KMod (fst pk)) pk e s1) in *.
  destruct (callback_spec W cn (KPar (fst pk) (snd pk)) pk e s2 N) as [n3 [L3 [F3 R3]]].
  exists (n3 ++ n2 ++ n1). split; [|split].
  - rewrite L3, L2, L1, <- !app_assoc. reflexivity.
  - rewrite !filter_app, !rev_app_distr, F1, F2, F3, !map_app, <- !app_assoc.
    assert (cbs s1 cn (KMod (fst pk)) = cbs s cn (KMod (fst pk))) as -> by (apply R1; auto; discriminate).
    assert (cbs s2 cn (KPar (fst pk) (snd pk)) = cbs s cn (KPar (fst pk) (snd pk))) as ->.
    { rewrite R2 by (auto; discriminate). apply R1; auto; discriminate. }
    reflexivity.
  - intros cn' k' N1 N2. rewrite R3, R2, R1; auto; intro E; inversion E; congruence.
Qed.

Lemma update_value_spec : forall W pk e s, exists new,
  log (update_value W pk e s) = new ++ log s /\
  rev (filter is_upd new) = map (fun c => InvUpd c CItem pk e) (level_lists s CItem pk)
                            ++ map (fun c => InvUpd c CEvent pk e) (level_lists s CEvent pk).
Proof.
  intros. unfold update_value.
  set (s0 := set_cache s (cache_set pk e (cache s))).
  destruct (levels_spec W CItem pk e s0) as [n1 [L1 [F1 R1]]]; [discriminate|].
  set (s1 := levels W CItem pk e s0) in *.
  destruct (levels_spec W CEvent pk e s1) as [n2 [L2 [F2 R2]]]; [discriminate|].
  exists (n2 ++ n1). split.
  - rewrite L2, L1, <- app_assoc. reflexivity.
  - rewrite filter_app, rev_app_distr, F1, F2. f_equal.
    unfold level_lists. rewrite !R1 by discriminate. reflexivity.
Qed.

(* a line that is not accepted invokes no update callback and leaves their registrations alone *)
Lemma recv_not_accepted : forall C imp W s m now,
  (forall k e, decode C imp now m <> OUpd k e) -> exists new,
  log (recv C imp W s m now) = new ++ log s /\ filter is_upd new = [] /\
  cache (recv C imp W s m now) = cache s /\
  (forall cn k, cn <> CHErr -> cbs (recv C imp W s m now) cn k = cbs s cn k).
Proof.
  intros. unfold recv. destruct (decode C imp now m) as [| |k e] eqn:D.
  - exists []. auto.
  - destruct (run_herr_spec W (cbs s CHErr KNode) s) as [new [L [F R]]].
    exists new. unfold callback_herr. rewrite run_herr_cache. auto.
  - exfalso. eapply H; eauto.
Qed.

Lemma recv_accepted : forall C imp W s m now k e,
  decode C imp now m = OUpd k e -> exists new,
  log (recv C imp W s m now) = new ++ log s /\
  rev (filter is_upd new) = map (fun c => InvUpd c CItem k e) (level_lists s CItem k)
                            ++ map (fun c => InvUpd c CEvent k e) (level_lists s CEvent k) /\
  cache_get k (cache (recv C imp W s m now)) = Some e.
Proof.
  intros. unfold recv. rewrite H.
  destruct (update_value_spec W k e s) as [new [L F]].
  exists new. split; [exact L|split; [exact F|]].
  rewrite update_value_cache. apply cache_get_set_same.
Qed.

(* the log only grows: invocations of earlier messages stay in front (arrival order) *)
Lemma run_reg_log : forall W cn c args s b,
  log (fst (run_reg W cn c args s b)) = rev (map (fun a => InvUpd c cn (fst a) (snd a)) args) ++ log s /\
  cbs (fst (run_reg W cn c args s b)) = cbs s.
Proof.
  induction args as [|[pk e] r IH]; intros s b; simpl; auto.
  match goal with |- context [run_reg W cn c r ?S ?B] => destruct (IH S B) as [L R] end.
  rewrite L, R. simpl. rewrite <- app_assoc. auto.
Qed.
Lemma step_log_grows : forall C imp W s o, exists new, log (step C imp W s o) = new ++ log s.
Proof.
  intros. destruct o as [m now|k cn c|k cn c]; simpl.
  - unfold recv. destruct (decode C imp now m) as [| |k e].
    + exists []. reflexivity.
    + destruct (run_herr_spec W (cbs s CHErr KNode) s) as [new [L _]]. exists new. exact L.
    + destruct (update_value_spec W k e s) as [new [L _]]. exists new. exact L.
  - unfold register.
    destruct (run_reg W cn c _ s true) as [s1 ap] eqn:E.
    match type of E with run_reg W cn c ?A s true = _ => destruct (run_reg_log W cn c A s true) as [L _] end.
    rewrite E in L. simpl in L. destruct ap; simpl; eexists; exact L.
  - exists []. reflexivity.
Qed.
Lemma run_log_grows : forall C imp W ops s, exists new, log (run C imp W s ops) = new ++ log s.
Proof.
  induction ops as [|o ops IH]; intro s; simpl.
  - exists []. reflexivity.
  - destruct (step_log_grows C imp W s o) as [n1 L1].
    destruct (IH (step C imp W s o)) as [n2 L2]. exists (n2 ++ n1).
    unfold run in *. simpl. rewrite L2, L1, app_assoc. reflexivity.
Qed.

(* registration: immediate calls with exactly the cached entries the key selects, in cache order *)
Lemma register_spec : forall W s k cn c, cn <> CHErr ->
  log (register W s k cn c) = rev (map (fun a => InvUpd c cn (fst a) (snd a)) (reg_args s k)) ++ log s /\
  (forall cn' k', (cn', k') <> (cn, k) -> cbs (register W s k cn c) cn' k' = cbs s cn' k') /\
  (cbs (register W s k cn c) cn k = cbs s cn k ++ [c] \/ cbs (register W s k cn c) cn k = cbs s cn k).
Proof.
  intros W s k cn c N. unfold register.
  assert ((match cn with CHErr => [] | _ => reg_args s k end) = reg_args s k) as -> by (destruct cn; auto; contradiction).
  destruct (run_reg W cn c (reg_args s k) s true) as [s1 ap] eqn:E.
  destruct (run_reg_log W cn c (reg_args s k) s true) as [L R]. rewrite E in L, R. simpl in L, R.
  destruct ap; simpl; rewrite ?R; split; auto; split; auto.
  - intros cn' k' NE. destruct (cbname_eqb cn cn') eqn:E1; simpl; auto.
    destruct (ckey_eqb k k') eqn:E2; auto.
    apply cbname_eqb_eq in E1. apply ckey_eqb_eq in E2. subst. contradiction.
  - left. assert (cbname_eqb cn cn = true) as -> by (apply cbname_eqb_eq; auto).
    assert (ckey_eqb k k = true) as -> by (apply ckey_eqb_eq; auto). reflexivity.
Qed.

(* ------------------------------------------------------------------ identifier -> (module, parameter) *)
Lemma assoc_last_In : forall {V} k (l : list (str * V)) v, assoc_last str_eqb k l = Some v -> In (k, v) l.
Proof.
  induction l as [|[k' v'] l IH]; simpl; intros v H; [discriminate|].
  destruct (assoc_last str_eqb k l) eqn:E.
  - inversion H; subst. right. apply IH. reflexivity.
  - destruct (str_eqb k k') eqn:E2; [|discriminate]. inversion H; subst.
    apply str_eqb_eq in E2. subst. left. reflexivity.
Qed.
Lemma assoc_last_None : forall {V} k (l : list (str * V)) v, assoc_last str_eqb k l = None -> ~ In (k, v) l.
Proof.
  induction l as [|[k' v'] l IH]; simpl; intros v H I; auto.
  destruct (assoc_last str_eqb k l) eqn:E; [discriminate|].
  destruct I as [I|I].
  - inversion I; subst. rewrite str_eqb_refl in H. discriminate.
  - eapply IH; eauto.
Qed.
Lemma assoc_last_det : forall {V} k (l : list (str * V)) v,
  In (k, v) l -> (forall v', In (k, v') l -> v' = v) -> assoc_last str_eqb k l = Some v.
Proof.
  intros V k l v I U. destruct (assoc_last str_eqb k l) as [v'|] eqn:E.
  - apply assoc_last_In in E. f_equal. auto.
  - exfalso. eapply assoc_last_None; eauto.
Qed.

Lemma has_colon_mk_ident : forall m a, has_colon (mk_ident m a) = true.
Proof.
  intros. unfold has_colon, mk_ident. rewrite existsb_app. simpl. rewrite orb_true_r. reflexivity.
Qed.
Lemma mk_ident_inj : forall m m' a a',
  has_colon m = false -> has_colon m' = false -> mk_ident m a = mk_ident m' a' -> m = m' /\ a = a'.
Proof.
  unfold mk_ident, has_colon.
  induction m as [|x m IH]; destruct m' as [|y m']; intros a a' H1 H2 E.
  - inversion E. auto.
  - inversion E; subst. cbn [existsb] in H2. rewrite N.eqb_refl in H2. discriminate.
  - inversion E; subst. cbn [existsb] in H1. rewrite N.eqb_refl in H1. discriminate.
  - inversion E; subst. cbn [existsb] in H1, H2. apply orb_false_iff in H1, H2.
    destruct H1 as [_ H1]. destruct H2 as [_ H2].
    destruct (IH m' a a' H1 H2 H3). subst. auto.
Qed.

Definition colon_free (d : dsc) : Prop := forall m accs, In (m, accs) d -> has_colon m = false.

Lemma internal_of_In : forall predef d k v,
  In (k, v) (internal_of predef d) ->
  exists m accs a, In (m, accs) d /\ In a accs /\ k = mk_ident m (a_name a) /\ v = (m, internalize predef (a_name a)).
Proof.
  intros predef d k v H. unfold internal_of in H. apply in_flat_map in H.
  destruct H as [[m accs] [I1 I2]]. apply in_map_iff in I2. destruct I2 as [a [E I3]].
  simpl in E. inversion E; subst. exists m, accs, a. auto.
Qed.
Lemma internal_of_lookup : forall predef d m accs a,
  colon_free d -> In (m, accs) d -> In a accs ->
  assoc_last str_eqb (mk_ident m (a_name a)) (internal_of predef d) = Some (m, internalize predef (a_name a)).
Proof.
  intros predef d m accs a CF I1 I2. apply assoc_last_det.
  - unfold internal_of. apply in_flat_map. exists (m, accs). split; auto.
    apply in_map_iff. exists a. auto.
  - intros v' H. apply internal_of_In in H. destruct H as [m' [accs' [a' [J1 [J2 [E ->]]]]]].
    apply mk_ident_inj in E; eauto. destruct E as [-> E]. rewrite E. reflexivity.
Qed.

Lemma resolve_full : forall predef classes names d m accs a act,
  colon_free d -> In (m, accs) d -> In a accs ->
  resolve (mk_client predef classes names d) act (Some (mk_ident m (a_name a))) = Some (m, internalize predef (a_name a)).
Proof.
  intros. unfold resolve. simpl. erewrite internal_of_lookup; eauto.
Qed.

Definition default_name (act : action) : str := match act with AChanged => s_target | _ => s_value end.
Lemma internalize_default : forall predef act, internalize predef (default_name act) = default_name act.
Proof. intros. destruct act; reflexivity. Qed.

Lemma resolve_shorthand : forall predef classes names d m accs a act,
  colon_free d -> In (m, accs) d -> In a accs -> m <> [] -> a_name a = default_name act ->
  resolve (mk_client predef classes names d) act (Some m) = Some (m, default_name act).
Proof.
  intros predef classes names d m accs a act CF I1 I2 NE E. unfold resolve. simpl.
  destruct (assoc_last str_eqb m (internal_of predef d)) as [v|] eqn:D.
  - exfalso. apply assoc_last_In in D. apply internal_of_In in D.
    destruct D as [m' [accs' [a' [_ [_ [E' _]]]]]].
    assert (has_colon m = true) by (rewrite E'; apply has_colon_mk_ident).
    rewrite (CF _ _ I1) in H. discriminate.
  - destruct m as [|x m]; [contradiction|].
    rewrite (CF _ _ I1).
    fold (default_name act). rewrite <- E. erewrite internal_of_lookup; eauto.
    rewrite E. rewrite internalize_default. reflexivity.
Qed.

Lemma resolve_unknown : forall predef classes names d act i,
  (forall m accs a, In (m, accs) d -> In a accs -> i <> mk_ident m (a_name a)) ->
  has_colon i = true ->
  resolve (mk_client predef classes names d) act (Some i) = None.
Proof.
  intros predef classes names d act i U HC. unfold resolve. simpl.
  destruct (assoc_last str_eqb i (internal_of predef d)) as [v|] eqn:D.
  - exfalso. apply assoc_last_In in D. apply internal_of_In in D.
    destruct D as [m' [accs' [a' [J1 [J2 [E' _]]]]]]. eapply U; eauto.
  - destruct i; auto. rewrite HC. reflexivity.
Qed.

(* a message without identifier is about no parameter, whatever the modules are called *)
Lemma resolve_no_ident : forall C act, resolve C act None = None.
Proof. reflexivity. Qed.
Lemma decode_no_ident : forall C imp now m k e, m_ident m = None -> decode C imp now m <> OUpd k e.
Proof.
  intros C imp now m k e H. unfold decode. rewrite H.
  destruct (m_data m); try discriminate; destruct (negb (is_update_message (m_action m))); discriminate.
Qed.

(* ------------------------------------------------------------------ write path *)
(* pointwise: only the value passed and the value returned have to round-trip.  (An earlier version asked for the
   round trip of EVERY value id, "forall x, exists j, exp_c x = Some j /\ imp_n j = Some x"; no finite conversion table
   of Run.check_case satisfies that, see NonVacuity.v, so the statement said nothing about the cases of the harness.) *)
Lemma e2e_write_driver_iff : forall exp_c imp_n exp_n imp_c v r,
  fst (e2e_write exp_c imp_n exp_n imp_c v r) = Some v <-> (exists j, exp_c v = Some j /\ imp_n j = Some v).
Proof.
  intros. unfold e2e_write. simpl. split.
  - destruct (exp_c v) as [j|] eqn:E; [|discriminate]. intro H. exists j. auto.
  - intros [j [-> H]]. exact H.
Qed.
Lemma e2e_write_cache_iff : forall exp_c imp_n exp_n imp_c v r,
  snd (e2e_write exp_c imp_n exp_n imp_c v r) = Some r <-> (exists j, exp_n r = Some j /\ imp_c j = Some r).
Proof.
  intros. unfold e2e_write. simpl. split.
  - destruct (exp_n r) as [j|] eqn:E; [|discriminate]. intro H. exists j. auto.
  - intros [j [-> H]]. exact H.
Qed.
Lemma e2e_write_pointwise : forall exp_c imp_n exp_n imp_c v r,
  (exists j, exp_c v = Some j /\ imp_n j = Some v) -> (exists j, exp_n r = Some j /\ imp_c j = Some r) ->
  e2e_write exp_c imp_n exp_n imp_c v r = (Some v, Some r).
Proof.
  intros exp_c imp_n exp_n imp_c v r [j [H1 H2]] [j' [H3 H4]]. unfold e2e_write. rewrite H1, H2, H3, H4. reflexivity.
Qed.
Lemma e2e_read_iff : forall exp_n imp_c r,
  e2e_read exp_n imp_c r = Some r <-> (exists j, exp_n r = Some j /\ imp_c j = Some r).
Proof.
  intros. unfold e2e_read. split.
  - destruct (exp_n r) as [j|] eqn:E; [|discriminate]. intro H. exists j. auto.
  - intros [j [-> H]]. exact H.
Qed.

Lemma combine_fst_le : forall {A B} (v : list A) (p : list B), length v <= length p -> map fst (combine v p) = v.
Proof.
  induction v as [|x v IH]; destruct p as [|y p]; simpl; intro L; auto; try lia.
  f_equal. apply IH. lia.
Qed.
Lemma array_validate_exact : forall {A} (prev v : list A), array_validate prev v = v.
Proof.
  intros A prev v. unfold array_validate. destruct prev as [|y prev]; auto.
  apply combine_fst_le. rewrite app_length, map_length, repeat_length. lia.
Qed.

(* ------------------------------------------------------------------ struct written against the previous value *)
Lemma struct_get_set : forall k k0 x0 l,
  struct_get k (struct_set k0 x0 l) = if Nat.eqb k k0 then Some x0 else struct_get k l.
Proof.
  induction l as [|[k' v'] l IH]; simpl.
  - reflexivity.
  - destruct (Nat.eqb k0 k') eqn:E; simpl.
    + apply Nat.eqb_eq in E. subst k'. destruct (Nat.eqb k k0); reflexivity.
    + destruct (Nat.eqb k k') eqn:E2.
      * apply Nat.eqb_eq in E2. subst k'. rewrite Nat.eqb_sym in E. rewrite E. reflexivity.
      * exact IH.
Qed.
Lemma struct_validate_get : forall v prev k,
  struct_get k (struct_validate prev v) =
    match assoc_last Nat.eqb k v with Some x => Some x | None => struct_get k prev end.
Proof.
  unfold struct_validate. induction v as [|[k0 x0] v IH]; intros prev k; simpl.
  - reflexivity.
  - rewrite IH. destruct (assoc_last Nat.eqb k v); [reflexivity|].
    rewrite struct_get_set. destruct (Nat.eqb k k0); reflexivity.
Qed.
Lemma struct_set_keys : forall k x l, In k (map fst l) -> map fst (struct_set k x l) = map fst l.
Proof.
  induction l as [|[k' v'] l IH]; simpl; intro H; [tauto|].
  destruct (Nat.eqb k k') eqn:E; simpl.
  - apply Nat.eqb_eq in E. subst. reflexivity.
  - f_equal. apply IH. destruct H as [H|H]; [subst; rewrite Nat.eqb_refl in E; discriminate|exact H].
Qed.
(* a value that names only members the previous value has: same members afterwards, in the same order *)
Lemma struct_validate_keys : forall v prev,
  (forall kv, In kv v -> In (fst kv) (map fst prev)) -> map fst (struct_validate prev v) = map fst prev.
Proof.
  unfold struct_validate. induction v as [|[k0 x0] v IH]; intros prev H; simpl; [reflexivity|].
  assert (E : map fst (struct_set k0 x0 prev) = map fst prev) by (apply struct_set_keys; apply (H (k0, x0)); left; reflexivity).
  rewrite IH; [exact E|]. intros kv I. rewrite E. apply H. right. exact I.
Qed.
