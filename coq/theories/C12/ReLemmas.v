(* C12 -- lemmas about ReModel.v (callbacks that register / unregister callbacks while they are dispatched) *)
From Coq Require Import List Arith ZArith NArith Bool Lia.
Import ListNotations.
Require Import FV.C12.Model FV.C12.Lemmas FV.C12.ReModel.

(* the invocations made by dispatches, oldest first when applied to a reversed log *)
Definition disp_of (l : list rinv) : list (nat * cbname * ckey * key * entry) :=
  flat_map (fun i => match i with RDisp c cn lv k e _ => [(c, cn, lv, k, e)] | _ => [] end) l.
(* how often callback c0 raised UnregisterCallback in a dispatch *)
Definition raised (c0 : nat) (l : list rinv) : nat :=
  length (filter (fun i => match i with RDisp c _ _ _ _ BUnreg => Nat.eqb c0 c | _ => false end) l).
(* how often register_callback appended c0 to the list of (cn, lv) *)
Definition added (c0 : nat) (cn : cbname) (lv : ckey) (l : list rinv) : nat :=
  length (filter (fun i => match i with
                           | RAdd c cn' lv' => cbname_eqb cn' cn && ckey_eqb lv' lv && Nat.eqb c0 c
                           | _ => false end) l).
(* how often c0 stands in a callback list *)
Definition cnt (c0 : nat) (l : list nat) : nat := length (filter (Nat.eqb c0) l).

Lemma disp_of_app : forall a b, disp_of (a ++ b) = disp_of a ++ disp_of b.
Proof. intros; unfold disp_of; apply flat_map_app. Qed.
Lemma raised_app : forall c a b, raised c (a ++ b) = raised c a + raised c b.
Proof. intros; unfold raised; rewrite filter_app, app_length; reflexivity. Qed.
Lemma added_app : forall c cn lv a b, added c cn lv (a ++ b) = added c cn lv a + added c cn lv b.
Proof. intros; unfold added; rewrite filter_app, app_length; reflexivity. Qed.
Lemma cnt_app : forall c a b, cnt c (a ++ b) = cnt c a + cnt c b.
Proof. intros; unfold cnt; rewrite filter_app, app_length; reflexivity. Qed.

Lemma raised_nodisp : forall c l, disp_of l = [] -> raised c l = 0.
Proof.
  induction l as [|i l IH]; intros H; [reflexivity|].
  destruct i; simpl in H; try discriminate; apply IH in H; unfold raised in *; simpl; exact H.
Qed.

Lemma cnt_remove1_le : forall c0 c l, cnt c0 (remove1 c l) <= cnt c0 l.
Proof.
  induction l as [|x l IH]; simpl; [lia|].
  destruct (Nat.eqb c x); unfold cnt in *; simpl; destruct (Nat.eqb c0 x); simpl; lia.
Qed.
Lemma cnt_remove1_other : forall c0 c l, c0 <> c -> cnt c0 (remove1 c l) = cnt c0 l.
Proof.
  induction l as [|x l IH]; intros N; simpl; [reflexivity|].
  destruct (Nat.eqb c x) eqn:E.
  - apply Nat.eqb_eq in E; subst x. unfold cnt; simpl.
    destruct (Nat.eqb c0 c) eqn:E2; [apply Nat.eqb_eq in E2; contradiction|reflexivity].
  - unfold cnt in *; simpl; destruct (Nat.eqb c0 x); simpl; rewrite (IH N); reflexivity.
Qed.
Lemma cnt_remove1_mem : forall c l, mem_nat c l = true -> S (cnt c (remove1 c l)) = cnt c l.
Proof.
  induction l as [|x l IH]; simpl; intros H; [discriminate|].
  destruct (Nat.eqb c x) eqn:E; simpl in H.
  - unfold cnt; simpl; rewrite E; reflexivity.
  - unfold cnt in *; simpl; rewrite E; apply IH; exact H.
Qed.

Lemma same_list : forall cn' k' cn lv, cbname_eqb cn' cn && ckey_eqb k' lv = true -> cn' = cn /\ k' = lv.
Proof.
  intros cn' k' cn lv H. apply andb_true_iff in H. destruct H as [A B].
  apply cbname_eqb_eq in A. apply ckey_eqb_eq in B. auto.
Qed.

Lemma cnt_setcbs_append : forall s cn' k' c' cn lv c0,
  cnt c0 (rcbs (r_setcbs s cn' k' (rcbs s cn' k' ++ [c'])) cn lv) =
  cnt c0 (rcbs s cn lv) + added c0 cn lv [RAdd c' cn' k'].
Proof.
  intros. unfold added; simpl. destruct (cbname_eqb cn' cn && ckey_eqb k' lv) eqn:E; simpl.
  - apply same_list in E. destruct E; subst. rewrite cnt_app. unfold cnt at 2; simpl.
    destruct (Nat.eqb c0 c'); reflexivity.
  - lia.
Qed.
Lemma cnt_setcbs_remove : forall s cn' k' c' cn lv c0,
  cnt c0 (rcbs (r_setcbs s cn' k' (remove1 c' (rcbs s cn' k'))) cn lv) <= cnt c0 (rcbs s cn lv).
Proof.
  intros. simpl. destruct (cbname_eqb cn' cn && ckey_eqb k' lv) eqn:E; [|lia].
  apply same_list in E. destruct E; subst. apply cnt_remove1_le.
Qed.

(* what every step that is not a dispatch invocation does, seen from the list of (cn, lv) *)
Definition ext (cn : cbname) (lv : ckey) (s s' : rst) : Prop :=
  exists new, rlog s' = new ++ rlog s /\ disp_of new = [] /\ rcache s' = rcache s /\
    forall c0, cnt c0 (rcbs s' cn lv) <= cnt c0 (rcbs s cn lv) + added c0 cn lv new.

Lemma ext_refl : forall cn lv s, ext cn lv s s.
Proof. intros; exists []; repeat split; auto; intros; simpl; unfold added; simpl; lia. Qed.
Lemma ext_trans : forall cn lv a b c, ext cn lv a b -> ext cn lv b c -> ext cn lv a c.
Proof.
  intros cn lv a b c [n1 [L1 [D1 [C1 K1]]]] [n2 [L2 [D2 [C2 K2]]]].
  exists (n2 ++ n1). rewrite L2, L1, app_assoc, disp_of_app, D1, D2. repeat split; try congruence.
  intros c0. rewrite added_app. specialize (K1 c0). specialize (K2 c0). lia.
Qed.

Lemma ext_reg_fold : forall W cn lv cn' lv' c args sa,
  ext cn lv (fst sa) (fst (fold_left (rreg_step W cn' lv' c) args sa)).
Proof.
  induction args as [|a args IH]; intros sa; simpl; [apply ext_refl|].
  eapply ext_trans; [|apply IH].
  unfold rreg_step, rinvoke; simpl.
  exists [RImm c cn' lv' (fst a) (snd a) (r_fin (W (rctr (fst sa))))]. simpl.
  repeat split; auto. intros; unfold added; simpl; lia.
Qed.

Lemma ext_register : forall W cn lv s k' cn' c', ext cn lv s (rregister W s k' cn' c').
Proof.
  intros. unfold rregister.
  set (args := match cn' with CHErr => [] | _ => rreg_args (rcache s) k' end).
  pose proof (ext_reg_fold W cn lv cn' k' c' args (s, true)) as E. simpl in E.
  destruct (snd (fold_left (rreg_step W cn' k' c') args (s, true))); [|exact E].
  eapply ext_trans; [exact E|].
  exists [RAdd c' cn' k']. simpl. repeat split; auto.
  intros c0. apply Nat.eq_le_incl.
  apply (cnt_setcbs_append (fst (fold_left (rreg_step W cn' k' c') args (s, true)))).
Qed.

Lemma ext_unregister : forall cn lv s k' cn' c', ext cn lv s (runregister s k' cn' c').
Proof.
  intros. exists []. unfold runregister. simpl. repeat split; auto.
  intros c0. pose proof (cnt_setcbs_remove s cn' k' c' cn lv c0) as H. simpl in H.
  unfold added; simpl. lia.
Qed.

Lemma ext_acts : forall W cn lv acts so, ext cn lv (fst so) (fst (fold_left (do_act W cn lv) acts so)).
Proof.
  induction acts as [|a acts IH]; intros so; simpl; [apply ext_refl|].
  eapply ext_trans; [|apply IH].
  destruct a; simpl; [apply ext_register|apply ext_unregister].
Qed.
(* once popped, always popped *)
Lemma orph_mono : forall W cn lv acts so, snd (fold_left (do_act W cn lv) acts so) = false -> snd so = false.
Proof.
  induction acts as [|a acts IH]; intros so H; simpl in H; [exact H|].
  apply IH in H. destruct a; simpl in H; [exact H|].
  apply orb_false_iff in H. tauto.
Qed.

Lemma ext_herr_step : forall W cn lv s c, ext cn lv s (rherr_step W s c).
Proof.
  intros. unfold rherr_step, rinvoke.
  set (s1 := {| rcache := rcache s; rcbs := rcbs s; rlog := RErr c (r_fin (W (rctr s))) :: rlog s;
                rctr := S (rctr s) |}).
  assert (E1 : ext cn lv s s1).
  { exists [RErr c (r_fin (W (rctr s)))]. simpl. repeat split; auto. intros; unfold added; simpl; lia. }
  destruct (r_fin (W (rctr s))); try exact E1.
  eapply ext_trans; [exact E1|].
  exists []. simpl. repeat split; auto. intros c0.
  pose proof (cnt_setcbs_remove s1 CHErr KNode c cn lv c0) as H. simpl in H. unfold added; simpl. lia.
Qed.
Lemma ext_herr_fold : forall W cn lv copy s, ext cn lv s (fold_left (rherr_step W) copy s).
Proof.
  induction copy as [|c copy IH]; intros s; simpl; [apply ext_refl|].
  eapply ext_trans; [apply ext_herr_step|apply IH].
Qed.
Lemma ext_herr : forall W cn lv s, ext cn lv s (rcallback_herr W s).
Proof. intros; apply ext_herr_fold. Qed.

Lemma mem_false_cnt : forall c l, mem_nat c l = false -> cnt c l = 0.
Proof.
  induction l as [|x l IH]; simpl; intros H; [reflexivity|].
  apply orb_false_iff in H. destruct H as [E H]. unfold cnt in *; simpl; rewrite E; apply IH; exact H.
Qed.

(* the loop of one dispatch: start state s, callbacks done so far, current state s' and whether the held list object
   has been popped (orph); extra = the UnregisterCallback of the invocation in progress, not yet treated *)
Definition dcore (cn : cbname) (lv : ckey) (pk : key) (e : entry) (s : rst) (done : list nat) (s' : rst) (orph : bool)
  (extra : nat -> nat) : Prop :=
  exists new, rlog s' = new ++ rlog s /\
    rev (disp_of new) = map (fun c => (c, cn, lv, pk, e)) done /\
    rcache s' = rcache s /\
    (forall c0, cnt c0 (rcbs s' cn lv) <= cnt c0 (rcbs s cn lv) + added c0 cn lv new) /\
    (forall c0, orph = false -> added c0 cn lv new = 0 ->
       cnt c0 (rcbs s' cn lv) <= cnt c0 (rcbs s cn lv) - (raised c0 new - extra c0)).
Definition dinv cn lv pk e s done (so : rst * bool) : Prop := dcore cn lv pk e s done (fst so) (snd so) (fun _ => 0).

Lemma dcore_ext : forall cn lv pk e s done a b orph extra,
  dcore cn lv pk e s done a orph extra -> ext cn lv a b -> dcore cn lv pk e s done b orph extra.
Proof.
  intros cn lv pk e s done a b orph extra [n1 [L1 [D1 [C1 [K1 J1]]]]] [n2 [L2 [D2 [C2 K2]]]].
  exists (n2 ++ n1). rewrite L2, L1, app_assoc, disp_of_app, D2. simpl. repeat split; try congruence.
  - intros c0. rewrite added_app. specialize (K1 c0). specialize (K2 c0). lia.
  - intros c0 O A. rewrite added_app in A. rewrite raised_app, (raised_nodisp c0 n2 D2).
    specialize (J1 c0 O). specialize (K2 c0). lia.
Qed.

Lemma upd_step_inv : forall W cn lv pk e s done so c,
  dinv cn lv pk e s done so -> dinv cn lv pk e s (done ++ [c]) (rupd_step W cn lv pk e so c).
Proof.
  intros W cn lv pk e s done so c I.
  unfold dinv, rupd_step, rinvoke.
  set (b := W (rctr (fst so))).
  set (s1 := {| rcache := rcache (fst so); rcbs := rcbs (fst so);
                rlog := RDisp c cn lv pk e (r_fin b) :: rlog (fst so);
                rctr := S (rctr (fst so)) |}).
  set (so2 := fold_left (do_act W cn lv) (r_acts b) (s1, snd so)).
  assert (E2 : ext cn lv s1 (fst so2)) by (apply (ext_acts W cn lv (r_acts b) (s1, snd so))).
  assert (OM : snd so2 = false -> snd so = false) by (apply (orph_mono W cn lv (r_acts b) (s1, snd so))).
  cbv zeta. simpl fst. simpl snd.
  set (extra := fun c0 => match r_fin b with BUnreg => if Nat.eqb c0 c then 1 else 0 | _ => 0 end).
  assert (I2 : dcore cn lv pk e s (done ++ [c]) (fst so2) (snd so2) extra).
  { eapply dcore_ext; [|exact E2].
    destruct I as [n [L [D [C [K J]]]]].
    exists (RDisp c cn lv pk e (r_fin b) :: n). simpl. rewrite L, D, map_app. repeat split; auto.
    intros c0 O A. specialize (J c0). unfold raised, added, extra in *. simpl in *.
    destruct (r_fin b); simpl; try (apply J; auto; fail).
    destruct (Nat.eqb c0 c); simpl; specialize (J (OM O) A); lia. }
  destruct (r_fin b) eqn:F.
  - (* returns *)
    destruct I2 as [n [L [D [C [K J]]]]]. exists n.
    split; [exact L|split; [exact D|split; [exact C|split; [exact K|]]]].
    intros c0 O A. specialize (J c0 O A). unfold extra in J. lia.
  - (* UnregisterCallback *)
    destruct I2 as [n [L [D [C [K J]]]]].
    destruct (snd so2 || negb (mem_nat c (rcbs (fst so2) cn lv))) eqn:G.
    + exists n. split; [exact L|split; [exact D|split; [exact C|split; [exact K|]]]].
      intros c0 O A. specialize (J c0 O A). unfold extra in J. rewrite O in G. simpl in G.
      apply negb_true_iff in G.
      destruct (Nat.eqb c0 c) eqn:Ec; [|lia].
      apply Nat.eqb_eq in Ec; subst c0. rewrite (mem_false_cnt c _ G). lia.
    + apply orb_false_iff in G. destruct G as [_ G]. apply negb_false_iff in G.
      assert (R : cbname_eqb cn cn && ckey_eqb lv lv = true).
      { apply andb_true_iff; split; [apply cbname_eqb_eq|apply ckey_eqb_eq]; reflexivity. }
      exists n. simpl rlog. simpl rcache.
      change (rcbs (r_setcbs (fst so2) cn lv (remove1 c (rcbs (fst so2) cn lv))) cn lv)
        with (if cbname_eqb cn cn && ckey_eqb lv lv then remove1 c (rcbs (fst so2) cn lv) else rcbs (fst so2) cn lv).
      rewrite R. split; [exact L|split; [exact D|split; [exact C|split]]].
      * intros c0. specialize (K c0). pose proof (cnt_remove1_le c0 c (rcbs (fst so2) cn lv)). lia.
      * intros c0 O A. specialize (J c0 O A). unfold extra in J.
        destruct (Nat.eqb c0 c) eqn:Ec.
        -- apply Nat.eqb_eq in Ec; subst c0. pose proof (cnt_remove1_mem c _ G). lia.
        -- apply Nat.eqb_neq in Ec. rewrite (cnt_remove1_other c0 c _ Ec). lia.
  - (* another exception: handleError callbacks *)
    eapply dcore_ext; [|apply ext_herr].
    destruct I2 as [n [L [D [C [K J]]]]]. exists n.
    split; [exact L|split; [exact D|split; [exact C|split; [exact K|]]]].
    intros c0 O A. specialize (J c0 O A). unfold extra in J. lia.
Qed.

Lemma upd_fold_inv : forall W cn lv pk e s copy done so,
  dinv cn lv pk e s done so ->
  dinv cn lv pk e s (done ++ copy) (fold_left (rupd_step W cn lv pk e) copy so).
Proof.
  induction copy as [|c copy IH]; intros done so I; simpl.
  - rewrite app_nil_r; exact I.
  - replace (done ++ c :: copy) with ((done ++ [c]) ++ copy) by (rewrite <- app_assoc; reflexivity).
    apply IH. apply upd_step_inv; exact I.
Qed.

(* one level of one message *)
Lemma callback_reentrant : forall W cn lv pk e s,
  exists new, rlog (rcallback W cn lv pk e s) = new ++ rlog s /\
    rev (disp_of new) = map (fun c => (c, cn, lv, pk, e)) (rcbs s cn lv) /\
    rcache (rcallback W cn lv pk e s) = rcache s /\
    (forall c0, cnt c0 (rcbs (rcallback W cn lv pk e s) cn lv) <= cnt c0 (rcbs s cn lv) + added c0 cn lv new) /\
    (forall c0, rpopped W cn lv pk e s = false -> added c0 cn lv new = 0 ->
       cnt c0 (rcbs (rcallback W cn lv pk e s) cn lv) <= cnt c0 (rcbs s cn lv) - raised c0 new).
Proof.
  intros. unfold rcallback, rpopped, rcallback2.
  assert (I0 : dinv cn lv pk e s [] (s, false)).
  { exists []. simpl. split; [reflexivity|split; [reflexivity|split; [reflexivity|split]]].
    - intros; unfold added; simpl; lia.
    - intros; unfold raised; simpl; lia. }
  pose proof (upd_fold_inv W cn lv pk e s (rcbs s cn lv) [] (s, false) I0) as [n [L [D [C [K J]]]]].
  simpl in D. exists n. repeat split; auto.
  intros c0 O A. specialize (J c0 O A). lia.
Qed.

Lemma cnt_zero_notin : forall c l, cnt c l = 0 -> ~ In c l.
Proof.
  induction l as [|a l IH]; intros H I; [exact I|].
  unfold cnt in *; simpl in H. destruct I as [E|I].
  - subst. rewrite Nat.eqb_refl in H. discriminate.
  - destruct (Nat.eqb c a); [discriminate|apply IH; auto].
Qed.

(* a callback that raised UnregisterCallback as often as it was registered, and was not registered again meanwhile,
   is gone from the list (unless the list object was popped from the dict during the dispatch) *)
Lemma oneshot_gone : forall W cn lv pk e s c0,
  exists new, rlog (rcallback W cn lv pk e s) = new ++ rlog s /\
    (rpopped W cn lv pk e s = false -> cnt c0 (rcbs s cn lv) <= raised c0 new -> added c0 cn lv new = 0 ->
     ~ In c0 (rcbs (rcallback W cn lv pk e s) cn lv)).
Proof.
  intros W cn lv pk e s c0.
  destruct (callback_reentrant W cn lv pk e s) as [new [L [_ [_ [_ J]]]]].
  exists new. split; [exact L|]. intros O H1 H2. apply cnt_zero_notin.
  specialize (J c0 O H2). lia.
Qed.

(* a callback that is not in the list of a level is not dispatched by that level, whatever the others do *)
Lemma not_registered_not_dispatched : forall W cn lv pk e s c0,
  ~ In c0 (rcbs s cn lv) ->
  exists new, rlog (rcallback W cn lv pk e s) = new ++ rlog s /\
    forall cn' lv' k' e', ~ In (c0, cn', lv', k', e') (disp_of new).
Proof.
  intros W cn lv pk e s c0 NI.
  destruct (callback_reentrant W cn lv pk e s) as [new [L [D _]]].
  exists new. split; [exact L|]. intros cn' lv' k' e' I.
  apply in_rev in I. rewrite D in I. apply in_map_iff in I. destruct I as [c [E I]].
  inversion E; subst. contradiction.
Qed.

(* the list object is popped only by an unregister_callback made from inside the dispatch for the same list *)
Definition unreg_on (cn : cbname) (lv : ckey) (a : act) : bool :=
  match a with AcUnreg k' cn' _ => cbname_eqb cn cn' && ckey_eqb lv k' | _ => false end.
Lemma acts_no_pop : forall W cn lv acts so,
  forallb (fun a => negb (unreg_on cn lv a)) acts = true -> snd (fold_left (do_act W cn lv) acts so) = snd so.
Proof.
  induction acts as [|a acts IH]; intros so H; simpl in *; [reflexivity|].
  apply andb_true_iff in H. destruct H as [H1 H2]. rewrite (IH _ H2).
  destruct a; simpl in *; [reflexivity|].
  apply negb_true_iff in H1. rewrite H1. simpl. apply orb_false_r.
Qed.

Lemma upd_fold_no_pop : forall W cn lv pk e,
  (forall n, forallb (fun a => negb (unreg_on cn lv a)) (r_acts (W n)) = true) ->
  forall copy so, snd (fold_left (rupd_step W cn lv pk e) copy so) = snd so.
Proof.
  intros W cn lv pk e H. induction copy as [|c copy IH]; intros so; simpl; [reflexivity|].
  rewrite IH. unfold rupd_step, rinvoke. cbv zeta. simpl snd.
  rewrite (acts_no_pop W cn lv (r_acts (W (rctr (fst so))))); [reflexivity|apply H].
Qed.
Lemma no_inner_unregister_no_pop : forall W cn lv pk e s,
  (forall n, forallb (fun a => negb (unreg_on cn lv a)) (r_acts (W n)) = true) ->
  rpopped W cn lv pk e s = false.
Proof. intros. unfold rpopped, rcallback2. rewrite upd_fold_no_pop; auto. Qed.

(* the log only grows: arrival order *)
Lemma rcallback_log : forall W cn lv pk e s, exists new, rlog (rcallback W cn lv pk e s) = new ++ rlog s.
Proof. intros. destruct (callback_reentrant W cn lv pk e s) as [n [L _]]. exists n; exact L. Qed.
Lemma rlevels_log : forall W cn pk e s, exists new, rlog (rlevels W cn pk e s) = new ++ rlog s.
Proof.
  intros. unfold rlevels, rlevel2, rlevel1.
  destruct (rcallback_log W cn KNode pk e s) as [n1 L1].
  destruct (rcallback_log W cn (KMod (fst pk)) pk e (rcallback W cn KNode pk e s)) as [n2 L2].
  destruct (rcallback_log W cn (KPar (fst pk) (snd pk)) pk e
              (rcallback W cn (KMod (fst pk)) pk e (rcallback W cn KNode pk e s))) as [n3 L3].
  exists (n3 ++ n2 ++ n1). rewrite L3, L2, L1, !app_assoc. reflexivity.
Qed.
Lemma rstep_log : forall W s o, exists new, rlog (rstep W s o) = new ++ rlog s.
Proof.
  intros W s o. destruct o; simpl.
  - unfold rupdate_value.
    destruct (rlevels_log W CItem pk e (rwrite pk e s)) as [n1 L1].
    destruct (rlevels_log W CEvent pk e (rlevels W CItem pk e (rwrite pk e s))) as [n2 L2].
    exists (n2 ++ n1). rewrite L2, L1, app_assoc. reflexivity.
  - destruct (ext_register W CItem KNode s k cn c) as [n [L _]]. exists n; exact L.
  - exists []; reflexivity.
Qed.
Lemma rrun_log : forall W ops s, exists new, rlog (rrun W s ops) = new ++ rlog s.
Proof.
  induction ops as [|o ops IH]; intros s; simpl; [exists []; reflexivity|].
  destruct (IH (rstep W s o)) as [n2 L2]. destruct (rstep_log W s o) as [n1 L1].
  exists (n2 ++ n1). unfold rrun in *. rewrite L2, L1, app_assoc. reflexivity.
Qed.
