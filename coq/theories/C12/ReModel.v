(* C12 -- callbacks that call back into the client: executable model of ProxyClient.register_callback /
   unregister_callback / callback (frappy/client/__init__.py) when the invoked callback functions themselves
   register or unregister callbacks (on the same or on another key) before they return or raise.  No proofs here.

   The code (pinned by the source facts register_appends_in_place, dispatch_removes_from_fetched_list,
   callback_iterates_copy):
     register_callback : immediate calls with the cached state, then  self.callbacks[cbname][key].append(cbfunc)
                         (in place, on the list object stored in the dict)
     unregister_callback : cblist = self.callbacks[cbname][key]; cblist.remove(func) when present;
                         an empty list is popped from the dict
     callback          : cblist = self.callbacks[cbname].get(key, []) fetched ONCE; iterates over list(cblist);
                         UnregisterCallback -> cblist.remove(cbfunc) on that same object; another exception ->
                         the node level handleError callbacks
   A list object is shared between the dict and a running dispatch unless unregister_callback popped it in
   between: then the dispatch holds an orphaned (empty) list, orph below.  Since repository commit 4741ef2 the
   handler is  if cbfunc in cblist: cblist.remove(cbfunc)  : a callback that is not in the held list (unregistered by
   another callback meanwhile, or the held list is orphaned) is not removed and nothing else happens (before, the
   ValueError of cblist.remove left the dispatch: finding C12/unregister-then-oneshot-breaks-dispatch).

   Messages are taken as already decoded here (Model.decode is the business of the msgs cases): RMsg pk e is an
   accepted line for parameter pk with imported entry e.

   Behaviours: W n is what the n-th invocation does: a list of register / unregister calls, then return /
   UnregisterCallback / another exception.  The calls are made by invocations coming from a dispatch of a message;
   the immediate invocations made by a registration and the handleError invocations only return or raise. *)
From Coq Require Import List Arith ZArith NArith Bool.
Import ListNotations.
Require Import FV.C12.Model.

Inductive act :=
| AcReg (k : ckey) (cn : cbname) (c : nat)
| AcUnreg (k : ckey) (cn : cbname) (c : nat).
Record rbeh := { r_acts : list act; r_fin : beh }.

(* recorded invocations: by a dispatch (with the level key the callback was found under), by a registration
   (immediate call with cached state), of a handleError callback; RAdd is a ghost entry: register_callback
   appended c to the list of (cn, lv) *)
Inductive rinv :=
| RDisp (c : nat) (cn : cbname) (lv : ckey) (k : key) (e : entry) (b : beh)
| RImm (c : nat) (cn : cbname) (lv : ckey) (k : key) (e : entry) (b : beh)
| RErr (c : nat) (b : beh)
| RAdd (c : nat) (cn : cbname) (lv : ckey).

Record rst := {
  rcache : list (key * entry);
  rcbs : cbname -> ckey -> list nat;
  rlog : list rinv;                              (* newest first *)
  rctr : nat;
}.
Definition rst0 (herr0 : list nat) : rst :=
  {| rcache := []; rcbs := fun cn k => match cn, k with CHErr, KNode => herr0 | _, _ => [] end;
     rlog := []; rctr := 0 |}.

Definition r_setcbs (s : rst) (cn : cbname) (k : ckey) (l : list nat) : rst :=
  {| rcache := rcache s;
     rcbs := fun cn' k' => if cbname_eqb cn cn' && ckey_eqb k k' then l else rcbs s cn' k';
     rlog := rlog s; rctr := rctr s |}.
Definition r_push (s : rst) (i : rinv) : rst :=
  {| rcache := rcache s; rcbs := rcbs s; rlog := i :: rlog s; rctr := rctr s |}.
Definition r_setcache (s : rst) (c : list (key * entry)) : rst :=
  {| rcache := c; rcbs := rcbs s; rlog := rlog s; rctr := rctr s |}.

(* the n-th invocation: recorded with its final behaviour *)
Definition rinvoke (W : nat -> rbeh) (s : rst) (mk : beh -> rinv) : rst * rbeh :=
  let b := W (rctr s) in
  ({| rcache := rcache s; rcbs := rcbs s; rlog := mk (r_fin b) :: rlog s; rctr := S (rctr s) |}, b).

Fixpoint mem_nat (c : nat) (l : list nat) : bool :=
  match l with [] => false | x :: r => Nat.eqb c x || mem_nat c r end.
Definition is_nil (l : list nat) : bool := match l with [] => true | _ => false end.

(* register_callback(key, <cbname>=cbfunc) *)
Definition rreg_args (cache : list (key * entry)) (k : ckey) : list (key * entry) :=
  match k with
  | KNode => cache
  | KPar m p => match cache_get (m, p) cache with Some e => [((m, p), e)] | None => [] end
  | KMod m => filter (fun ke => str_eqb (fst (fst ke)) m) cache
  end.
Definition rreg_step (W : nat -> rbeh) (cn : cbname) (lv : ckey) (c : nat) (sa : rst * bool) (a : key * entry) : rst * bool :=
  let '(s1, b) := rinvoke W (fst sa) (RImm c cn lv (fst a) (snd a)) in
  (s1, match r_fin b with BUnreg => false | _ => snd sa end).
Definition rregister (W : nat -> rbeh) (s : rst) (lv : ckey) (cn : cbname) (c : nat) : rst :=
  let args := match cn with CHErr => [] | _ => rreg_args (rcache s) lv end in
  let sa := fold_left (rreg_step W cn lv c) args (s, true) in
  if snd sa then r_push (r_setcbs (fst sa) cn lv (rcbs (fst sa) cn lv ++ [c])) (RAdd c cn lv) else fst sa.

Definition runregister (s : rst) (lv : ckey) (cn : cbname) (c : nat) : rst :=
  r_setcbs s cn lv (remove1 c (rcbs s cn lv)).

(* one call made by a callback that runs inside the dispatch of (cn, lv); orph: the list object the dispatch holds
   has been popped from the dict (unregister_callback found it empty afterwards) *)
Definition do_act (W : nat -> rbeh) (cn : cbname) (lv : ckey) (so : rst * bool) (a : act) : rst * bool :=
  match a with
  | AcReg k' cn' c' => (rregister W (fst so) k' cn' c', snd so)
  | AcUnreg k' cn' c' =>
      let s' := runregister (fst so) k' cn' c' in
      (s', snd so || (cbname_eqb cn cn' && ckey_eqb lv k' && is_nil (rcbs s' cn lv)))
  end.

(* self.callback(None, 'handleError', e) *)
Definition rherr_step (W : nat -> rbeh) (s : rst) (c : nat) : rst :=
  let '(s1, b) := rinvoke W s (RErr c) in
  match r_fin b with
  | BUnreg => r_setcbs s1 CHErr KNode (remove1 c (rcbs s1 CHErr KNode))
  | _ => s1
  end.
Definition rcallback_herr (W : nat -> rbeh) (s : rst) : rst := fold_left (rherr_step W) (rcbs s CHErr KNode) s.

(* one iteration of  for cbfunc in list(cblist)  in callback(key, cbname, ...) *)
Definition rupd_step (W : nat -> rbeh) (cn : cbname) (lv : ckey) (pk : key) (e : entry) (so : rst * bool) (c : nat)
  : rst * bool :=
  let '(s1, b) := rinvoke W (fst so) (RDisp c cn lv pk e) in
  let so2 := fold_left (do_act W cn lv) (r_acts b) (s1, snd so) in
  let s2 := fst so2 in
  (match r_fin b with
   | BOk => s2
   | BUnreg => if snd so2 || negb (mem_nat c (rcbs s2 cn lv)) then s2      (* if cbfunc in cblist: fails *)
               else r_setcbs s2 cn lv (remove1 c (rcbs s2 cn lv))
   | BExc => rcallback_herr W s2
   end, snd so2).
Definition rcallback2 (W : nat -> rbeh) (cn : cbname) (lv : ckey) (pk : key) (e : entry) (s : rst) : rst * bool :=
  fold_left (rupd_step W cn lv pk e) (rcbs s cn lv) (s, false).
Definition rcallback (W : nat -> rbeh) (cn : cbname) (lv : ckey) (pk : key) (e : entry) (s : rst) : rst :=
  fst (rcallback2 W cn lv pk e s).
(* the list object the dispatch worked on was popped from the dict meanwhile *)
Definition rpopped (W : nat -> rbeh) (cn : cbname) (lv : ckey) (pk : key) (e : entry) (s : rst) : bool :=
  snd (rcallback2 W cn lv pk e s).

(* the states in which the three levels of one callback name start, and the state after them *)
Definition rlevel1 (W : nat -> rbeh) (cn : cbname) (pk : key) (e : entry) (s : rst) : rst := rcallback W cn KNode pk e s.
Definition rlevel2 (W : nat -> rbeh) (cn : cbname) (pk : key) (e : entry) (s : rst) : rst :=
  rcallback W cn (KMod (fst pk)) pk e (rlevel1 W cn pk e s).
Definition rlevels (W : nat -> rbeh) (cn : cbname) (pk : key) (e : entry) (s : rst) : rst :=
  rcallback W cn (KPar (fst pk) (snd pk)) pk e (rlevel2 W cn pk e s).

(* SecopClient.updateValue for an accepted line: cache write, updateItem levels, updateEvent levels *)
Definition rwrite (pk : key) (e : entry) (s : rst) : rst := r_setcache s (cache_set pk e (rcache s)).
Definition rupdate_value (W : nat -> rbeh) (pk : key) (e : entry) (s : rst) : rst :=
  rlevels W CEvent pk e (rlevels W CItem pk e (rwrite pk e s)).

Inductive rop :=
| RMsg (pk : key) (e : entry)
| RReg (k : ckey) (cn : cbname) (c : nat)
| RUnreg (k : ckey) (cn : cbname) (c : nat).

(* registrations made between the messages: their immediate invocations only return or raise (acts are ignored
   by rregister) *)
Definition rstep (W : nat -> rbeh) (s : rst) (o : rop) : rst :=
  match o with
  | RMsg pk e => rupdate_value W pk e s
  | RReg k cn c => rregister W s k cn c
  | RUnreg k cn c => runregister s k cn c
  end.
Definition rrun (W : nat -> rbeh) (s : rst) (ops : list rop) : rst := fold_left (rstep W) ops s.

Definition is_ghost (i : rinv) : bool := match i with RAdd _ _ _ => true | _ => false end.
