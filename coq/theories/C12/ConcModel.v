(* C12 -- concurrent part: callers of SecopClient.setParameter / readParameter / getParameter run concurrently
   with the receive thread.  No proofs in this file.

   What is modelled (frappy/client/__init__.py):
   * __rxthread, one received line = up to three atomic steps that end at the synchronisation points of the
     implementation: [SRecv] readline + decode_msg + identifier lookup up to the call of self.updateValue;
     [SRxUpdate] updateValue (cache write, callbacks -- Model.update_value) + matching of the reply with the waiting
     request (active_requests.pop, entry[2] = reply) up to entry[1].set(); [SRxSet] the event is set.
     The ORDER update -> match -> set is the program order of the receive thread (source fact
     reply_update_precedes_release of Gen/C12.v).
   * request / get_reply of a caller: [SSend] its request is registered and transmitted; [SWake] the caller runs
     after its event was set: setParameter returns self.cache[module, parameter]; readParameter returns the cache
     entry -- also after an error reply: get_reply marks the error it raises (error.from_reply = True) and
     readParameter then returns the cache item without updating again (repository commit 276f60f; source fact
     reply_error_not_stored_again).  The fallback self.updateValue(module, parameter, None, time.time(), e) of
     readParameter is for errors that did not come from a SECoP message; no step of this model raises one
     (connection loss belongs to C11), so a caller never writes the cache here.
   Not modelled here (C11): transmit queue, parking of equal keys, time-outs, connection loss; a request is
   "waiting" from the moment it was transmitted.  Callbacks never block.

   Ghost components (do not influence the behaviour): [later] of a released caller = the cache writes made since
   its release, [done] = the lines whose processing by the receive thread is complete, in arrival order. *)
From Coq Require Import List Arith ZArith NArith Bool.
Import ListNotations.
Require Import FV.C12.Model.

Inductive rkind := RRead | RChange.                 (* read / change request *)
Definition rkind_eqb (a b : rkind) : bool :=
  match a, b with RRead, RRead | RChange, RChange => true | _, _ => false end.

(* one call of a caller: readParameter / getParameter (RRead) or setParameter (RChange) of cache key k_key,
   transmitted with identifier k_ident *)
Record call := { k_kind : rkind; k_ident : str; k_key : key }.

(* a received line: the message as in Model.v, and for an action outside UPDATE_MESSAGES the request kind it
   answers (error_change: Some RChange; everything else: None) *)
Record cmsg := { cm_msg : msg; cm_other : option rkind }.

(* which request kind the action answers: key = (action, ident), for error_<x>: (REQUEST2REPLY[x], ident) *)
Definition answers (m : cmsg) : option rkind :=
  match m_action (cm_msg m) with
  | AReply | AErrRead => Some RRead
  | AChanged => Some RChange
  | AUpdate | AErrUpdate => None
  | AOther => cm_other m
  end.
(* get_reply raises for action.startswith('error_') *)
Definition is_error_reply (m : cmsg) : bool :=
  match m_action (cm_msg m) with AErrRead | AOther => true | _ => false end.
(* make_secop_error( *data[0:2]) in get_reply; None: it raises something else *)
Definition reply_error (C : client) (m : cmsg) : option (str * str) :=
  match m_data (cm_msg m) with
  | DList items =>
      match nth_error items 0, nth_error items 1 with
      | Some n, Some t => make_error C (i_kind n) (i_kind t)
      | _, _ => None
      end
  | _ => None
  end.

Inductive cstate :=
| CIdle                                              (* next call not transmitted yet (or no call left) *)
| CWaiting                                           (* transmitted, entry in active_requests, blocked in event.wait *)
| CMatched                                           (* entry popped and filled by the receive thread, event not yet set *)
| CReleased (m : cmsg) (now : Z) (later : list (key * entry)).  (* event set with reply m (received at now) *)
Record caller := { c_calls : list call; c_pc : nat; c_st : cstate }.

Inductive obsv :=
| OSeen (e : option entry)                           (* the call returned; cache entry read at that moment *)
| ORaised.                                           (* the call raised (error_change, unusable error report) *)

Inductive rxpc :=
| RIdle                                              (* at readline *)
| RUpdate (m : cmsg) (now : Z)                       (* at the entry of self.updateValue for line m *)
| RSet (i : nat) (m : cmsg) (now : Z).               (* at entry[1].set() of caller i *)

Record cst := {
  base : st;                                         (* cache, callback lists, invocation log (Model.st) *)
  rx : rxpc;
  cls : list caller;
  seen : list (nat * nat * obsv);                    (* (caller, call number, observation), newest first *)
  done : list (cmsg * Z);                            (* ghost: completely processed lines, newest first *)
  stuck : bool;                                      (* a step that is not enabled was asked for *)
}.

Inductive cstep :=
| SRecv (m : cmsg) (now : Z)
| SRxUpdate
| SRxSet (i : nat)
| SSend (i : nat)
| SWake (i : nat).

Definition cur_call (c : caller) : option call := nth_error (c_calls c) (c_pc c).
Definition set_cstate (x : cstate) (c : caller) : caller := {| c_calls := c_calls c; c_pc := c_pc c; c_st := x |}.
Definition advance (c : caller) : caller := {| c_calls := c_calls c; c_pc := S (c_pc c); c_st := CIdle |}.
Fixpoint upd_nth {A} (i : nat) (f : A -> A) (l : list A) : list A :=
  match l, i with
  | [], _ => []
  | x :: r, 0 => f x :: r
  | x :: r, S j => x :: upd_nth j f r
  end.

(* the entry active_requests.pop(key) finds *)
Definition matches (m : cmsg) (c : caller) : bool :=
  match c_st c, cur_call c, answers m, m_ident (cm_msg m) with
  | CWaiting, Some k, Some r, Some i => rkind_eqb (k_kind k) r && str_eqb (k_ident k) i
  | _, _, _, _ => false
  end.
Fixpoint find_caller (m : cmsg) (l : list caller) (n : nat) : option nat :=
  match l with
  | [] => None
  | c :: r => if matches m c then Some n else find_caller m r (S n)
  end.

(* ghost: a cache write is noted by every released caller that has not run yet *)
Definition note_write (k : key) (e : entry) (c : caller) : caller :=
  match c_st c with
  | CReleased m now later => set_cstate (CReleased m now ((k, e) :: later)) c
  | _ => c
  end.
(* the newest write for k in [later], e when there is none *)
Fixpoint last_write (k : key) (later : list (key * entry)) (e : entry) : entry :=
  match later with
  | [] => e
  | (k', e') :: r => if key_eqb k k' then e' else last_write k r e
  end.

Definition mk_stuck (s : cst) : cst :=
  {| base := base s; rx := rx s; cls := cls s; seen := seen s; done := done s; stuck := true |}.

(* the request matching after the cache part of a line (lines 487-503) *)
Definition do_match (s : cst) (m : cmsg) (now : Z) (b : st) (cl : list caller) : cst :=
  match find_caller m cl 0 with
  | Some i => {| base := b; rx := RSet i m now; cls := upd_nth i (set_cstate CMatched) cl; seen := seen s;
                 done := (m, now) :: done s; stuck := stuck s |}
  | None => {| base := b; rx := RIdle; cls := cl; seen := seen s; done := (m, now) :: done s; stuck := stuck s |}
  end.

Definition finish (s : cst) (i : nat) (c : caller) (o : obsv) (b : st) (cl : list caller) : cst :=
  {| base := b; rx := rx s; cls := upd_nth i advance cl; seen := (i, c_pc c, o) :: seen s; done := done s;
     stuck := stuck s |}.

(* the caller runs again after event.wait *)
Definition wake (C : client) (s : cst) (i : nat) (c : caller) (k : call) (m : cmsg) : cst :=
  let cached := cache_get (k_key k) (cache (base s)) in
  if is_error_reply m then
    match k_kind k with
    | RChange => finish s i c ORaised (base s) (cls s)             (* setParameter: the error propagates *)
    | RRead =>
        match reply_error C m with
        | None => finish s i c ORaised (base s) (cls s)            (* make_secop_error itself raised *)
        | Some _ => finish s i c (OSeen cached) (base s) (cls s)   (* from_reply: return self.cache[module, parameter] *)
        end
    end
  else finish s i c (OSeen cached) (base s) (cls s).

Definition cstep_fn (C : client) (imp : nat -> nat -> option nat) (W : nat -> beh) (s : cst) (x : cstep) : cst :=
  match x with
  | SRecv m now =>
      match rx s with
      | RIdle =>
          match decode C imp now (cm_msg m) with
          | OUpd _ _ => {| base := base s; rx := RUpdate m now; cls := cls s; seen := seen s; done := done s;
                           stuck := stuck s |}
          | OFail => {| base := callback_herr W (base s); rx := RIdle; cls := cls s; seen := seen s;
                        done := (m, now) :: done s; stuck := stuck s |}
          | OSkip => do_match s m now (base s) (cls s)
          end
      | _ => mk_stuck s
      end
  | SRxUpdate =>
      match rx s with
      | RUpdate m now =>
          match decode C imp now (cm_msg m) with
          | OUpd k e => do_match s m now (update_value W k e (base s)) (map (note_write k e) (cls s))
          | _ => mk_stuck s
          end
      | _ => mk_stuck s
      end
  | SRxSet i =>
      match rx s with
      | RSet j m now =>
          if Nat.eqb i j then
            {| base := base s; rx := RIdle; cls := upd_nth i (set_cstate (CReleased m now [])) (cls s);
               seen := seen s; done := done s; stuck := stuck s |}
          else mk_stuck s
      | _ => mk_stuck s
      end
  | SSend i =>
      match nth_error (cls s) i with
      | Some c =>
          match c_st c, cur_call c with
          | CIdle, Some _ => {| base := base s; rx := rx s; cls := upd_nth i (set_cstate CWaiting) (cls s);
                                seen := seen s; done := done s; stuck := stuck s |}
          | _, _ => mk_stuck s
          end
      | None => mk_stuck s
      end
  | SWake i =>
      match nth_error (cls s) i with
      | Some c =>
          match c_st c, cur_call c with
          | CReleased m _ _, Some k => wake C s i c k m
          | _, _ => mk_stuck s
          end
      | None => mk_stuck s
      end
  end.

Definition cinit (b : st) (progs : list (list call)) : cst :=
  {| base := b; rx := RIdle; cls := map (fun p => {| c_calls := p; c_pc := 0; c_st := CIdle |}) progs;
     seen := []; done := []; stuck := false |}.

Definition crun (C : client) (imp : nat -> nat -> option nat) (W : nat -> beh) (s : cst) (steps : list cstep) : cst :=
  fold_left (cstep_fn C imp W) steps s.

(* the lines whose processing is complete, as ops of the sequential model, in arrival order *)
Definition done_ops (d : list (cmsg * Z)) : list op := map (fun x => ORecv (cm_msg (fst x)) (snd x)) (rev d).
