(* C12 -- executable model of the message processing of frappy/client/__init__.py:
   SecopClient._init_descriptive_data (identifier maps, internal names), the cache part of the receive
   loop (__rxthread lines 453-486), SecopClient.updateValue + ProxyClient.updateValue (cache write and
   three-level callbacks), ProxyClient.callback / register_callback / unregister_callback, and
   frappy/errors.py make_secop_error.  No proofs in this file.

   Outside the model (enter as data): json.loads, the python regular expression engine (the result of
   FRAPPY_ERROR.match is supplied with the text), datatype.import_value / export_value (functions
   imp : datatype -> payload -> option value; the theorems hold for every such function). *)
From Coq Require Import List Arith ZArith NArith Bool.
Import ListNotations.

Definition str := list N.                       (* python str: code points *)
Fixpoint str_eqb (a b : str) : bool :=
  match a, b with
  | [], [] => true
  | x :: a', y :: b' => N.eqb x y && str_eqb a' b'
  | _, _ => false
  end.
Definition key := (str * str)%type.             (* (module, parameter) with internal names *)
Definition key_eqb (a b : key) : bool := str_eqb (fst a) (fst b) && str_eqb (snd a) (snd b).
Fixpoint mem_str (s : str) (l : list str) : bool :=
  match l with [] => false | x :: r => str_eqb s x || mem_str s r end.

Definition COLON : N := 58%N.
Definition UNDERSCORE : N := 95%N.
Definition s_value : str := [118; 97; 108; 117; 101]%N.
Definition s_target : str := [116; 97; 114; 103; 101; 116]%N.
Definition s_InternalError : str := [73;110;116;101;114;110;97;108;69;114;114;111;114]%N.

(* ------------------------------------------------------------------ description *)
Record acc := { a_name : str; a_cmd : bool; a_dt : nat }.
Definition dsc := list (str * list acc).        (* modules in order, accessibles in order *)

(* SecopClient.internalize_name *)
Definition internalize (predef : list str) (n : str) : str :=
  match n with
  | c :: r => if N.eqb c UNDERSCORE && negb (mem_str r predef) then r else n
  | [] => n
  end.

Definition mk_ident (m a : str) : str := m ++ COLON :: a.    (* f'{modname}:{aname}' *)

(* python dict built by successive assignment: the last assignment to a key wins *)
Fixpoint assoc_last {K V} (eqb : K -> K -> bool) (k : K) (l : list (K * V)) : option V :=
  match l with
  | [] => None
  | (k', v) :: r => match assoc_last eqb k r with
                    | Some v' => Some v'
                    | None => if eqb k k' then Some v else None
                    end
  end.

(* self.internal : identifier -> (module, internal name) *)
Definition internal_of (predef : list str) (d : dsc) : list (str * key) :=
  flat_map (fun ma => map (fun a => (mk_ident (fst ma) (a_name a), (fst ma, internalize predef (a_name a))))
                          (snd ma)) d.
(* self.modules[m]['parameters'][p]['datatype'] : commands are not in this table *)
Definition params_of (predef : list str) (d : dsc) : list (key * nat) :=
  flat_map (fun ma => flat_map (fun a => if a_cmd a then [] else
                                           [((fst ma, internalize predef (a_name a)), a_dt a)])
                               (snd ma)) d.

(* what the client knows after _init_descriptive_data, plus the error class tables of frappy/errors.py *)
Record client := {
  internal : list (str * key);
  params : list (key * nat);
  err_classes : list str;                        (* SECoPError.clsname2class keys *)
  err_names : list (str * str);                  (* SECoPError.name2class: SECoP error name -> python class *)
}.
Definition mk_client (predef classes : list str) (names : list (str * str)) (d : dsc) : client :=
  {| internal := internal_of predef d; params := params_of predef d; err_classes := classes; err_names := names |}.

(* ------------------------------------------------------------------ messages *)
Inductive action := AUpdate | AReply | AChanged | AErrUpdate | AErrRead | AOther.
Definition is_update_message (a : action) : bool := match a with AOther => false | _ => true end.
Definition is_error_action (a : action) : bool := match a with AErrUpdate | AErrRead => true | _ => false end.

(* numbers that can stand in a 't' qualifier; finite ones in ticks of 2^-10 s *)
Inductive tnum := TFin (z : Z) | TPInf | TNInf | TNaN.
Inductive tq := TAbsent | TNum (t : tnum) | TBad.     (* key 't' absent / a JSON number or bool / not orderable with a float *)

(* one element of the JSON array carried by a message, as far as the client looks at it *)
Inductive ikind :=
| IKDict (t : tq)                               (* a JSON object (has .get) *)
| IKStr (s : str) (m : option (str * str))      (* a JSON string, with the groups of FRAPPY_ERROR.match(s) when it matches *)
| IKHashable                                    (* null, number, bool *)
| IKList.                                       (* JSON array: neither .get nor hashable *)
Record item := { i_payload : nat; i_kind : ikind }.   (* i_payload: identity of the JSON value (for import) *)

Inductive data :=
| DBadJson                                      (* decode_msg raises *)
| DNotList                                      (* missing, null, number, bool, string, object: indexing raises *)
| DList (items : list item).

Record msg := { m_action : action; m_ident : option str; m_data : data }.

(* cache entry: value id (None for an error entry), timestamp, readerror (python class, text) *)
Definition entry := (option nat * tnum * option (str * str))%type.

(* identifier -> (module, parameter), with the default accessible shorthand (lines 458-464; since repository commit 0fe05ab only for a non-empty identifier) *)
Definition has_colon (s : str) : bool := existsb (N.eqb COLON) s.
Definition resolve (C : client) (a : action) (ident : option str) : option key :=
  match ident with
  | None => None                                 (* internal.get(None) misses; `ident and ...` is false: no shorthand *)
  | Some i =>
      match assoc_last str_eqb i (internal C) with
      | Some k => Some k
      | None =>
          match i with
          | [] => None                           (* an empty identifier is falsy as well (decode_msg never delivers one) *)
          | _ => if has_colon i then None
                 else assoc_last str_eqb (mk_ident i (match a with AChanged => s_target | _ => s_value end)) (internal C)
          end
      end
  end.

(* timestamp = min(now, data[..].get('t', now)); None: the comparison raises *)
Definition tmin (now : Z) (t : tq) : option tnum :=
  match t with
  | TAbsent => Some (TFin now)
  | TNum (TFin z) => Some (TFin (if Z.ltb z now then z else now))
  | TNum TPInf => Some (TFin now)
  | TNum TNInf => Some TNInf
  | TNum TNaN => Some (TFin now)
  | TBad => None
  end.

(* frappy/errors.py make_secop_error(name, text); None: it raises *)
Definition make_error (C : client) (name text : ikind) : option (str * str) :=
  match text with
  | IKStr whole m =>
      let byname := match name with
                    | IKStr n _ => Some (match assoc_last str_eqb n (err_names C) with
                                         | Some c => c | None => s_InternalError end, whole)
                    | IKHashable => Some (s_InternalError, whole)
                    | IKDict _ | IKList => None
                    end in
      match m with
      | Some (cls, rest) => if mem_str cls (err_classes C) then Some (cls, rest) else byname
      | None => byname
      end
  | _ => None
  end.

Inductive outcome :=
| OSkip                              (* no cache update, no exception: goes on to the request matching *)
| OFail                              (* an exception: handleError callbacks, then the next message *)
| OUpd (k : key) (e : entry).        (* updateValue(module, param, value, timestamp, readerror) goes through *)

Definition decode (C : client) (imp : nat -> nat -> option nat) (now : Z) (m : msg) : outcome :=
  match m_data m with
  | DBadJson => OFail
  | d =>
      if negb (is_update_message (m_action m)) then OSkip else
      match resolve C (m_action m) (m_ident m) with
      | None => OSkip
      | Some k =>
          match d with
          | DList items =>
              if is_error_action (m_action m) then
                match nth_error items 2, nth_error items 0, nth_error items 1 with
                | Some {| i_kind := IKDict t |}, Some name, Some text =>
                    match make_error C (i_kind name) (i_kind text), tmin now t, assoc_last key_eqb k (params C) with
                    | Some err, Some ts, Some _ => OUpd k (None, ts, Some err)
                    | _, _, _ => OFail
                    end
                | _, _, _ => OFail
                end
              else
                match nth_error items 1, nth_error items 0 with
                | Some {| i_kind := IKDict t |}, Some v =>
                    match tmin now t, assoc_last key_eqb k (params C) with
                    | Some ts, Some dt =>
                        match imp dt (i_payload v) with
                        | Some x => OUpd k (Some x, ts, None)
                        | None => OFail
                        end
                    | _, _ => OFail
                    end
                | _, _ => OFail
                end
          | _ => OFail
          end
      end
  end.

(* ------------------------------------------------------------------ callbacks *)
Inductive cbname := CItem | CEvent | CHErr.          (* updateItem, updateEvent, handleError *)
Inductive ckey := KNode | KMod (m : str) | KPar (m p : str).
Definition cbname_eqb (a b : cbname) : bool :=
  match a, b with CItem, CItem | CEvent, CEvent | CHErr, CHErr => true | _, _ => false end.
Definition ckey_eqb (a b : ckey) : bool :=
  match a, b with
  | KNode, KNode => true
  | KMod m, KMod m' => str_eqb m m'
  | KPar m p, KPar m' p' => str_eqb m m' && str_eqb p p'
  | _, _ => false
  end.

(* a recorded invocation of callback function [cb] *)
Inductive inv :=
| InvUpd (cb : nat) (cn : cbname) (k : key) (e : entry)
| InvErr (cb : nat).

(* what an invocation does: return, raise UnregisterCallback, raise another exception *)
Inductive beh := BOk | BUnreg | BExc.

Record st := {
  cache : list (key * entry);                   (* python dict: insertion order, value replaced in place *)
  cbs : cbname -> ckey -> list nat;             (* self.callbacks[cbname][key] *)
  log : list inv;                               (* newest first *)
  ctr : nat;                                    (* number of invocations so far *)
}.
Definition st0 (herr0 : list nat) : st :=
  {| cache := []; cbs := fun cn k => match cn, k with CHErr, KNode => herr0 | _, _ => [] end; log := []; ctr := 0 |}.

Fixpoint cache_set (k : key) (e : entry) (l : list (key * entry)) : list (key * entry) :=
  match l with
  | [] => [(k, e)]
  | (k', e') :: r => if key_eqb k k' then (k, e) :: r else (k', e') :: cache_set k e r
  end.
Fixpoint cache_get (k : key) (l : list (key * entry)) : option entry :=
  match l with [] => None | (k', e) :: r => if key_eqb k k' then Some e else cache_get k r end.

Definition set_cache (s : st) (c : list (key * entry)) : st :=
  {| cache := c; cbs := cbs s; log := log s; ctr := ctr s |}.
Definition set_cbs (s : st) (cn : cbname) (k : ckey) (l : list nat) : st :=
  {| cache := cache s;
     cbs := fun cn' k' => if cbname_eqb cn cn' && ckey_eqb k k' then l else cbs s cn' k';
     log := log s; ctr := ctr s |}.

(* list.remove: first occurrence *)
Fixpoint remove1 (c : nat) (l : list nat) : list nat :=
  match l with [] => [] | x :: r => if Nat.eqb c x then r else x :: remove1 c r end.

Definition invoke (W : nat -> beh) (s : st) (i : inv) : st * beh :=
  ({| cache := cache s; cbs := cbs s; log := i :: log s; ctr := S (ctr s) |}, W (ctr s)).

(* self.callback(None, 'handleError', e): exceptions of these callbacks are swallowed *)
Fixpoint run_herr (W : nat -> beh) (copy : list nat) (s : st) : st :=
  match copy with
  | [] => s
  | c :: r =>
      let '(s1, b) := invoke W s (InvErr c) in
      let s2 := match b with
                | BUnreg => set_cbs s1 CHErr KNode (remove1 c (cbs s1 CHErr KNode))
                | _ => s1
                end in
      run_herr W r s2
  end.
Definition callback_herr (W : nat -> beh) (s : st) : st := run_herr W (cbs s CHErr KNode) s.

(* self.callback(key, cbname, module, param, ...) for updateItem / updateEvent: iterates over a copy *)
Fixpoint run_upd (W : nat -> beh) (cn : cbname) (k : ckey) (pk : key) (e : entry) (copy : list nat) (s : st) : st :=
  match copy with
  | [] => s
  | c :: r =>
      let '(s1, b) := invoke W s (InvUpd c cn pk e) in
      let s2 := match b with
                | BOk => s1
                | BUnreg => set_cbs s1 cn k (remove1 c (cbs s1 cn k))
                | BExc => callback_herr W s1
                end in
      run_upd W cn k pk e r s2
  end.
Definition callback (W : nat -> beh) (cn : cbname) (k : ckey) (pk : key) (e : entry) (s : st) : st :=
  run_upd W cn k pk e (cbs s cn k) s.

(* the three levels of one callback name *)
Definition levels (W : nat -> beh) (cn : cbname) (pk : key) (e : entry) (s : st) : st :=
  callback W cn (KPar (fst pk) (snd pk)) pk e
    (callback W cn (KMod (fst pk)) pk e
       (callback W cn KNode pk e s)).

(* SecopClient.updateValue after the import: cache write, updateItem levels, then updateEvent levels *)
Definition update_value (W : nat -> beh) (pk : key) (e : entry) (s : st) : st :=
  levels W CEvent pk e (levels W CItem pk e (set_cache s (cache_set pk e (cache s)))).

(* one received line *)
Definition recv (C : client) (imp : nat -> nat -> option nat) (W : nat -> beh) (s : st) (m : msg) (now : Z) : st :=
  match decode C imp now m with
  | OSkip => s
  | OFail => callback_herr W s
  | OUpd k e => update_value W k e s
  end.

(* register_callback(key, <cbname>=cbfunc): immediate calls with the cached state *)
Definition reg_args (s : st) (k : ckey) : list (key * entry) :=
  match k with
  | KNode => cache s
  | KPar m p => match cache_get (m, p) (cache s) with Some e => [((m, p), e)] | None => [] end
  | KMod m => filter (fun ke => str_eqb (fst (fst ke)) m) (cache s)
  end.
Fixpoint run_reg (W : nat -> beh) (cn : cbname) (c : nat) (args : list (key * entry)) (s : st) (do_append : bool)
  : st * bool :=
  match args with
  | [] => (s, do_append)
  | (pk, e) :: r =>
      let '(s1, b) := invoke W s (InvUpd c cn pk e) in
      run_reg W cn c r s1 (match b with BUnreg => false | _ => do_append end)
  end.
Definition register (W : nat -> beh) (s : st) (k : ckey) (cn : cbname) (c : nat) : st :=
  let args := match cn with CHErr => [] | _ => reg_args s k end in
  let '(s1, ap) := run_reg W cn c args s true in
  if ap then set_cbs s1 cn k (cbs s1 cn k ++ [c]) else s1.

Definition unregister (s : st) (k : ckey) (cn : cbname) (c : nat) : st :=
  set_cbs s cn k (remove1 c (cbs s cn k)).

Inductive op :=
| ORecv (m : msg) (now : Z)
| OReg (k : ckey) (cn : cbname) (c : nat)
| OUnreg (k : ckey) (cn : cbname) (c : nat).

Definition step (C : client) (imp : nat -> nat -> option nat) (W : nat -> beh) (s : st) (o : op) : st :=
  match o with
  | ORecv m now => recv C imp W s m now
  | OReg k cn c => register W s k cn c
  | OUnreg k cn c => unregister s k cn c
  end.

Definition run (C : client) (imp : nat -> nat -> option nat) (W : nat -> beh) (s : st) (ops : list op) : st :=
  fold_left (step C imp W) ops s.

(* ------------------------------------------------------------------ write path end to end (setParameter)
   client: value -> export_value -> wire; node: import -> driver; driver result -> node export -> wire;
   client: import -> cache.  All four conversions are functions supplied from outside. *)
Definition e2e_write (exp_c imp_n exp_n imp_c : nat -> option nat) (v r : nat) : option nat * option nat :=
  (match exp_c v with Some j => imp_n j | None => None end,
   match exp_n r with Some j => imp_c j | None => None end).
(* readParameter: driver result -> node export -> wire -> client import -> cache *)
Definition e2e_read (exp_n imp_c : nat -> option nat) (r : nat) : option nat :=
  match exp_n r with Some j => imp_c j | None => None end.

(* The node validates a written array against the previous value of the parameter
   (dispatcher: datatype.validate(value, previous=pobj.value); ArrayOf.validate: when previous is not empty
   it is padded with None up to the length of the new value and the elements are paired with
   zip(value, previous)).  Elements are opaque here (their own validation is the element datatype's business).
   Before repository commit 672d284 there was no padding and the result was cut to the previous length. *)
Definition array_validate {A} (prev v : list A) : list A :=
  match prev with
  | [] => v
  | _ => map fst (combine v (map Some prev ++ repeat None (length v - length prev)))
  end.

(* The node validates a written struct against the previous value of the parameter too
   (StructOf.validate: result = dict(previous or {}); for key, val in value.items(): result[key] = validated member):
   the members given replace, the others keep their value.  A struct is a python dict: member id -> value id, in
   insertion order (replace in place, new keys at the end).  Which members may be left out is decided by the two
   datatype objects (client: the one rebuilt from the description); that decision enters with the conversion tables. *)
Fixpoint struct_set (k v : nat) (l : list (nat * nat)) : list (nat * nat) :=
  match l with
  | [] => [(k, v)]
  | (k', v') :: r => if Nat.eqb k k' then (k, v) :: r else (k', v') :: struct_set k v r
  end.
Fixpoint struct_get (k : nat) (l : list (nat * nat)) : option nat :=
  match l with [] => None | (k', v) :: r => if Nat.eqb k k' then Some v else struct_get k r end.
Definition struct_validate (prev v : list (nat * nat)) : list (nat * nat) :=
  fold_left (fun acc kv => struct_set (fst kv) (snd kv) acc) v prev.
