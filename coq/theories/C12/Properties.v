(* C12 -- property theorems only; each is closed by a lemma of Lemmas.v.
   C ranges over every client (description + error tables), imp over every datatype import function, W over
   every behaviour of callbacks (return / UnregisterCallback / exception at any invocation), ops over every
   history of received lines, registrations and unregistrations, s over every client state. *)
From Coq Require Import List Arith ZArith NArith Bool Lia.
Import ListNotations.
Require Import FV.Gen.C12 FV.C12.Model FV.C12.Lemmas FV.C12.ConcModel FV.C12.ConcLemmas FV.C12.ReModel FV.C12.ReLemmas FV.C12.Run.

(* obligations on the facts regenerated from /repo (Gen/C12.v) *)
Theorem C12_source_facts :
  update_messages_ok = true /\ timestamp_clamped_before_update = true /\ shorthand_lookup_shape = true /\
  reply_update_precedes_release = true /\ reply_error_not_stored_again = true /\
  update_value_order = true /\ callback_iterates_copy = true /\ unregister_handler_checks_membership = true /\
  register_appends_in_place = true /\
  dispatch_removes_from_fetched_list = true /\ internalize_shape = true /\
  error_default_is_InternalError = true /\ array_validate_pads_previous = true /\
  struct_missing_optional_means_all_optional = true /\ struct_validate_merges_previous = true /\ predefined_names <> [] /\ error_classes <> [] /\ error_names <> [].
Proof. repeat split; try reflexivity; discriminate. Qed.

(* 1. The cache entry of every parameter is the meaning (decode) of the last line accepted for it -- whatever the
      callbacks do, whatever is registered, whatever else arrived in between. *)
Theorem C12_cache_is_last_message : forall C imp W ops s k,
  cache_get k (cache (run C imp W s ops)) = fold_left (last_upd C imp k) ops (cache_get k (cache s)).
Proof. intros. rewrite run_cache. apply cache_is_last. Qed.

(* 2. Which parameter a line is about: full identifier, default accessible shorthand, unknown identifier, and
      no identifier at all (a line without identifier is about no parameter and is never accepted; until repository
      commit 0fe05ab it was taken for the module called "None" and this theorem carried that guard). *)
Theorem C12_identifier_full : forall predef classes names d m accs a act,
  colon_free d -> In (m, accs) d -> In a accs ->
  resolve (mk_client predef classes names d) act (Some (mk_ident m (a_name a))) = Some (m, internalize predef (a_name a)).
Proof. intros; eapply resolve_full; eauto. Qed.
Theorem C12_identifier_shorthand : forall predef classes names d m accs a act,
  colon_free d -> In (m, accs) d -> In a accs -> m <> [] ->
  a_name a = (match act with AChanged => s_target | _ => s_value end) ->
  resolve (mk_client predef classes names d) act (Some m) = Some (m, a_name a).
Proof.
  intros predef classes names d m accs a act CF I1 I2 NE E. rewrite E.
  eapply resolve_shorthand; eauto.
Qed.
Theorem C12_identifier_unknown : forall predef classes names d act i,
  (forall m accs a, In (m, accs) d -> In a accs -> i <> mk_ident m (a_name a)) -> has_colon i = true ->
  resolve (mk_client predef classes names d) act (Some i) = None.
Proof. intros; apply resolve_unknown; auto. Qed.
Theorem C12_no_identifier : forall C imp act now m,
  resolve C act None = None /\ (m_ident m = None -> forall k e, decode C imp now m <> OUpd k e).
Proof. intros; split; [apply resolve_no_ident|intros; apply decode_no_ident; auto]. Qed.

(* 3. An accepted line invokes every callback registered at that moment for the node, the module or the parameter
      exactly once, updateItem before updateEvent, node then module then parameter, each with the entry that is
      then in the cache; other callbacks (handleError after a failing callback) may be interleaved, no other
      update callback is. *)
Theorem C12_callbacks_once_in_order : forall C imp W s m now k e,
  decode C imp now m = OUpd k e -> exists new,
  log (recv C imp W s m now) = new ++ log s /\
  rev (filter is_upd new) = map (fun c => InvUpd c CItem k e) (level_lists s CItem k)
                            ++ map (fun c => InvUpd c CEvent k e) (level_lists s CEvent k) /\
  cache_get k (cache (recv C imp W s m now)) = Some e.
Proof. intros; apply recv_accepted; auto. Qed.

(* arrival order: what was invoked for earlier ops is never reordered or dropped by later ones *)
Theorem C12_invocations_in_arrival_order : forall C imp W ops1 ops2 s, exists new,
  log (run C imp W s (ops1 ++ ops2)) = new ++ log (run C imp W s ops1).
Proof.
  intros. unfold run. rewrite fold_left_app. apply (run_log_grows C imp W ops2).
Qed.

(* 4. Timestamps are never in the future of the receiving clock. *)
Theorem C12_timestamp_not_future : forall C imp W ops s now0,
  cache_le (cache s) now0 -> clock_ok now0 ops -> cache_le (cache (run C imp W s ops)) (final_now now0 ops).
Proof. intros. rewrite run_cache. apply timestamps_not_future; auto. Qed.

(* 5. A line that is not accepted (malformed, unknown parameter, command identifier, rejected payload, other
      action) changes neither cache nor update registrations, invokes no update callback, and the following
      lines are processed as if it had not arrived. *)
Theorem C12_malformed_skipped : forall C imp W s m now,
  (forall k e, decode C imp now m <> OUpd k e) ->
  (exists new, log (recv C imp W s m now) = new ++ log s /\ filter is_upd new = [] /\
               cache (recv C imp W s m now) = cache s /\
               (forall cn k, cn <> CHErr -> cbs (recv C imp W s m now) cn k = cbs s cn k)) /\
  (forall s1 ops1 ops2, cache (run C imp W s1 (ops1 ++ ORecv m now :: ops2)) = cache (run C imp W s1 (ops1 ++ ops2))).
Proof.
  intros. split; [apply recv_not_accepted; auto|intros; apply skipped_cache; auto].
Qed.

(* 6. Registration calls back immediately, once per cached entry the key selects, in cache order, with the cached
      entry; it touches no other registration and never the cache. *)
Theorem C12_register_immediate : forall W s k cn c, cn <> CHErr ->
  log (register W s k cn c) = rev (map (fun a => InvUpd c cn (fst a) (snd a)) (reg_args s k)) ++ log s /\
  cache (register W s k cn c) = cache s /\
  (forall cn' k', (cn', k') <> (cn, k) -> cbs (register W s k cn c) cn' k' = cbs s cn' k') /\
  (cbs (register W s k cn c) cn k = cbs s cn k ++ [c] \/ cbs (register W s k cn c) cn k = cbs s cn k).
Proof.
  intros W s k cn c N. destruct (register_spec W s k cn c N) as [L [F A]].
  split; [exact L|split; [apply register_cache|split; [exact F|exact A]]].
Qed.

(* 7. Write path end to end: the driver receives the value the caller passed and the cache receives the value the
      driver returned, exactly when these two values round-trip through the conversions (the datatype law of C02,
      needed at these two values only).  The statement is pointwise on purpose: the earlier version had the premises
      "forall x, exists j, exp_c x = Some j /\ imp_n j = Some x" over ALL value ids, which no finite conversion table
      (what Run.check_case passes, imp_of) satisfies -- it was vacuous for every case of the harness (audit, see
      NonVacuity.v C12_e2e_write_old_premise_unsatisfiable_for_tables).  C12_e2e_write_on_tables applies it to tables.
      The node validates arrays and structs against the previous value of the parameter: an array hands every element
      on (it was cut to the previous length until repository commit 672d284; the source fact
      array_validate_pads_previous ties the model to the fix); of a struct the members passed replace those of the
      previous value and the others keep their value (partial struct), no member is lost or invented. *)
Theorem C12_e2e_write : forall exp_c imp_n exp_n imp_c v r,
  (exists j, exp_c v = Some j /\ imp_n j = Some v) -> (exists j, exp_n r = Some j /\ imp_c j = Some r) ->
  e2e_write exp_c imp_n exp_n imp_c v r = (Some v, Some r).
Proof. intros; apply e2e_write_pointwise; auto. Qed.
Theorem C12_e2e_write_exact : forall exp_c imp_n exp_n imp_c v r,
  (fst (e2e_write exp_c imp_n exp_n imp_c v r) = Some v <-> (exists j, exp_c v = Some j /\ imp_n j = Some v)) /\
  (snd (e2e_write exp_c imp_n exp_n imp_c v r) = Some r <-> (exists j, exp_n r = Some j /\ imp_c j = Some r)) /\
  (e2e_read exp_n imp_c r = Some r <-> (exists j, exp_n r = Some j /\ imp_c j = Some r)).
Proof.
  intros. split; [apply e2e_write_driver_iff|split; [apply e2e_write_cache_iff|apply e2e_read_iff]].
Qed.
(* the theorem at the environment of a CE2E case: finite tables, two value ids that round-trip, others that do not *)
Example C12_e2e_write_on_tables :
  let exp := [(0, 5, Some 50); (0, 6, Some 60); (0, 7, Some 70)] in let imp := [(0, 50, Some 5); (0, 60, Some 6); (0, 70, None)] in
  e2e_write (imp_of exp 0) (imp_of imp 0) (imp_of exp 0) (imp_of imp 0) 5 6 = (Some 5, Some 6) /\
  fst (e2e_write (imp_of exp 0) (imp_of imp 0) (imp_of exp 0) (imp_of imp 0) 7 6) <> Some 7.
Proof.
  cbv zeta. split.
  - apply C12_e2e_write; eexists; split; reflexivity.
  - vm_compute. discriminate.
Qed.
Theorem C12_e2e_array_exact : forall (A : Type) (prev v : list A), array_validate prev v = v.
Proof. intros; apply array_validate_exact. Qed.
Theorem C12_e2e_struct_members : forall prev v,
  (forall k, struct_get k (struct_validate prev v) =
             match assoc_last Nat.eqb k v with Some x => Some x | None => struct_get k prev end) /\
  ((forall kv, In kv v -> In (fst kv) (map fst prev)) -> map fst (struct_validate prev v) = map fst prev).
Proof. intros; split; [intro; apply struct_validate_get|apply struct_validate_keys]. Qed.
Example C12_e2e_struct_partial_demo :
  struct_validate [(0, 11); (1, 22)] [(1, 33)] = [(0, 11); (1, 33)].
Proof. reflexivity. Qed.

(* 8. Callers of setParameter / readParameter / getParameter concurrent with the receive thread (ConcModel.v).
      A step sequence is one schedule of one peer script: every interleaving of the atomic steps of the receive
      thread (receive+decode / cache update+callbacks+match / set event), the transmissions and the callers.
      All three theorems quantify over ALL step sequences, clients, import functions, callback behaviours, caller
      programs and start states.  Until repository commit 276f60f they carried the guard "no caller has executed the
      cache write of readParameter's fallback" (finding C12/read-error-fallback-overwrites-later-update: the fallback
      also ran for an error that came from a reply when a later line had replaced the cache entry); the source fact
      reply_error_not_stored_again ties the model to the repair. *)

(* whenever the receive thread is about to release a caller with a reply, the cache already holds the import of that
   reply; and from the release until the caller runs the cache entry of that parameter is the import of the reply or
   of the newest line processed since (the cache mirrors the LAST message) *)
Theorem C12_reply_cached_before_release : forall C imp W b progs steps,
  let s := crun C imp W (cinit b progs) steps in
  (forall i m now, rx s = RSet i m now ->
     forall k e, decode C imp now (cm_msg m) = OUpd k e -> cache_get k (cache (base s)) = Some e) /\
  (forall i c m now later, nth_error (cls s) i = Some c -> c_st c = CReleased m now later ->
     forall k e, decode C imp now (cm_msg m) = OUpd k e ->
     cache_get k (cache (base s)) = Some (last_write k later e)).
Proof. intros; apply reply_cached_before_release; auto. Qed.

(* what the released call returns: after reply / changed, and after error_read for a read, the entry made by the
   receive thread from the answering line (or from a newer line for the same parameter); the caller changes neither
   cache nor callback lists nor the invocation log (no second update: one round of callbacks per message) *)
Theorem C12_released_call_sees_its_reply : forall C imp W b progs steps,
  let s := crun C imp W (cinit b progs) steps in
  forall i c k m now later e,
  nth_error (cls s) i = Some c -> c_st c = CReleased m now later -> cur_call c = Some k ->
  decode C imp now (cm_msg m) = OUpd (k_key k) e -> (is_error_reply m = false \/ k_kind k = RRead) ->
  cstep_fn C imp W s (SWake i) = finish s i c (OSeen (Some (last_write (k_key k) later e))) (base s) (cls s).
Proof.
  intros C imp W b progs steps s i c k m now later e Hn Hs Hc D Hk.
  pose proof (inv_run C imp W steps (cinit b progs) (inv_init C imp b progs)) as I. fold s in I.
  eapply wake_sees_reply; eauto.
Qed.

(* for every schedule the cache, the callback lists and the invocation log are those of the sequential model run over
   the processed lines in arrival order: theorems 1, 3, 4, 5 above hold for the concurrent client as they stand
   (every callback exactly once per accepted line, in arrival order; cache = last message) *)
Theorem C12_conc_is_sequential : forall C imp W b progs steps,
  let s := crun C imp W (cinit b progs) steps in
  base s = run C imp W b (done_ops (done s)) /\
  (stuck s = false -> rev (done s) ++ in_progress (rx s) = arrived steps).
Proof.
  intros C imp W b progs steps s. split.
  - apply conc_is_sequential; auto.
  - apply done_is_arrival_order.
Qed.

(* 9. Callbacks that call back into the client (ReModel.v): W n is what the n-th invocation does -- any list of
      register_callback / unregister_callback calls on the same or on other keys and callback names, then return /
      UnregisterCallback / another exception.  For EVERY such W, every level (cn, lv) of every message (pk, e) and every
      client state s (hence for every dispatch of every history rrun W s0 ops):
      (a) the dispatch invokes exactly the callbacks that stand in the list of (cn, lv) when the dispatch of that level
          starts, each once, in list order, with the meaning of the message -- whatever the invoked callbacks register or
          unregister meanwhile, also when one of them unregisters a callback that then raises UnregisterCallback (until
          repository commit 4741ef2 the ValueError of cblist.remove ended the dispatch there: finding
          C12/unregister-then-oneshot-breaks-dispatch; this part then held only for runs without such a removal).  A
          callback registered during the dispatch is not dispatched for this message (it got its immediate call with the
          cached state, theorem 6); one unregistered during the dispatch is still called;
      (b) callbacks never touch the cache;
      (c) a list grows only by register_callback: occurrences of c0 afterwards <= occurrences before + number of times
          register_callback appended c0 to this list meanwhile;
      (d) every UnregisterCallback costs the callback one registration as long as it has one: if the list object the
          dispatch holds was not popped from the dict meanwhile (rpopped: an unregister_callback from inside the
          dispatch left this very list empty) and c0 was not appended to the list meanwhile, occurrences of c0
          afterwards <= occurrences before - number of times c0 raised UnregisterCallback (truncated subtraction: the
          handler  if cbfunc in cblist: cblist.remove(cbfunc)  removes nothing when none is left).  The guard of the
          earlier version (no removal of an absent callback, rbad) is gone.
      The source facts register_appends_in_place / dispatch_removes_from_fetched_list / callback_iterates_copy /
      unregister_handler_checks_membership tie the single list per (callback name, key) of the model to the code. *)
Theorem C12_callbacks_once_with_reentrant_registration : forall W cn lv pk e s,
  exists new, rlog (rcallback W cn lv pk e s) = new ++ rlog s /\
    rev (disp_of new) = map (fun c => (c, cn, lv, pk, e)) (rcbs s cn lv) /\
    rcache (rcallback W cn lv pk e s) = rcache s /\
    (forall c0, cnt c0 (rcbs (rcallback W cn lv pk e s) cn lv) <= cnt c0 (rcbs s cn lv) + added c0 cn lv new) /\
    (forall c0, rpopped W cn lv pk e s = false -> added c0 cn lv new = 0 ->
       cnt c0 (rcbs (rcallback W cn lv pk e s) cn lv) <= cnt c0 (rcbs s cn lv) - raised c0 new).
Proof. intros; apply callback_reentrant. Qed.

(* the one-shot clause spelled out: (1) a callback that raised UnregisterCallback in a dispatch as often as it stood in
   the list, and was not appended again meanwhile, is not in the list afterwards -- also when it (or another callback)
   registered other callbacks on the same list from inside the dispatch, or unregistered some (as long as the list was
   not left empty by an unregister_callback from inside: rpopped); (2) a callback that is not in the list of a
   level is not dispatched by that level, whatever the dispatched callbacks register meanwhile.  Together: never
   invoked again (until somebody registers it again).  (3) the list object is popped only by an unregister_callback for
   the dispatched list made from inside the dispatch: when no invoked callback makes one, rpopped is false. *)
Theorem C12_oneshot_gone_after_unregister : forall W cn lv pk e s c0,
  exists new, rlog (rcallback W cn lv pk e s) = new ++ rlog s /\
    (rpopped W cn lv pk e s = false -> cnt c0 (rcbs s cn lv) <= raised c0 new -> added c0 cn lv new = 0 ->
     ~ In c0 (rcbs (rcallback W cn lv pk e s) cn lv)).
Proof. intros; apply oneshot_gone; auto. Qed.
Theorem C12_not_registered_not_dispatched : forall W cn lv pk e s c0,
  ~ In c0 (rcbs s cn lv) ->
  exists new, rlog (rcallback W cn lv pk e s) = new ++ rlog s /\
    forall cn' lv' k' e', ~ In (c0, cn', lv', k', e') (disp_of new).
Proof. intros; apply not_registered_not_dispatched; auto. Qed.
Theorem C12_list_popped_only_by_inner_unregister : forall W cn lv pk e s,
  (forall n, forallb (fun a => negb (unreg_on cn lv a)) (r_acts (W n)) = true) ->
  rpopped W cn lv pk e s = false.
Proof. intros; apply no_inner_unregister_no_pop; auto. Qed.

(* a message is the cache write followed by the six dispatches in the fixed order, each starting in the state the
   previous one left (rlevel1 / rlevel2 are those states); invocations of a history are never reordered or dropped *)
Theorem C12_reentrant_message_levels : forall W pk e s,
  rupdate_value W pk e s =
    (let s0 := rwrite pk e s in
     let s3 := rcallback W CItem (KPar (fst pk) (snd pk)) pk e (rlevel2 W CItem pk e s0) in
     rcallback W CEvent (KPar (fst pk) (snd pk)) pk e
       (rcallback W CEvent (KMod (fst pk)) pk e (rcallback W CEvent KNode pk e s3))) /\
  cache_get pk (rcache (rupdate_value W pk e s)) = Some e.
Proof.
  intros. split; [reflexivity|].
  unfold rupdate_value, rlevels, rlevel2, rlevel1.
  repeat match goal with
  | |- context [rcache (rcallback ?W ?cn ?lv ?pk ?e ?s)] =>
      let H := fresh in destruct (callback_reentrant W cn lv pk e s) as [? [_ [_ [H _]]]]; rewrite H; clear H
  end.
  simpl. apply cache_get_set_same.
Qed.
Theorem C12_reentrant_invocations_in_arrival_order : forall W ops1 ops2 s, exists new,
  rlog (rrun W s (ops1 ++ ops2)) = new ++ rlog (rrun W s ops1).
Proof. intros. unfold rrun. rewrite fold_left_app. apply (rrun_log W ops2). Qed.

(* non-vacuity: the one-shot callback 1 registers its successor 2 on its own list and raises UnregisterCallback; a
   failing callback 3 stands behind it.  Callback 1 is invoked for the first message only, 2 gets the first message
   as immediate call and the later ones by dispatch, once each. *)
Definition re_demo_key : key := ([109%N], s_value).
Definition re_demo_e (n : nat) : entry := (Some n, TFin 100%Z, None).
Example C12_reentrant_demo :
  let W := fun n => match n with
                    | 0 => {| r_acts := [AcReg KNode CEvent 2]; r_fin := BUnreg |}
                    | 2 => {| r_acts := []; r_fin := BExc |}
                    | _ => {| r_acts := []; r_fin := BOk |} end in
  let s := rrun W (rst0 [0]) [RReg KNode CEvent 1; RReg KNode CEvent 3; RMsg re_demo_key (re_demo_e 1);
                               RMsg re_demo_key (re_demo_e 2)] in
  rcbs s CEvent KNode = [3; 2] /\
  filter (fun i => negb (is_ghost i)) (rev (rlog s)) =
    [RDisp 1 CEvent KNode re_demo_key (re_demo_e 1) BUnreg; RImm 2 CEvent KNode re_demo_key (re_demo_e 1) BOk;
     RDisp 3 CEvent KNode re_demo_key (re_demo_e 1) BExc; RErr 0 BOk;
     RDisp 3 CEvent KNode re_demo_key (re_demo_e 2) BOk; RDisp 2 CEvent KNode re_demo_key (re_demo_e 2) BOk].
Proof. vm_compute. repeat split; reflexivity. Qed.

(* non-vacuity of the concurrent theorems: a write and a read of the same parameter, answered in the opposite order,
   an update in between; the writer runs only after the answer to the reader was processed *)
Definition cdemo_key : key := ([109%N], s_target).
Definition cdemo_ident : str := mk_ident [109%N] s_target.
Definition cdemo_d : dsc := [([109%N], [{| a_name := s_target; a_cmd := false; a_dt := 0 |}])].
Definition cdemo_msg (a : action) (p : nat) : cmsg :=
  {| cm_msg := {| m_action := a; m_ident := Some cdemo_ident;
                  m_data := DList [{| i_payload := p; i_kind := IKHashable |}; {| i_payload := 9; i_kind := IKDict TAbsent |}] |};
     cm_other := None |}.
Definition cdemo_steps : list cstep :=
  [SSend 0; SSend 1; SRecv (cdemo_msg AChanged 1) 100; SRxUpdate; SRxSet 0;
   SRecv (cdemo_msg AUpdate 2) 110; SRxUpdate; SRecv (cdemo_msg AReply 3) 120; SRxUpdate; SRxSet 1;
   SWake 0; SWake 1].
Example C12_conc_demo :
  let s := crun (mk_client predefined_names error_classes error_names cdemo_d) (fun _ j => Some j) (fun _ => BOk)
                (cinit (register (fun _ => BOk) (st0 [0]) KNode CItem 1)
                       [[{| k_kind := RChange; k_ident := cdemo_ident; k_key := cdemo_key |}];
                        [{| k_kind := RRead; k_ident := cdemo_ident; k_key := cdemo_key |}]]) cdemo_steps in
  stuck s = false /\
  rev (seen s) = [(0, 0, OSeen (Some (Some 3, TFin 120%Z, None))); (1, 0, OSeen (Some (Some 3, TFin 120%Z, None)))] /\
  rev (log (base s)) = [InvUpd 1 CItem cdemo_key (Some 1, TFin 100%Z, None); InvUpd 1 CItem cdemo_key (Some 2, TFin 110%Z, None);
                        InvUpd 1 CItem cdemo_key (Some 3, TFin 120%Z, None)].
Proof. vm_compute. repeat split; reflexivity. Qed.

(* the history of the repaired finding: a read answered by an error report, an update of the same parameter processed
   before the caller runs: the call returns the newer entry, the cache keeps it, two invocations for two lines *)
Definition cdemo_err : cmsg :=
  {| cm_msg := {| m_action := AErrRead; m_ident := Some cdemo_ident;
                  m_data := DList [{| i_payload := 5; i_kind := IKStr [69%N] None |}; {| i_payload := 6; i_kind := IKStr [120%N] None |};
                                   {| i_payload := 9; i_kind := IKDict TAbsent |}] |};
     cm_other := None |}.
Example C12_conc_demo_error_then_update :
  let s := crun (mk_client predefined_names error_classes error_names cdemo_d) (fun _ j => Some j) (fun _ => BOk)
                (cinit (register (fun _ => BOk) (st0 [0]) KNode CItem 1)
                       [[{| k_kind := RRead; k_ident := cdemo_ident; k_key := cdemo_key |}]])
                [SSend 0; SRecv cdemo_err 100; SRxUpdate; SRxSet 0; SRecv (cdemo_msg AUpdate 2) 110; SRxUpdate; SWake 0] in
  stuck s = false /\
  seen s = [(0, 0, OSeen (Some (Some 2, TFin 110%Z, None)))] /\
  cache (base s) = [(cdemo_key, (Some 2, TFin 110%Z, None))] /\
  rev (log (base s)) = [InvUpd 1 CItem cdemo_key (None, TFin 100%Z, Some (s_InternalError, [120%N]));
                        InvUpd 1 CItem cdemo_key (Some 2, TFin 110%Z, None)].
Proof. vm_compute. repeat split; reflexivity. Qed.

(* non-vacuity: a history with a one-shot node callback, a failing module callback and a malformed line *)
Definition demo_d : dsc := [([109%N], [{| a_name := s_value; a_cmd := false; a_dt := 0 |}])].
Definition demo_val (t : tq) : msg :=
  {| m_action := AUpdate; m_ident := Some [109%N];
     m_data := DList [{| i_payload := 0; i_kind := IKHashable |}; {| i_payload := 1; i_kind := IKDict t |}] |}.
Example C12_demo :
  let s := run (mk_client predefined_names error_classes error_names demo_d) (fun _ j => Some j)
               (fun n => match n with 0 => BUnreg | 1 => BExc | _ => BOk end) (st0 [0])
               [OReg KNode CItem 1; OReg (KMod [109%N]) CEvent 2;
                ORecv (demo_val (TNum (TFin 500))) 100; ORecv (demo_val TBad) 200; ORecv (demo_val TAbsent) 300] in
  cache s = [(([109%N], s_value), (Some 0, TFin 300%Z, None))] /\
  rev (log s) = [InvUpd 1 CItem ([109%N], s_value) (Some 0, TFin 100%Z, None);
                 InvUpd 2 CEvent ([109%N], s_value) (Some 0, TFin 100%Z, None); InvErr 0;
                 InvErr 0;
                 InvUpd 2 CEvent ([109%N], s_value) (Some 0, TFin 300%Z, None)].
Proof. vm_compute. split; reflexivity. Qed.

Print Assumptions C12_source_facts.
Print Assumptions C12_cache_is_last_message.
Print Assumptions C12_identifier_full.
Print Assumptions C12_identifier_shorthand.
Print Assumptions C12_identifier_unknown.
Print Assumptions C12_no_identifier.
Print Assumptions C12_callbacks_once_in_order.
Print Assumptions C12_invocations_in_arrival_order.
Print Assumptions C12_timestamp_not_future.
Print Assumptions C12_malformed_skipped.
Print Assumptions C12_register_immediate.
Print Assumptions C12_e2e_write.
Print Assumptions C12_e2e_write_exact.
Print Assumptions C12_e2e_array_exact.
Print Assumptions C12_e2e_struct_members.
Print Assumptions C12_reply_cached_before_release.
Print Assumptions C12_released_call_sees_its_reply.
Print Assumptions C12_conc_is_sequential.
Print Assumptions C12_callbacks_once_with_reentrant_registration.
Print Assumptions C12_oneshot_gone_after_unregister.
Print Assumptions C12_not_registered_not_dispatched.
Print Assumptions C12_list_popped_only_by_inner_unregister.
Print Assumptions C12_reentrant_message_levels.
Print Assumptions C12_reentrant_invocations_in_arrival_order.
