(* C12 -- correspondence driver: a case carries the description, the import table, callback behaviours,
   the op history and what the implementation did (final cache in dict order, every recorded callback
   invocation in order, final callback lists); check_case re-runs the model and compares. *)
From Coq Require Import List Arith ZArith NArith Bool.
Import ListNotations.
Require Import FV.Base.Util FV.Gen.C12 FV.C12.Model FV.C12.ConcModel FV.C12.ReModel.

Definition tnum_eqb (a b : tnum) : bool :=
  match a, b with
  | TFin x, TFin y => Z.eqb x y
  | TPInf, TPInf | TNInf, TNInf | TNaN, TNaN => true
  | _, _ => false
  end.
Definition entry_eqb (a b : entry) : bool :=
  let '(v, t, e) := a in let '(v', t', e') := b in
  opt_eqb Nat.eqb v v' && tnum_eqb t t' && opt_eqb (pair_eqb str_eqb str_eqb) e e'.
Definition inv_eqb (a b : inv) : bool :=
  match a, b with
  | InvUpd c cn k e, InvUpd c' cn' k' e' => Nat.eqb c c' && cbname_eqb cn cn' && key_eqb k k' && entry_eqb e e'
  | InvErr c, InvErr c' => Nat.eqb c c'
  | _, _ => false
  end.
Definition beh_of (l : list (nat * beh)) (n : nat) : beh :=
  match assoc_nat n l with Some b => b | None => BOk end.
Fixpoint imp_of (l : list (nat * nat * option nat)) (dt j : nat) : option nat :=
  match l with
  | [] => None
  | (d, j', r) :: rest => if Nat.eqb d dt && Nat.eqb j j' then r else imp_of rest dt j
  end.

(* the client of this tree: predefined names and error tables come from the generated facts *)
Definition the_client (d : dsc) : client := mk_client predefined_names error_classes error_names d.

(* what the node did with a written array / struct: it validates both against the previous value of the parameter *)
Inductive wextra :=
| WArr (prev ve oe : list nat)                   (* elements of the previous value, of the value passed, observed at the driver *)
| WStruct (prev v o : list (nat * nat)).         (* (member, value) of the previous value, of the value passed, observed at the driver *)
Definition struct_same (a b : list (nat * nat)) : bool :=
  Nat.eqb (length a) (length b) && forallb (fun kv => opt_eqb Nat.eqb (struct_get (fst kv) a) (Some (snd kv))) b.

Inductive case :=
| CMsgs (d : dsc) (imp : list (nat * nat * option nat)) (bh : list (nat * beh)) (ops : list op)
        (o_cache : list (key * entry)) (o_log : list inv) (o_cbs : list (cbname * ckey * list nat))
| CE2E (exp imp : list (nat * nat * option nat))
       (writes : list (nat * nat * nat * option nat * option nat * option wextra))
           (* datatype, value passed, driver result, observed at the driver, observed in the cache;
              for a parameter that is an array or a struct: previous value, value passed, observed at the driver *)
       (reads : list (nat * nat * option nat))                          (* datatype, driver result, observed in the cache *)
(* concurrent run (ConcModel.v): description, import table, callbacks registered before the start, the programs of
   the callers, the executed steps of receive thread / transmissions / callers in schedule order, and what the
   implementation did: what every call saw when it returned (in order of return), final cache, invocation log *)
| CConc (d : dsc) (imp : list (nat * nat * option nat)) (regs : list (ckey * cbname * nat))
        (progs : list (list call)) (steps : list cstep)
        (o_seen : list (nat * nat * obsv)) (o_cache : list (key * entry)) (o_log : list inv)
(* callbacks that register / unregister callbacks while they are dispatched (ReModel.v): what each invocation did
   (calls made, final behaviour), the history of accepted lines / registrations / unregistrations, and what the
   implementation did: final cache, every invocation in order (dispatch / immediate / handleError), final lists *)
| CRe (bh : list (nat * rbeh)) (ops : list rop)
      (o_cache : list (key * entry)) (o_log : list rinv) (o_cbs : list (cbname * ckey * list nat)).

Definition beh_eqb (a b : beh) : bool :=
  match a, b with BOk, BOk | BUnreg, BUnreg | BExc, BExc => true | _, _ => false end.
Definition rinv_eqb (a b : rinv) : bool :=
  match a, b with
  | RDisp c cn lv k e x, RDisp c' cn' lv' k' e' x' | RImm c cn lv k e x, RImm c' cn' lv' k' e' x' =>
      Nat.eqb c c' && cbname_eqb cn cn' && ckey_eqb lv lv' && key_eqb k k' && entry_eqb e e' && beh_eqb x x'
  | RErr c x, RErr c' x' => Nat.eqb c c' && beh_eqb x x'
  | RAdd c cn lv, RAdd c' cn' lv' => Nat.eqb c c' && cbname_eqb cn cn' && ckey_eqb lv lv'
  | _, _ => false
  end.
Definition rbeh_of (l : list (nat * rbeh)) (n : nat) : rbeh :=
  match assoc_nat n l with Some b => b | None => {| r_acts := []; r_fin := BOk |} end.
Definition re_final (bh : list (nat * rbeh)) (ops : list rop) : rst := rrun (rbeh_of bh) (rst0 [0]) ops.
Definition re_visible (s : rst) : list rinv := filter (fun i => negb (is_ghost i)) (rev (rlog s)).

Definition model_final (d : dsc) imp bh ops : st :=
  run (the_client d) (imp_of imp) (beh_of bh) (st0 [0]) ops.

Definition obsv_eqb (a b : obsv) : bool :=
  match a, b with
  | OSeen x, OSeen y => opt_eqb entry_eqb x y
  | ORaised, ORaised => true
  | _, _ => false
  end.
Definition seen_eqb (a b : nat * nat * obsv) : bool :=
  let '(i, n, o) := a in let '(i', n', o') := b in Nat.eqb i i' && Nat.eqb n n' && obsv_eqb o o'.
Definition conc_base (regs : list (ckey * cbname * nat)) : st :=
  fold_left (fun s r => let '(k, cn, c) := r in register (beh_of []) s k cn c) regs (st0 [0]).
Definition conc_final (d : dsc) imp regs progs steps : cst :=
  crun (the_client d) (imp_of imp) (beh_of []) (cinit (conc_base regs) progs) steps.

Definition check_case (c : case) : bool :=
  match c with
  | CMsgs d imp bh ops o_cache o_log o_cbs =>
      let s := model_final d imp bh ops in
      list_eqb (pair_eqb key_eqb entry_eqb) (cache s) o_cache
      && list_eqb inv_eqb (rev (log s)) o_log
      && forallb (fun x => list_eqb Nat.eqb (cbs s (fst (fst x)) (snd (fst x))) (snd x)) o_cbs
  | CE2E exp imp writes reads =>
      forallb (fun x => let '(dt, v, r, o_w, o_c, arr) := x in
                        let '(w, c') := e2e_write (imp_of exp dt) (imp_of imp dt) (imp_of exp dt) (imp_of imp dt) v r in
                        match arr with
                        | None => opt_eqb Nat.eqb w o_w
                        | Some (WArr prev ve oe) => list_eqb Nat.eqb (array_validate prev ve) oe
                        | Some (WStruct prev v' o) => struct_same (struct_validate prev v') o
                        end && opt_eqb Nat.eqb c' o_c) writes
      && forallb (fun x => let '(dt, r, o_c) := x in
                           opt_eqb Nat.eqb (e2e_read (imp_of exp dt) (imp_of imp dt) r) o_c) reads
  | CConc d imp regs progs steps o_seen o_cache o_log =>
      let s := conc_final d imp regs progs steps in
      negb (stuck s)
      && list_eqb seen_eqb (rev (seen s)) o_seen
      && list_eqb (pair_eqb key_eqb entry_eqb) (cache (base s)) o_cache
      && list_eqb inv_eqb (rev (log (base s))) o_log
  | CRe bh ops o_cache o_log o_cbs =>
      let s := re_final bh ops in
      list_eqb (pair_eqb key_eqb entry_eqb) (rcache s) o_cache
      && list_eqb rinv_eqb (re_visible s) o_log
      && forallb (fun x => list_eqb Nat.eqb (rcbs s (fst (fst x)) (snd (fst x))) (snd x)) o_cbs
  end.

(* diagnosis: what the model computes *)
Definition model_result (c : case) : list (key * entry) * list inv :=
  match c with
  | CMsgs d imp bh ops _ _ _ => let s := model_final d imp bh ops in (cache s, rev (log s))
  | CE2E _ _ _ _ => ([], [])
  | CConc d imp regs progs steps _ _ _ =>
      let s := conc_final d imp regs progs steps in (cache (base s), rev (log (base s)))
  | CRe _ _ _ _ _ => ([], [])
  end.
Definition model_re (c : case) : list (key * entry) * list rinv :=
  match c with
  | CRe bh ops _ _ _ => let s := re_final bh ops in (rcache s, re_visible s)
  | _ => ([], [])
  end.
Definition model_conc (c : case) : bool * list (nat * nat * obsv) * rxpc :=
  match c with
  | CConc d imp regs progs steps _ _ _ =>
      let s := conc_final d imp regs progs steps in (stuck s, rev (seen s), rx s)
  | _ => (false, [], RIdle)
  end.
