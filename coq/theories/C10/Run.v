(* C10 - correspondence driver: a case carries generated module classes, generated config files and what the
   implementation did with them (real load_config + Server._processCfg + poll-thread start-up);
   check_case re-runs the model and compares everything. *)
From Coq Require Import ZArith NArith Bool List.
Import ListNotations.
Local Open Scope list_scope.
Require Import FV.Base.Util FV.Base.F64 FV.Base.PyVal FV.C01.Model FV.Gen.C10 FV.C10.Model.

Definition strl_eqb := list_eqb str_eqb.

Fixpoint all2 {A B} (f : A -> B -> bool) (a : list A) (b : list B) : bool :=
  match a, b with
  | [], [] => true
  | x :: a', y :: b' => f x y && all2 f a' b'
  | _, _ => false
  end.

Definition err_eqb (a b : err) : bool :=
  match a, b with
  | ErrModProp x, ErrModProp y | ErrNeedsDt x, ErrNeedsDt y | ErrNeedsCfg x, ErrNeedsCfg y
  | ErrMandatory x, ErrMandatory y | ErrCheck x, ErrCheck y | ErrDupExport x, ErrDupExport y => str_eqb x y
  | ErrNoProp x p, ErrNoProp y q | ErrBadValue x p, ErrBadValue y q => str_eqb x y && str_eqb p q
  | ErrUnknown l, ErrUnknown m => strl_eqb l m
  | _, _ => false
  end.

(* same elements (the property compares the error list as a set) *)
Definition incl_b {A} (eqb : A -> A -> bool) (a b : list A) : bool := forallb (fun x => existsb (eqb x) b) a.
Definition same_set {A} (eqb : A -> A -> bool) (a b : list A) : bool :=
  incl_b eqb a b && incl_b eqb b a && Nat.eqb (List.length a) (List.length b).

Definition ev_eqb (a b : ev) : bool :=
  match a, b with
  | EvWrite n v, EvWrite m w => str_eqb n m && pv_same v w
  | EvInit, EvInit => true
  | EvRead n, EvRead m => str_eqb n m
  | _, _ => false
  end.

Record pobs := {
  po_name : str;
  po_iscmd : bool;
  po_value : pyval;                       (* cache value when the poll thread starts (PNone for commands) *)
  po_readonly : bool;
  po_visibility : Z;
  po_group : str;
  po_descr : str;
  po_export : option str;                 (* None: export = False *)
  po_limits : option (pyval * pyval);     (* min / max of the numeric leaf of the datatype *)
  po_unit : str;
  po_uninit : bool;
  po_probes : list (pyval * res pyval);   (* datatype.validate(probe) on the instance *)
  po_shape : list Z;                      (* length / character-set properties of the instance datatype (dt_shape) *)
  po_constant : pyval;                    (* the `constant` property of the instance (PNone: not set) = what the
                                             description shows as "constant" *)
}.

Inductive mobs :=
| OCreated (ps : list pobs) (mv : list (str * pyval)) (w : list (str * pyval)) (names : list (str * str)) (tr : list ev)
| ORejected (es : list err)
| OCrashed.
(* orders: for every module section of the merged configuration the keys of each Param dict in dict order, as
   Module._add_accessible will walk them *)
Definition korders := list (str * list (str * list str)).
Inductive nobs :=
| OLoadFailed
| OLoaded (ms : list (str * mobs)) (registered : list str) (started : bool) (orders : korders).

Record case := { c_classes : list cls; c_files : list file; c_obs : nobs }.

Definition leaf_limits (d : dtype) : option (pyval * pyval) :=
  match d with
  | TFloat mn mx _ _ => Some (PFloat mn, PFloat mx)
  | TInt mn mx => Some (PInt mn, PInt mx)
  | TScaled _ mn mx => Some (PFloat mn, PFloat mx)
  | _ => None
  end.
Definition dt_limits (d : dtype) : option (pyval * pyval) :=
  match d with TArray e _ _ => leaf_limits e | _ => leaf_limits d end.

(* the properties of a datatype that decide which values datatype(value) accepts *)
Fixpoint dt_shape (d : dtype) : list Z :=
  match d with
  | TString a b u8 => [a; b; if u8 then 1 else 0]%Z
  | TBlob a b => [a; b]
  | TArray e a b => a :: b :: dt_shape e
  | _ => []
  end.

Definition cfg_orders (secs : list (str * section)) : korders :=
  map (fun ns => (fst ns, flat_map (fun kc => match snd kc with CDict e => [(fst kc, map fst e)] | CRaw _ => [] end)
                                   (snd (snd ns)))) secs.
Definition order_eqb (a b : str * list (str * list str)) : bool :=
  str_eqb (fst a) (fst b) &&
  list_eqb (fun x y => str_eqb (fst x) (fst y) && list_eqb str_eqb (snd x) (snd y)) (snd a) (snd b).

Definition expo_name (x : expo) : option str := match x with XName s => Some s | _ => None end.

Definition param_ok (p : param) (o : pobs) : bool :=
  str_eqb (p_name p) (po_name o) && Bool.eqb (p_iscmd p) (po_iscmd o)
  && (p_iscmd p || pv_same (match p_value p with Some v => v | None => PNone end) (po_value o))
  && (p_iscmd p || Bool.eqb (p_readonly p) (po_readonly o))
  && Z.eqb (p_visibility p) (po_visibility o)
  && str_eqb (p_group p) (po_group o)
  && opt_eqb str_eqb (p_descr p) (Some (po_descr o))
  && opt_eqb str_eqb (expo_name (p_export p)) (po_export o)
  && (p_iscmd p ||
      match p_dt p with
      | Some d =>
          opt_eqb (pair_eqb pv_same pv_same) (dt_limits d) (po_limits o)
          && str_eqb (if carries_unit d then p_unit p else []) (po_unit o)
          && forallb (fun pr => res_same (valid d (fst pr)) (snd pr)) (po_probes o)
          && list_eqb Z.eqb (dt_shape d) (po_shape o)
      | None => false
      end)
  && (p_iscmd p || Bool.eqb (p_uninit p) (po_uninit o))
  && (p_iscmd p || pv_same (match p_constant p with Some v => v | None => PNone end) (po_constant o)).

Definition kv_eqb (a b : str * pyval) : bool := str_eqb (fst a) (fst b) && pv_same (snd a) (snd b).
Definition ss_eqb (a b : str * str) : bool := str_eqb (fst a) (fst b) && str_eqb (snd a) (snd b).

Definition mod_ok (m : outcome) (o : mobs) : bool :=
  match m, o with
  | Created i, OCreated ps mv w names tr =>
      all2 param_ok (i_params i) ps
      && forallb (fun kv => match assoc_str (fst kv) (i_mvals i) with Some x => pv_same x (snd kv) | None => false end) mv
      && list_eqb kv_eqb (i_write i) w
      && same_set ss_eqb (i_names i) names
      && list_eqb ev_eqb (startup i) tr
  | Rejected es, ORejected es' => same_set err_eqb es es'
  | Crashed, OCrashed => true
  | _, _ => false
  end.

Definition check_case (c : case) : bool :=
  match node_run (c_classes c) (c_files c), c_obs c with
  | LoadFailed, OLoadFailed => true
  | Loaded rs, OLoaded ms reg started orders =>
      all2 (fun r o => str_eqb (fst r) (fst o) && mod_ok (snd r) (snd o)) rs ms
      && strl_eqb (registered rs) reg
      && Bool.eqb (node_starts rs) started
      && match load_config (c_files c) with
         | Some secs => list_eqb order_eqb (cfg_orders secs) orders
         | None => false
         end
  | _, _ => false
  end.

(* what the model does, for diagnosis in replay files (no float terms: their normal forms are huge) *)
Inductive msum :=
| SCreated (params_ok : list bool) (mvals_ok write_ok names_ok trace_ok : bool) (nwrite ntrace : nat)
| SCreatedNoObs | SRejected (es : list err) | SCrashed.
Definition mod_sum (m : outcome) (o : option mobs) : msum :=
  match m, o with
  | Created i, Some (OCreated ps mv w names tr) =>
      SCreated (map (fun po => existsb (fun p => param_ok p po) (i_params i)) ps)
        (forallb (fun kv => match assoc_str (fst kv) (i_mvals i) with Some x => pv_same x (snd kv) | None => false end) mv)
        (list_eqb kv_eqb (i_write i) w) (same_set ss_eqb (i_names i) names) (list_eqb ev_eqb (startup i) tr)
        (List.length (i_write i)) (List.length (startup i))
  | Created _, _ => SCreatedNoObs
  | Rejected es, _ => SRejected es
  | Crashed, _ => SCrashed
  end.
(* first component: the key orders of the Param dicts agree with the model of config.Param / Mod *)
Definition model_result (c : case) : option (bool * list (str * msum)) :=
  match node_run (c_classes c) (c_files c) with
  | LoadFailed => None
  | Loaded rs =>
      Some (match load_config (c_files c), c_obs c with
            | Some secs, OLoaded _ _ _ orders => list_eqb order_eqb (cfg_orders secs) orders
            | _, _ => false
            end,
            map (fun r => (fst r, mod_sum (snd r)
                   match c_obs c with OLoaded ms _ _ _ => assoc_str (fst r) ms | _ => None end)) rs)
  end.
