(* C10 - lemmas about the `constant` property of a Param entry (Parameter.setProperty stores it as given, the second loop
   of _add_accessible checks it with the configured datatype, Parameter.finish converts and exports it and makes the
   parameter readonly - unguarded: a constant that is no value of the datatype leaves __init__), and the derivation of
   the well-formedness of the instance datatype from the class-level datatype (later range checks). *)
From Coq Require Import ZArith NArith Bool List Lia Permutation.
Import ListNotations.
Local Open Scope list_scope.
Require Import FV.Base.Util FV.Base.F64 FV.Base.F64Lemmas FV.Base.PyVal FV.C01.Model FV.C01.Lemmas FV.Gen.C10 FV.C10.Model
  FV.C10.Lemmas.

(* ------------------------------------------------------------------ the constant through the first loop *)
Lemma constant_is_param_prop : pprop_type param_props k_constant <> None.
Proof. vm_compute. discriminate. Qed.

Ltac finc := split; [intros _; reflexivity|intros X; try (rewrite X in *); try discriminate; try reflexivity].

Lemma param_setprop_const p k v p' : param_setprop p k v = PGo p' ->
  (str_eqb k k_constant = false -> p_constant p' = p_constant p) /\
  (str_eqb k k_constant = true -> p_constant p' = nn v).
Proof.
  unfold param_setprop. destruct (pprop_type param_props k) as [t|] eqn:Ep.
  - destruct (str_eqb k k_value) eqn:Ev.
    { apply str_eqb_true in Ev. subst k. intros H; inversion H; subst. split; [reflexivity|vm_compute; discriminate]. }
    destruct (str_eqb k k_default) eqn:Ed.
    { apply str_eqb_true in Ed. subst k. intros H; inversion H; subst. split; [reflexivity|vm_compute; discriminate]. }
    destruct (str_eqb k k_constant) eqn:Ec.
    { intros H; inversion H; subst. split; [discriminate|reflexivity]. }
    destruct (mp_validate t v) as [x|]; [|discriminate].
    destruct (str_eqb k k_readonly). { destruct x; try discriminate; intros H; inversion H; subst; split; first [discriminate|reflexivity]. }
    destruct (str_eqb k k_needscfg). { destruct x; try discriminate; intros H; inversion H; subst; split; first [discriminate|reflexivity]. }
    destruct (str_eqb k k_visibility). { destruct x; try discriminate; intros H; inversion H; subst; split; first [discriminate|reflexivity]. }
    destruct (str_eqb k k_group). { destruct x; try discriminate; intros H; inversion H; subst; split; first [discriminate|reflexivity]. }
    destruct (str_eqb k k_description). { destruct x; try discriminate; intros H; inversion H; subst; split; first [discriminate|reflexivity]. }
    destruct (str_eqb k k_export). { destruct x; try discriminate; intros H; inversion H; subst; split; first [discriminate|reflexivity]. }
    discriminate.
  - assert (Ec : str_eqb k k_constant = false).
    { destruct (str_eqb k k_constant) eqn:E; [|reflexivity]. apply str_eqb_true in E. subst k.
      exfalso. apply constant_is_param_prop. exact Ep. }
    rewrite Ec. destruct (p_dt p) as [d|].
    + destruct (dt_setprop d (p_unit p) k v) as [[d' u']|]; [|discriminate].
      intros H; inversion H; subst. split; [reflexivity|discriminate].
    + intros H; inversion H; subst. split; [reflexivity|discriminate].
Qed.

(* Parameter.setProperty never ends in a collected error: BadValueError / KeyError become ProgrammingError *)
Lemma param_setprop_noerr p k v er : param_setprop p k v <> PErr er.
Proof.
  unfold param_setprop.
  repeat match goal with
         | |- context [match ?x with _ => _ end] => destruct x
         | |- context [if ?b then _ else _] => destruct b
         end; discriminate.
Qed.

Lemma entry_noerr : forall en p pk er, p_iscmd p = false -> apply_entry_keep p en <> (pk, PErr er).
Proof.
  induction en as [|[k v] en IH]; intros p pk er Hc H; [simpl in H; inversion H|].
  rewrite apply_entry_keep_cons in H. destruct (prop_step (PGo p) (k, v)) as [|e0|p'] eqn:Es.
  - inversion H.
  - unfold prop_step in Es. rewrite Hc in Es. exact (param_setprop_noerr _ _ _ _ Es).
  - apply (IH p' pk er); [rewrite (prop_step_cmd _ _ _ Es); exact Hc|exact H].
Qed.

Lemma entry_const : forall en p p1, p_iscmd p = false -> apply_entry_keep p en = (p1, PGo p1) ->
  (~ In k_constant (map fst en) -> p_constant p1 = p_constant p) /\
  (forall v, NoDup (map fst en) -> In (k_constant, v) en -> p_constant p1 = nn v).
Proof.
  induction en as [|[k v] en IH]; intros p p1 Hc H; [simpl in H|rewrite apply_entry_keep_cons in H].
  - inversion H; subst. split; [reflexivity|intros ? ? []].
  - destruct (prop_step (PGo p) (k, v)) as [| |p'] eqn:Es; [inversion H|inversion H|].
    assert (Hc' : p_iscmd p' = false) by (rewrite (prop_step_cmd _ _ _ Es); exact Hc).
    unfold prop_step in Es. rewrite Hc in Es. destruct (param_setprop_const _ _ _ _ Es) as [C0 C1].
    destruct (IH p' p1 Hc' H) as [N2 V2]. split.
    + simpl. intros Hn. rewrite N2; [|intros Hi; apply Hn; right; exact Hi]. apply C0.
      destruct (str_eqb k k_constant) eqn:E; [|reflexivity]. apply str_eqb_true in E. subst. exfalso. apply Hn. left. reflexivity.
    + intros v0 ND [Heq|Hin].
      * inversion Heq; subst. simpl in ND. inversion ND; subst. rewrite N2; [|assumption]. apply C1. apply str_eqb_refl'.
      * simpl in ND. inversion ND; subst. apply V2; assumption.
Qed.

(* ------------------------------------------------------------------ the rest of the step of one accessible keeps it *)
Lemma post_const mexp p : p_constant (post mexp p) = p_constant p /\ p_readonly (post mexp p) = p_readonly p.
Proof. unfold post, fix_export. destruct mexp; simpl; [destruct (p_export p); split; reflexivity|split; reflexivity]. Qed.

Lemma handle_writes_const p :
  p_constant (fst (fst (handle_writes p))) = p_constant p /\ p_dt (fst (fst (handle_writes p))) = p_dt p /\
  p_iscmd (fst (fst (handle_writes p))) = p_iscmd p.
Proof.
  unfold handle_writes. destruct (p_dt p) eqn:Ed; [|simpl; auto].
  destruct (p_value p); [simpl; auto|]. destruct (p_default p); simpl; auto.
Qed.

Lemma acc_step_const mexp p en p1 a : p_iscmd p = false -> apply_entry_keep p en = (p1, PGo p1) ->
  acc_step mexp p (Some (CDict en)) = Some a ->
  p_constant (a_param a) = p_constant p1 /\ p_dt (a_param a) = p_dt p1 /\ p_iscmd (a_param a) = false.
Proof.
  intros Hc Hpre. destruct (entry_inv _ _ _ Hc Hpre) as [K _].
  assert (Hc1 : p_iscmd p1 = false) by (rewrite (k_cmd _ _ K); exact Hc).
  unfold acc_step, apply_entry. rewrite Hpre.
  assert (G : forall es0 a0,
    (if p_iscmd (post mexp p1) then Some {| a_param := post mexp p1; a_errs := es0; a_write := None; a_name := name_of (post mexp p1) |}
     else let '(q, es, w) := handle_writes (post mexp p1) in
          Some {| a_param := q; a_errs := es0 ++ es; a_write := w; a_name := name_of (post mexp p1) |}) = Some a0 ->
    p_constant (a_param a0) = p_constant p1 /\ p_dt (a_param a0) = p_dt p1 /\ p_iscmd (a_param a0) = false).
  { intros es0 a0. rewrite post_cmd, Hc1. destruct (handle_writes_const (post mexp p1)) as [W1 [W2 W3]].
    destruct (handle_writes (post mexp p1)) as [[q es] w]. simpl in W1, W2, W3. intros H; inversion H; subst; simpl.
    rewrite W1, W2, W3, post_dt, post_cmd. destruct (post_const mexp p1) as [P1 _]. rewrite P1. auto. }
  destruct (check_loop p1 en checked_value_props) as [|er|p2] eqn:Eck.
  - discriminate.
  - cbv zeta. intros H. apply (G [er] a). destruct (p_iscmd (post mexp p1)); [exact H|].
    destruct (handle_writes (post mexp p1)) as [[q es] w]. exact H.
  - pose proof (check_loop_go _ _ _ _ Eck). subst p2. cbv zeta. intros H. apply (G [] a).
    destruct (p_iscmd (post mexp p1)); [exact H|]. destruct (handle_writes (post mexp p1)) as [[q es] w]. exact H.
Qed.

(* Parameter.finish on a parameter that carries a constant *)
Lemma finish_param_const q y c d : p_iscmd q = false -> p_constant q = Some c -> p_dt q = Some d ->
  finish_param q = Some y ->
  exists x j, conv d c = Ok x /\ dt_exp d x = Some j /\ p_constant y = Some j /\ p_readonly y = true.
Proof.
  intros Hc Hk Hd. unfold finish_param, finish_constant. rewrite Hc, Hk, Hd.
  destruct (conv d c) as [x|] eqn:E1; [|discriminate]. destruct (dt_exp d x) as [j|] eqn:E2; [|discriminate].
  destruct (refit (Some d) (p_default q)); [|discriminate]. destruct (refit (Some d) (p_value q)); [|discriminate].
  intros H; inversion H; subst. exists x, j. split; [reflexivity|]. split; [exact E2|]. split; reflexivity.
Qed.
Lemma finish_param_noconst q y : p_iscmd q = false -> p_constant q = None -> finish_param q = Some y ->
  p_constant y = None /\ p_readonly y = p_readonly q.
Proof.
  intros Hc Hk. unfold finish_param, finish_constant. rewrite Hc, Hk.
  destruct (refit (p_dt q) (p_default q)); [|discriminate]. destruct (refit (p_dt q) (p_value q)); [|discriminate].
  intros H; inversion H; subst. split; reflexivity.
Qed.

Lemma apply_main_const main p : p_constant (apply_main main p) = p_constant p /\ p_readonly (apply_main main p) = p_readonly p.
Proof.
  unfold apply_main. destruct main; [split; reflexivity|]. destruct (p_dt p); [|split; reflexivity].
  destruct (negb (p_iscmd p) && carries_unit d && has_dollar (p_unit p)); split; reflexivity.
Qed.

(* from a class parameter with a cfg entry to the parameter of the created instance, the intermediate stages visible *)
Lemma created_entry C c i p en : mod_init C c = Created i -> In p (c_params C) -> p_optional p = false ->
  p_iscmd p = false -> assoc_str (p_name p) c = Some (CDict en) ->
  exists mv a p1 y ps,
    apply_entry_keep p en = (p1, PGo p1) /\ check_loop p1 en checked_value_props = PGo p1 /\
    acc_step (mexport mv) p (Some (CDict en)) = Some a /\ finish_param (a_param a) = Some y /\
    In (apply_main (main_unit ps) y) (i_params i).
Proof.
  intros H Hin Ho Hc Hcfg. destruct (created_inv _ _ _ H) as [mv [accs [ps [EA [EB [Eerr [Edup [EU [EF [ECm [ECp Ei]]]]]]]]]]].
  destruct (phaseB_in _ _ _ _ _ EB Hin Ho) as [a [Ha Hs]].
  pose proof (flat_map_nil _ _ _ Eerr Ha) as Hae.
  destruct (acc_step_ok _ _ _ _ Hc Hs Hae) as [p1 [He _]]. rewrite Hcfg in He, Hs. destruct He as [He Ck].
  destruct (map_opt_in finish_param _ _ (a_param a) EF) as [y [Hy Hyin]]; [apply in_map; exact Ha|].
  exists mv, a, p1, y, ps. subst i. simpl. repeat split; try assumption. apply in_map. exact Hyin.
Qed.

(* the instance datatype of a configured parameter is the configured datatype of its entry *)
Lemma created_dt C c i p d en : mod_init C c = Created i -> In p (c_params C) -> p_optional p = false ->
  p_iscmd p = false -> p_dt p = Some d -> assoc_str (p_name p) c = Some (CDict en) ->
  exists p' d', In p' (i_params i) /\ p_name p' = p_name p /\ p_iscmd p' = false /\
    configured_dt d (p_unit p) en = Some d' /\ p_dt p' = Some d'.
Proof.
  intros H Hin Ho Hc Hd Hcfg.
  destruct (created_entry _ _ _ _ _ H Hin Ho Hc Hcfg) as [mv [a [p1 [y [ps [He [Ck [Hs [Hf Hp']]]]]]]]].
  destruct (entry_inv _ _ _ Hc He) as [K [DU _]].
  destruct (acc_step_const _ _ _ _ _ Hc He Hs) as [_ [A2 A3]].
  destruct (finish_param_ok _ _ A3 Hf) as [Fn [Fd [_ [Fc _]]]].
  destruct (apply_main_keeps (main_unit ps) y) as [M1 [M2 [_ [_ [M5 _]]]]].
  destruct (configured_some en (Some d, p_unit p) d eq_refl) as [d' Hd'].
  exists (apply_main (main_unit ps) y), d'. split; [exact Hp'|]. split; [|split; [rewrite M5; exact Fc|split; [exact Hd'|]]].
  - rewrite M1, Fn, (acc_step_name _ _ _ _ Hs). reflexivity.
  - rewrite M2, Fd, A2. unfold dtu in DU. rewrite Hd in DU. unfold configured_dt in Hd'.
    assert (E : p_dt p1 = fst (p_dt p1, p_unit p1)) by reflexivity. rewrite E, DU. exact Hd'.
Qed.

(* a configured constant of a created module: a value of the configured datatype, shown in its transport form, the
   parameter is readonly *)
Lemma constant_applied C c i p d en v : mod_init C c = Created i -> In p (c_params C) -> p_optional p = false ->
  p_iscmd p = false -> p_dt p = Some d -> assoc_str (p_name p) c = Some (CDict en) -> NoDup (map fst en) ->
  In (k_constant, v) en ->
  exists p' d' c1 j, In p' (i_params i) /\ p_name p' = p_name p /\ configured_dt d (p_unit p) en = Some d' /\
    p_dt p' = Some d' /\ conv d' v = Ok c1 /\ dt_exp d' c1 = Some j /\ p_constant p' = Some j /\ p_readonly p' = true.
Proof.
  intros H Hin Ho Hc Hd Hcfg ND Hv.
  destruct (created_entry _ _ _ _ _ H Hin Ho Hc Hcfg) as [mv [a [p1 [y [ps [He [Ck [Hs [Hf Hp']]]]]]]]].
  destruct (entry_inv _ _ _ Hc He) as [K [DU _]]. destruct (entry_const _ _ _ Hc He) as [_ CV].
  pose proof (CV v ND Hv) as Hk.
  destruct (acc_step_const _ _ _ _ _ Hc He Hs) as [A1 [A2 A3]].
  destruct (configured_some en (Some d, p_unit p) d eq_refl) as [d' Hd'].
  assert (Hd1 : p_dt p1 = Some d').
  { unfold dtu in DU. rewrite Hd in DU. assert (E : p_dt p1 = fst (p_dt p1, p_unit p1)) by reflexivity. rewrite E, DU. exact Hd'. }
  destruct (check_loop_ok _ _ _ _ Ck k_constant v d') as [c0 Hc0];
    [rewrite checked_order; right; right; left; reflexivity|apply assoc_str_nodup; assumption|exact Hd1|].
  rewrite (conv_ok_nn _ _ _ Hc0) in Hk.
  assert (Hka : p_constant (a_param a) = Some v) by (rewrite A1; exact Hk).
  assert (Hda : p_dt (a_param a) = Some d') by (rewrite A2; exact Hd1).
  destruct (finish_param_const _ _ _ _ A3 Hka Hda Hf) as [x [j [X1 [X2 [X3 X4]]]]].
  destruct (finish_param_ok _ _ A3 Hf) as [Fn [Fd _]].
  destruct (apply_main_keeps (main_unit ps) y) as [M1 [M2 _]]. destruct (apply_main_const (main_unit ps) y) as [M8 M9].
  exists (apply_main (main_unit ps) y), d', x, j. split; [exact Hp'|]. split; [|split; [exact Hd'|split; [|split; [exact X1|split; [exact X2|split]]]]].
  - rewrite M1, Fn, (acc_step_name _ _ _ _ Hs). reflexivity.
  - rewrite M2, Fd. exact Hda.
  - rewrite M8. exact X3.
  - rewrite M9. exact X4.
Qed.

(* a configured constant (not None) that is no value of the configured datatype: Parameter.finish raises, the exception
   leaves Module.__init__ - no instance AND no ConfigError with the collected list: the module is reported by name only *)
Lemma wrong_constant_leaves_init C c p d en v d' e : In p (c_params C) -> p_optional p = false -> p_iscmd p = false ->
  p_dt p = Some d -> assoc_str (p_name p) c = Some (CDict en) -> NoDup (map fst en) -> In (k_constant, v) en ->
  v <> PNone -> configured_dt d (p_unit p) en = Some d' -> conv d' v = Err e ->
  (forall i, mod_init C c <> Created i) /\ (forall es, mod_init C c <> Rejected es).
Proof.
  intros Hin Ho Hc Hd Hcfg ND Hv Hnn Hd' Hcv. split.
  - intros i. apply (wrong_type_rejected C c i p d en k_constant v d' e Hin Ho Hc Hd Hcfg);
      [vm_compute; reflexivity|apply assoc_str_nodup; assumption|exact Hd'|exact Hcv].
  - intros es H. destruct (rejected_inv _ _ _ H) as [mv [esA [accs [ps [EA [EB [EF _]]]]]]].
    destruct (phaseB_in _ _ _ _ _ EB Hin Ho) as [a [Ha Hs]]. rewrite Hcfg in Hs.
    destruct (apply_entry_keep p en) as [pk r] eqn:Epre. destruct r as [|er|p1].
    + unfold acc_step, apply_entry in Hs. rewrite Epre in Hs. discriminate.
    + exact (entry_noerr _ _ _ _ Hc Epre).
    + pose proof (apply_entry_keep_go _ _ _ _ Epre). subst pk.
      destruct (entry_inv _ _ _ Hc Epre) as [K [DU _]]. destruct (entry_const _ _ _ Hc Epre) as [_ CV].
      pose proof (CV v ND Hv) as Hk.
      assert (Hnv : nn v = Some v) by (destruct v; try reflexivity; exfalso; apply Hnn; reflexivity).
      rewrite Hnv in Hk.
      destruct (acc_step_const _ _ _ _ _ Hc Epre Hs) as [A1 [A2 A3]].
      assert (Hd1 : p_dt p1 = Some d').
      { unfold dtu in DU. rewrite Hd in DU. assert (E : p_dt p1 = fst (p_dt p1, p_unit p1)) by reflexivity.
        rewrite E, DU. exact Hd'. }
      destruct (map_opt_in finish_param _ _ (a_param a) EF) as [y [Hy _]]; [apply in_map; exact Ha|].
      assert (Hka : p_constant (a_param a) = Some v) by (rewrite A1; exact Hk).
      assert (Hda : p_dt (a_param a) = Some d') by (rewrite A2; exact Hd1).
      destruct (finish_param_const _ _ _ _ A3 Hka Hda Hy) as [x [j [X1 _]]]. rewrite Hcv in X1. discriminate.
Qed.

(* ------------------------------------------------------------------ well-formedness of the instance datatype *)
(* invariant of the overrides (the limits may be inverted in between: Param(min=20, max=30) on FloatRange(0, 10)): the
   limits of a float leaf are no NaN; a scaled leaf, tuples and structs stay as they are *)
Fixpoint lim_ok (d : dtype) : Prop :=
  match d with
  | TFloat mn mx _ _ => notnan mn /\ notnan mx
  | TArray e _ _ => lim_ok e
  | TScaled _ _ _ | TTuple _ | TStruct _ _ _ => wf d
  | _ => True
  end.

Lemma wf_lim_ok : forall d, wf d -> lim_ok d.
Proof.
  induction d; intros H; try exact I; try exact H.
  - cbn [wf] in H. apply fle_true_notnan in H. exact H.
  - cbn [wf] in H. cbn [lim_ok]. apply IHd. exact H.
Qed.

Lemma lim_ok_wf : forall d, lim_ok d -> dt_inverted d = false -> wf d.
Proof.
  induction d; intros H Hi; try exact I; try exact H.
  - cbn [lim_ok] in H. destruct H as [H1 H2]. cbn [wf]. simpl in Hi.
    apply (fle_true _ _ H1 H2). apply (flt_false _ _ H2 H1). exact Hi.
  - cbn [wf]. simpl in Hi. apply orb_false_iff in Hi. destruct Hi as [_ Hi]. apply IHd; [exact H|exact Hi].
Qed.

Lemma unl_float_notnan v f : unl_float v = Ok (PFloat f) -> notnan f.
Proof.
  unfold unl_float, float_validate. destruct (float_call v) as [[]|]; try discriminate.
  match goal with |- context [if ?b then _ else _] => destruct b eqn:E end; [|discriminate].
  apply andb_true_iff in E. destruct E as [E1 E2]. apply fle_true_notnan in E1. destruct E1 as [_ Nf].
  intros H; inversion H; subst. apply fclamp_notnan; [vm_compute; reflexivity|exact Nf|vm_compute; reflexivity].
Qed.

Definition scaled_leaf (d : dtype) : bool :=
  match d with TScaled _ _ _ | TArray (TScaled _ _ _) _ _ => true | _ => false end.
Fixpoint has_scaled (d : dtype) : bool :=
  match d with TScaled _ _ _ => true | TArray e _ _ => has_scaled e | _ => false end.

Lemma leaf_setprop_lim d u k v d' u' : lim_ok d -> (has_scaled d = true -> limit_key k = true -> str_eqb k k_unit = true) ->
  leaf_setprop d u k v = Some (d', u') -> lim_ok d' /\ has_scaled d' = has_scaled d.
Proof.
  intros L Hs. unfold leaf_setprop. destruct d; try discriminate.
  - destruct L as [L1 L2]. destruct (str_eqb k k_min).
    { destruct (unl_float v) as [[]|] eqn:E; try discriminate. intros H; inversion H; subst.
      split; [split; [eapply unl_float_notnan; exact E|exact L2]|reflexivity]. }
    destruct (str_eqb k k_max).
    { destruct (unl_float v) as [[]|] eqn:E; try discriminate. intros H; inversion H; subst.
      split; [split; [exact L1|eapply unl_float_notnan; exact E]|reflexivity]. }
    destruct (str_eqb k k_unit); [|discriminate].
    destruct (unit_validate v) as [[]|]; try discriminate. intros H; inversion H; subst. split; [split; assumption|reflexivity].
  - destruct (str_eqb k k_min). { destruct (unl_int v) as [[]|]; try discriminate. intros H; inversion H; subst. split; [exact I|reflexivity]. }
    destruct (str_eqb k k_max). { destruct (unl_int v) as [[]|]; try discriminate. intros H; inversion H; subst. split; [exact I|reflexivity]. }
    discriminate.
  - specialize (Hs eq_refl). unfold limit_key in Hs.
    destruct (str_eqb k k_min) eqn:E1.
    { apply str_eqb_true in E1. subst k. specialize (Hs eq_refl). vm_compute in Hs. discriminate. }
    destruct (str_eqb k k_max) eqn:E2.
    { apply str_eqb_true in E2. subst k. specialize (Hs eq_refl). vm_compute in Hs. discriminate. }
    destruct (str_eqb k k_unit); [|discriminate].
    destruct (unit_validate v) as [[]|]; try discriminate. intros H; inversion H; subst. split; [exact L|reflexivity].
  - destruct (str_eqb k k_minchars). { destruct (set_len c_string k v); [|discriminate]. intros H; inversion H; subst. split; [exact I|reflexivity]. }
    destruct (str_eqb k k_maxchars). { destruct (set_len c_string k v); [|discriminate]. intros H; inversion H; subst. split; [exact I|reflexivity]. }
    destruct (str_eqb k k_isutf8). { destruct (bool_call v) as [[]|]; try discriminate. intros H; inversion H; subst. split; [exact I|reflexivity]. }
    discriminate.
  - destruct (str_eqb k k_minbytes). { destruct (set_len c_blob k v); [|discriminate]. intros H; inversion H; subst. split; [exact I|reflexivity]. }
    destruct (str_eqb k k_maxbytes). { destruct (set_len c_blob k v); [|discriminate]. intros H; inversion H; subst. split; [exact I|reflexivity]. }
    discriminate.
Qed.

Lemma dt_setprop_lim : forall d u k v d' u', lim_ok d ->
  (has_scaled d = true -> limit_key k = true -> str_eqb k k_unit = true) ->
  dt_setprop d u k v = Some (d', u') -> lim_ok d' /\ has_scaled d' = has_scaled d.
Proof.
  induction d; intros u k v d' u' L Hs H; try exact (leaf_setprop_lim _ u k v d' u' L Hs H).
  simpl in H. destruct (str_eqb k k_minlen).
  { destruct (set_len c_array k v); [|discriminate]. inversion H; subst. split; [exact L|reflexivity]. }
  destruct (str_eqb k k_maxlen).
  { destruct (set_len c_array k v); [|discriminate]. inversion H; subst. split; [exact L|reflexivity]. }
  destruct (dt_setprop d u k v) as [[e' u2]|] eqn:E; [|discriminate]. inversion H; subst.
  cbn [lim_ok has_scaled] in *. exact (IHd u k v e' u' L Hs E).
Qed.

(* the keys of an entry never touch the limits of a scaled leaf *)
Definition scaled_limits_kept (d : dtype) (en : entry) : Prop :=
  has_scaled d = true -> forall k, In k (map fst en) -> limit_key k = true -> str_eqb k k_unit = true.

Lemma configured_lim : forall en d u d', lim_ok d -> scaled_limits_kept d en -> configured_dt d u en = Some d' -> lim_ok d'.
Proof.
  unfold configured_dt. induction en as [|[k v] en IH]; intros d u d' L Hs H; simpl in H.
  - inversion H; subst. exact L.
  - unfold over_step in H. simpl in H.
    assert (Hs' : scaled_limits_kept d en) by (intros S k0 Hk; apply (Hs S); right; exact Hk).
    destruct (pprop_type param_props k); [apply (IH d u d' L Hs' H)|].
    destruct (dt_setprop d u k v) as [[d1 u1]|] eqn:E; [|apply (IH d u d' L Hs' H)].
    destruct (dt_setprop_lim _ _ _ _ _ _ L (fun S => Hs S k (or_introl eq_refl)) E) as [L1 S1].
    apply (IH d1 u1 d' L1); [|exact H]. intros S k0 Hk. rewrite S1 in S. apply (Hs S). right. exact Hk.
Qed.
