(* C10 - property theorems only; each is closed by a lemma of Lemmas.v / Refuted.v.
   C ranges over every class descriptor, c over every module configuration (cfg dict), fs over every list of config
   files.  mod_init is the model of Module.__init__, node_run of load_config + create_modules, startup of the part of the
   poll thread before the start callback. *)
From Coq Require Import String.
From Coq Require Import ZArith NArith Bool List.
Import ListNotations.
Local Open Scope list_scope.
Require Import FV.Base.Util FV.Base.F64 FV.Base.PyVal FV.C01.Model FV.C01.Lemmas FV.Gen.C10 FV.C10.Model FV.C10.Lemmas
  FV.C10.Refuted.

(* obligations on the facts regenerated from /repo (Gen/C10.v) *)
Theorem C10_source_facts :
  add_accessible_catches_exactly_key_and_badvalue = true /\ param_setproperty_wraps_badvalue = true /\
  checks_only_without_errors_and_raise = true /\ unknown_names_reported = true /\
  module_props_popped_and_badvalue_collected = true /\ writedict_only_with_write_method = true /\
  needscfg_and_uninit_marker = true /\ writes_before_first_polls = true /\ write_init_pops_each_entry_once = true /\
  minmax_check_present = true /\ mandatory_check_present = true /\ numeric_datatypes_check_properties = true /\
  array_check_descends_into_members = true /\ name_map_filled_after_cfg = true /\ all_modules_initialised = true /\
  registers_only_created = true /\
  exit_on_errors = true /\ merge_first_wins_and_tags = true /\ mod_wraps_bare_values = true /\
  checked_value_props = [k_constant; k_default; k_value] /\
  map mp_name base_mprops = map s_ ["export"; "group"; "description"; "meaning"; "visibility"; "implementation";
    "interface_classes"; "features"; "pollinterval"; "slowinterval"; "omit_unchanged_within"; "original_id"]%string /\
  map (pprop_type module_props) [k_export; k_group; k_description; k_visibility; k_original_id] =
    [Some MBool; Some MString; Some MText; Some MVis; Some MNoneOrString] /\
  map (pprop_type param_props) [k_readonly; k_group; k_description; k_visibility; k_export; k_needscfg] =
    [Some MBool; Some MString; Some MText; Some MVis; Some MBoolOrString; Some MNoneOrBool] /\
  map (pprop_type param_props) [k_min; k_max; k_unit] = [None; None; None] /\
  filter mp_mandatory base_mprops = filter (fun sp => mem_str (mp_name sp) [k_description; k_implementation;
    k_interface_classes; k_features]) base_mprops /\
  unlimited = (2 ^ 64)%Z /\ modname_regex = 62.
Proof. repeat split; vm_compute; reflexivity. Qed.

(* ---- applied faithfully *)

(* a configured value of a parameter of a created module: the start value in the cache is the configured value converted
   to the parameter's datatype (the code converts twice: announceUpdate and Parameter.finish); the datatype of the instance
   converts like the class datatype (only limits/unit may differ); with a write wrapper the raw value is in writeDict *)
Theorem C10_value_applied : forall C c i p d en v,
  mod_init C c = Created i -> In p (c_params C) -> p_optional p = false -> p_iscmd p = false -> p_dt p = Some d ->
  assoc_str (p_name p) c = Some (CDict en) -> NoDup (map fst en) -> In (k_value, v) en ->
  exists p' d' c1, In p' (i_params i) /\ p_name p' = p_name p /\ p_dt p' = Some d' /\ (forall x, conv d x = conv d' x) /\
    conv d v = Ok c1 /\ p_value p' = match conv d c1 with Ok c2 => Some c2 | Err _ => None end /\
    (p_has_write p = true -> In (p_name p, v) (i_write i)).
Proof. intros; eapply value_applied; eassumption. Qed.

(* ... which is the converted value itself whenever converting a converted value changes nothing *)
Corollary C10_value_applied_idempotent : forall C c i p d en v,
  (forall x y, conv d x = Ok y -> conv d y = Ok y) ->
  mod_init C c = Created i -> In p (c_params C) -> p_optional p = false -> p_iscmd p = false -> p_dt p = Some d ->
  assoc_str (p_name p) c = Some (CDict en) -> NoDup (map fst en) -> In (k_value, v) en ->
  exists p' c1, In p' (i_params i) /\ p_name p' = p_name p /\ conv d v = Ok c1 /\ p_value p' = Some c1.
Proof.
  intros C c i p d en v Hid H Hin Ho Hc Hd Hcfg ND Hv.
  destruct (value_applied _ _ _ _ _ _ _ H Hin Ho Hc Hd Hcfg ND Hv) as [p' [d' [c1 [A [B [_ [_ [E [F _]]]]]]]]].
  exists p', c1. rewrite (Hid _ _ E) in F. auto.
Qed.

(* later range checks use the datatype of the instance, which carries the configured limits: whatever it accepts lies in
   its value set (C01 validate_sound) *)
Theorem C10_later_range_checks_use_instance_limits : forall C c i p d x y,
  mod_init C c = Created i -> In p (i_params i) -> p_dt p = Some d -> wf d -> valid d x = Ok y -> in_setb d y = true.
Proof. intros C c i p d x y _ _ _ Hwf Hv. eapply validate_sound; [exact Hwf|left; reflexivity|exact Hv]. Qed.

(* start-up: the poll thread first hands writeDict to the write methods, then initialReads, then the first polls; every
   write method receives its configured (validated) value exactly once - or, when the value does not validate, the module
   there is no driver method, never (see the refuted statement below); this holds for unexported modules as well *)
Theorem C10_written_once_before_poll : forall C c i n,
  mod_init C c = Created i -> NoDup (map p_name (active (c_params C))) ->
  (has_thread i = true ->
   exists ws rs, startup i = ws ++ EvInit :: rs /\ forallb is_write ws = true /\ forallb is_read rs = true) /\
  writes_for n (startup i) =
    (if has_thread i
     then match assoc_str n (i_write i) with Some v => handed (i_params i) n v | None => [] end
     else []) /\
  (List.length (writes_for n (startup i)) <= 1)%nat.
Proof.
  intros C c i n H ND. pose proof (created_write_nodup _ _ _ H ND) as NW. split; [|split].
  - intros Ht. destruct (startup_shape i Ht) as [ws [rs [A [B [D _]]]]]. exists ws, rs. auto.
  - apply startup_writes. exact NW.
  - rewrite (startup_writes i n NW). destruct (has_thread i); [|simpl; auto].
    destruct (assoc_str n (i_write i)); [|simpl; auto]. unfold handed.
    destruct (find_param n (i_params i)); [|simpl; auto]. destruct (p_dt p0); [|simpl; auto].
    destruct (valid d p); [|simpl; auto]. destruct (p_wfunc p0); simpl; auto.
Qed.

(* ---- erroneous configuration is rejected whole: no instance *)
Theorem C10_unknown_name_rejected : forall C c k i,
  In k (map fst c) -> mem_str k (known_names C) = false -> mod_init C c <> Created i.
Proof. intros; eapply unknown_name_rejected; eassumption. Qed.

Theorem C10_wrong_type_value_rejected : forall C c i p d en k v e,
  In p (c_params C) -> p_optional p = false -> p_iscmd p = false -> p_dt p = Some d ->
  assoc_str (p_name p) c = Some (CDict en) -> In (k, v) en -> mem_str k checked_value_props = true ->
  conv d v = Err e -> mod_init C c <> Created i.
Proof. intros; eapply wrong_type_rejected; eassumption. Qed.

Theorem C10_missing_required_value_rejected : forall C c i p,
  In p (c_params C) -> p_optional p = false -> p_iscmd p = false -> p_needscfg p = true -> p_value p = None ->
  assoc_str (p_name p) c = None -> mod_init C c <> Created i.
Proof. intros; eapply missing_value_rejected; eassumption. Qed.

Theorem C10_missing_mandatory_description_rejected : forall C c i p,
  In p (c_params C) -> p_optional p = false -> p_iscmd p = false -> p_descr p = None ->
  assoc_str (p_name p) c = None -> mod_init C c <> Created i.
Proof. intros; eapply missing_description_rejected; eassumption. Qed.

(* no parameter of a created module has min > max in its datatype, also not on the element type of an array
   (formerly ..._except_array_member; the exception went away with the repair of ArrayOf.checkProperties) *)
Theorem C10_inverted_limits_rejected : forall C c i p d,
  mod_init C c = Created i -> In p (i_params i) -> p_iscmd p = false -> p_dt p = Some d -> dt_inverted d = false.
Proof. intros; eapply no_inverted_limits; eassumption. Qed.

(* the export configuration is applied as a whole: requests are resolved under exactly the export names the final
   accessibles carry (the names shown in the description), every name at most once; a hidden accessible has no entry *)
Theorem C10_export_names_applied : forall C c i,
  mod_init C c = Created i ->
  NoDup (map fst (i_names i)) /\
  forall s n, In (s, n) (i_names i) <-> exists p', In p' (i_params i) /\ p_name p' = n /\ p_export p' = XName s.
Proof. intros; eapply created_names; eassumption. Qed.

(* ---- node level: only created modules are registered, one failing module makes the node refuse to start, every failing
   module is named in the errors *)
Theorem C10_node_rejects_whole : forall classes secs,
  let rs := create_all classes secs in
  (forall n, In n (registered rs) <->
             exists s i, In (n, s) secs /\ mod_init (nth (fst s) classes dummy_cls) (snd s) = Created i) /\
  (node_starts rs = true <-> forall r, In r rs -> is_created (snd r) = true) /\
  (forall n, (exists e, In e (node_errors rs) /\ nerr_name e = n) <-> exists o, In (n, o) rs /\ is_created o = false).
Proof.
  intros classes secs rs. split; [|split].
  - intros n. rewrite registered_iff. split.
    + intros [o [Hin Hc]]. destruct (create_all_in _ _ _ _ Hin) as [s [Hs Ho]]. destruct o; try discriminate.
      exists s, i. split; [exact Hs|symmetry; exact Ho].
    + intros [s [i [Hin Hm]]]. exists (Created i). split; [|reflexivity]. unfold rs, create_all.
      apply in_map_iff. exists (n, s). simpl. rewrite Hm. split; [reflexivity|exact Hin].
  - apply node_starts_iff.
  - intros n. apply node_errors_iff.
Qed.

(* ---- merging of several files: the sections of the first file are kept unchanged and in place; later files only add
   sections with new names, tagged with the equipment id of their file *)
Theorem C10_merge_first_file_wins : forall fs acc res,
  load_rest acc fs = Some res ->
  exists extra, res = acc ++ extra /\
    Forall (fun e => mem_str (fst e) (map fst acc) = false /\
                     exists f s, In f fs /\ snd e = tag_origin (f_eid f) s) extra.
Proof. intros; eapply load_rest_prefix; eassumption. Qed.

(* ---- where the code still violates the property (open finding C10/out-of-range-value-not-written) *)
Theorem C10_refuted_out_of_range_value_not_written : exists C c i, mod_init C c = Created i /\ never_handed i = true.
Proof. exact refuted_out_of_range_value_not_written. Qed.
(* non-vacuity: a configuration that is applied (value converted, limits and unit overridden, write registered and handed
   over before the first poll) *)
Definition demo_cfg : cfg :=
  [descr; (s_ "p1", CDict [(k_min, PInt 1); (k_unit, PStr (s_ "mK")); (k_value, PInt 5)])].
Example C10_demo :
  match mod_init C1 demo_cfg with
  | Created i =>
      match find_param (s_ "p1") (i_params i) with
      | Some p => pv_same (match p_value p with Some v => v | None => PNone end) (PFloat (of_Z 5))
                  && str_eqb (p_unit p) (s_ "mK")
                  && match p_dt p with Some (TFloat mn _ _ _) => fsame mn (of_Z 1) | _ => false end
      | None => false end
      && match startup i with [EvWrite _ v; EvInit] => pv_same v (PFloat (of_Z 5)) | _ => false end
  | _ => false
  end = true.
Proof. vm_compute. reflexivity. Qed.

Print Assumptions C10_source_facts.
Print Assumptions C10_value_applied.
Print Assumptions C10_value_applied_idempotent.
Print Assumptions C10_later_range_checks_use_instance_limits.
Print Assumptions C10_written_once_before_poll.
Print Assumptions C10_unknown_name_rejected.
Print Assumptions C10_wrong_type_value_rejected.
Print Assumptions C10_missing_required_value_rejected.
Print Assumptions C10_missing_mandatory_description_rejected.
Print Assumptions C10_inverted_limits_rejected.
Print Assumptions C10_export_names_applied.
Print Assumptions C10_node_rejects_whole.
Print Assumptions C10_merge_first_file_wins.
Print Assumptions C10_refuted_out_of_range_value_not_written.
