(* C10 - stub while the correspondence is being built *)
From Coq Require Import List Bool.
Require Import FV.Gen.C10 FV.C10.Model.
Theorem C10_source_facts : exit_on_errors = true.
Proof. reflexivity. Qed.
Print Assumptions C10_source_facts.
