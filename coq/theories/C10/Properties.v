(* C10 - property theorems only; each is closed by a lemma of Lemmas.v / Refuted.v.
   C ranges over every class descriptor, c over every module configuration (cfg dict), fs over every list of config
   files.  mod_init is the model of Module.__init__, node_run of load_config + create_modules, startup of the part of the
   poll thread before the start callback. *)
From Coq Require Import String.
From Coq Require Import ZArith NArith Bool List Permutation.
Import ListNotations.
Local Open Scope list_scope.
Require Import FV.Base.Util FV.Base.F64 FV.Base.PyVal FV.C01.Model FV.C01.Lemmas FV.Gen.C10 FV.C10.Model FV.C10.Lemmas
  FV.C10.LemmasConst FV.C10.Refuted.

(* obligations on the facts regenerated from /repo (Gen/C10.v) *)
Theorem C10_source_facts :
  add_accessible_catches_exactly_key_and_badvalue = true /\ param_setproperty_wraps_badvalue = true /\
  checks_only_without_errors_and_raise = true /\ unknown_names_reported = true /\
  module_props_popped_and_badvalue_collected = true /\ writedict_only_with_write_method = true /\
  needscfg_and_uninit_marker = true /\ writes_before_first_polls = true /\
  write_init_fetches_value_at_time_of_use = true /\
  minmax_check_present = true /\ mandatory_check_present = true /\ numeric_datatypes_check_properties = true /\
  array_check_descends_into_members = true /\ name_map_filled_after_cfg = true /\ all_modules_initialised = true /\
  registers_only_created = true /\
  exit_on_errors = true /\ merge_first_wins_and_tags = true /\ mod_wraps_bare_values = true /\
  checked_value_props = [k_value; k_default; k_constant] /\ properties_applied_before_value_checks = true /\
  map mp_name base_mprops = map s_ ["export"; "group"; "description"; "meaning"; "visibility"; "implementation";
    "interface_classes"; "features"; "pollinterval"; "slowinterval"; "omit_unchanged_within"; "original_id"]%string /\
  map (pprop_type module_props) [k_export; k_group; k_description; k_visibility; k_original_id] =
    [Some MBool; Some MString; Some MText; Some MVis; Some MNoneOrString] /\
  map (pprop_type param_props) [k_readonly; k_group; k_description; k_visibility; k_export; k_needscfg] =
    [Some MBool; Some MString; Some MText; Some MVis; Some MBoolOrString; Some MNoneOrBool] /\
  map (pprop_type param_props) [k_min; k_max; k_unit] = [None; None; None] /\
  filter mp_mandatory base_mprops = filter (fun sp => mem_str (mp_name sp) [k_description; k_implementation;
    k_interface_classes; k_features]) base_mprops /\
  unlimited = (2 ^ 64)%Z /\ modname_regex = 62 /\
  (* config.Param appends `value` AFTER the keyword overrides (param_dict); the length / character-set properties of
     the datatypes and their bounds (len_validate), `min* <= max*` also checked for them *)
  param_value_appended_after_overrides = true /\ string_isutf8_is_bool = true /\
  (* Parameter.finish converts and exports a constant unguarded and makes the parameter readonly (finish_constant) *)
  finish_converts_constant_unguarded = true /\
  length_datatypes_check_properties = true /\
  dt_length_props = [(c_string, k_minchars, 0, unlimited); (c_string, k_maxchars, 0, unlimited);
                     (c_blob, k_minbytes, 0, 16777216); (c_blob, k_maxbytes, 0, 16777216);
                     (c_array, k_minlen, 0, 16777216); (c_array, k_maxlen, 0, 16777216)]%Z /\
  map (pprop_type param_props) [k_minchars; k_maxchars; k_isutf8; k_minbytes; k_maxbytes; k_minlen; k_maxlen] =
    [None; None; None; None; None; None; None].
Proof. repeat split; vm_compute; reflexivity. Qed.

(* ---- applied faithfully *)

(* the CONFIGURED datatype of a parameter: `configured_dt d u en` is the class-level datatype d (unit u) with the datatype
   overrides among the items en of a Param dict applied in dict order (Lemmas.v: fold of datatype.setProperty over the keys
   that are no Parameter property).  Since 8b6cdcd Module._add_accessible applies ALL properties of the entry first and
   checks value, default and constant afterwards (obligations properties_applied_before_value_checks, checked_value_props):
   they are checked by the configured datatype of the WHOLE entry, wherever they stand in the dict.

   Param(v, kw) - the dict config.Param builds is `param_dict (Some v) kw` = kw ++ [(value, v)] (first clause; obligation
   param_value_appended_after_overrides; the position of `value` no longer matters for the check).
   For ALL classes C, configurations c, parameters p, values v and keyword lists kw (a dict: distinct keys, `value` is the
   positional parameter of Param and not among them):
   - the module is created only if v is a value of the configured datatype dcfg = d with ALL overrides of the same Param
     applied, the instance carries dcfg and the start value is v converted with dcfg (the code converts twice);
   - a v that dcfg does not accept rejects the configuration as a whole (no instance), and the error list names
     `<p>.value` whenever the properties themselves could be applied;
   - a v that dcfg accepts is not refused: when a configured default / constant is a value of dcfg too, the step of this
     accessible ends without error, with the converted value as start value and the raw value registered for the write
     method. *)
Theorem C10_value_checked_against_configured_datatype : forall C c p d v kw,
  In p (c_params C) -> p_optional p = false -> p_iscmd p = false -> p_dt p = Some d ->
  assoc_str k_value kw = None -> NoDup (map fst kw) ->
  assoc_str (p_name p) c = Some (CDict (param_dict (Some v) kw)) ->
  param_dict (Some v) kw = kw ++ [(k_value, v)] /\
  exists dcfg, configured_dt d (p_unit p) kw = Some dcfg /\
    (forall i, mod_init C c = Created i ->
       exists p' c1, In p' (i_params i) /\ p_name p' = p_name p /\ p_dt p' = Some dcfg /\ conv dcfg v = Ok c1 /\
         p_value p' = match conv dcfg c1 with Ok c2 => Some c2 | Err _ => None end /\
         (p_has_write p = true -> In (p_name p, v) (i_write i))) /\
    (forall e i, conv dcfg v = Err e -> mod_init C c <> Created i) /\
    (forall e es p1, conv dcfg v = Err e -> is_bad_value e = true -> apply_entry_keep p kw = (p1, PGo p1) ->
       mod_init C c = Rejected es -> In (ErrBadValue (p_name p) k_value) es) /\
    (forall c1 p1 mexp, conv dcfg v = Ok c1 -> apply_entry_keep p kw = (p1, PGo p1) ->
       (forall k v', In k [k_default; k_constant] -> assoc_str k kw = Some v' -> exists c', conv dcfg v' = Ok c') ->
       exists a, acc_step mexp p (Some (CDict (param_dict (Some v) kw))) = Some a /\ a_errs a = [] /\
         p_dt (a_param a) = Some dcfg /\ p_value (a_param a) = Some c1 /\
         a_write a = (if p_has_write p then Some v else None)).
Proof.
  intros C c p d v kw Hin Ho Hc Hd Hkw ND Hcfg. split; [apply param_dict_some; exact Hkw|].
  eapply value_checked; eassumption.
Qed.

(* order independent: a `value` anywhere in a cfg entry en (a dict: distinct keys) of a created module is a value of the
   datatype configured by the WHOLE entry (d'), the instance carries d' and the start value is v converted with d' (twice:
   announceUpdate and Parameter.finish); with a write wrapper the raw value is in writeDict *)
Theorem C10_value_applied : forall C c i p d en v,
  mod_init C c = Created i -> In p (c_params C) -> p_optional p = false -> p_iscmd p = false -> p_dt p = Some d ->
  assoc_str (p_name p) c = Some (CDict en) -> NoDup (map fst en) -> In (k_value, v) en ->
  exists p' d' c1, In p' (i_params i) /\ p_name p' = p_name p /\
    configured_dt d (p_unit p) en = Some d' /\ p_dt p' = Some d' /\ conv d' v = Ok c1 /\
    p_value p' = match conv d' c1 with Ok c2 => Some c2 | Err _ => None end /\
    (p_has_write p = true -> In (p_name p, v) (i_write i)).
Proof.
  intros C c i p d en v H Hin Ho Hc Hd Hcfg ND Hv.
  destruct (value_applied _ _ _ _ _ _ _ H Hin Ho Hc Hd Hcfg ND Hv) as [p' [d' [c1 [A [B [D [E [F [G [I _]]]]]]]]]].
  exists p', d', c1. auto 10.
Qed.

(* ... which is the converted value itself whenever converting a converted value changes nothing *)
Corollary C10_value_applied_idempotent : forall C c i p d en v,
  mod_init C c = Created i -> In p (c_params C) -> p_optional p = false -> p_iscmd p = false -> p_dt p = Some d ->
  assoc_str (p_name p) c = Some (CDict en) -> NoDup (map fst en) -> In (k_value, v) en ->
  exists p' d' c1, In p' (i_params i) /\ p_name p' = p_name p /\ p_dt p' = Some d' /\ conv d' v = Ok c1 /\
    (conv d' c1 = Ok c1 -> p_value p' = Some c1).
Proof.
  intros C c i p d en v H Hin Ho Hc Hd Hcfg ND Hv.
  destruct (value_applied _ _ _ _ _ _ _ H Hin Ho Hc Hd Hcfg ND Hv) as [p' [d' [c1 [A [B [_ [E [F [G _]]]]]]]]].
  exists p', d', c1. split; [exact A|split; [exact B|split; [exact E|split; [exact F|]]]].
  intros E2. rewrite G, E2. reflexivity.
Qed.

(* overrides of limits and unit only (min / max / unit besides Parameter properties - the common case) never change the
   conversion: the instance datatype converts like the class-level datatype (this was the general statement before the
   length and character-set properties were modelled) *)
Theorem C10_limit_overrides_keep_conversion : forall en d u d',
  limits_only en = true -> configured_dt d u en = Some d' -> forall x, conv d' x = conv d x.
Proof. exact limits_only_conv. Qed.

(* later range checks use the datatype of the instance, which carries the configured limits.  The instance datatype of a
   configured parameter of a created module is d' = the CONFIGURED datatype of its entry, and its well-formedness (C01 wf:
   min <= max, no NaN limits) is DERIVED, not assumed: the class-level datatype d is well formed (what the constructors of
   frappy.datatypes guarantee), every accepted override of a float limit is a number (unl_float_notnan; the limits may
   be inverted in between: Param(min=20, max=30) on FloatRange(0, 10)), and a created module has no inverted limits
   (C10_inverted_limits_rejected, i.e. checkProperties).  Hence whatever `validate` of the instance datatype accepts
   lies in the value set of the configured datatype (C01 validate_sound).  Not covered: min / max overrides of a
   ScaledInteger leaf (scaled_limits_kept; the grid rounding of overridden scaled limits is C02's subject). *)
Theorem C10_later_range_checks_use_instance_limits : forall C c i p d en,
  mod_init C c = Created i -> In p (c_params C) -> p_optional p = false -> p_iscmd p = false -> p_dt p = Some d ->
  assoc_str (p_name p) c = Some (CDict en) -> wf d -> scaled_limits_kept d en ->
  exists p' d', In p' (i_params i) /\ p_name p' = p_name p /\ configured_dt d (p_unit p) en = Some d' /\
    p_dt p' = Some d' /\ wf d' /\ forall x y, valid d' x = Ok y -> in_setb d' y = true.
Proof.
  intros C c i p d en H Hin Ho Hc Hd Hcfg Hwf Hs.
  destruct (created_dt _ _ _ _ _ _ H Hin Ho Hc Hd Hcfg) as [p' [d' [A [B [D [E F]]]]]].
  assert (W : wf d').
  { apply lim_ok_wf; [eapply configured_lim; [apply wf_lim_ok; exact Hwf|exact Hs|exact E]|].
    eapply no_inverted_limits; eassumption. }
  exists p', d'. split; [exact A|]. split; [exact B|]. split; [exact E|]. split; [exact F|]. split; [exact W|].
  intros x y Hv. eapply validate_sound; [exact W|left; reflexivity|exact Hv].
Qed.

(* ... in particular what the driver method of a configured parameter receives at start-up (C10_written_exactly_once)
   lies in the value set of the configured datatype: inside the configured limits *)
Theorem C10_start_up_write_within_configured_limits : forall C c i p d en v,
  mod_init C c = Created i -> In p (c_params C) -> p_optional p = false -> p_iscmd p = false -> p_dt p = Some d ->
  assoc_str (p_name p) c = Some (CDict en) -> NoDup (map fst en) -> In (k_value, v) en ->
  NoDup (map p_name (active (c_params C))) -> p_has_write p = true -> wf d -> scaled_limits_kept d en ->
  exists d', configured_dt d (p_unit p) en = Some d' /\
    forall x, In x (writes_for (p_name p) (startup i)) -> in_setb d' x = true.
Proof.
  intros C c i p d en v H Hin Ho Hc Hd Hcfg ND Hv NDp Hw Hwf Hs.
  destruct (configured_value_written _ _ _ _ _ _ _ H Hin Ho Hc Hd Hcfg ND Hv NDp Hw) as [p1 [d1 [_ [_ [E1 [_ W]]]]]].
  destruct (C10_later_range_checks_use_instance_limits _ _ _ _ _ _ H Hin Ho Hc Hd Hcfg Hwf Hs) as [p2 [d2 [_ [_ [E2 [_ [_ V]]]]]]].
  rewrite E1 in E2. inversion E2; subst d2. exists d1. split; [exact E1|].
  intros x Hx. rewrite W in Hx. destruct (valid d1 v) as [y|] eqn:Ev; [|destruct Hx].
  destruct (p_wfunc p); [|destruct Hx]. destruct Hx as [Hx|[]]. subst x. exact (V v y Ev).
Qed.

(* a configured `constant` (Param(constant=v), anywhere in the entry) of a created module is a value of the configured
   datatype d'; the instance shows it in its transport form (Parameter.finish: datatype.export_value(datatype(v)), what
   the description carries as "constant") and the parameter is readonly *)
Theorem C10_constant_applied : forall C c i p d en v,
  mod_init C c = Created i -> In p (c_params C) -> p_optional p = false -> p_iscmd p = false -> p_dt p = Some d ->
  assoc_str (p_name p) c = Some (CDict en) -> NoDup (map fst en) -> In (k_constant, v) en ->
  exists p' d' c1 j, In p' (i_params i) /\ p_name p' = p_name p /\ configured_dt d (p_unit p) en = Some d' /\
    p_dt p' = Some d' /\ conv d' v = Ok c1 /\ dt_exp d' c1 = Some j /\ p_constant p' = Some j /\ p_readonly p' = true.
Proof. intros; eapply constant_applied; eassumption. Qed.

(* start-up: the poll thread first hands writeDict to the write methods, then initialReads, then the first polls; every
   write method receives its configured (validated) value exactly once - or, when the value does not validate or
   there is no driver method, never (see the refuted statement below); this holds for unexported modules as well, and
   also when write methods take over pending values of other parameters (p_takes) *)
Theorem C10_written_once_before_poll : forall C c i n,
  mod_init C c = Created i -> NoDup (map p_name (active (c_params C))) ->
  (has_thread i = true ->
   exists ws rs, startup i = ws ++ EvInit :: rs /\ forallb is_write ws = true /\ forallb is_read rs = true) /\
  writes_for n (startup i) =
    (if has_thread i
     then match assoc_str n (i_write i) with Some v => handed (i_params i) n v | None => [] end
     else []) /\
  (List.length (writes_for n (startup i)) <= 1)%nat.
Proof.
  intros C c i n H ND. pose proof (created_write_nodup _ _ _ H ND) as NW. split; [|split].
  - intros Ht. destruct (startup_shape i NW Ht) as [ws [rs [A [B [D _]]]]]. exists ws, rs. auto.
  - apply startup_writes. exact NW.
  - rewrite (startup_writes i n NW). destruct (has_thread i); [|simpl; auto].
    destruct (assoc_str n (i_write i)); [apply handed_le1|simpl; auto].
Qed.

(* exactly once, for ALL modules, configurations and take-over scripts: the hardware write calls (driver write methods
   entered) of the start-up phase all come before initialReads and the first polls, and as a multiset they are exactly:
   one call write_<n>(validated v) per writeDict entry (n, v) - `handed` is that one call, or none for a value that does
   not validate (open finding) / a parameter without driver method.  It does not matter who makes the call: the loop of
   writeInitParams or a write method of an earlier parameter that took the pending value over (p_takes, nested to any
   depth); an entry consumed that way is not written a second time.  Without poll thread there is nothing to write. *)
Theorem C10_written_exactly_once : forall C c i,
  mod_init C c = Created i -> NoDup (map p_name (active (c_params C))) ->
  (has_thread i = true ->
   exists ws rs, startup i = ws ++ EvInit :: rs /\ forallb is_write ws = true /\ forallb is_read rs = true /\
     Permutation ws (flat_map (fun nv => map (EvWrite (fst nv)) (handed (i_params i) (fst nv) (snd nv))) (i_write i)) /\
     (forall n, writes_for n ws =
                match assoc_str n (i_write i) with Some v => handed (i_params i) n v | None => [] end)) /\
  (forall n v, (List.length (handed (i_params i) n v) <= 1)%nat) /\
  (has_thread i = false -> i_write i = [] /\ startup i = []).
Proof.
  intros C c i H ND. pose proof (created_write_nodup _ _ _ H ND) as NW. split; [|split].
  - intros Ht. destruct (startup_shape i NW Ht) as [ws [rs [A [B [D [P R]]]]]]. exists ws, rs.
    split; [exact A|split; [exact B|split; [exact D|split; [exact P|]]]].
    intros n. pose proof (startup_writes i n NW) as W. rewrite Ht, A, R in W.
    change (EvInit :: map EvRead (polled_names i)) with ([EvInit] ++ map EvRead (polled_names i)) in W.
    rewrite writes_for_app in W. change ([EvInit] ++ map EvRead (polled_names i)) with (EvInit :: map EvRead (polled_names i)) in W.
    rewrite writes_for_reads, app_nil_r in W. exact W.
  - intros n v. apply handed_le1.
  - intros Ht. split; [|apply startup_none; exact Ht]. unfold has_thread in Ht. destruct (i_write i); [reflexivity|].
    rewrite orb_true_r in Ht. discriminate.
Qed.

(* ... applied to a configured value: the driver method of a parameter with a configured value receives exactly that
   value, validated by the datatype of the instance, exactly once before the first poll (nothing when it does not
   validate: open finding, or when the write wrapper has no driver method behind it) *)
Theorem C10_configured_value_written_exactly_once : forall C c i p d en v,
  mod_init C c = Created i -> In p (c_params C) -> p_optional p = false -> p_iscmd p = false -> p_dt p = Some d ->
  assoc_str (p_name p) c = Some (CDict en) -> NoDup (map fst en) -> In (k_value, v) en ->
  NoDup (map p_name (active (c_params C))) -> p_has_write p = true ->
  exists p' d', find_param (p_name p) (i_params i) = Some p' /\ p_dt p' = Some d' /\
    configured_dt d (p_unit p) en = Some d' /\
    has_thread i = true /\
    writes_for (p_name p) (startup i) = match valid d' v with Ok x => if p_wfunc p then [x] else [] | Err _ => [] end.
Proof. intros; eapply configured_value_written; eassumption. Qed.

(* writeDict = exactly the values of parameters with a write wrapper: the converse of the last clause of
   C10_value_applied - every entry is the configured value (or, when the configuration gives none, the class-level
   value) of a non-optional parameter of the class with a write wrapper, one entry per name *)
Theorem C10_writedict_only_configured_values : forall C c i,
  mod_init C c = Created i ->
  (forall n v, In (n, v) (i_write i) ->
     exists p, In p (c_params C) /\ p_optional p = false /\ p_iscmd p = false /\ p_name p = n /\ p_has_write p = true /\
       ((exists en, assoc_str n c = Some (CDict en) /\ In (k_value, v) en) \/ p_value p = Some v)) /\
  (NoDup (map p_name (active (c_params C))) -> NoDup (map fst (i_write i))).
Proof.
  intros C c i H. split; [intros n v Hin; eapply write_entry_source; eassumption|intros ND; exact (created_write_nodup _ _ _ H ND)].
Qed.

(* ---- erroneous configuration is rejected whole: no instance *)
Theorem C10_unknown_name_rejected : forall C c k i,
  In k (map fst c) -> mem_str k (known_names C) = false -> mod_init C c <> Created i.
Proof. intros; eapply unknown_name_rejected; eassumption. Qed.

(* value / default / constant anywhere in a Param entry: when it is no value of the configured datatype d' - the class
   datatype with ALL overrides of the entry applied, whatever the order of the dict - no module is created *)
Theorem C10_wrong_type_value_rejected : forall C c i p d en k v d' e,
  In p (c_params C) -> p_optional p = false -> p_iscmd p = false -> p_dt p = Some d ->
  assoc_str (p_name p) c = Some (CDict en) -> mem_str k checked_value_props = true -> assoc_str k en = Some v ->
  configured_dt d (p_unit p) en = Some d' -> conv d' v = Err e -> mod_init C c <> Created i.
Proof. intros; eapply wrong_type_rejected; eassumption. Qed.

(* ... and for a `constant` (other than None) the rejection does not even go through the collected error list:
   Parameter.finish converts the constant unguarded, the BadValueError leaves Module.__init__ - no instance, and no
   ConfigError either (the node reports "error creating <module>" only).  This is why the third clause of
   C10_error_list_names_every_collected_item can name `<p>.constant` only for Param(constant=None) *)
Theorem C10_wrong_type_constant_leaves_init : forall C c p d en v d' e,
  In p (c_params C) -> p_optional p = false -> p_iscmd p = false -> p_dt p = Some d ->
  assoc_str (p_name p) c = Some (CDict en) -> NoDup (map fst en) -> In (k_constant, v) en -> v <> PNone ->
  configured_dt d (p_unit p) en = Some d' -> conv d' v = Err e ->
  (forall i, mod_init C c <> Created i) /\ (forall es, mod_init C c <> Rejected es).
Proof. intros; eapply wrong_constant_leaves_init; eassumption. Qed.

Theorem C10_missing_required_value_rejected : forall C c i p,
  In p (c_params C) -> p_optional p = false -> p_iscmd p = false -> p_needscfg p = true -> p_value p = None ->
  assoc_str (p_name p) c = None -> mod_init C c <> Created i.
Proof. intros; eapply missing_value_rejected; eassumption. Qed.

Theorem C10_missing_mandatory_description_rejected : forall C c i p,
  In p (c_params C) -> p_optional p = false -> p_iscmd p = false -> p_descr p = None ->
  assoc_str (p_name p) c = None -> mod_init C c <> Created i.
Proof. intros; eapply missing_description_rejected; eassumption. Qed.

(* per-item completeness of the error list of a rejected module (the ConfigError raised by Module.__init__), for the
   items the code collects while it applies the configuration: every unknown name, every module property whose value
   does not validate, every Param entry whose properties all apply (p1, final datatype d1) and whose value / default /
   constant is no value of d1 (named by the first of the three that fails, in this fixed order: the checks stop there)
   and every missing required
   value are named together, whatever else is wrong in the same module.
   NOT per item (the full statement "every erroneous item is named" does not hold for the code, see notes): the
   consistency checks (mandatory properties, min <= max, missing description) only run when nothing was collected before
   (`if not self.errors:`), and an unknown or ill-typed parameter property leaves __init__ as ProgrammingError (outcome
   Crashed: the module is reported by name only). *)
Theorem C10_error_list_names_every_collected_item : forall C c es,
  mod_init C c = Rejected es ->
  (forall k, In k (map fst c) -> mem_str k (known_names C) = false -> exists l, In (ErrUnknown l) es /\ In k l) /\
  (forall sp v e, In sp (all_mprops C) -> mprop_cfg_value c (mp_name sp) = Some v ->
     mp_validate (mp_type sp) v = Err e -> is_bad_value e = true -> In (ErrModProp (mp_name sp)) es) /\
  (forall p en k v p1 d1 e, In p (c_params C) -> p_optional p = false -> p_iscmd p = false ->
     assoc_str (p_name p) c = Some (CDict en) -> apply_entry_keep p en = (p1, PGo p1) ->
     mem_str k checked_value_props = true -> assoc_str k en = Some v -> p_dt p1 = Some d1 -> conv d1 v = Err e ->
     exists k', mem_str k' checked_value_props = true /\ In (ErrBadValue (p_name p) k') es) /\
  (forall p d, In p (c_params C) -> p_optional p = false -> p_iscmd p = false -> p_dt p = Some d ->
     p_needscfg p = true -> p_value p = None -> assoc_str (p_name p) c = None -> In (ErrNeedsCfg (p_name p)) es).
Proof.
  intros C c es H. split; [|split; [|split]].
  - intros; eapply unknown_name_listed; eassumption.
  - intros; eapply bad_module_property_listed; eassumption.
  - intros; eapply wrong_type_listed; eassumption.
  - intros; eapply missing_value_listed; eassumption.
Qed.

(* no parameter of a created module has min > max in its datatype, also not on the element type of an array
   (formerly ..._except_array_member; the exception went away with the repair of ArrayOf.checkProperties); dt_inverted
   also covers minchars > maxchars, minbytes > maxbytes, minlen > maxlen *)
Theorem C10_inverted_limits_rejected : forall C c i p d,
  mod_init C c = Created i -> In p (i_params i) -> p_iscmd p = false -> p_dt p = Some d -> dt_inverted d = false.
Proof. intros; eapply no_inverted_limits; eassumption. Qed.

(* the export configuration is applied as a whole: requests are resolved under exactly the export names the final
   accessibles carry (the names shown in the description), every name at most once; a hidden accessible has no entry *)
Theorem C10_export_names_applied : forall C c i,
  mod_init C c = Created i ->
  NoDup (map fst (i_names i)) /\
  forall s n, In (s, n) (i_names i) <-> exists p', In p' (i_params i) /\ p_name p' = n /\ p_export p' = XName s.
Proof. intros; eapply created_names; eassumption. Qed.

(* ---- node level: only created modules are registered, one failing module makes the node refuse to start, every failing
   module is named in the errors *)
Theorem C10_node_rejects_whole : forall classes secs,
  let rs := create_all classes secs in
  (forall n, In n (registered rs) <->
             exists s i, In (n, s) secs /\ mod_init (nth (fst s) classes dummy_cls) (snd s) = Created i) /\
  (node_starts rs = true <-> forall r, In r rs -> is_created (snd r) = true) /\
  (forall n, (exists e, In e (node_errors rs) /\ nerr_name e = n) <-> exists o, In (n, o) rs /\ is_created o = false).
Proof.
  intros classes secs rs. split; [|split].
  - intros n. rewrite registered_iff. split.
    + intros [o [Hin Hc]]. destruct (create_all_in _ _ _ _ Hin) as [s [Hs Ho]]. destruct o; try discriminate.
      exists s, i. split; [exact Hs|symmetry; exact Ho].
    + intros [s [i [Hin Hm]]]. exists (Created i). split; [|reflexivity]. unfold rs, create_all.
      apply in_map_iff. exists (n, s). simpl. rewrite Hm. split; [reflexivity|exact Hin].
  - apply node_starts_iff.
  - intros n. apply node_errors_iff.
Qed.

(* ---- merging of several files: the sections of the first file are kept unchanged and in place; later files only add
   sections with new names, tagged with the equipment id of their file *)
Theorem C10_merge_first_file_wins : forall fs acc res,
  load_rest acc fs = Some res ->
  exists extra, res = acc ++ extra /\
    Forall (fun e => mem_str (fst e) (map fst acc) = false /\
                     exists f s, In f fs /\ snd e = tag_origin (f_eid f) s) extra.
Proof. intros; eapply load_rest_prefix; eassumption. Qed.

(* ---- where the code still violates the property (open finding C10/out-of-range-value-not-written) *)
Theorem C10_refuted_out_of_range_value_not_written : exists C c i, mod_init C c = Created i /\ never_handed i = true.
Proof. exact refuted_out_of_range_value_not_written. Qed.

(* non-vacuity of C10_value_checked_against_configured_datatype: Param('abcdef', maxchars=3) is rejected naming
   label.value, Param('\181m/s', isUTF8=True) is applied - the class-level StringType() alone would decide the other way *)
Example C10_demo_configured_datatype :
  match mod_init C3 [descr; (s_ "label", CDict (param_dict (Some abcdef) [(k_maxchars, PInt 3)]))] with
  | Rejected [ErrBadValue n k] => str_eqb n (s_ "label") && str_eqb k k_value
  | _ => false
  end &&
  match mod_init C3 [descr; (s_ "label", CDict (param_dict (Some (PStr [181%N; 109%N])) [(k_isutf8, PBool true)]))] with
  | Created i => match find_param (s_ "label") (i_params i) with
                 | Some p => pv_same (match p_value p with Some x => x | None => PNone end) (PStr [181%N; 109%N])
                 | None => false
                 end
  | _ => false
  end &&
  match mod_init C3 [descr; (s_ "label", CDict [(k_value, PStr [181%N; 109%N])])] with Rejected _ => true | _ => false end
  = true.
Proof. vm_compute. reflexivity. Qed.
(* non-vacuity: a configuration that is applied (value converted, limits and unit overridden, write registered and handed
   over before the first poll) *)
Definition demo_cfg : cfg :=
  [descr; (s_ "p1", CDict [(k_min, PInt 1); (k_unit, PStr (s_ "mK")); (k_value, PInt 5)])].
Example C10_demo :
  match mod_init C1 demo_cfg with
  | Created i =>
      match find_param (s_ "p1") (i_params i) with
      | Some p => pv_same (match p_value p with Some v => v | None => PNone end) (PFloat (of_Z 5))
                  && str_eqb (p_unit p) (s_ "mK")
                  && match p_dt p with Some (TFloat mn _ _ _) => fsame mn (of_Z 1) | _ => false end
      | None => false end
      && match startup i with [EvWrite _ v; EvInit] => pv_same v (PFloat (of_Z 5)) | _ => false end
  | _ => false
  end = true.
Proof. vm_compute. reflexivity. Qed.

(* non-vacuity of the take-over clause: write_p1 takes over the pending value of p3, whose write method takes over the one
   of p2; all three are configured: each driver method is entered once (p3 and p2 nested inside write_p1, in this order),
   nothing is written a second time by the loop *)
Definition C2 : cls :=
  {| c_params := [mkpt "p1" fl010 true [s_ "p3"; s_ "p2"]; mkpt "p2" fl010 true []; mkpt "p3" fl010 true [s_ "p2"]];
     c_props := []; c_enablepoll := true |}.
Definition demo_cfg2 : cfg :=
  [descr; (s_ "p1", CDict [(k_value, PInt 1)]); (s_ "p2", CDict [(k_value, PInt 2)]); (s_ "p3", CDict [(k_value, PInt 3)])].
Example C10_demo_takeover :
  match mod_init C2 demo_cfg2 with
  | Created i =>
      list_eqb str_eqb (map fst (i_write i)) [s_ "p1"; s_ "p2"; s_ "p3"]
      && match startup i with
         | [EvWrite n1 v1; EvWrite n2 v2; EvWrite n3 v3; EvInit] =>
             str_eqb n1 (s_ "p1") && str_eqb n2 (s_ "p3") && str_eqb n3 (s_ "p2")
             && pv_same v1 (PFloat (of_Z 1)) && pv_same v2 (PFloat (of_Z 3)) && pv_same v3 (PFloat (of_Z 2))
         | _ => false
         end
  | _ => false
  end = true.
Proof. vm_compute. reflexivity. Qed.

Print Assumptions C10_source_facts.
Print Assumptions C10_value_checked_against_configured_datatype.
Print Assumptions C10_value_applied.
Print Assumptions C10_value_applied_idempotent.
Print Assumptions C10_limit_overrides_keep_conversion.
Print Assumptions C10_later_range_checks_use_instance_limits.
Print Assumptions C10_start_up_write_within_configured_limits.
Print Assumptions C10_constant_applied.
Print Assumptions C10_wrong_type_constant_leaves_init.
Print Assumptions C10_written_once_before_poll.
Print Assumptions C10_written_exactly_once.
Print Assumptions C10_configured_value_written_exactly_once.
Print Assumptions C10_writedict_only_configured_values.
Print Assumptions C10_unknown_name_rejected.
Print Assumptions C10_wrong_type_value_rejected.
Print Assumptions C10_missing_required_value_rejected.
Print Assumptions C10_missing_mandatory_description_rejected.
Print Assumptions C10_error_list_names_every_collected_item.
Print Assumptions C10_inverted_limits_rejected.
Print Assumptions C10_export_names_applied.
Print Assumptions C10_node_rejects_whole.
Print Assumptions C10_merge_first_file_wins.
Print Assumptions C10_refuted_out_of_range_value_not_written.

