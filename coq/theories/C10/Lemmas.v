(* C10 - lemmas: node-level aggregation, merging, start-up trace, structure of a successful Module.__init__ *)
From Coq Require Import ZArith NArith Bool List Lia.
Import ListNotations.
Local Open Scope list_scope.
Require Import FV.Base.Util FV.Base.F64 FV.Base.PyVal FV.C01.Model FV.Gen.C10 FV.C10.Model.

(* ------------------------------------------------------------------ strings *)
Lemma N_eqb_list_refl (s : str) : list_eqb N.eqb s s = true.
Proof. induction s; simpl; [reflexivity|]. rewrite N.eqb_refl. exact IHs. Qed.
Lemma str_eqb_refl' s : str_eqb s s = true.
Proof. apply N_eqb_list_refl. Qed.
Lemma str_eqb_true a b : str_eqb a b = true -> a = b.
Proof.
  unfold str_eqb. revert b. induction a; destruct b; simpl; intros H; try discriminate; [reflexivity|].
  apply andb_true_iff in H. destruct H as [H1 H2]. apply N.eqb_eq in H1. subst. f_equal. apply IHa. exact H2.
Qed.
Lemma mem_str_In k l : mem_str k l = true <-> In k l.
Proof.
  induction l; simpl; [split; [discriminate|tauto]|]. rewrite orb_true_iff, IHl. split.
  - intros [H|H]; [left; symmetry; apply str_eqb_true; exact H|right; exact H].
  - intros [H|H]; [left; subst; apply str_eqb_refl'|right; exact H].
Qed.

(* ------------------------------------------------------------------ node level *)
Definition is_created (o : outcome) : bool := match o with Created _ => true | _ => false end.
Definition nerr_name (e : nerr) : str := match e with NRejected m _ => m | NCrashed m => m end.

Lemma registered_iff rs n :
  In n (registered rs) <-> exists o, In (n, o) rs /\ is_created o = true.
Proof.
  unfold registered. rewrite in_flat_map. split.
  - intros [[m o] [Hin H]]. simpl in H. destruct o; simpl in H; try contradiction.
    destruct H as [H|[]]. subst. exists (Created i). split; [exact Hin|reflexivity].
  - intros [o [Hin Hc]]. exists (n, o). split; [exact Hin|]. destruct o; try discriminate. simpl. left. reflexivity.
Qed.

Lemma node_errors_iff rs n :
  (exists e, In e (node_errors rs) /\ nerr_name e = n) <-> exists o, In (n, o) rs /\ is_created o = false.
Proof.
  unfold node_errors. split.
  - intros [e [Hin Hn]]. apply in_flat_map in Hin. destruct Hin as [[m o] [Hin H]]. simpl in H.
    destruct o; simpl in H; try contradiction; destruct H as [H|[]]; subst; simpl;
      eexists; (split; [exact Hin|reflexivity]).
  - intros [o [Hin Hc]]. destruct o; try discriminate.
    + exists (NRejected n es). split; [|reflexivity]. apply in_flat_map. exists (n, Rejected es). split; [exact Hin|left; reflexivity].
    + exists (NCrashed n). split; [|reflexivity]. apply in_flat_map. exists (n, Crashed). split; [exact Hin|left; reflexivity].
Qed.

Lemma node_starts_iff rs : node_starts rs = true <-> forall r, In r rs -> is_created (snd r) = true.
Proof.
  unfold node_starts, node_errors. induction rs as [|[n o] rs IH]; simpl.
  - split; [intros _ r []|reflexivity].
  - destruct o; simpl.
    + rewrite IH. split.
      * intros H r [Hr|Hr]; [subst; reflexivity|apply H; exact Hr].
      * intros H r Hr. apply H. right. exact Hr.
    + split; [discriminate|]. intros H. specialize (H (n, Rejected es) (or_introl eq_refl)). discriminate.
    + split; [discriminate|]. intros H. specialize (H (n, Crashed) (or_introl eq_refl)). discriminate.
Qed.

Lemma create_all_in classes secs n o :
  In (n, o) (create_all classes secs) ->
  exists s, In (n, s) secs /\ o = mod_init (nth (fst s) classes dummy_cls) (snd s).
Proof.
  unfold create_all. intros H. apply in_map_iff in H. destruct H as [[m s] [Heq Hin]]. simpl in Heq.
  inversion Heq; subst. exists s. split; [exact Hin|reflexivity].
Qed.

(* ------------------------------------------------------------------ merging *)
Lemma merge_step_prefix eid acc ns : exists extra, merge_step eid acc ns = acc ++ extra /\
  (extra = [] \/ (extra = [(fst ns, tag_origin eid (snd ns))] /\ mem_str (fst ns) (map fst acc) = false)).
Proof.
  unfold merge_step. destruct (mem_str (fst ns) (map fst acc)) eqn:E.
  - exists []. rewrite app_nil_r. split; [reflexivity|left; reflexivity].
  - eexists. split; [reflexivity|right; split; reflexivity].
Qed.

Lemma merge_modules_prefix eid other : forall acc, exists extra,
  merge_modules acc eid other = acc ++ extra /\
  Forall (fun e => exists s, In (fst e, s) other /\ snd e = tag_origin eid s /\ mem_str (fst e) (map fst acc) = false) extra.
Proof.
  unfold merge_modules. induction other as [|ns other IH]; intros acc; simpl.
  - exists []. rewrite app_nil_r. split; [reflexivity|constructor].
  - destruct (merge_step_prefix eid acc ns) as [ex [He Hc]]. rewrite He.
    destruct (IH (acc ++ ex)) as [ex2 [He2 Hf]]. exists (ex ++ ex2). rewrite He2, app_assoc. split; [reflexivity|].
    apply Forall_app. split.
    + destruct Hc as [Hc|[Hc Hm]]; subst ex; [constructor|]. constructor; [|constructor].
      exists (snd ns). simpl. split; [left; destruct ns; reflexivity|split; [reflexivity|exact Hm]].
    + eapply Forall_impl; [|exact Hf]. intros e [s [Hin [Ht Hm]]]. exists s. split; [right; exact Hin|split; [exact Ht|]].
      rewrite map_app in Hm. destruct (mem_str (fst e) (map fst acc)) eqn:E; [|reflexivity].
      apply mem_str_In in E. assert (In (fst e) (map fst acc ++ map fst ex)) by (apply in_or_app; left; exact E).
      apply mem_str_In in H. rewrite H in Hm. discriminate.
Qed.

(* the sections of the first file are never changed by later files *)
Lemma load_rest_prefix : forall fs acc res, load_rest acc fs = Some res -> exists extra, res = acc ++ extra /\
  Forall (fun e => mem_str (fst e) (map fst acc) = false /\
                   exists f s, In f fs /\ snd e = tag_origin (f_eid f) s) extra.
Proof.
  induction fs as [|f fs IH]; intros acc res H; simpl in H.
  - inversion H; subst. exists []. rewrite app_nil_r. split; [reflexivity|constructor].
  - destruct (file_sections (f_mods f) []) as [o|] eqn:E; [|discriminate].
    destruct (merge_modules_prefix (f_eid f) o acc) as [ex [He Hf]]. rewrite He in H.
    apply IH in H. destruct H as [ex2 [Hr Hf2]]. exists (ex ++ ex2). rewrite Hr, app_assoc. split; [reflexivity|].
    apply Forall_app. split.
    + eapply Forall_impl; [|exact Hf]. intros e [s [_ [Ht Hm]]]. split; [exact Hm|]. exists f, s. split; [left; reflexivity|exact Ht].
    + eapply Forall_impl; [|exact Hf2]. intros e [Hm [f' [s [Hin Ht]]]]. split.
      * rewrite map_app in Hm. destruct (mem_str (fst e) (map fst acc)) eqn:E2; [|reflexivity].
        apply mem_str_In in E2. assert (In (fst e) (map fst acc ++ map fst ex)) by (apply in_or_app; left; exact E2).
        apply mem_str_In in H. rewrite H in Hm. discriminate.
      * exists f', s. split; [right; exact Hin|exact Ht].
Qed.

(* ------------------------------------------------------------------ start-up trace *)
Definition is_write (e : ev) : bool := match e with EvWrite _ _ => true | _ => false end.
Definition is_read (e : ev) : bool := match e with EvRead _ => true | _ => false end.
Definition writes_for (n : str) (l : list ev) : list pyval :=
  flat_map (fun e => match e with EvWrite m v => if str_eqb n m then [v] else [] | _ => [] end) l.

Lemma write_one_writes ps nv : forallb is_write (write_one ps nv) = true.
Proof.
  unfold write_one. destruct (find_param (fst nv) ps); [|reflexivity]. destruct (p_dt p); [|reflexivity].
  destruct (valid d (snd nv)); [|reflexivity]. destruct (p_wfunc p); reflexivity.
Qed.

Lemma startup_shape i : has_thread i = true ->
  exists ws rs, startup i = ws ++ EvInit :: rs /\ forallb is_write ws = true /\ forallb is_read rs = true /\
                ws = flat_map (write_one (i_params i)) (i_write i) /\ rs = map EvRead (polled_names i).
Proof.
  intros H. unfold startup. rewrite H. eexists. eexists. split; [reflexivity|]. split; [|split; [|split; reflexivity]].
  - induction (i_write i); simpl; [reflexivity|]. rewrite forallb_app, write_one_writes. exact IHl.
  - induction (polled_names i); simpl; [reflexivity|exact IHl].
Qed.

Lemma startup_none i : has_thread i = false -> startup i = [].
Proof. intros H. unfold startup. rewrite H. reflexivity. Qed.

Lemma writes_for_app n a b : writes_for n (a ++ b) = writes_for n a ++ writes_for n b.
Proof. unfold writes_for. apply flat_map_app. Qed.

Lemma writes_for_reads n l : writes_for n (EvInit :: map EvRead l) = [].
Proof. unfold writes_for. simpl. induction l; simpl; [reflexivity|exact IHl]. Qed.

Lemma write_one_other ps n nv : str_eqb n (fst nv) = false -> writes_for n (write_one ps nv) = [].
Proof.
  intros H. unfold write_one. destruct (find_param (fst nv) ps); [|reflexivity]. destruct (p_dt p); [|reflexivity].
  destruct (valid d (snd nv)); [|reflexivity]. destruct (p_wfunc p); [|reflexivity]. simpl. rewrite H. reflexivity.
Qed.

(* what the write method of n receives during start-up: the validated configured value, once - or nothing *)
Definition handed (ps : list param) (n : str) (v : pyval) : list pyval :=
  match find_param n ps with
  | Some p => match p_dt p with
              | Some d => match valid d v with Ok x => if p_wfunc p then [x] else [] | Err _ => [] end
              | None => []
              end
  | None => []
  end.

Lemma write_one_self ps n v : writes_for n (write_one ps (n, v)) = handed ps n v.
Proof.
  unfold write_one, handed. simpl. destruct (find_param n ps); [|reflexivity]. destruct (p_dt p); [|reflexivity].
  destruct (valid d v); [|reflexivity]. destruct (p_wfunc p); [|reflexivity]. simpl. rewrite str_eqb_refl'. reflexivity.
Qed.

Lemma writes_for_dict ps n : forall w, NoDup (map fst w) ->
  writes_for n (flat_map (write_one ps) w) =
  match assoc_str n w with Some v => handed ps n v | None => [] end.
Proof.
  induction w as [|[m v] w IH]; intros ND; simpl; [reflexivity|]. inversion ND; subst.
  rewrite writes_for_app, (IH H2). destruct (str_eqb n m) eqn:E.
  - apply str_eqb_true in E. subst m. rewrite write_one_self.
    assert (assoc_str n w = None) as ->; [|apply app_nil_r].
    clear - H1. induction w as [|[k x] w IH]; simpl; [reflexivity|]. simpl in H1.
    destruct (str_eqb n k) eqn:E; [apply str_eqb_true in E; subst; exfalso; apply H1; left; reflexivity|].
    apply IH. intros H. apply H1. right. exact H.
  - rewrite write_one_other; [reflexivity|exact E].
Qed.

Lemma startup_writes i n : NoDup (map fst (i_write i)) ->
  writes_for n (startup i) =
  if has_thread i
  then match assoc_str n (i_write i) with Some v => handed (i_params i) n v | None => [] end
  else [].
Proof.
  intros ND. destruct (has_thread i) eqn:E.
  - unfold startup. rewrite E. change ([EvInit] ++ map EvRead (polled_names i)) with (EvInit :: map EvRead (polled_names i)).
    rewrite writes_for_app, writes_for_reads, app_nil_r. apply writes_for_dict. exact ND.
  - rewrite startup_none; [reflexivity|exact E].
Qed.

(* ------------------------------------------------------------------ structure of a successful Module.__init__ *)
Lemma app_nil3 {A} (a b c : list A) : a ++ b ++ c = [] -> a = [] /\ b = [] /\ c = [].
Proof. intros H. apply app_eq_nil in H. destruct H as [H1 H2]. apply app_eq_nil in H2. tauto. Qed.

Lemma created_inv C c i : mod_init C c = Created i ->
  exists mv accs ps,
    phaseA C c = Some (mv, []) /\ phaseB (mexport mv) (c_params C) c = Some accs /\
    flat_map a_errs accs = [] /\ dup_errs [] accs = [] /\ unknown_names C c = [] /\
    map_opt finish_param (map a_param accs) = Some ps /\
    check_module C mv = [] /\ flat_map check_param (map (apply_main (main_unit ps)) ps) = [] /\
    i = {| i_mvals := mv; i_params := map (apply_main (main_unit ps)) ps; i_write := writes_of accs;
           i_names := names_of accs; i_enablepoll := c_enablepoll C |}.
Proof.
  unfold mod_init. destruct (phaseA C c) as [[mv esA]|] eqn:EA; [|discriminate].
  destruct (phaseB (mexport mv) (c_params C) c) as [accs|] eqn:EB; [|discriminate].
  destruct (map_opt finish_param (map a_param accs)) as [ps|] eqn:EF; [|discriminate].
  destruct (unknown_names C c) eqn:EU.
  2:{ destruct esA; simpl; try discriminate. destruct (flat_map a_errs accs); simpl; try discriminate.
      destruct (dup_errs [] accs); discriminate. }
  match goal with |- context [match (esA ++ ?X) with _ => _ end] => destruct (esA ++ X) eqn:E end.
  - apply app_nil3 in E. destruct E as [E1 [E2 E3]]. apply app_eq_nil in E2. destruct E2 as [E2 E2'].
    destruct (check_module C mv ++ flat_map check_param (map (apply_main (main_unit ps)) ps)) eqn:E4; [|discriminate].
    apply app_eq_nil in E4. destruct E4 as [E4 E5]. intros H. inversion H. subst esA.
    exists mv, accs, ps. repeat split; try assumption; try reflexivity.
  - discriminate.
Qed.

Lemma flat_map_nil {A B} (f : A -> list B) l x : flat_map f l = [] -> In x l -> f x = [].
Proof.
  induction l; simpl; intros H []; apply app_eq_nil in H; destruct H as [H1 H2]; [subst; exact H1|apply IHl; assumption].
Qed.

Lemma phaseB_in mexp c : forall ps accs p, phaseB mexp ps c = Some accs -> In p ps -> p_optional p = false ->
  exists a, In a accs /\ acc_step mexp p (assoc_str (p_name p) c) = Some a.
Proof.
  induction ps as [|q ps IH]; intros accs p H Hin Ho; [destruct Hin|]. simpl in H.
  destruct Hin as [Hq|Hin].
  - subst q. rewrite Ho in H. destruct (acc_step mexp p (assoc_str (p_name p) c)) as [a|] eqn:E; [|discriminate].
    destruct (phaseB mexp ps c); [|discriminate]. inversion H; subst. exists a. split; [left; reflexivity|reflexivity].
  - destruct (p_optional q).
    + apply (IH accs p H Hin Ho).
    + destruct (acc_step mexp q (assoc_str (p_name q) c)); [|discriminate].
      destruct (phaseB mexp ps c) as [l|] eqn:E; [|discriminate]. inversion H; subst.
      destruct (IH l p eq_refl Hin Ho) as [a' [Ha Hs]]. exists a'. split; [right; exact Ha|exact Hs].
Qed.

Lemma map_opt_in {A B} (f : A -> option B) : forall l r x, map_opt f l = Some r -> In x l -> exists y, f x = Some y /\ In y r.
Proof.
  induction l as [|a l IH]; intros r x H Hin; [destruct Hin|]. simpl in H.
  destruct (f a) as [y|] eqn:E; [|discriminate]. destruct (map_opt f l) as [ys|] eqn:E2; [|discriminate].
  inversion H; subst. destruct Hin as [Hx|Hin].
  - subst. exists y. split; [exact E|left; reflexivity].
  - destruct (IH ys x eq_refl Hin) as [y' [Hy Hi]]. exists y'. split; [exact Hy|right; exact Hi].
Qed.

(* ------------------------------------------------------------------ conversion does not depend on the configurable limits *)
Definition conv_eq (a b : option dtype) : Prop :=
  match a, b with
  | Some x, Some y => forall v, conv x v = conv y v
  | None, None => True
  | _, _ => False
  end.
Lemma conv_eq_refl a : conv_eq a a.
Proof. destruct a; simpl; auto. Qed.
Lemma conv_eq_trans a b c : conv_eq a b -> conv_eq b c -> conv_eq a c.
Proof. destruct a, b, c; simpl; intros; try contradiction; auto. rewrite H. apply H0. Qed.

Lemma leaf_setprop_conv d u k v d' u' : leaf_setprop d u k v = Some (d', u') -> forall x, dt_call d' x = dt_call d x.
Proof.
  unfold leaf_setprop. intros H x. destruct d; try discriminate;
    repeat match type of H with
           | context[if ?b then _ else _] => destruct b
           | context[match ?r with _ => _ end] => destruct r; try discriminate
           end; inversion H; subst; reflexivity.
Qed.

Lemma dt_setprop_conv d u k v d' u' : dt_setprop d u k v = Some (d', u') -> forall x, conv d' x = conv d x.
Proof.
  unfold dt_setprop, conv. intros H x. destruct d; try (eapply leaf_setprop_conv; exact H).
  destruct (leaf_setprop d u k v) as [[e' u2]|] eqn:E; [|discriminate]. inversion H; subst.
  pose proof (leaf_setprop_conv _ _ _ _ _ _ E) as Hc. simpl.
  destruct (array_check minlen maxlen x); [|reflexivity]. simpl. destruct (py_iter x); [|reflexivity].
  assert (forall l, map_res (dt_call e') l = map_res (dt_call d) l) as ->; [|reflexivity].
  intros l0. induction l0; simpl; [reflexivity|]. rewrite Hc, IHl0. reflexivity.
Qed.

(* ------------------------------------------------------------------ what one cfg property can change *)
Record keeps (p p' : param) : Prop := {
  k_name : p_name p' = p_name p;
  k_cmd : p_iscmd p' = p_iscmd p;
  k_hw : p_has_write p' = p_has_write p;
  k_wf : p_wfunc p' = p_wfunc p;
  k_dt : conv_eq (p_dt p) (p_dt p');
}.
Lemma keeps_refl p : keeps p p.
Proof. split; try reflexivity. apply conv_eq_refl. Qed.
Lemma keeps_trans a b c : keeps a b -> keeps b c -> keeps a c.
Proof.
  intros [] []. split; try congruence. eapply conv_eq_trans; eassumption.
Qed.

Lemma value_is_param_prop : pprop_type param_props k_value <> None.
Proof. vm_compute. discriminate. Qed.

Ltac fin := repeat split; simpl; intros; try reflexivity; try apply conv_eq_refl; try congruence; try discriminate.

Lemma param_setprop_inv p k v p' : param_setprop p k v = PGo p' ->
  keeps p p' /\ (str_eqb k k_value = false -> p_value p' = p_value p) /\ (str_eqb k k_value = true -> p_value p' = Some v).
Proof.
  unfold param_setprop. destruct (pprop_type param_props k) as [t|] eqn:Ep.
  - destruct (str_eqb k k_value) eqn:Ev. { intros H; inversion H; subst; fin. }
    destruct (str_eqb k k_default). { intros H; inversion H; subst; fin. }
    destruct (mp_validate t v) as [x|]; [|discriminate].
    destruct (str_eqb k k_readonly). { destruct x; try discriminate; intros H; inversion H; subst; fin. }
    destruct (str_eqb k k_needscfg). { destruct x; try discriminate; intros H; inversion H; subst; fin. }
    destruct (str_eqb k k_visibility). { destruct x; try discriminate; intros H; inversion H; subst; fin. }
    destruct (str_eqb k k_group). { destruct x; try discriminate; intros H; inversion H; subst; fin. }
    destruct (str_eqb k k_description). { destruct x; try discriminate; intros H; inversion H; subst; fin. }
    destruct (str_eqb k k_export). { destruct x; try discriminate; intros H; inversion H; subst; fin. }
    discriminate.
  - destruct (str_eqb k k_value) eqn:Ev.
    { apply str_eqb_true in Ev. subst k. exfalso. apply value_is_param_prop. exact Ep. }
    destruct (p_dt p) as [d|] eqn:Ed.
    + destruct (dt_setprop d (p_unit p) k v) as [[d' u']|] eqn:Es; [|discriminate].
      intros H; inversion H; subst. split; [|fin]. split; simpl; try reflexivity. rewrite Ed.
      intros x. symmetry. eapply dt_setprop_conv. exact Es.
    + intros H; inversion H; subst. fin.
Qed.

Lemma prop_step_inv p k v p' : p_iscmd p = false -> prop_step (PGo p) (k, v) = PGo p' ->
  keeps p p' /\ (str_eqb k k_value = false -> p_value p' = p_value p) /\ (str_eqb k k_value = true -> p_value p' = Some v)
  /\ (mem_str k checked_value_props = true -> forall d, p_dt p = Some d -> exists c, conv d v = Ok c).
Proof.
  intros Hc. unfold prop_step. rewrite Hc.
  destruct (mem_str k checked_value_props) eqn:Em.
  - destruct (p_dt p) as [d|] eqn:Ed.
    + destruct (conv d v) as [c|e] eqn:Ecv.
      * intros H. apply param_setprop_inv in H. destruct H as [H1 [H2 H3]]. split; [exact H1|split; [exact H2|split; [exact H3|]]].
        intros _ d0 Hd. inversion Hd; subst. exists c. exact Ecv.
      * destruct (is_bad_value e); discriminate.
    + intros H. apply param_setprop_inv in H. destruct H as [H1 [H2 H3]]. split; [exact H1|split; [exact H2|split; [exact H3|]]]. intros _ d0 Hd. discriminate.
  - intros H. apply param_setprop_inv in H. destruct H as [H1 [H2 H3]]. split; [exact H1|split; [exact H2|split; [exact H3|]]]. intros; discriminate.
Qed.

(* the whole entry *)
Lemma apply_entry_keep_cons p kv r :
  apply_entry_keep p (kv :: r) = match prop_step (PGo p) kv with PGo p' => apply_entry_keep p' r | x => (p, x) end.
Proof. reflexivity. Qed.
Lemma entry_inv : forall en p p1, p_iscmd p = false -> apply_entry_keep p en = (p1, PGo p1) ->
  keeps p p1 /\
  (forall k v d, In (k, v) en -> mem_str k checked_value_props = true -> p_dt p = Some d -> exists c, conv d v = Ok c) /\
  (~ In k_value (map fst en) -> p_value p1 = p_value p) /\
  (forall v, NoDup (map fst en) -> In (k_value, v) en -> p_value p1 = Some v).
Proof.
  induction en as [|[k v] en IH]; intros p p1 Hc H; [simpl in H|rewrite apply_entry_keep_cons in H].
  - inversion H; subst. split; [apply keeps_refl|]. split; [intros ? ? ? []|]. split; [reflexivity|intros ? ? []].
  - destruct (prop_step (PGo p) (k, v)) as [| |p'] eqn:Es; [inversion H|inversion H|].
    + destruct (prop_step_inv _ _ _ _ Hc Es) as [K [V0 [V1 Ck]]].
      assert (Hc' : p_iscmd p' = false) by (rewrite (k_cmd _ _ K); exact Hc).
      destruct (IH p' p1 Hc' H) as [K2 [C2 [N2 D2]]].
      split; [eapply keeps_trans; eassumption|]. split; [|split].
      * intros k0 v0 d [Heq|Hin] Hm Hd.
        -- inversion Heq; subst. apply (Ck Hm d Hd).
        -- pose proof (k_dt _ _ K) as Hq. rewrite Hd in Hq. destruct (p_dt p') as [d'|] eqn:Ed'; [|contradiction].
           destruct (C2 k0 v0 d' Hin Hm eq_refl) as [c Hcv]. exists c. simpl in Hq. rewrite Hq. exact Hcv.
      * simpl. intros Hn. rewrite N2; [|intros Hi; apply Hn; right; exact Hi]. apply V0.
        destruct (str_eqb k k_value) eqn:E; [|reflexivity]. apply str_eqb_true in E. subst. exfalso. apply Hn. left. reflexivity.
      * intros v0 ND [Heq|Hin].
        -- inversion Heq; subst. simpl in ND. inversion ND; subst. rewrite N2; [|assumption]. apply V1. apply str_eqb_refl'.
        -- simpl in ND. inversion ND; subst. apply D2; assumption.
Qed.

(* ------------------------------------------------------------------ one accessible *)
Lemma apply_entry_keep_go : forall en p pk p1, apply_entry_keep p en = (pk, PGo p1) -> pk = p1.
Proof.
  induction en as [|kv en IH]; intros p pk p1 H; [simpl in H; inversion H; reflexivity|].
  rewrite apply_entry_keep_cons in H. destruct (prop_step (PGo p) kv) eqn:E; try (inversion H; fail). eapply IH; exact H.
Qed.

Lemma handle_writes_ok p p2 w : handle_writes p = (p2, [], w) ->
  exists d, p_dt p = Some d /\ (p_needscfg p = true -> p_value p <> None) /\
    p_dt p2 = Some d /\ p_name p2 = p_name p /\ p_iscmd p2 = p_iscmd p /\ p_descr p2 = p_descr p /\
    match p_value p with
    | Some v => p_value p2 = Some (match conv d v with Ok c => c | Err _ => v end) /\
                w = (if p_has_write p then Some v else None)
    | None => w = None
    end.
Proof.
  unfold handle_writes. destruct (p_dt p) as [d|] eqn:Ed; [|discriminate].
  destruct (p_value p) as [v|] eqn:Ev.
  - intros H. inversion H; subst. exists d. simpl. repeat split; try reflexivity; try assumption. discriminate.
  - destruct (p_needscfg p) eqn:En.
    + destruct (p_default p); discriminate.
    + destruct (p_default p); intros H; inversion H; subst; exists d; simpl; repeat split; try reflexivity; try assumption; discriminate.
Qed.

Lemma post_keeps mexp p : keeps p (post mexp p) /\ p_value (post mexp p) = p_value p /\
  p_needscfg (post mexp p) = p_needscfg p /\ p_descr (post mexp p) = p_descr p /\ p_dt (post mexp p) = p_dt p /\
  p_export (post mexp p) <> XTrue.
Proof.
  unfold post, fix_export. destruct mexp; simpl.
  - destruct (p_export p) eqn:E; simpl; repeat split; try reflexivity; try apply conv_eq_refl; try rewrite E; discriminate.
  - repeat split; try reflexivity; try apply conv_eq_refl. discriminate.
Qed.
Lemma post_cmd mexp p : p_iscmd (post mexp p) = p_iscmd p.
Proof. destruct (post_keeps mexp p) as [K _]. exact (k_cmd _ _ K). Qed.
Lemma post_dt mexp p : p_dt (post mexp p) = p_dt p.
Proof. destruct (post_keeps mexp p) as [_ [_ [_ [_ [H _]]]]]. exact H. Qed.

Lemma acc_step_ok mexp p e a : p_iscmd p = false -> acc_step mexp p e = Some a -> a_errs a = [] ->
  exists p1, (match e with
              | Some (CDict en) => apply_entry_keep p en = (p1, PGo p1)
              | None => p1 = p
              | Some (CRaw _) => False
              end) /\
             handle_writes (post mexp p1) = (a_param a, [], a_write a) /\ a_name a = name_of (post mexp p1).
Proof.
  intros Hc. unfold acc_step.
  destruct e as [[v|en]|].
  - discriminate.
  - destruct (apply_entry_keep p en) as [pk r] eqn:E. destruct r as [|er|p1].
    + discriminate.
    + cbv zeta. destruct (p_iscmd (post mexp pk)); [intros H; inversion H; subst; simpl; discriminate|].
      destruct (handle_writes (post mexp pk)) as [[p2 es] w]. intros H; inversion H; subst; simpl; discriminate.
    + pose proof (apply_entry_keep_go _ _ _ _ E). subst pk.
      destruct (entry_inv _ _ _ Hc E) as [K _]. cbv zeta. rewrite post_cmd, (k_cmd _ _ K), Hc.
      destruct (handle_writes (post mexp p1)) as [[p2 es] w] eqn:Eh. intros H; inversion H; subst; simpl. intros He; subst es.
      exists p1. split; [reflexivity|split; [exact Eh|reflexivity]].
  - cbv beta iota zeta. rewrite post_cmd, Hc.
    destruct (handle_writes (post mexp p)) as [[p2 es] w] eqn:Eh. intros H; inversion H; subst; simpl. intros He; subst es.
    exists p. split; [reflexivity|split; [exact Eh|reflexivity]].
Qed.

Lemma finish_param_ok p y : p_iscmd p = false -> finish_param p = Some y ->
  p_name y = p_name p /\ p_dt y = p_dt p /\ p_descr y = p_descr p /\ p_iscmd y = false /\
  refit (p_dt p) (p_value p) = Some (p_value y).
Proof.
  intros Hc. unfold finish_param. rewrite Hc.
  destruct (refit (p_dt p) (p_default p)) as [d'|]; [|discriminate].
  destruct (refit (p_dt p) (p_value p)) as [v'|]; [|discriminate].
  intros H; inversion H; subst; simpl. repeat split; try reflexivity; assumption.
Qed.

Lemma apply_main_keeps main p :
  p_name (apply_main main p) = p_name p /\ p_dt (apply_main main p) = p_dt p /\ p_value (apply_main main p) = p_value p
  /\ p_descr (apply_main main p) = p_descr p /\ p_iscmd (apply_main main p) = p_iscmd p /\ p_wfunc (apply_main main p) = p_wfunc p
  /\ p_export (apply_main main p) = p_export p.
Proof.
  unfold apply_main. destruct main; [repeat split; reflexivity|].
  destruct (p_dt p) eqn:E; [|repeat split; try reflexivity; try (symmetry; exact E); exact E].
  destruct (negb (p_iscmd p) && carries_unit d && has_dollar (p_unit p)); simpl; repeat split; try reflexivity;
    try (symmetry; exact E); exact E.
Qed.

(* from a class parameter to the parameter of the created instance *)
Lemma created_param C c i p : mod_init C c = Created i -> In p (c_params C) -> p_optional p = false -> p_iscmd p = false ->
  exists mv a p1 y p',
    acc_step (mexport mv) p (assoc_str (p_name p) c) = Some a /\
    (match assoc_str (p_name p) c with
     | Some (CDict en) => apply_entry_keep p en = (p1, PGo p1)
     | None => p1 = p
     | Some (CRaw _) => False
     end) /\
    handle_writes (post (mexport mv) p1) = (a_param a, [], a_write a) /\
    finish_param (a_param a) = Some y /\ In p' (i_params i) /\
    p_name p' = p_name y /\ p_dt p' = p_dt y /\ p_value p' = p_value y /\ p_descr p' = p_descr y /\ p_iscmd p' = p_iscmd y /\
    check_param p' = [] /\
    (forall v, a_write a = Some v -> In (p_name (a_param a), v) (i_write i)).
Proof.
  intros H Hin Ho Hc. destruct (created_inv _ _ _ H) as [mv [accs [ps [EA [EB [Eerr [Edup [EU [EF [ECm [ECp Ei]]]]]]]]]]].
  destruct (phaseB_in _ _ _ _ _ EB Hin Ho) as [a [Ha Hs]].
  pose proof (flat_map_nil _ _ _ Eerr Ha) as Hae.
  destruct (acc_step_ok _ _ _ _ Hc Hs Hae) as [p1 [He [Hh _]]].
  destruct (map_opt_in finish_param _ _ (a_param a) EF) as [y [Hy Hyin]]; [apply in_map; exact Ha|].
  exists mv, a, p1, y, (apply_main (main_unit ps) y).
  destruct (apply_main_keeps (main_unit ps) y) as [M1 [M2 [M3 [M4 [M5 [M6 M7]]]]]].
  subst i. simpl. repeat split; try assumption.
  - apply in_map. exact Hyin.
  - eapply flat_map_nil; [exact ECp|]. apply in_map. exact Hyin.
  - intros v Hw. unfold writes_of. apply in_flat_map. exists a. split; [exact Ha|]. rewrite Hw. left. reflexivity.
Qed.

(* ------------------------------------------------------------------ the property-level statements *)
Lemma value_applied C c i p d en v :
  mod_init C c = Created i -> In p (c_params C) -> p_optional p = false -> p_iscmd p = false -> p_dt p = Some d ->
  assoc_str (p_name p) c = Some (CDict en) -> NoDup (map fst en) -> In (k_value, v) en ->
  exists p' d' c1, In p' (i_params i) /\ p_name p' = p_name p /\ p_dt p' = Some d' /\ (forall x, conv d x = conv d' x) /\
    conv d v = Ok c1 /\ p_value p' = match conv d c1 with Ok c2 => Some c2 | Err _ => None end /\
    (p_has_write p = true -> In (p_name p, v) (i_write i)).
Proof.
  intros H Hin Ho Hc Hd Hcfg ND Hv.
  destruct (created_param _ _ _ _ H Hin Ho Hc) as [mv [a [p1 [y [p' [Hs [He [Hh [Hf [Hp' [N1 [D1 [V1 [_ [_ [_ Hw]]]]]]]]]]]]]]]].
  rewrite Hcfg in He.
  destruct (entry_inv _ _ _ Hc He) as [K [Cv [_ Vv]]].
  pose proof (Vv v ND Hv) as Hval.
  destruct (Cv k_value v d Hv) as [c1 Hc1]; [vm_compute; reflexivity|exact Hd|].
  destruct (post_keeps (mexport mv) p1) as [K0 [PV [_ [_ [PD _]]]]].
  destruct (handle_writes_ok _ _ _ Hh) as [d1 [Hd1 [_ [Hd2 [Hn2 [Hc2 [_ Hm]]]]]]].
  rewrite PV, Hval in Hm. destruct Hm as [Hv2 Hw2]. rewrite PD in Hd1.
  pose proof (k_dt _ _ K) as Hq. rewrite Hd, Hd1 in Hq. simpl in Hq.
  assert (Hca : p_iscmd (a_param a) = false).
  { rewrite Hc2, (k_cmd _ _ K0), (k_cmd _ _ K). exact Hc. }
  destruct (finish_param_ok _ _ Hca Hf) as [Fn [Fd [_ [_ Fr]]]].
  exists p', d1, c1. split; [exact Hp'|]. split; [|split; [|split; [exact Hq|split; [exact Hc1|split]]]].
  - rewrite N1, Fn, Hn2, (k_name _ _ K0). apply (k_name _ _ K).
  - rewrite D1, Fd. exact Hd2.
  - rewrite V1. rewrite Hd2, Hv2 in Fr. rewrite <- Hq, Hc1 in Fr. unfold refit in Fr. rewrite <- Hq in Fr.
    destruct (conv d c1) as [c2|e]; [inversion Fr; reflexivity|]. destruct (is_bad_value e); [inversion Fr; reflexivity|discriminate].
  - intros Hhw. assert (a_write a = Some v) as Hwa.
    { rewrite Hw2, (k_hw _ _ K0), (k_hw _ _ K), Hhw. reflexivity. }
    apply Hw in Hwa. rewrite Hn2, (k_name _ _ K0), (k_name _ _ K) in Hwa. exact Hwa.
Qed.

Lemma unknown_name_rejected C c k i :
  In k (map fst c) -> mem_str k (known_names C) = false -> mod_init C c <> Created i.
Proof.
  intros Hin Hk H. destruct (created_inv _ _ _ H) as [mv [accs [ps [_ [_ [_ [_ [EU _]]]]]]]].
  unfold unknown_names in EU. assert (In k (filter (fun k0 => negb (mem_str k0 (known_names C))) (map fst c))).
  { apply filter_In. split; [exact Hin|]. rewrite Hk. reflexivity. }
  rewrite EU in H0. destruct H0.
Qed.

Lemma wrong_type_rejected C c i p d en k v e :
  In p (c_params C) -> p_optional p = false -> p_iscmd p = false -> p_dt p = Some d ->
  assoc_str (p_name p) c = Some (CDict en) -> In (k, v) en -> mem_str k checked_value_props = true ->
  conv d v = Err e -> mod_init C c <> Created i.
Proof.
  intros Hin Ho Hc Hd Hcfg Hkv Hm Hcv H.
  destruct (created_param _ _ _ _ H Hin Ho Hc) as [mv [a [p1 [y [p' [Hs [He _]]]]]]].
  rewrite Hcfg in He.
  destruct (entry_inv _ _ _ Hc He) as [_ [Cv _]].
  destruct (Cv k v d Hkv Hm Hd) as [c1 Hc1]. rewrite Hcv in Hc1. discriminate.
Qed.

Lemma raw_section_rejected C c i p v :
  In p (c_params C) -> p_optional p = false -> p_iscmd p = false ->
  assoc_str (p_name p) c = Some (CRaw v) -> mod_init C c <> Created i.
Proof.
  intros Hin Ho Hc Hcfg H.
  destruct (created_param _ _ _ _ H Hin Ho Hc) as [mv [a [p1 [y [p' [Hs [He _]]]]]]].
  rewrite Hcfg in He. exact He.
Qed.

Lemma missing_value_rejected C c i p :
  In p (c_params C) -> p_optional p = false -> p_iscmd p = false -> p_needscfg p = true -> p_value p = None ->
  assoc_str (p_name p) c = None -> mod_init C c <> Created i.
Proof.
  intros Hin Ho Hc Hn Hv Hcfg H.
  destruct (created_param _ _ _ _ H Hin Ho Hc) as [mv [a [p1 [y [p' [Hs [He [Hh _]]]]]]]].
  rewrite Hcfg in He. subst p1. destruct (handle_writes_ok _ _ _ Hh) as [d1 [_ [Hnc _]]].
  destruct (post_keeps (mexport mv) p) as [_ [Hv0 [Hn0 _]]]. apply Hnc; [rewrite Hn0; exact Hn|rewrite Hv0; exact Hv].
Qed.

Lemma missing_description_rejected C c i p :
  In p (c_params C) -> p_optional p = false -> p_iscmd p = false -> p_descr p = None ->
  assoc_str (p_name p) c = None -> mod_init C c <> Created i.
Proof.
  intros Hin Ho Hc Hdn Hcfg H.
  destruct (created_param _ _ _ _ H Hin Ho Hc) as [mv [a [p1 [y [p' [Hs [He [Hh [Hf [Hp' [N1 [D1 [V1 [De1 [Cm1 [Hck _]]]]]]]]]]]]]]]].
  rewrite Hcfg in He. subst p1. destruct (handle_writes_ok _ _ _ Hh) as [d1 [_ [_ [_ [_ [Hc2 [Hde _]]]]]]].
  assert (Hca : p_iscmd (a_param a) = false).
  { rewrite Hc2, post_cmd. exact Hc. }
  destruct (finish_param_ok _ _ Hca Hf) as [_ [_ [Fde _]]].
  unfold check_param in Hck. rewrite De1, Fde, Hde in Hck.
  destruct (post_keeps (mexport mv) p) as [_ [_ [_ [Hd0 _]]]]. rewrite Hd0, Hdn in Hck. discriminate.
Qed.

(* limits of a parameter of a created module are never inverted, also not on the element type of an array *)
Lemma no_inverted_limits C c i p d :
  mod_init C c = Created i -> In p (i_params i) -> p_iscmd p = false -> p_dt p = Some d -> dt_inverted d = false.
Proof.
  intros H Hin Hc Hd. destruct (created_inv _ _ _ H) as [mv [accs [ps [_ [_ [_ [_ [_ [_ [_ [ECp Ei]]]]]]]]]]].
  subst i. simpl in Hin. pose proof (flat_map_nil _ _ _ ECp Hin) as Hck. unfold check_param in Hck.
  destruct (p_descr p); [|discriminate]. rewrite Hc, Hd in Hck. destruct (dt_inverted d); [discriminate|reflexivity].
Qed.

Lemma created_has_description C c i p : mod_init C c = Created i -> In p (i_params i) -> p_descr p <> None.
Proof.
  intros H Hin. destruct (created_inv _ _ _ H) as [mv [accs [ps [_ [_ [_ [_ [_ [_ [_ [ECp Ei]]]]]]]]]]].
  subst i. simpl in Hin. pose proof (flat_map_nil _ _ _ ECp Hin) as Hck. unfold check_param in Hck.
  destruct (p_descr p); [discriminate|discriminate].
Qed.

(* ------------------------------------------------------------------ writeDict has one entry per parameter name *)
Lemma cmd_setprop_name p k v p' : cmd_setprop p k v = PGo p' -> p_name p' = p_name p.
Proof.
  unfold cmd_setprop. destruct (pprop_type command_props k); [|discriminate].
  destruct (mp_validate m v) as [x|e]; [|destruct e; discriminate].
  destruct (str_eqb k k_visibility). { destruct x; try discriminate; intros H; inversion H; reflexivity. }
  destruct (str_eqb k k_group). { destruct x; try discriminate; intros H; inversion H; reflexivity. }
  destruct (str_eqb k k_description). { destruct x; try discriminate; intros H; inversion H; reflexivity. }
  destruct (str_eqb k k_export). { destruct x; try discriminate; intros H; inversion H; reflexivity. }
  discriminate.
Qed.

Lemma prop_step_name p kv p' : prop_step (PGo p) kv = PGo p' -> p_name p' = p_name p.
Proof.
  destruct kv as [k v]. intros H. destruct (p_iscmd p) eqn:Hc.
  - unfold prop_step in H. rewrite Hc in H. destruct (mem_str k checked_value_props); [discriminate|].
    eapply cmd_setprop_name; exact H.
  - apply (prop_step_inv _ _ _ _ Hc) in H. destruct H as [K _]. exact (k_name _ _ K).
Qed.

Lemma apply_entry_keep_name : forall en p pk r, apply_entry_keep p en = (pk, r) -> p_name pk = p_name p.
Proof.
  induction en as [|kv en IH]; intros p pk r H; [simpl in H; inversion H; reflexivity|].
  rewrite apply_entry_keep_cons in H. destruct (prop_step (PGo p) kv) eqn:E; try (inversion H; reflexivity).
  rewrite (IH _ _ _ H). eapply prop_step_name; exact E.
Qed.

Lemma handle_writes_name p : p_name (fst (fst (handle_writes p))) = p_name p.
Proof.
  unfold handle_writes. destruct (p_dt p); [|reflexivity]. destruct (p_value p); [reflexivity|].
  destruct (p_default p); reflexivity.
Qed.
Lemma handle_writes_export p : p_export (fst (fst (handle_writes p))) = p_export p.
Proof.
  unfold handle_writes. destruct (p_dt p); [|reflexivity]. destruct (p_value p); [reflexivity|].
  destruct (p_default p); reflexivity.
Qed.
Lemma post_name mexp p : p_name (post mexp p) = p_name p.
Proof. destruct (post_keeps mexp p) as [K _]. exact (k_name _ _ K). Qed.

(* the record produced for one accessible: name kept, the name-map entry is the export name of the parameter *)
Lemma acc_step_shape mexp p e a : acc_step mexp p e = Some a ->
  p_name (a_param a) = p_name p /\ a_name a = name_of (a_param a) /\ p_export (a_param a) <> XTrue.
Proof.
  unfold acc_step.
  assert (S1 : forall pk es0, p_name pk = p_name p ->
     (if p_iscmd (post mexp pk)
      then Some {| a_param := post mexp pk; a_errs := es0; a_write := None; a_name := name_of (post mexp pk) |}
      else let '(p1, es, w) := handle_writes (post mexp pk) in
           Some {| a_param := p1; a_errs := es0 ++ es; a_write := w; a_name := name_of (post mexp pk) |}) = Some a ->
     p_name (a_param a) = p_name p /\ a_name a = name_of (a_param a) /\ p_export (a_param a) <> XTrue).
  { intros pk es0 Nk. destruct (post_keeps mexp pk) as [_ [_ [_ [_ [_ NX]]]]].
    destruct (p_iscmd (post mexp pk)).
    - intros H; inversion H; subst; simpl. rewrite post_name. auto.
    - pose proof (handle_writes_name (post mexp pk)) as Nh. pose proof (handle_writes_export (post mexp pk)) as Xh.
      destruct (handle_writes (post mexp pk)) as [[p2 es] w]. simpl in Nh, Xh.
      intros H; inversion H; subst; simpl. rewrite Nh, post_name. split; [exact Nk|]. unfold name_of. rewrite Xh, Nh.
      split; [reflexivity|exact NX]. }
  destruct e as [[v|en]|]; [discriminate| |].
  - destruct (apply_entry_keep p en) as [pk r] eqn:E.
    pose proof (apply_entry_keep_name _ _ _ _ E) as Nk.
    destruct r as [|er|p1]; [discriminate| |].
    + cbv zeta. intros H. apply (S1 pk [er] Nk). destruct (p_iscmd (post mexp pk)); [exact H|].
      destruct (handle_writes (post mexp pk)) as [[p2 es] w]. exact H.
    + pose proof (apply_entry_keep_go _ _ _ _ E). subst pk.
      cbv zeta. intros H. apply (S1 p1 [] Nk). destruct (p_iscmd (post mexp p1)); [exact H|].
      destruct (handle_writes (post mexp p1)) as [[p2 es] w]. exact H.
  - cbv beta iota zeta. intros H. apply (S1 p [] eq_refl). destruct (p_iscmd (post mexp p)); [exact H|].
    destruct (handle_writes (post mexp p)) as [[p2 es] w]. exact H.
Qed.

Lemma acc_step_name mexp p e a : acc_step mexp p e = Some a -> p_name (a_param a) = p_name p.
Proof. intros H. apply (acc_step_shape _ _ _ _ H). Qed.

Definition active (ps : list param) : list param := filter (fun p => negb (p_optional p)) ps.

Lemma phaseB_names mexp c : forall ps accs, phaseB mexp ps c = Some accs ->
  map (fun a => p_name (a_param a)) accs = map p_name (active ps).
Proof.
  induction ps as [|p ps IH]; intros accs H; simpl in H; [inversion H; reflexivity|].
  unfold active. simpl. destruct (p_optional p); simpl; [apply IH; exact H|].
  destruct (acc_step mexp p (assoc_str (p_name p) c)) as [a|] eqn:E; [|discriminate].
  destruct (phaseB mexp ps c) as [l|]; [|discriminate]. inversion H; subst. simpl.
  rewrite (acc_step_name _ _ _ _ E). f_equal. apply IH. reflexivity.
Qed.

Lemma phaseB_shape mexp c : forall ps accs, phaseB mexp ps c = Some accs ->
  Forall (fun a => a_name a = name_of (a_param a) /\ p_export (a_param a) <> XTrue) accs.
Proof.
  induction ps as [|p ps IH]; intros accs H; simpl in H; [inversion H; constructor|].
  destruct (p_optional p); [apply IH; exact H|].
  destruct (acc_step mexp p (assoc_str (p_name p) c)) as [a|] eqn:E; [|discriminate].
  destruct (phaseB mexp ps c) as [l|]; [|discriminate]. inversion H; subst.
  constructor; [apply (acc_step_shape _ _ _ _ E)|apply IH; reflexivity].
Qed.

Lemma writes_of_nodup accs : NoDup (map (fun a => p_name (a_param a)) accs) -> NoDup (map fst (writes_of accs)).
Proof.
  unfold writes_of. induction accs as [|a accs IH]; simpl; intros ND; [constructor|]. inversion ND; subst.
  rewrite map_app. destruct (a_write a); simpl; [|apply IH; exact H2]. constructor; [|apply IH; exact H2].
  intros Hin. apply H1. clear - Hin. induction accs as [|b accs IH]; simpl in *; [exact Hin|].
  rewrite map_app in Hin. apply in_app_or in Hin. destruct Hin as [Hin|Hin].
  - destruct (a_write b); simpl in Hin; [destruct Hin as [Hin|[]]; left; exact Hin|destruct Hin].
  - right. apply IH. exact Hin.
Qed.

Lemma created_write_nodup C c i : mod_init C c = Created i -> NoDup (map p_name (active (c_params C))) ->
  NoDup (map fst (i_write i)).
Proof.
  intros H ND. destruct (created_inv _ _ _ H) as [mv [accs [ps [_ [EB [_ [_ [_ [_ [_ [_ Ei]]]]]]]]]]]. subst i. simpl.
  apply writes_of_nodup. rewrite (phaseB_names _ _ _ _ EB). exact ND.
Qed.

(* ------------------------------------------------------------------ the name map of a created module *)
Lemma dup_errs_nodup : forall l seen, dup_errs seen l = [] ->
  NoDup (map fst (names_of l)) /\ forall x, In x (map fst (names_of l)) -> ~ In x seen.
Proof.
  unfold names_of. induction l as [|a l IH]; intros seen H; simpl in *.
  - split; [constructor|intros x []].
  - destruct (a_name a) as [[x n]|]; simpl.
    + apply app_eq_nil in H. destruct H as [H1 H2]. destruct (IH _ H2) as [ND Hs].
      destruct (mem_str x seen) eqn:E; [discriminate|]. split.
      * constructor; [|exact ND]. intros Hin. apply (Hs x Hin). left. reflexivity.
      * intros y [Hy|Hy]; [subst; intros Hin; apply mem_str_In in Hin; rewrite Hin in E; discriminate|].
        intros Hin. apply (Hs y Hy). right. exact Hin.
    + apply IH. exact H.
Qed.

Lemma map_opt_back {A B} (f : A -> option B) : forall l r y, map_opt f l = Some r -> In y r -> exists x, In x l /\ f x = Some y.
Proof.
  induction l as [|a l IH]; intros r y H Hin; simpl in H; [inversion H; subst; destruct Hin|].
  destruct (f a) as [b|] eqn:E; [|discriminate]. destruct (map_opt f l) as [ys|] eqn:E2; [|discriminate].
  inversion H; subst. destruct Hin as [Hy|Hin].
  - subst. exists a. split; [left; reflexivity|exact E].
  - destruct (IH ys y eq_refl Hin) as [x [Hx Hf]]. exists x. split; [right; exact Hx|exact Hf].
Qed.

Lemma finish_param_export p y : p_export p <> XTrue -> finish_param p = Some y -> p_export y = p_export p /\ p_name y = p_name p.
Proof.
  intros NX. unfold finish_param. destruct (p_iscmd p); [intros H; inversion H; auto|].
  destruct (refit (p_dt p) (p_default p)); [|discriminate]. destruct (refit (p_dt p) (p_value p)); [|discriminate].
  intros H; inversion H; subst; simpl. destruct (p_export p); try contradiction; auto.
Qed.

(* requests are resolved under exactly the export names of the final accessibles, each name at most once *)
Lemma created_names C c i : mod_init C c = Created i ->
  NoDup (map fst (i_names i)) /\
  forall s n, In (s, n) (i_names i) <-> exists p', In p' (i_params i) /\ p_name p' = n /\ p_export p' = XName s.
Proof.
  intros H. destruct (created_inv _ _ _ H) as [mv [accs [ps [_ [EB [_ [Edup [_ [EF [_ [_ Ei]]]]]]]]]]]. subst i. simpl.
  split; [apply (dup_errs_nodup _ _ Edup)|].
  pose proof (phaseB_shape _ _ _ _ EB) as Sh. rewrite Forall_forall in Sh.
  intros s n. unfold names_of. rewrite in_flat_map. split.
  - intros [a [Ha Hn]]. destruct (Sh a Ha) as [Hna NX]. rewrite Hna in Hn. unfold name_of in Hn.
    destruct (p_export (a_param a)) as [| |s'] eqn:Ex; [destruct Hn|destruct Hn|]. destruct Hn as [Hn|[]]. inversion Hn; subst.
    destruct (map_opt_in finish_param _ _ (a_param a) EF) as [y [Hy Hyin]]; [apply in_map; exact Ha|].
    assert (NX' : p_export (a_param a) <> XTrue) by (rewrite Ex; discriminate).
    destruct (finish_param_export _ _ NX' Hy) as [Fx Fn].
    destruct (apply_main_keeps (main_unit ps) y) as [M1 [_ [_ [_ [_ [_ M7]]]]]].
    exists (apply_main (main_unit ps) y). split; [apply in_map; exact Hyin|]. split; [congruence|congruence].
  - intros [p' [Hin [Hn Hx]]]. apply in_map_iff in Hin. destruct Hin as [y [Hy Hyin]]. subst p'.
    destruct (map_opt_back finish_param _ _ y EF Hyin) as [q [Hq Hf]]. apply in_map_iff in Hq. destruct Hq as [a [Haq Ha]]. subst q.
    destruct (Sh a Ha) as [Hna NX]. destruct (finish_param_export _ _ NX Hf) as [Fx Fn].
    destruct (apply_main_keeps (main_unit ps) y) as [M1 [_ [_ [_ [_ [_ M7]]]]]].
    exists a. split; [exact Ha|]. rewrite Hna. unfold name_of. rewrite <- Fx, <- M7, Hx. left. congruence.
Qed.
