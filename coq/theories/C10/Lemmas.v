(* C10 - lemmas: node-level aggregation, merging, start-up trace, structure of a successful Module.__init__ *)
From Coq Require Import ZArith NArith Bool List Lia Permutation.
Import ListNotations.
Local Open Scope list_scope.
Require Import FV.Base.Util FV.Base.F64 FV.Base.PyVal FV.C01.Model FV.Gen.C10 FV.C10.Model.

(* ------------------------------------------------------------------ strings *)
Lemma N_eqb_list_refl (s : str) : list_eqb N.eqb s s = true.
Proof. induction s; simpl; [reflexivity|]. rewrite N.eqb_refl. exact IHs. Qed.
Lemma str_eqb_refl' s : str_eqb s s = true.
Proof. apply N_eqb_list_refl. Qed.
Lemma str_eqb_true a b : str_eqb a b = true -> a = b.
Proof.
  unfold str_eqb. revert b. induction a; destruct b; simpl; intros H; try discriminate; [reflexivity|].
  apply andb_true_iff in H. destruct H as [H1 H2]. apply N.eqb_eq in H1. subst. f_equal. apply IHa. exact H2.
Qed.
Lemma mem_str_In k l : mem_str k l = true <-> In k l.
Proof.
  induction l; simpl; [split; [discriminate|tauto]|]. rewrite orb_true_iff, IHl. split.
  - intros [H|H]; [left; symmetry; apply str_eqb_true; exact H|right; exact H].
  - intros [H|H]; [left; subst; apply str_eqb_refl'|right; exact H].
Qed.

Lemma assoc_str_nodup {A} n (v : A) : forall w, NoDup (map fst w) -> In (n, v) w -> assoc_str n w = Some v.
Proof.
  induction w as [|[k x] w IH]; intros ND Hin; [destruct Hin|]. simpl. simpl in ND. inversion ND; subst.
  destruct Hin as [Hq|Hin].
  - inversion Hq; subst. rewrite str_eqb_refl'. reflexivity.
  - destruct (str_eqb n k) eqn:E; [|apply IH; auto].
    apply str_eqb_true in E. subst k. exfalso. apply H1. change n with (fst (n, v)). apply in_map. exact Hin.
Qed.

(* ------------------------------------------------------------------ node level *)
Definition is_created (o : outcome) : bool := match o with Created _ => true | _ => false end.
Definition nerr_name (e : nerr) : str := match e with NRejected m _ => m | NCrashed m => m end.

Lemma registered_iff rs n :
  In n (registered rs) <-> exists o, In (n, o) rs /\ is_created o = true.
Proof.
  unfold registered. rewrite in_flat_map. split.
  - intros [[m o] [Hin H]]. simpl in H. destruct o; simpl in H; try contradiction.
    destruct H as [H|[]]. subst. exists (Created i). split; [exact Hin|reflexivity].
  - intros [o [Hin Hc]]. exists (n, o). split; [exact Hin|]. destruct o; try discriminate. simpl. left. reflexivity.
Qed.

Lemma node_errors_iff rs n :
  (exists e, In e (node_errors rs) /\ nerr_name e = n) <-> exists o, In (n, o) rs /\ is_created o = false.
Proof.
  unfold node_errors. split.
  - intros [e [Hin Hn]]. apply in_flat_map in Hin. destruct Hin as [[m o] [Hin H]]. simpl in H.
    destruct o; simpl in H; try contradiction; destruct H as [H|[]]; subst; simpl;
      eexists; (split; [exact Hin|reflexivity]).
  - intros [o [Hin Hc]]. destruct o; try discriminate.
    + exists (NRejected n es). split; [|reflexivity]. apply in_flat_map. exists (n, Rejected es). split; [exact Hin|left; reflexivity].
    + exists (NCrashed n). split; [|reflexivity]. apply in_flat_map. exists (n, Crashed). split; [exact Hin|left; reflexivity].
Qed.

Lemma node_starts_iff rs : node_starts rs = true <-> forall r, In r rs -> is_created (snd r) = true.
Proof.
  unfold node_starts, node_errors. induction rs as [|[n o] rs IH]; simpl.
  - split; [intros _ r []|reflexivity].
  - destruct o; simpl.
    + rewrite IH. split.
      * intros H r [Hr|Hr]; [subst; reflexivity|apply H; exact Hr].
      * intros H r Hr. apply H. right. exact Hr.
    + split; [discriminate|]. intros H. specialize (H (n, Rejected es) (or_introl eq_refl)). discriminate.
    + split; [discriminate|]. intros H. specialize (H (n, Crashed) (or_introl eq_refl)). discriminate.
Qed.

Lemma create_all_in classes secs n o :
  In (n, o) (create_all classes secs) ->
  exists s, In (n, s) secs /\ o = mod_init (nth (fst s) classes dummy_cls) (snd s).
Proof.
  unfold create_all. intros H. apply in_map_iff in H. destruct H as [[m s] [Heq Hin]]. simpl in Heq.
  inversion Heq; subst. exists s. split; [exact Hin|reflexivity].
Qed.

(* ------------------------------------------------------------------ merging *)
Lemma merge_step_prefix eid acc ns : exists extra, merge_step eid acc ns = acc ++ extra /\
  (extra = [] \/ (extra = [(fst ns, tag_origin eid (snd ns))] /\ mem_str (fst ns) (map fst acc) = false)).
Proof.
  unfold merge_step. destruct (mem_str (fst ns) (map fst acc)) eqn:E.
  - exists []. rewrite app_nil_r. split; [reflexivity|left; reflexivity].
  - eexists. split; [reflexivity|right; split; reflexivity].
Qed.

Lemma merge_modules_prefix eid other : forall acc, exists extra,
  merge_modules acc eid other = acc ++ extra /\
  Forall (fun e => exists s, In (fst e, s) other /\ snd e = tag_origin eid s /\ mem_str (fst e) (map fst acc) = false) extra.
Proof.
  unfold merge_modules. induction other as [|ns other IH]; intros acc; simpl.
  - exists []. rewrite app_nil_r. split; [reflexivity|constructor].
  - destruct (merge_step_prefix eid acc ns) as [ex [He Hc]]. rewrite He.
    destruct (IH (acc ++ ex)) as [ex2 [He2 Hf]]. exists (ex ++ ex2). rewrite He2, app_assoc. split; [reflexivity|].
    apply Forall_app. split.
    + destruct Hc as [Hc|[Hc Hm]]; subst ex; [constructor|]. constructor; [|constructor].
      exists (snd ns). simpl. split; [left; destruct ns; reflexivity|split; [reflexivity|exact Hm]].
    + eapply Forall_impl; [|exact Hf]. intros e [s [Hin [Ht Hm]]]. exists s. split; [right; exact Hin|split; [exact Ht|]].
      rewrite map_app in Hm. destruct (mem_str (fst e) (map fst acc)) eqn:E; [|reflexivity].
      apply mem_str_In in E. assert (In (fst e) (map fst acc ++ map fst ex)) by (apply in_or_app; left; exact E).
      apply mem_str_In in H. rewrite H in Hm. discriminate.
Qed.

(* the sections of the first file are never changed by later files *)
Lemma load_rest_prefix : forall fs acc res, load_rest acc fs = Some res -> exists extra, res = acc ++ extra /\
  Forall (fun e => mem_str (fst e) (map fst acc) = false /\
                   exists f s, In f fs /\ snd e = tag_origin (f_eid f) s) extra.
Proof.
  induction fs as [|f fs IH]; intros acc res H; simpl in H.
  - inversion H; subst. exists []. rewrite app_nil_r. split; [reflexivity|constructor].
  - destruct (file_sections (f_mods f) []) as [o|] eqn:E; [|discriminate].
    destruct (merge_modules_prefix (f_eid f) o acc) as [ex [He Hf]]. rewrite He in H.
    apply IH in H. destruct H as [ex2 [Hr Hf2]]. exists (ex ++ ex2). rewrite Hr, app_assoc. split; [reflexivity|].
    apply Forall_app. split.
    + eapply Forall_impl; [|exact Hf]. intros e [s [_ [Ht Hm]]]. split; [exact Hm|]. exists f, s. split; [left; reflexivity|exact Ht].
    + eapply Forall_impl; [|exact Hf2]. intros e [Hm [f' [s [Hin Ht]]]]. split.
      * rewrite map_app in Hm. destruct (mem_str (fst e) (map fst acc)) eqn:E2; [|reflexivity].
        apply mem_str_In in E2. assert (In (fst e) (map fst acc ++ map fst ex)) by (apply in_or_app; left; exact E2).
        apply mem_str_In in H. rewrite H in Hm. discriminate.
      * exists f', s. split; [right; exact Hin|exact Ht].
Qed.

(* ------------------------------------------------------------------ start-up trace *)
Definition is_write (e : ev) : bool := match e with EvWrite _ _ => true | _ => false end.
Definition is_read (e : ev) : bool := match e with EvRead _ => true | _ => false end.
Definition writes_for (n : str) (l : list ev) : list pyval :=
  flat_map (fun e => match e with EvWrite m v => if str_eqb n m then [v] else [] | _ => [] end) l.

(* what the write method of n receives when its wrapper is called with v: the validated value, once - or nothing *)
Definition handed (ps : list param) (n : str) (v : pyval) : list pyval :=
  match find_param n ps with
  | Some p => match p_dt p with
              | Some d => match valid d v with Ok x => if p_wfunc p then [x] else [] | Err _ => [] end
              | None => []
              end
  | None => []
  end.
(* the hardware write calls that belong to the pending entries w: one call per entry (none where the value does not
   validate or there is no driver method) *)
Definition handed_ev (ps : list param) (nv : str * pyval) : list ev := map (EvWrite (fst nv)) (handed ps (fst nv) (snd nv)).
Definition hw (ps : list param) (w : wdict) : list ev := flat_map (handed_ev ps) w.

Lemma hw_app ps a b : hw ps (a ++ b) = hw ps a ++ hw ps b.
Proof. apply flat_map_app. Qed.
Lemma hw_perm ps a b : Permutation a b -> Permutation (hw ps a) (hw ps b).
Proof. apply Permutation_flat_map. Qed.
Lemma hw_writes ps w : forallb is_write (hw ps w) = true.
Proof.
  induction w as [|[n v] w IH]; simpl; [reflexivity|]. rewrite forallb_app, IH, andb_true_r.
  unfold handed_ev. simpl. induction (handed ps n v); simpl; [reflexivity|assumption].
Qed.

Lemma wpop_perm n : forall w v w1, wpop n w = Some (v, w1) -> Permutation w ((n, v) :: w1).
Proof.
  induction w as [|[k x] w IH]; intros v w1 H; simpl in H; [discriminate|].
  destruct (str_eqb n k) eqn:E.
  - apply str_eqb_true in E. subst. inversion H; subst. apply Permutation_refl.
  - destruct (wpop n w) as [[y r]|] eqn:E2; [|discriminate]. inversion H; subst.
    eapply perm_trans; [apply perm_skip; apply IH; reflexivity|apply perm_swap].
Qed.
Lemma wpop_none n : forall w, wpop n w = None -> ~ In n (map fst w).
Proof.
  induction w as [|[k x] w IH]; simpl; intros H; [tauto|].
  destruct (str_eqb n k) eqn:E; [discriminate|]. destruct (wpop n w) as [[y r]|]; [discriminate|].
  intros [Hk|Hk]; [subst; rewrite str_eqb_refl' in E; discriminate|exact (IH eq_refl Hk)].
Qed.

Lemma nodup_app_r {A} (a b : list A) : NoDup (a ++ b) -> NoDup b.
Proof. induction a; simpl; intros H; [exact H|]. inversion H; subst. apply IHa. assumption. Qed.

(* what remains pending is part of what was pending *)
Lemma part_keys (w c w' : wdict) : Permutation w (c ++ w') ->
  (forall k, In k (map fst w') -> In k (map fst w)) /\ (NoDup (map fst w) -> NoDup (map fst w')) /\ List.length w' <= List.length w.
Proof.
  intros P. pose proof (Permutation_map fst P) as Pk. rewrite map_app in Pk. split; [|split].
  - intros k Hk. eapply Permutation_in; [apply Permutation_sym; exact Pk|]. apply in_or_app. right. exact Hk.
  - intros ND. pose proof (Permutation_NoDup Pk ND) as ND2. apply nodup_app_r in ND2. exact ND2.
  - rewrite (Permutation_length P), app_length. lia.
Qed.

(* specification of a wrapper call: the entries c were consumed, and the hardware writes are exactly the ones that
   belong to the written entry and the consumed ones *)
Definition call_ok (ps : list param) (call : str -> pyval -> wdict -> wres) (bound : nat) : Prop :=
  forall n v w es w' ok, List.length w < bound -> call n v w = (es, w', ok) ->
    exists c, Permutation w (c ++ w') /\ Permutation es (hw ps ((n, v) :: c)).

Lemma takes_ok ps call b : call_ok ps call b -> forall qs w es w' ok,
  List.length w <= b -> takes_loop call qs w = (es, w', ok) ->
  exists c, Permutation w (c ++ w') /\ Permutation es (hw ps c).
Proof.
  intros Hc. induction qs as [|q qs IH]; intros w es w' ok Hl H; simpl in H.
  - inversion H; subst. exists []. split; apply Permutation_refl.
  - destruct (wpop q w) as [[vq w1]|] eqn:Ep; [|apply (IH _ _ _ _ Hl H)].
    pose proof (wpop_perm _ _ _ _ Ep) as P0. pose proof (Permutation_length P0) as L0. simpl in L0.
    destruct (call q vq w1) as [[e1 w2] ok1] eqn:Ec.
    destruct (Hc q vq w1 e1 w2 ok1) as [c1 [P1 Q1]]; [lia|exact Ec|].
    destruct ok1.
    + destruct (takes_loop call qs w2) as [[e2 w3] ok2] eqn:Et. inversion H; subst.
      destruct (part_keys _ _ _ P1) as [_ [_ L1]].
      destruct (IH w2 e2 w' ok) as [c2 [P2 Q2]]; [lia|exact Et|].
      exists (((q, vq) :: c1) ++ c2). split.
      * eapply perm_trans; [exact P0|]. simpl. apply perm_skip. rewrite <- app_assoc.
        eapply perm_trans; [exact P1|]. apply Permutation_app_head. exact P2.
      * rewrite hw_app. apply Permutation_app; assumption.
    + inversion H; subst. exists ((q, vq) :: c1). split; [|exact Q1].
      eapply perm_trans; [exact P0|]. simpl. apply perm_skip. exact P1.
Qed.

Lemma wrapper_ok ps call b : call_ok ps call b -> forall n v w es w' ok,
  List.length w <= b -> wrapper call ps n v w = (es, w', ok) ->
  exists c, Permutation w (c ++ w') /\ Permutation es (hw ps ((n, v) :: c)).
Proof.
  intros Hc n v w es w' ok Hl. unfold wrapper.
  assert (Z : handed ps n v = [] -> ([], w, ok) = (es, w', ok) ->
              exists c, Permutation w (c ++ w') /\ Permutation es (hw ps ((n, v) :: c))).
  { intros Hh H. inversion H; subst. exists []. split; [apply Permutation_refl|]. simpl. unfold handed_ev. simpl.
    rewrite Hh. apply Permutation_refl. }
  unfold handed in Z.
  destruct (find_param n ps) as [p|] eqn:Ef; [|intros H; inversion H; subst; apply Z; reflexivity].
  destruct (p_dt p) as [d|] eqn:Ed; [|intros H; inversion H; subst; apply Z; reflexivity].
  destruct (valid d v) as [x|e] eqn:Ev; [|intros H; inversion H; subst; apply Z; reflexivity].
  destruct (p_wfunc p) eqn:Ew; [|intros H; inversion H; subst; apply Z; reflexivity].
  clear Z. destruct (takes_loop call (p_takes p) w) as [[es0 w0] ok0] eqn:Et. intros H; inversion H; subst.
  destruct (takes_ok ps call b Hc _ _ _ _ _ Hl Et) as [c [P Q]]. exists c. split; [exact P|].
  assert (Hh : handed ps n v = [x]) by (unfold handed; rewrite Ef, Ed, Ev, Ew; reflexivity).
  simpl. unfold handed_ev. simpl. rewrite Hh. simpl. apply perm_skip. exact Q.
Qed.

Lemma wcall_ok ps : forall f, call_ok ps (wcall f ps) f.
Proof.
  induction f as [|f IH]; intros n v w es w' ok Hl H; [lia|]. simpl in H.
  eapply wrapper_ok; [exact IH| |exact H]. lia.
Qed.

Lemma init_loop_cons ps n r w : init_loop ps (n :: r) w =
  match wpop n w with
  | None => init_loop ps r w
  | Some (v, w1) => let '(e, w2, _) := wcall (S (List.length w1)) ps n v w1 in
                    let '(e', w3) := init_loop ps r w2 in (e ++ e', w3)
  end.
Proof. reflexivity. Qed.

Lemma init_loop_ok ps : forall names w es wf, init_loop ps names w = (es, wf) ->
  exists c, Permutation w (c ++ wf) /\ Permutation es (hw ps c).
Proof.
  induction names as [|n names IH]; intros w es wf H; [simpl in H|rewrite init_loop_cons in H].
  - inversion H; subst. exists []. split; apply Permutation_refl.
  - destruct (wpop n w) as [[v w1]|] eqn:Ep; [|apply (IH _ _ _ H)].
    pose proof (wpop_perm _ _ _ _ Ep) as P0.
    destruct (wcall (S (List.length w1)) ps n v w1) as [[e w2] ok] eqn:Ec.
    destruct (wcall_ok ps _ _ _ _ _ _ _ (Nat.lt_succ_diag_r _) Ec) as [c1 [P1 Q1]].
    destruct (init_loop ps names w2) as [e' w3] eqn:El. inversion H; subst.
    destruct (IH _ _ _ El) as [c2 [P2 Q2]].
    exists (((n, v) :: c1) ++ c2). split.
    + eapply perm_trans; [exact P0|]. simpl. apply perm_skip. rewrite <- app_assoc.
      eapply perm_trans; [exact P1|]. apply Permutation_app_head. exact P2.
    + rewrite hw_app. apply Permutation_app; assumption.
Qed.

(* a name the loop has gone through is not pending any more *)
Lemma init_loop_done ps : forall names w es wf, init_loop ps names w = (es, wf) -> NoDup (map fst w) ->
  forall k, In k names -> ~ In k (map fst wf).
Proof.
  induction names as [|n names IH]; intros w es wf H ND k Hk; [destruct Hk|]. rewrite init_loop_cons in H.
  destruct (wpop n w) as [[v w1]|] eqn:Ep.
  - pose proof (wpop_perm _ _ _ _ Ep) as P0.
    pose proof (Permutation_NoDup (Permutation_map fst P0) ND) as ND1. simpl in ND1. inversion ND1; subst.
    destruct (wcall (S (List.length w1)) ps n v w1) as [[e w2] ok] eqn:Ec.
    destruct (wcall_ok ps _ _ _ _ _ _ _ (Nat.lt_succ_diag_r _) Ec) as [c1 [P1 _]].
    destruct (part_keys _ _ _ P1) as [K1 [N1 _]].
    destruct (init_loop ps names w2) as [e' w3] eqn:El. inversion H; subst.
    destruct Hk as [Hk|Hk]; [|apply (IH _ _ _ El (N1 H3) k Hk)].
    subst k. intros Hin. destruct (init_loop_ok _ _ _ _ _ El) as [c2 [P2 _]].
    destruct (part_keys _ _ _ P2) as [K2 _]. apply H2. apply K1. apply K2. exact Hin.
  - destruct Hk as [Hk|Hk]; [|apply (IH _ _ _ H ND k Hk)].
    subst k. intros Hin. destruct (init_loop_ok _ _ _ _ _ H) as [c2 [P2 _]].
    destruct (part_keys _ _ _ P2) as [K2 _]. apply (wpop_none _ _ Ep). apply K2. exact Hin.
Qed.

(* writeInitParams: nothing stays pending, and the hardware write calls are, up to their order, exactly one call per
   pending entry - whoever (the loop or a write method that took the entry over) made it *)
Lemma write_init_ok ps w es wf : NoDup (map fst w) -> write_init ps w = (es, wf) ->
  wf = [] /\ Permutation es (hw ps w).
Proof.
  intros ND H. unfold write_init in H. destruct (init_loop_ok _ _ _ _ _ H) as [c [P Q]].
  assert (wf = []) as ->.
  { destruct wf as [|[k x] wf]; [reflexivity|]. exfalso.
    apply (init_loop_done _ _ _ _ _ H ND k); [|left; reflexivity].
    destruct (part_keys _ _ _ P) as [K _]. apply K. left. reflexivity. }
  split; [reflexivity|]. rewrite app_nil_r in P. eapply perm_trans; [exact Q|]. apply hw_perm. apply Permutation_sym. exact P.
Qed.

Lemma forallb_perm {A} (f : A -> bool) l l' : Permutation l l' -> forallb f l = true -> forallb f l' = true.
Proof.
  intros P H. apply forallb_forall. intros x Hx. rewrite forallb_forall in H. apply H.
  eapply Permutation_in; [apply Permutation_sym; exact P|exact Hx].
Qed.

Lemma startup_shape i : NoDup (map fst (i_write i)) -> has_thread i = true ->
  exists ws rs, startup i = ws ++ EvInit :: rs /\ forallb is_write ws = true /\ forallb is_read rs = true /\
                Permutation ws (hw (i_params i) (i_write i)) /\ rs = map EvRead (polled_names i).
Proof.
  intros ND H. unfold startup. rewrite H. destruct (write_init (i_params i) (i_write i)) as [es wf] eqn:E.
  destruct (write_init_ok _ _ _ _ ND E) as [_ P]. simpl.
  exists es, (map EvRead (polled_names i)). split; [reflexivity|]. split; [|split; [|split; [exact P|reflexivity]]].
  - eapply forallb_perm; [apply Permutation_sym; exact P|apply hw_writes].
  - induction (polled_names i); simpl; [reflexivity|assumption].
Qed.

Lemma startup_none i : has_thread i = false -> startup i = [].
Proof. intros H. unfold startup. rewrite H. reflexivity. Qed.

Lemma writes_for_app n a b : writes_for n (a ++ b) = writes_for n a ++ writes_for n b.
Proof. unfold writes_for. apply flat_map_app. Qed.

Lemma writes_for_reads n l : writes_for n (EvInit :: map EvRead l) = [].
Proof. unfold writes_for. simpl. induction l; simpl; [reflexivity|exact IHl]. Qed.

Lemma writes_for_perm n a b : Permutation a b -> Permutation (writes_for n a) (writes_for n b).
Proof. apply Permutation_flat_map. Qed.

Lemma handed_ev_other ps n nv : str_eqb n (fst nv) = false -> writes_for n (handed_ev ps nv) = [].
Proof.
  intros H. unfold handed_ev. induction (handed ps (fst nv) (snd nv)); simpl; [reflexivity|]. rewrite H. exact IHl.
Qed.
Lemma handed_ev_self ps n v : writes_for n (handed_ev ps (n, v)) = handed ps n v.
Proof.
  unfold handed_ev. simpl. induction (handed ps n v); simpl; [reflexivity|]. rewrite str_eqb_refl'. simpl. f_equal. exact IHl.
Qed.
Lemma handed_le1 ps n v : List.length (handed ps n v) <= 1.
Proof.
  unfold handed. destruct (find_param n ps); [|simpl; lia]. destruct (p_dt p); [|simpl; lia].
  destruct (valid d v); [|simpl; lia]. destruct (p_wfunc p); simpl; lia.
Qed.

Lemma writes_for_dict ps n : forall w, NoDup (map fst w) ->
  writes_for n (hw ps w) = match assoc_str n w with Some v => handed ps n v | None => [] end.
Proof.
  induction w as [|[m v] w IH]; intros ND; simpl; [reflexivity|]. inversion ND; subst.
  rewrite writes_for_app, (IH H2). destruct (str_eqb n m) eqn:E.
  - apply str_eqb_true in E. subst m. rewrite handed_ev_self.
    assert (assoc_str n w = None) as ->; [|apply app_nil_r].
    clear - H1. induction w as [|[k x] w IH]; simpl; [reflexivity|]. simpl in H1.
    destruct (str_eqb n k) eqn:E; [apply str_eqb_true in E; subst; exfalso; apply H1; left; reflexivity|].
    apply IH. intros H. apply H1. right. exact H.
  - rewrite handed_ev_other; [reflexivity|exact E].
Qed.

Lemma perm_short {A} (l s : list A) : Permutation l s -> List.length s <= 1 -> l = s.
Proof.
  intros P L. destruct s as [|x [|y s]]; simpl in L; [| |lia].
  - apply Permutation_nil. apply Permutation_sym. exact P.
  - apply Permutation_length_1_inv. apply Permutation_sym. exact P.
Qed.

Lemma startup_writes i n : NoDup (map fst (i_write i)) ->
  writes_for n (startup i) =
  if has_thread i
  then match assoc_str n (i_write i) with Some v => handed (i_params i) n v | None => [] end
  else [].
Proof.
  intros ND. destruct (has_thread i) eqn:E.
  - destruct (startup_shape i ND E) as [ws [rs [S [_ [_ [P R]]]]]]. rewrite S, R, writes_for_app, writes_for_reads, app_nil_r.
    rewrite <- (writes_for_dict _ _ _ ND). apply perm_short; [apply writes_for_perm; exact P|].
    rewrite (writes_for_dict _ _ _ ND). destruct (assoc_str n (i_write i)); [apply handed_le1|simpl; lia].
  - rewrite startup_none; [reflexivity|exact E].
Qed.

(* ------------------------------------------------------------------ structure of a successful Module.__init__ *)
Lemma app_nil3 {A} (a b c : list A) : a ++ b ++ c = [] -> a = [] /\ b = [] /\ c = [].
Proof. intros H. apply app_eq_nil in H. destruct H as [H1 H2]. apply app_eq_nil in H2. tauto. Qed.

Lemma created_inv C c i : mod_init C c = Created i ->
  exists mv accs ps,
    phaseA C c = Some (mv, []) /\ phaseB (mexport mv) (c_params C) c = Some accs /\
    flat_map a_errs accs = [] /\ dup_errs [] accs = [] /\ unknown_names C c = [] /\
    map_opt finish_param (map a_param accs) = Some ps /\
    check_module C mv = [] /\ flat_map check_param (map (apply_main (main_unit ps)) ps) = [] /\
    i = {| i_mvals := mv; i_params := map (apply_main (main_unit ps)) ps; i_write := writes_of accs;
           i_names := names_of accs; i_enablepoll := c_enablepoll C |}.
Proof.
  unfold mod_init. destruct (phaseA C c) as [[mv esA]|] eqn:EA; [|discriminate].
  destruct (phaseB (mexport mv) (c_params C) c) as [accs|] eqn:EB; [|discriminate].
  destruct (map_opt finish_param (map a_param accs)) as [ps|] eqn:EF; [|discriminate].
  destruct (unknown_names C c) eqn:EU.
  2:{ destruct esA; simpl; try discriminate. destruct (flat_map a_errs accs); simpl; try discriminate.
      destruct (dup_errs [] accs); discriminate. }
  match goal with |- context [match (esA ++ ?X) with _ => _ end] => destruct (esA ++ X) eqn:E end.
  - apply app_nil3 in E. destruct E as [E1 [E2 E3]]. apply app_eq_nil in E2. destruct E2 as [E2 E2'].
    destruct (check_module C mv ++ flat_map check_param (map (apply_main (main_unit ps)) ps)) eqn:E4; [|discriminate].
    apply app_eq_nil in E4. destruct E4 as [E4 E5]. intros H. inversion H. subst esA.
    exists mv, accs, ps. repeat split; try assumption; try reflexivity.
  - discriminate.
Qed.

Lemma flat_map_nil {A B} (f : A -> list B) l x : flat_map f l = [] -> In x l -> f x = [].
Proof.
  induction l; simpl; intros H []; apply app_eq_nil in H; destruct H as [H1 H2]; [subst; exact H1|apply IHl; assumption].
Qed.

Lemma phaseB_in mexp c : forall ps accs p, phaseB mexp ps c = Some accs -> In p ps -> p_optional p = false ->
  exists a, In a accs /\ acc_step mexp p (assoc_str (p_name p) c) = Some a.
Proof.
  induction ps as [|q ps IH]; intros accs p H Hin Ho; [destruct Hin|]. simpl in H.
  destruct Hin as [Hq|Hin].
  - subst q. rewrite Ho in H. destruct (acc_step mexp p (assoc_str (p_name p) c)) as [a|] eqn:E; [|discriminate].
    destruct (phaseB mexp ps c); [|discriminate]. inversion H; subst. exists a. split; [left; reflexivity|reflexivity].
  - destruct (p_optional q).
    + apply (IH accs p H Hin Ho).
    + destruct (acc_step mexp q (assoc_str (p_name q) c)); [|discriminate].
      destruct (phaseB mexp ps c) as [l|] eqn:E; [|discriminate]. inversion H; subst.
      destruct (IH l p eq_refl Hin Ho) as [a' [Ha Hs]]. exists a'. split; [right; exact Ha|exact Hs].
Qed.

Lemma map_opt_in {A B} (f : A -> option B) : forall l r x, map_opt f l = Some r -> In x l -> exists y, f x = Some y /\ In y r.
Proof.
  induction l as [|a l IH]; intros r x H Hin; [destruct Hin|]. simpl in H.
  destruct (f a) as [y|] eqn:E; [|discriminate]. destruct (map_opt f l) as [ys|] eqn:E2; [|discriminate].
  inversion H; subst. destruct Hin as [Hx|Hin].
  - subst. exists y. split; [exact E|left; reflexivity].
  - destruct (IH ys x eq_refl Hin) as [y' [Hy Hi]]. exists y'. split; [exact Hy|right; exact Hi].
Qed.

(* ------------------------------------------------------------------ the datatype a Param entry configures *)
(* one item of a Param dict acting on (datatype, unit): a key that is no Parameter property goes to
   datatype.setProperty (a refused override leaves the constructor: no created module, the state is kept here) *)
Definition dtu (p : param) : option dtype * str := (p_dt p, p_unit p).
Definition over_step (s : option dtype * str) (kv : str * pyval) : option dtype * str :=
  match pprop_type param_props (fst kv), fst s with
  | None, Some d => match dt_setprop d (snd s) (fst kv) (snd kv) with Some (d', u') => (Some d', u') | None => s end
  | _, _ => s
  end.
Definition configured (s : option dtype * str) (en : entry) : option dtype * str := fold_left over_step en s.
(* the CONFIGURED datatype: the class-level datatype d (unit u) with the datatype overrides of the items en of a
   Param(...) applied in the order of the dict *)
Definition configured_dt (d : dtype) (u : str) (en : entry) : option dtype := fst (configured (Some d, u) en).

Lemma over_step_some s kv d : fst s = Some d -> exists d', fst (over_step s kv) = Some d'.
Proof.
  intros H. unfold over_step. destruct (pprop_type param_props (fst kv)); [exists d; exact H|]. rewrite H.
  destruct (dt_setprop d (snd s) (fst kv) (snd kv)) as [[d' u']|]; [exists d'; reflexivity|exists d; exact H].
Qed.
Lemma configured_some : forall en s d, fst s = Some d -> exists d', fst (configured s en) = Some d'.
Proof.
  induction en as [|kv en IH]; intros s d H; simpl; [exists d; exact H|].
  destruct (over_step_some s kv d H) as [d1 H1]. apply (IH _ _ H1).
Qed.
Lemma configured_app s a b : configured s (a ++ b) = configured (configured s a) b.
Proof. unfold configured. apply fold_left_app. Qed.

(* min / max / unit never influence the conversion datatype(value); the length and character-set properties do *)
Definition limit_key (k : str) : bool := str_eqb k k_min || str_eqb k k_max || str_eqb k k_unit.

Ltac kill_key Hl :=
  match goal with
  | E : str_eqb ?k ?c = true |- _ => apply str_eqb_true in E; subst k; vm_compute in Hl; discriminate
  end.

Lemma leaf_setprop_conv d u k v d' u' : limit_key k = true -> leaf_setprop d u k v = Some (d', u') ->
  forall x, dt_call d' x = dt_call d x.
Proof.
  unfold leaf_setprop. intros Hl H x. destruct d; try discriminate.
  - repeat match type of H with
           | context[if ?b then _ else _] => destruct b
           | context[match ?r with _ => _ end] => destruct r; try discriminate
           end; inversion H; subst; reflexivity.
  - repeat match type of H with
           | context[if ?b then _ else _] => destruct b
           | context[match ?r with _ => _ end] => destruct r; try discriminate
           end; inversion H; subst; reflexivity.
  - repeat match type of H with
           | context[if ?b then _ else _] => destruct b
           | context[match ?r with _ => _ end] => destruct r; try discriminate
           end; inversion H; subst; reflexivity.
  - destruct (str_eqb k k_minchars) eqn:E1; [kill_key Hl|]. destruct (str_eqb k k_maxchars) eqn:E2; [kill_key Hl|].
    destruct (str_eqb k k_isutf8) eqn:E3; [kill_key Hl|]. discriminate.
  - destruct (str_eqb k k_minbytes) eqn:E1; [kill_key Hl|]. destruct (str_eqb k k_maxbytes) eqn:E2; [kill_key Hl|].
    discriminate.
Qed.

Lemma dt_setprop_conv : forall d u k v d' u', limit_key k = true -> dt_setprop d u k v = Some (d', u') ->
  forall x, conv d' x = conv d x.
Proof.
  unfold conv. induction d; intros u k v d' u' Hl H x; try (apply (leaf_setprop_conv _ u k v d' u' Hl H)).
  simpl in H. destruct (str_eqb k k_minlen) eqn:E1; [kill_key Hl|]. destruct (str_eqb k k_maxlen) eqn:E2; [kill_key Hl|].
  destruct (dt_setprop d u k v) as [[e' u2]|] eqn:E; [|discriminate]. inversion H; subst.
  pose proof (IHd _ _ _ _ _ Hl E) as Hc. simpl.
  destruct (array_check minlen maxlen x); [|reflexivity]. simpl. destruct (py_iter x); [|reflexivity].
  assert (forall l, map_res (dt_call e') l = map_res (dt_call d) l) as ->; [|reflexivity].
  intros l0. induction l0; simpl; [reflexivity|]. rewrite Hc, IHl0. reflexivity.
Qed.

(* an entry that overrides only limits and unit (besides Parameter properties) leaves the conversion as it is *)
Definition limits_only (en : entry) : bool :=
  forallb (fun kv => match pprop_type param_props (fst kv) with Some _ => true | None => limit_key (fst kv) end) en.
Lemma limits_only_conv : forall en d u d', limits_only en = true -> configured_dt d u en = Some d' ->
  forall x, conv d' x = conv d x.
Proof.
  unfold configured_dt. induction en as [|[k v] en IH]; intros d u d' Hl H x; simpl in *.
  - inversion H; subst. reflexivity.
  - apply andb_true_iff in Hl. destruct Hl as [Hk Hl]. unfold over_step in H. simpl in H.
    destruct (pprop_type param_props k); [apply (IH _ _ _ Hl H)|].
    destruct (dt_setprop d u k v) as [[d1 u1]|] eqn:E; [|apply (IH _ _ _ Hl H)].
    rewrite (IH _ _ _ Hl H). eapply dt_setprop_conv; eassumption.
Qed.

(* ------------------------------------------------------------------ what one cfg property can change *)
Record keeps (p p' : param) : Prop := {
  k_name : p_name p' = p_name p;
  k_cmd : p_iscmd p' = p_iscmd p;
  k_hw : p_has_write p' = p_has_write p;
  k_wf : p_wfunc p' = p_wfunc p;
}.
Lemma keeps_refl p : keeps p p.
Proof. split; reflexivity. Qed.
Lemma keeps_trans a b c : keeps a b -> keeps b c -> keeps a c.
Proof. intros [] []. split; congruence. Qed.

Lemma value_is_param_prop : pprop_type param_props k_value <> None.
Proof. vm_compute. discriminate. Qed.

Ltac fin Ep := repeat split; simpl; intros; try reflexivity; try congruence; try discriminate;
  try (unfold over_step, dtu; simpl; rewrite Ep; reflexivity).

Lemma param_setprop_inv p k v p' : param_setprop p k v = PGo p' ->
  keeps p p' /\ dtu p' = over_step (dtu p) (k, v) /\
  (str_eqb k k_value = false -> p_value p' = p_value p) /\ (str_eqb k k_value = true -> p_value p' = nn v).
Proof.
  unfold param_setprop. destruct (pprop_type param_props k) as [t|] eqn:Ep.
  - destruct (str_eqb k k_value) eqn:Ev. { intros H; inversion H; subst; fin Ep. }
    destruct (str_eqb k k_default). { intros H; inversion H; subst; fin Ep. }
    destruct (str_eqb k k_constant). { intros H; inversion H; subst; fin Ep. }
    destruct (mp_validate t v) as [x|]; [|discriminate].
    destruct (str_eqb k k_readonly). { destruct x; try discriminate; intros H; inversion H; subst; fin Ep. }
    destruct (str_eqb k k_needscfg). { destruct x; try discriminate; intros H; inversion H; subst; fin Ep. }
    destruct (str_eqb k k_visibility). { destruct x; try discriminate; intros H; inversion H; subst; fin Ep. }
    destruct (str_eqb k k_group). { destruct x; try discriminate; intros H; inversion H; subst; fin Ep. }
    destruct (str_eqb k k_description). { destruct x; try discriminate; intros H; inversion H; subst; fin Ep. }
    destruct (str_eqb k k_export). { destruct x; try discriminate; intros H; inversion H; subst; fin Ep. }
    discriminate.
  - destruct (str_eqb k k_value) eqn:Ev.
    { apply str_eqb_true in Ev. subst k. exfalso. apply value_is_param_prop. exact Ep. }
    destruct (p_dt p) as [d|] eqn:Ed.
    + destruct (dt_setprop d (p_unit p) k v) as [[d' u']|] eqn:Es; [|discriminate].
      intros H; inversion H; subst. split; [split; reflexivity|]. split; [|split; [reflexivity|discriminate]].
      unfold over_step, dtu. simpl. rewrite Ep, Ed. simpl. rewrite Es. reflexivity.
    + intros H; inversion H; subst. split; [apply keeps_refl|]. split; [|split; [reflexivity|discriminate]].
      unfold over_step, dtu. simpl. rewrite Ep, Ed. reflexivity.
Qed.

Lemma prop_step_inv p k v p' : p_iscmd p = false -> prop_step (PGo p) (k, v) = PGo p' ->
  keeps p p' /\ dtu p' = over_step (dtu p) (k, v) /\
  (str_eqb k k_value = false -> p_value p' = p_value p) /\ (str_eqb k k_value = true -> p_value p' = nn v).
Proof. intros Hc. unfold prop_step. rewrite Hc. apply param_setprop_inv. Qed.

(* the whole entry *)
Lemma apply_entry_keep_cons p kv r :
  apply_entry_keep p (kv :: r) = match prop_step (PGo p) kv with PGo p' => apply_entry_keep p' r | x => (p, x) end.
Proof. reflexivity. Qed.

(* an entry that goes through as a whole goes through up to every position *)
Lemma apply_entry_keep_split : forall pre p r p1, apply_entry_keep p (pre ++ r) = (p1, PGo p1) ->
  exists pp, apply_entry_keep p pre = (pp, PGo pp) /\ apply_entry_keep pp r = (p1, PGo p1).
Proof.
  induction pre as [|kv pre IH]; intros p r p1 H; [exists p; split; [reflexivity|exact H]|].
  rewrite <- app_comm_cons, apply_entry_keep_cons in H. rewrite apply_entry_keep_cons.
  destruct (prop_step (PGo p) kv) as [| |p'] eqn:E; [inversion H|inversion H|]. apply IH. exact H.
Qed.

Lemma entry_inv : forall en p p1, p_iscmd p = false -> apply_entry_keep p en = (p1, PGo p1) ->
  keeps p p1 /\ dtu p1 = configured (dtu p) en /\
  (~ In k_value (map fst en) -> p_value p1 = p_value p) /\
  (forall v, NoDup (map fst en) -> In (k_value, v) en -> p_value p1 = nn v).
Proof.
  induction en as [|[k v] en IH]; intros p p1 Hc H; [simpl in H|rewrite apply_entry_keep_cons in H].
  - inversion H; subst. split; [apply keeps_refl|]. split; [reflexivity|]. split; [reflexivity|intros ? ? []].
  - destruct (prop_step (PGo p) (k, v)) as [| |p'] eqn:Es; [inversion H|inversion H|].
    + destruct (prop_step_inv _ _ _ _ Hc Es) as [K [DU [V0 V1]]].
      assert (Hc' : p_iscmd p' = false) by (rewrite (k_cmd _ _ K); exact Hc).
      destruct (IH p' p1 Hc' H) as [K2 [D2 [N2 V2]]].
      split; [eapply keeps_trans; eassumption|]. split; [|split].
      * simpl. rewrite <- DU. exact D2.
      * simpl. intros Hn. rewrite N2; [|intros Hi; apply Hn; right; exact Hi]. apply V0.
        destruct (str_eqb k k_value) eqn:E; [|reflexivity]. apply str_eqb_true in E. subst. exfalso. apply Hn. left. reflexivity.
      * intros v0 ND [Heq|Hin].
        -- inversion Heq; subst. simpl in ND. inversion ND; subst. rewrite N2; [|assumption]. apply V1. apply str_eqb_refl'.
        -- simpl in ND. inversion ND; subst. apply V2; assumption.
Qed.

(* the second loop of the try block: when it goes through, every value / default / constant of the entry is a value of the
   datatype the parameter has THEN (all properties applied) *)
Lemma check_loop_go p en : forall ks p', check_loop p en ks = PGo p' -> p' = p.
Proof.
  induction ks as [|k ks IH]; intros p' H; simpl in H; [inversion H; reflexivity|].
  destruct (assoc_str k en); [|apply IH; exact H]. destruct (p_iscmd p); [discriminate|].
  destruct (p_dt p); [|apply IH; exact H]. destruct (conv d p0) as [c|e]; [apply IH; exact H|].
  destruct (is_bad_value e); discriminate.
Qed.
Lemma check_loop_ok p en : forall ks p', check_loop p en ks = PGo p' ->
  forall k v d, In k ks -> assoc_str k en = Some v -> p_dt p = Some d -> exists c, conv d v = Ok c.
Proof.
  induction ks as [|k0 ks IH]; intros p' H k v d Hin Ha Hd; [destruct Hin|]. simpl in H.
  destruct Hin as [Hk|Hin].
  - subst k0. rewrite Ha in H. destruct (p_iscmd p); [discriminate|]. rewrite Hd in H.
    destruct (conv d v) as [c|e]; [exists c; reflexivity|]. destruct (is_bad_value e); discriminate.
  - destruct (assoc_str k0 en); [|eapply IH; eassumption]. destruct (p_iscmd p); [discriminate|].
    destruct (p_dt p); [|eapply IH; eassumption]. destruct (conv d0 p0) as [c|e]; [eapply IH; eassumption|].
    destruct (is_bad_value e); discriminate.
Qed.
Lemma check_loop_err p en : forall ks er, check_loop p en ks = PErr er -> exists k, In k ks /\ er = ErrBadValue (p_name p) k.
Proof.
  induction ks as [|k0 ks IH]; intros er H; simpl in H; [discriminate|].
  assert (R : check_loop p en ks = PErr er -> exists k, In k (k0 :: ks) /\ er = ErrBadValue (p_name p) k).
  { intros H'. destruct (IH _ H') as [k [Hk He]]. exists k. split; [right; exact Hk|exact He]. }
  destruct (assoc_str k0 en); [|apply R; exact H]. destruct (p_iscmd p); [discriminate|].
  destruct (p_dt p); [|apply R; exact H]. destruct (conv d p0) as [c|e]; [apply R; exact H|].
  destruct (is_bad_value e); [|discriminate]. inversion H. exists k0. split; [left; reflexivity|reflexivity].
Qed.
(* ... and when nothing fails it goes through *)
Lemma check_loop_pass p en d : p_iscmd p = false -> p_dt p = Some d -> forall ks,
  (forall k v, In k ks -> assoc_str k en = Some v -> exists c, conv d v = Ok c) -> check_loop p en ks = PGo p.
Proof.
  intros Hc Hd. induction ks as [|k ks IH]; intros H; simpl; [reflexivity|].
  destruct (assoc_str k en) as [v|] eqn:Ea; [|apply IH; intros; eapply H; [right|]; eassumption].
  rewrite Hc, Hd. destruct (H k v (or_introl eq_refl) Ea) as [c Hcv]. rewrite Hcv.
  apply IH. intros; eapply H; [right|]; eassumption.
Qed.
Lemma checked_order : checked_value_props = [k_value; k_default; k_constant].
Proof. vm_compute. reflexivity. Qed.
Lemma mem_checked_in k : mem_str k checked_value_props = true -> In k checked_value_props.
Proof. apply mem_str_In. Qed.

(* the value of an entry `pre ++ (value, v) :: rest` without a second `value` key *)
Lemma entry_value p pre v rest p1 : p_iscmd p = false ->
  apply_entry_keep p (pre ++ (k_value, v) :: rest) = (p1, PGo p1) -> ~ In k_value (map fst rest) -> p_value p1 = nn v.
Proof.
  intros Hc H Hn. destruct (apply_entry_keep_split _ _ _ _ H) as [pp [H1 H2]].
  destruct (entry_inv _ _ _ Hc H1) as [K _].
  assert (Hcp : p_iscmd pp = false) by (rewrite (k_cmd _ _ K); exact Hc).
  rewrite apply_entry_keep_cons in H2.
  destruct (prop_step (PGo pp) (k_value, v)) as [| |p'] eqn:Es; [inversion H2|inversion H2|].
  destruct (prop_step_inv _ _ _ _ Hcp Es) as [K1 [_ [_ V1]]].
  assert (Hc' : p_iscmd p' = false) by (rewrite (k_cmd _ _ K1); exact Hcp).
  destruct (entry_inv _ _ _ Hc' H2) as [_ [_ [N2 _]]]. rewrite (N2 Hn). apply V1. apply str_eqb_refl'.
Qed.

(* ------------------------------------------------------------------ one accessible *)
Lemma apply_entry_keep_go : forall en p pk p1, apply_entry_keep p en = (pk, PGo p1) -> pk = p1.
Proof.
  induction en as [|kv en IH]; intros p pk p1 H; [simpl in H; inversion H; reflexivity|].
  rewrite apply_entry_keep_cons in H. destruct (prop_step (PGo p) kv) eqn:E; try (inversion H; fail). eapply IH; exact H.
Qed.

(* apply_entry = the first loop, then the checks *)
Lemma apply_entry_go p en pk p1 : apply_entry p en = (pk, PGo p1) ->
  pk = p1 /\ apply_entry_keep p en = (p1, PGo p1) /\ check_loop p1 en checked_value_props = PGo p1.
Proof.
  unfold apply_entry. destruct (apply_entry_keep p en) as [q r] eqn:E. destruct r as [| |q'].
  - intros H; inversion H.
  - intros H; inversion H.
  - pose proof (apply_entry_keep_go _ _ _ _ E). subst q'. intros H. apply pair_equal_spec in H. destruct H as [A B].
    subst pk. pose proof (check_loop_go _ _ _ _ B). subst p1. auto.
Qed.

Lemma handle_writes_ok p p2 w : handle_writes p = (p2, [], w) ->
  exists d, p_dt p = Some d /\ (p_needscfg p = true -> p_value p <> None) /\
    p_dt p2 = Some d /\ p_name p2 = p_name p /\ p_iscmd p2 = p_iscmd p /\ p_descr p2 = p_descr p /\
    match p_value p with
    | Some v => p_value p2 = Some (match conv d v with Ok c => c | Err _ => v end) /\
                w = (if p_has_write p then Some v else None)
    | None => w = None
    end.
Proof.
  unfold handle_writes. destruct (p_dt p) as [d|] eqn:Ed; [|discriminate].
  destruct (p_value p) as [v|] eqn:Ev.
  - intros H. inversion H; subst. exists d. simpl. repeat split; try reflexivity; try assumption. discriminate.
  - destruct (p_needscfg p) eqn:En.
    + destruct (p_default p); discriminate.
    + destruct (p_default p); intros H; inversion H; subst; exists d; simpl; repeat split; try reflexivity; try assumption; discriminate.
Qed.

Lemma post_keeps mexp p : keeps p (post mexp p) /\ p_value (post mexp p) = p_value p /\
  p_needscfg (post mexp p) = p_needscfg p /\ p_descr (post mexp p) = p_descr p /\ p_dt (post mexp p) = p_dt p /\
  p_export (post mexp p) <> XTrue.
Proof.
  unfold post, fix_export. destruct mexp; simpl.
  - destruct (p_export p) eqn:E; simpl; repeat split; try reflexivity; try rewrite E; discriminate.
  - repeat split; try reflexivity. discriminate.
Qed.
Lemma post_cmd mexp p : p_iscmd (post mexp p) = p_iscmd p.
Proof. destruct (post_keeps mexp p) as [K _]. exact (k_cmd _ _ K). Qed.
Lemma post_dt mexp p : p_dt (post mexp p) = p_dt p.
Proof. destruct (post_keeps mexp p) as [_ [_ [_ [_ [H _]]]]]. exact H. Qed.

Lemma acc_step_ok mexp p e a : p_iscmd p = false -> acc_step mexp p e = Some a -> a_errs a = [] ->
  exists p1, (match e with
              | Some (CDict en) => apply_entry_keep p en = (p1, PGo p1) /\
                                   check_loop p1 en checked_value_props = PGo p1
              | None => p1 = p
              | Some (CRaw _) => False
              end) /\
             handle_writes (post mexp p1) = (a_param a, [], a_write a) /\ a_name a = name_of (post mexp p1).
Proof.
  intros Hc. unfold acc_step.
  destruct e as [[v|en]|].
  - discriminate.
  - destruct (apply_entry p en) as [pk r] eqn:E0. destruct r as [|er|p1].
    + discriminate.
    + cbv zeta. destruct (p_iscmd (post mexp pk)); [intros H; inversion H; subst; simpl; discriminate|].
      destruct (handle_writes (post mexp pk)) as [[p2 es] w]. intros H; inversion H; subst; simpl; discriminate.
    + destruct (apply_entry_go _ _ _ _ E0) as [Epk [E Ck]]. subst pk.
      destruct (entry_inv _ _ _ Hc E) as [K _]. cbv zeta. rewrite post_cmd, (k_cmd _ _ K), Hc.
      destruct (handle_writes (post mexp p1)) as [[p2 es] w] eqn:Eh. intros H; inversion H; subst; simpl. intros He; subst es.
      exists p1. split; [split; [exact E|exact Ck]|split; [exact Eh|reflexivity]].
  - cbv beta iota zeta. rewrite post_cmd, Hc.
    destruct (handle_writes (post mexp p)) as [[p2 es] w] eqn:Eh. intros H; inversion H; subst; simpl. intros He; subst es.
    exists p. split; [reflexivity|split; [exact Eh|reflexivity]].
Qed.

Lemma finish_param_ok p y : p_iscmd p = false -> finish_param p = Some y ->
  p_name y = p_name p /\ p_dt y = p_dt p /\ p_descr y = p_descr p /\ p_iscmd y = false /\
  refit (p_dt p) (p_value p) = Some (p_value y).
Proof.
  intros Hc. unfold finish_param. rewrite Hc.
  destruct (finish_constant p) as [[cst ro]|]; [|discriminate].
  destruct (refit (p_dt p) (p_default p)) as [d'|]; [|discriminate].
  destruct (refit (p_dt p) (p_value p)) as [v'|]; [|discriminate].
  intros H; inversion H; subst; simpl. repeat split; try reflexivity; assumption.
Qed.

Lemma apply_main_keeps main p :
  p_name (apply_main main p) = p_name p /\ p_dt (apply_main main p) = p_dt p /\ p_value (apply_main main p) = p_value p
  /\ p_descr (apply_main main p) = p_descr p /\ p_iscmd (apply_main main p) = p_iscmd p /\ p_wfunc (apply_main main p) = p_wfunc p
  /\ p_export (apply_main main p) = p_export p.
Proof.
  unfold apply_main. destruct main; [repeat split; reflexivity|].
  destruct (p_dt p) eqn:E; [|repeat split; try reflexivity; try (symmetry; exact E); exact E].
  destruct (negb (p_iscmd p) && carries_unit d && has_dollar (p_unit p)); simpl; repeat split; try reflexivity;
    try (symmetry; exact E); exact E.
Qed.

Lemma handle_writes_wfunc p : p_wfunc (fst (fst (handle_writes p))) = p_wfunc p.
Proof.
  unfold handle_writes. destruct (p_dt p); [|reflexivity]. destruct (p_value p); [reflexivity|].
  destruct (p_default p); reflexivity.
Qed.
Lemma finish_param_wfunc p y : finish_param p = Some y -> p_wfunc y = p_wfunc p.
Proof.
  unfold finish_param. destruct (p_iscmd p); [intros H; inversion H; reflexivity|].
  destruct (finish_constant p) as [[cst ro]|]; [|discriminate].
  destruct (refit (p_dt p) (p_default p)); [|discriminate]. destruct (refit (p_dt p) (p_value p)); [|discriminate].
  intros H; inversion H; reflexivity.
Qed.
Lemma finish_param_name p y : finish_param p = Some y -> p_name y = p_name p.
Proof.
  unfold finish_param. destruct (p_iscmd p); [intros H; inversion H; reflexivity|].
  destruct (finish_constant p) as [[cst ro]|]; [|discriminate].
  destruct (refit (p_dt p) (p_default p)); [|discriminate]. destruct (refit (p_dt p) (p_value p)); [|discriminate].
  intros H; inversion H; reflexivity.
Qed.

(* from a class parameter to the parameter of the created instance *)
Lemma created_param C c i p : mod_init C c = Created i -> In p (c_params C) -> p_optional p = false -> p_iscmd p = false ->
  exists mv a p1 y p',
    acc_step (mexport mv) p (assoc_str (p_name p) c) = Some a /\
    (match assoc_str (p_name p) c with
     | Some (CDict en) => apply_entry_keep p en = (p1, PGo p1) /\ check_loop p1 en checked_value_props = PGo p1
     | None => p1 = p
     | Some (CRaw _) => False
     end) /\
    handle_writes (post (mexport mv) p1) = (a_param a, [], a_write a) /\
    finish_param (a_param a) = Some y /\ In p' (i_params i) /\
    p_name p' = p_name y /\ p_dt p' = p_dt y /\ p_value p' = p_value y /\ p_descr p' = p_descr y /\ p_iscmd p' = p_iscmd y /\
    check_param p' = [] /\
    (forall v, a_write a = Some v -> In (p_name (a_param a), v) (i_write i)) /\
    p_wfunc p' = p_wfunc p.
Proof.
  intros H Hin Ho Hc. destruct (created_inv _ _ _ H) as [mv [accs [ps [EA [EB [Eerr [Edup [EU [EF [ECm [ECp Ei]]]]]]]]]]].
  destruct (phaseB_in _ _ _ _ _ EB Hin Ho) as [a [Ha Hs]].
  pose proof (flat_map_nil _ _ _ Eerr Ha) as Hae.
  destruct (acc_step_ok _ _ _ _ Hc Hs Hae) as [p1 [He [Hh _]]].
  destruct (map_opt_in finish_param _ _ (a_param a) EF) as [y [Hy Hyin]]; [apply in_map; exact Ha|].
  exists mv, a, p1, y, (apply_main (main_unit ps) y).
  destruct (apply_main_keeps (main_unit ps) y) as [M1 [M2 [M3 [M4 [M5 [M6 M7]]]]]].
  subst i. simpl. repeat split; try assumption.
  - apply in_map. exact Hyin.
  - eapply flat_map_nil; [exact ECp|]. apply in_map. exact Hyin.
  - intros v Hw. unfold writes_of. apply in_flat_map. exists a. split; [exact Ha|]. rewrite Hw. left. reflexivity.
  - rewrite M6, (finish_param_wfunc _ _ Hy).
    pose proof (handle_writes_wfunc (post (mexport mv) p1)) as Wh. rewrite Hh in Wh. simpl in Wh. rewrite Wh.
    destruct (post_keeps (mexport mv) p1) as [K0 _]. rewrite (k_wf _ _ K0).
    destruct (assoc_str (p_name p) c) as [[v|en]|]; [contradiction| |subst p1; reflexivity].
    destruct He as [He _]. destruct (entry_inv _ _ _ Hc He) as [K _]. exact (k_wf _ _ K).
Qed.

(* ------------------------------------------------------------------ the property-level statements *)
(* the start value: Module._handle_writes stores datatype(value) through announceUpdate (the raw value stays when that
   fails), Parameter.finish converts once more and clears a value that does not convert *)
Definition start_value (d : dtype) (v : pyval) : option pyval :=
  match conv d (match conv d v with Ok c => c | Err _ => v end) with Ok c2 => Some c2 | Err _ => None end.

Lemma post_unit mexp p : p_unit (post mexp p) = p_unit p.
Proof. unfold post, fix_export. destruct mexp; simpl; [destruct (p_export p); reflexivity|reflexivity]. Qed.

Lemma conv_none d : exists e, conv d PNone = Err e.
Proof. unfold conv. destruct d; simpl; eexists; reflexivity. Qed.
Lemma conv_ok_nn d v c : conv d v = Ok c -> nn v = Some v.
Proof. intros H. destruct v; try reflexivity. destruct (conv_none d) as [e He]. rewrite He in H. discriminate. Qed.

Lemma value_applied C c i p d en v :
  mod_init C c = Created i -> In p (c_params C) -> p_optional p = false -> p_iscmd p = false -> p_dt p = Some d ->
  assoc_str (p_name p) c = Some (CDict en) -> NoDup (map fst en) -> In (k_value, v) en ->
  exists p' d' c1, In p' (i_params i) /\ p_name p' = p_name p /\
    configured_dt d (p_unit p) en = Some d' /\ p_dt p' = Some d' /\ conv d' v = Ok c1 /\
    p_value p' = match conv d' c1 with Ok c2 => Some c2 | Err _ => None end /\
    (p_has_write p = true -> In (p_name p, v) (i_write i)) /\ p_wfunc p' = p_wfunc p.
Proof.
  intros H Hin Ho Hc Hd Hcfg ND Hv.
  destruct (created_param _ _ _ _ H Hin Ho Hc) as [mv [a [p1 [y [p' [Hs [He [Hh [Hf [Hp' [N1 [D1 [V1 [_ [_ [_ [Hw W1]]]]]]]]]]]]]]]]].
  rewrite Hcfg in He. destruct He as [He Ck].
  destruct (entry_inv _ _ _ Hc He) as [K [DU [_ Vv]]].
  pose proof (Vv v ND Hv) as Hval.
  destruct (post_keeps (mexport mv) p1) as [K0 [PV [_ [_ [PD _]]]]].
  destruct (handle_writes_ok _ _ _ Hh) as [d1 [Hd1 [_ [Hd2 [Hn2 [Hc2 [_ Hm]]]]]]].
  rewrite PD in Hd1.
  assert (Hcfgd : configured_dt d (p_unit p) en = Some d1).
  { unfold configured_dt. unfold dtu in DU. rewrite Hd in DU. rewrite <- DU. exact Hd1. }
  destruct (check_loop_ok _ _ _ _ Ck k_value v d1) as [c1 Hc1];
    [rewrite checked_order; left; reflexivity|apply assoc_str_nodup; assumption|exact Hd1|].
  rewrite (conv_ok_nn _ _ _ Hc1) in Hval.
  rewrite PV, Hval in Hm. destruct Hm as [Hv2 Hw2].
  assert (Hca : p_iscmd (a_param a) = false).
  { rewrite Hc2, (k_cmd _ _ K0), (k_cmd _ _ K). exact Hc. }
  destruct (finish_param_ok _ _ Hca Hf) as [Fn [Fd [_ [_ Fr]]]].
  exists p', d1, c1. split; [exact Hp'|]. split; [|split; [exact Hcfgd|split; [|split; [exact Hc1|split; [|split; [|exact W1]]]]]].
  - rewrite N1, Fn, Hn2, (k_name _ _ K0). apply (k_name _ _ K).
  - rewrite D1, Fd. exact Hd2.
  - rewrite V1. rewrite Hd2, Hv2, Hc1 in Fr. unfold refit in Fr.
    destruct (conv d1 c1) as [c2|e]; [inversion Fr; reflexivity|].
    destruct (is_bad_value e); [inversion Fr; reflexivity|discriminate].
  - intros Hhw. assert (a_write a = Some v) as Hwa.
    { rewrite Hw2, (k_hw _ _ K0), (k_hw _ _ K), Hhw. reflexivity. }
    apply Hw in Hwa. rewrite Hn2, (k_name _ _ K0), (k_name _ _ K) in Hwa. exact Hwa.
Qed.

Lemma unknown_name_rejected C c k i :
  In k (map fst c) -> mem_str k (known_names C) = false -> mod_init C c <> Created i.
Proof.
  intros Hin Hk H. destruct (created_inv _ _ _ H) as [mv [accs [ps [_ [_ [_ [_ [EU _]]]]]]]].
  unfold unknown_names in EU. assert (In k (filter (fun k0 => negb (mem_str k0 (known_names C))) (map fst c))).
  { apply filter_In. split; [exact Hin|]. rewrite Hk. reflexivity. }
  rewrite EU in H0. destruct H0.
Qed.

(* value / default / constant anywhere in the entry: checked by the class datatype with ALL overrides of the entry applied *)
Lemma wrong_type_rejected C c i p d en k v d' e :
  In p (c_params C) -> p_optional p = false -> p_iscmd p = false -> p_dt p = Some d ->
  assoc_str (p_name p) c = Some (CDict en) -> mem_str k checked_value_props = true -> assoc_str k en = Some v ->
  configured_dt d (p_unit p) en = Some d' -> conv d' v = Err e -> mod_init C c <> Created i.
Proof.
  intros Hin Ho Hc Hd Hcfg Hm Ha Hd' Hcv H.
  destruct (created_param _ _ _ _ H Hin Ho Hc) as [mv [a [p1 [y [p' [Hs [He _]]]]]]].
  rewrite Hcfg in He. destruct He as [He Ck]. destruct (entry_inv _ _ _ Hc He) as [_ [DU _]].
  assert (Hd1 : p_dt p1 = Some d').
  { unfold configured_dt in Hd'. unfold dtu in DU. rewrite Hd in DU. rewrite <- DU in Hd'. exact Hd'. }
  destruct (check_loop_ok _ _ _ _ Ck k v d' (mem_checked_in _ Hm) Ha Hd1) as [c1 Hc1]. rewrite Hcv in Hc1. discriminate.
Qed.

Lemma raw_section_rejected C c i p v :
  In p (c_params C) -> p_optional p = false -> p_iscmd p = false ->
  assoc_str (p_name p) c = Some (CRaw v) -> mod_init C c <> Created i.
Proof.
  intros Hin Ho Hc Hcfg H.
  destruct (created_param _ _ _ _ H Hin Ho Hc) as [mv [a [p1 [y [p' [Hs [He _]]]]]]].
  rewrite Hcfg in He. exact He.
Qed.

Lemma missing_value_rejected C c i p :
  In p (c_params C) -> p_optional p = false -> p_iscmd p = false -> p_needscfg p = true -> p_value p = None ->
  assoc_str (p_name p) c = None -> mod_init C c <> Created i.
Proof.
  intros Hin Ho Hc Hn Hv Hcfg H.
  destruct (created_param _ _ _ _ H Hin Ho Hc) as [mv [a [p1 [y [p' [Hs [He [Hh _]]]]]]]].
  rewrite Hcfg in He. subst p1. destruct (handle_writes_ok _ _ _ Hh) as [d1 [_ [Hnc _]]].
  destruct (post_keeps (mexport mv) p) as [_ [Hv0 [Hn0 _]]]. apply Hnc; [rewrite Hn0; exact Hn|rewrite Hv0; exact Hv].
Qed.

Lemma missing_description_rejected C c i p :
  In p (c_params C) -> p_optional p = false -> p_iscmd p = false -> p_descr p = None ->
  assoc_str (p_name p) c = None -> mod_init C c <> Created i.
Proof.
  intros Hin Ho Hc Hdn Hcfg H.
  destruct (created_param _ _ _ _ H Hin Ho Hc) as [mv [a [p1 [y [p' [Hs [He [Hh [Hf [Hp' [N1 [D1 [V1 [De1 [Cm1 [Hck _]]]]]]]]]]]]]]]].
  rewrite Hcfg in He. subst p1. destruct (handle_writes_ok _ _ _ Hh) as [d1 [_ [_ [_ [_ [Hc2 [Hde _]]]]]]].
  assert (Hca : p_iscmd (a_param a) = false).
  { rewrite Hc2, post_cmd. exact Hc. }
  destruct (finish_param_ok _ _ Hca Hf) as [_ [_ [Fde _]]].
  unfold check_param in Hck. rewrite De1, Fde, Hde in Hck.
  destruct (post_keeps (mexport mv) p) as [_ [_ [_ [Hd0 _]]]]. rewrite Hd0, Hdn in Hck. discriminate.
Qed.

(* limits of a parameter of a created module are never inverted, also not on the element type of an array *)
Lemma no_inverted_limits C c i p d :
  mod_init C c = Created i -> In p (i_params i) -> p_iscmd p = false -> p_dt p = Some d -> dt_inverted d = false.
Proof.
  intros H Hin Hc Hd. destruct (created_inv _ _ _ H) as [mv [accs [ps [_ [_ [_ [_ [_ [_ [_ [ECp Ei]]]]]]]]]]].
  subst i. simpl in Hin. pose proof (flat_map_nil _ _ _ ECp Hin) as Hck. unfold check_param in Hck.
  destruct (p_descr p); [|discriminate]. rewrite Hc, Hd in Hck. destruct (dt_inverted d); [discriminate|reflexivity].
Qed.

Lemma created_has_description C c i p : mod_init C c = Created i -> In p (i_params i) -> p_descr p <> None.
Proof.
  intros H Hin. destruct (created_inv _ _ _ H) as [mv [accs [ps [_ [_ [_ [_ [_ [_ [_ [ECp Ei]]]]]]]]]]].
  subst i. simpl in Hin. pose proof (flat_map_nil _ _ _ ECp Hin) as Hck. unfold check_param in Hck.
  destruct (p_descr p); [discriminate|discriminate].
Qed.

(* ------------------------------------------------------------------ writeDict has one entry per parameter name *)
Lemma cmd_setprop_name p k v p' : cmd_setprop p k v = PGo p' -> p_name p' = p_name p.
Proof.
  unfold cmd_setprop. destruct (pprop_type command_props k); [|discriminate].
  destruct (mp_validate m v) as [x|e]; [|destruct e; discriminate].
  destruct (str_eqb k k_visibility). { destruct x; try discriminate; intros H; inversion H; reflexivity. }
  destruct (str_eqb k k_group). { destruct x; try discriminate; intros H; inversion H; reflexivity. }
  destruct (str_eqb k k_description). { destruct x; try discriminate; intros H; inversion H; reflexivity. }
  destruct (str_eqb k k_export). { destruct x; try discriminate; intros H; inversion H; reflexivity. }
  discriminate.
Qed.

Lemma prop_step_name p kv p' : prop_step (PGo p) kv = PGo p' -> p_name p' = p_name p.
Proof.
  destruct kv as [k v]. intros H. destruct (p_iscmd p) eqn:Hc.
  - unfold prop_step in H. rewrite Hc in H. eapply cmd_setprop_name; exact H.
  - apply (prop_step_inv _ _ _ _ Hc) in H. destruct H as [K _]. exact (k_name _ _ K).
Qed.

Lemma apply_entry_keep_name : forall en p pk r, apply_entry_keep p en = (pk, r) -> p_name pk = p_name p.
Proof.
  induction en as [|kv en IH]; intros p pk r H; [simpl in H; inversion H; reflexivity|].
  rewrite apply_entry_keep_cons in H. destruct (prop_step (PGo p) kv) eqn:E; try (inversion H; reflexivity).
  rewrite (IH _ _ _ H). eapply prop_step_name; exact E.
Qed.

Lemma apply_entry_name p en pk r : apply_entry p en = (pk, r) -> p_name pk = p_name p.
Proof.
  unfold apply_entry. destruct (apply_entry_keep p en) as [q r0] eqn:E. pose proof (apply_entry_keep_name _ _ _ _ E) as N.
  destruct r0; intros H; inversion H; subst; exact N.
Qed.

Lemma handle_writes_name p : p_name (fst (fst (handle_writes p))) = p_name p.
Proof.
  unfold handle_writes. destruct (p_dt p); [|reflexivity]. destruct (p_value p); [reflexivity|].
  destruct (p_default p); reflexivity.
Qed.
Lemma handle_writes_export p : p_export (fst (fst (handle_writes p))) = p_export p.
Proof.
  unfold handle_writes. destruct (p_dt p); [|reflexivity]. destruct (p_value p); [reflexivity|].
  destruct (p_default p); reflexivity.
Qed.
Lemma post_name mexp p : p_name (post mexp p) = p_name p.
Proof. destruct (post_keeps mexp p) as [K _]. exact (k_name _ _ K). Qed.

(* the record produced for one accessible: name kept, the name-map entry is the export name of the parameter *)
Lemma acc_step_shape mexp p e a : acc_step mexp p e = Some a ->
  p_name (a_param a) = p_name p /\ a_name a = name_of (a_param a) /\ p_export (a_param a) <> XTrue.
Proof.
  unfold acc_step.
  assert (S1 : forall pk es0, p_name pk = p_name p ->
     (if p_iscmd (post mexp pk)
      then Some {| a_param := post mexp pk; a_errs := es0; a_write := None; a_name := name_of (post mexp pk) |}
      else let '(p1, es, w) := handle_writes (post mexp pk) in
           Some {| a_param := p1; a_errs := es0 ++ es; a_write := w; a_name := name_of (post mexp pk) |}) = Some a ->
     p_name (a_param a) = p_name p /\ a_name a = name_of (a_param a) /\ p_export (a_param a) <> XTrue).
  { intros pk es0 Nk. destruct (post_keeps mexp pk) as [_ [_ [_ [_ [_ NX]]]]].
    destruct (p_iscmd (post mexp pk)).
    - intros H; inversion H; subst; simpl. rewrite post_name. auto.
    - pose proof (handle_writes_name (post mexp pk)) as Nh. pose proof (handle_writes_export (post mexp pk)) as Xh.
      destruct (handle_writes (post mexp pk)) as [[p2 es] w]. simpl in Nh, Xh.
      intros H; inversion H; subst; simpl. rewrite Nh, post_name. split; [exact Nk|]. unfold name_of. rewrite Xh, Nh.
      split; [reflexivity|exact NX]. }
  destruct e as [[v|en]|]; [discriminate| |].
  - destruct (apply_entry p en) as [pk r] eqn:E.
    pose proof (apply_entry_name _ _ _ _ E) as Nk.
    destruct r as [|er|p1]; [discriminate| |].
    + cbv zeta. intros H. apply (S1 pk [er] Nk). destruct (p_iscmd (post mexp pk)); [exact H|].
      destruct (handle_writes (post mexp pk)) as [[p2 es] w]. exact H.
    + destruct (apply_entry_go _ _ _ _ E) as [Epk _]. subst pk.
      cbv zeta. intros H. apply (S1 p1 [] Nk). destruct (p_iscmd (post mexp p1)); [exact H|].
      destruct (handle_writes (post mexp p1)) as [[p2 es] w]. exact H.
  - cbv beta iota zeta. intros H. apply (S1 p [] eq_refl). destruct (p_iscmd (post mexp p)); [exact H|].
    destruct (handle_writes (post mexp p)) as [[p2 es] w]. exact H.
Qed.

Lemma acc_step_name mexp p e a : acc_step mexp p e = Some a -> p_name (a_param a) = p_name p.
Proof. intros H. apply (acc_step_shape _ _ _ _ H). Qed.

Definition active (ps : list param) : list param := filter (fun p => negb (p_optional p)) ps.

Lemma phaseB_names mexp c : forall ps accs, phaseB mexp ps c = Some accs ->
  map (fun a => p_name (a_param a)) accs = map p_name (active ps).
Proof.
  induction ps as [|p ps IH]; intros accs H; simpl in H; [inversion H; reflexivity|].
  unfold active. simpl. destruct (p_optional p); simpl; [apply IH; exact H|].
  destruct (acc_step mexp p (assoc_str (p_name p) c)) as [a|] eqn:E; [|discriminate].
  destruct (phaseB mexp ps c) as [l|]; [|discriminate]. inversion H; subst. simpl.
  rewrite (acc_step_name _ _ _ _ E). f_equal. apply IH. reflexivity.
Qed.

Lemma phaseB_shape mexp c : forall ps accs, phaseB mexp ps c = Some accs ->
  Forall (fun a => a_name a = name_of (a_param a) /\ p_export (a_param a) <> XTrue) accs.
Proof.
  induction ps as [|p ps IH]; intros accs H; simpl in H; [inversion H; constructor|].
  destruct (p_optional p); [apply IH; exact H|].
  destruct (acc_step mexp p (assoc_str (p_name p) c)) as [a|] eqn:E; [|discriminate].
  destruct (phaseB mexp ps c) as [l|]; [|discriminate]. inversion H; subst.
  constructor; [apply (acc_step_shape _ _ _ _ E)|apply IH; reflexivity].
Qed.

Lemma writes_of_nodup accs : NoDup (map (fun a => p_name (a_param a)) accs) -> NoDup (map fst (writes_of accs)).
Proof.
  unfold writes_of. induction accs as [|a accs IH]; simpl; intros ND; [constructor|]. inversion ND; subst.
  rewrite map_app. destruct (a_write a); simpl; [|apply IH; exact H2]. constructor; [|apply IH; exact H2].
  intros Hin. apply H1. clear - Hin. induction accs as [|b accs IH]; simpl in *; [exact Hin|].
  rewrite map_app in Hin. apply in_app_or in Hin. destruct Hin as [Hin|Hin].
  - destruct (a_write b); simpl in Hin; [destruct Hin as [Hin|[]]; left; exact Hin|destruct Hin].
  - right. apply IH. exact Hin.
Qed.

Lemma created_write_nodup C c i : mod_init C c = Created i -> NoDup (map p_name (active (c_params C))) ->
  NoDup (map fst (i_write i)).
Proof.
  intros H ND. destruct (created_inv _ _ _ H) as [mv [accs [ps [_ [EB [_ [_ [_ [_ [_ [_ Ei]]]]]]]]]]]. subst i. simpl.
  apply writes_of_nodup. rewrite (phaseB_names _ _ _ _ EB). exact ND.
Qed.

(* the accessibles of the instance are the active accessibles of the class, in order *)
Lemma map_opt_map {A B C} (f : A -> option B) (g : A -> C) (h : B -> C) :
  (forall x y, f x = Some y -> h y = g x) -> forall l r, map_opt f l = Some r -> map h r = map g l.
Proof.
  intros Hf. induction l as [|a l IH]; intros r H; simpl in H; [inversion H; reflexivity|].
  destruct (f a) as [b|] eqn:E; [|discriminate]. destruct (map_opt f l) as [ys|]; [|discriminate].
  inversion H; subst. simpl. rewrite (Hf _ _ E). f_equal. apply IH. reflexivity.
Qed.

Lemma created_param_names C c i : mod_init C c = Created i -> map p_name (i_params i) = map p_name (active (c_params C)).
Proof.
  intros H. destruct (created_inv _ _ _ H) as [mv [accs [ps [_ [EB [_ [_ [_ [EF [_ [_ Ei]]]]]]]]]]]. subst i. simpl.
  rewrite map_map. rewrite <- (phaseB_names _ _ _ _ EB).
  rewrite (map_ext (fun x => p_name (apply_main (main_unit ps) x)) p_name);
    [|intros x; apply (apply_main_keeps (main_unit ps) x)].
  rewrite (map_opt_map finish_param p_name p_name finish_param_name _ _ EF). apply map_map.
Qed.

Lemma find_param_nodup n : forall ps p, NoDup (map p_name ps) -> In p ps -> p_name p = n -> find_param n ps = Some p.
Proof.
  unfold find_param. induction ps as [|q ps IH]; intros p ND Hin Hn; [destruct Hin|]. simpl. inversion ND; subst.
  destruct Hin as [Hq|Hin].
  - subst q. rewrite str_eqb_refl'. reflexivity.
  - destruct (str_eqb (p_name p) (p_name q)) eqn:E; [|apply IH; auto].
    apply str_eqb_true in E. exfalso. apply H1. rewrite <- E. apply in_map. exact Hin.
Qed.


(* a configured value of a parameter with a write wrapper: what its driver method receives during start-up *)
Lemma configured_value_written C c i p d en v :
  mod_init C c = Created i -> In p (c_params C) -> p_optional p = false -> p_iscmd p = false -> p_dt p = Some d ->
  assoc_str (p_name p) c = Some (CDict en) -> NoDup (map fst en) -> In (k_value, v) en ->
  NoDup (map p_name (active (c_params C))) -> p_has_write p = true ->
  exists p' d', find_param (p_name p) (i_params i) = Some p' /\ p_dt p' = Some d' /\
    configured_dt d (p_unit p) en = Some d' /\
    has_thread i = true /\
    writes_for (p_name p) (startup i) = match valid d' v with Ok x => if p_wfunc p then [x] else [] | Err _ => [] end.
Proof.
  intros H Hin Ho Hc Hd Hcfg NDe Hv ND Hhw.
  destruct (value_applied _ _ _ _ _ _ _ H Hin Ho Hc Hd Hcfg NDe Hv) as [p' [d1 [c1 [Hp' [Hname [Hcfgd [Hd' [_ [_ [Hwa Hw']]]]]]]]]].
  specialize (Hwa Hhw).
  pose proof (created_write_nodup _ _ _ H ND) as NW.
  assert (Hfind : find_param (p_name p) (i_params i) = Some p').
  { apply find_param_nodup; [rewrite (created_param_names _ _ _ H); exact ND|exact Hp'|exact Hname]. }
  assert (Ht : has_thread i = true).
  { unfold has_thread. destruct (i_write i); [destruct Hwa|]. apply orb_true_r. }
  exists p', d1. split; [exact Hfind|]. split; [exact Hd'|]. split; [exact Hcfgd|]. split; [exact Ht|].
  rewrite (startup_writes _ _ NW), Ht, (assoc_str_nodup _ _ _ NW Hwa). unfold handed.
  rewrite Hfind, Hd', Hw'. reflexivity.
Qed.

(* ------------------------------------------------------------------ writeDict: the converse direction *)
Lemma phaseB_back mexp c : forall ps accs a, phaseB mexp ps c = Some accs -> In a accs ->
  exists p, In p ps /\ p_optional p = false /\ acc_step mexp p (assoc_str (p_name p) c) = Some a.
Proof.
  induction ps as [|q ps IH]; intros accs a H Hin; simpl in H; [inversion H; subst; destruct Hin|].
  destruct (p_optional q) eqn:Eo.
  - destruct (IH _ _ H Hin) as [p [Hp Hr]]. exists p. split; [right; exact Hp|exact Hr].
  - destruct (acc_step mexp q (assoc_str (p_name q) c)) as [b|] eqn:E; [|discriminate].
    destruct (phaseB mexp ps c) as [l|] eqn:E2; [|discriminate]. inversion H; subst. destruct Hin as [Hb|Hin].
    + subst b. exists q. split; [left; reflexivity|split; [exact Eo|exact E]].
    + destruct (IH _ _ eq_refl Hin) as [p [Hp Hr]]. exists p. split; [right; exact Hp|exact Hr].
Qed.

Lemma cmd_setprop_cmd p k v p' : cmd_setprop p k v = PGo p' -> p_iscmd p' = p_iscmd p.
Proof.
  unfold cmd_setprop. destruct (pprop_type command_props k); [|discriminate].
  destruct (mp_validate m v) as [x|e]; [|destruct e; discriminate].
  destruct (str_eqb k k_visibility). { destruct x; try discriminate; intros H; inversion H; reflexivity. }
  destruct (str_eqb k k_group). { destruct x; try discriminate; intros H; inversion H; reflexivity. }
  destruct (str_eqb k k_description). { destruct x; try discriminate; intros H; inversion H; reflexivity. }
  destruct (str_eqb k k_export). { destruct x; try discriminate; intros H; inversion H; reflexivity. }
  discriminate.
Qed.
Lemma prop_step_cmd p kv p' : prop_step (PGo p) kv = PGo p' -> p_iscmd p' = p_iscmd p.
Proof.
  destruct kv as [k v]. intros H. destruct (p_iscmd p) eqn:Hc.
  - unfold prop_step in H. rewrite Hc in H. rewrite (cmd_setprop_cmd _ _ _ _ H). exact Hc.
  - apply (prop_step_inv _ _ _ _ Hc) in H. destruct H as [K _]. rewrite (k_cmd _ _ K). exact Hc.
Qed.
Lemma apply_entry_keep_cmd : forall en p pk r, apply_entry_keep p en = (pk, r) -> p_iscmd pk = p_iscmd p.
Proof.
  induction en as [|kv en IH]; intros p pk r H; [simpl in H; inversion H; reflexivity|].
  rewrite apply_entry_keep_cons in H. destruct (prop_step (PGo p) kv) eqn:E; try (inversion H; reflexivity).
  rewrite (IH _ _ _ H). eapply prop_step_cmd; exact E.
Qed.

Lemma apply_entry_cmd p en pk r : apply_entry p en = (pk, r) -> p_iscmd pk = p_iscmd p.
Proof.
  unfold apply_entry. destruct (apply_entry_keep p en) as [q r0] eqn:E. pose proof (apply_entry_keep_cmd _ _ _ _ E) as N.
  destruct r0; intros H; inversion H; subst; exact N.
Qed.

(* a command never gets a writeDict entry *)
Lemma acc_step_cmd_nowrite mexp p e a : p_iscmd p = true -> acc_step mexp p e = Some a -> a_write a = None.
Proof.
  intros Hc. unfold acc_step. destruct e as [[v|en]|]; [discriminate| |].
  - destruct (apply_entry p en) as [pk r] eqn:E. pose proof (apply_entry_cmd _ _ _ _ E) as Ck.
    destruct r as [|er|p1]; [discriminate| |].
    + cbv zeta. rewrite post_cmd, Ck, Hc. intros H; inversion H; reflexivity.
    + destruct (apply_entry_go _ _ _ _ E) as [Epk _]. subst pk. cbv zeta. rewrite post_cmd, Ck, Hc.
      intros H; inversion H; reflexivity.
  - cbv beta iota zeta. rewrite post_cmd, Hc. intros H; inversion H; reflexivity.
Qed.

(* where the value of a parameter comes from after its cfg entry was applied *)
Lemma entry_value_source : forall en p p1 v, p_iscmd p = false -> apply_entry_keep p en = (p1, PGo p1) ->
  p_value p1 = Some v -> In (k_value, v) en \/ p_value p = Some v.
Proof.
  induction en as [|[k x] en IH]; intros p p1 v Hc H Hv; [simpl in H; inversion H; subst; right; exact Hv|].
  rewrite apply_entry_keep_cons in H.
  destruct (prop_step (PGo p) (k, x)) as [| |p'] eqn:Es; [inversion H|inversion H|].
  destruct (prop_step_inv _ _ _ _ Hc Es) as [K [_ [V0 V1]]].
  assert (Hc' : p_iscmd p' = false) by (rewrite (k_cmd _ _ K); exact Hc).
  destruct (IH p' p1 v Hc' H Hv) as [Hi|Hp]; [left; right; exact Hi|].
  destruct (str_eqb k k_value) eqn:E.
  - apply str_eqb_true in E. subst k. rewrite (V1 eq_refl) in Hp. destruct x; inversion Hp; subst; left; left; reflexivity.
  - right. rewrite <- (V0 eq_refl). exact Hp.
Qed.

(* every entry of writeDict is the value (configured, or the class-level one when the configuration gives none) of a
   non-optional parameter of the class that has a write wrapper *)
Lemma write_entry_source C c i n v : mod_init C c = Created i -> In (n, v) (i_write i) ->
  exists p, In p (c_params C) /\ p_optional p = false /\ p_iscmd p = false /\ p_name p = n /\ p_has_write p = true /\
    ((exists en, assoc_str n c = Some (CDict en) /\ In (k_value, v) en) \/ p_value p = Some v).
Proof.
  intros H Hin. destruct (created_inv _ _ _ H) as [mv [accs [ps [_ [EB [Eerr [_ [_ [_ [_ [_ Ei]]]]]]]]]]]. subst i.
  simpl in Hin. unfold writes_of in Hin. apply in_flat_map in Hin. destruct Hin as [a [Ha Hw]].
  destruct (a_write a) as [v0|] eqn:Ew; [|destruct Hw]. destruct Hw as [Hw|[]]. inversion Hw; subst. clear Hw.
  destruct (phaseB_back _ _ _ _ _ EB Ha) as [p [Hp [Ho Hs]]].
  destruct (p_iscmd p) eqn:Hc; [rewrite (acc_step_cmd_nowrite _ _ _ _ Hc Hs) in Ew; discriminate|].
  pose proof (flat_map_nil _ _ _ Eerr Ha) as Hae.
  destruct (acc_step_ok _ _ _ _ Hc Hs Hae) as [p1 [He [Hh _]]].
  destruct (handle_writes_ok _ _ _ Hh) as [d1 [_ [_ [_ [Hn2 [_ [_ Hm]]]]]]].
  destruct (post_keeps (mexport mv) p1) as [K0 [PV _]]. rewrite PV in Hm.
  destruct (p_value p1) as [v1|] eqn:Ev1; [|rewrite Ew in Hm; discriminate]. destruct Hm as [_ Hm]. rewrite Ew in Hm.
  rewrite (k_hw _ _ K0) in Hm. destruct (p_has_write p1) eqn:Ehw; [|discriminate]. inversion Hm; subst v1.
  exists p. rewrite Hn2, (k_name _ _ K0).
  destruct (assoc_str (p_name p) c) as [[x|en]|] eqn:Ecfg; [contradiction| |].
  - destruct He as [He _]. destruct (entry_inv _ _ _ Hc He) as [K _]. rewrite (k_name _ _ K). rewrite (k_hw _ _ K) in Ehw.
    repeat split; try assumption.
    destruct (entry_value_source _ _ _ _ Hc He Ev1) as [Hi|Hv]; [left; exists en; split; [exact Ecfg|exact Hi]|right; exact Hv].
  - subst p1. repeat split; try assumption. right. exact Ev1.
Qed.

(* ------------------------------------------------------------------ per-item completeness of the error list *)
Definition first_errs (C : cls) (c : cfg) (esA : list err) (accs : list accres) : list err :=
  esA ++ (flat_map a_errs accs ++ dup_errs [] accs) ++ match unknown_names C c with [] => [] | l => [ErrUnknown l] end.

(* a rejected module: the errors collected while the configuration was applied - or, only when there was none, the
   errors of the consistency checks *)
Lemma rejected_inv C c es : mod_init C c = Rejected es ->
  exists mv esA accs ps, phaseA C c = Some (mv, esA) /\ phaseB (mexport mv) (c_params C) c = Some accs /\
    map_opt finish_param (map a_param accs) = Some ps /\
    ((first_errs C c esA accs <> [] /\ es = first_errs C c esA accs) \/
     (first_errs C c esA accs = [] /\
      es = check_module C mv ++ flat_map check_param (map (apply_main (main_unit ps)) ps))).
Proof.
  unfold mod_init. destruct (phaseA C c) as [[mv esA]|] eqn:EA; [|discriminate].
  destruct (phaseB (mexport mv) (c_params C) c) as [accs|] eqn:EB; [|discriminate].
  destruct (map_opt finish_param (map a_param accs)) as [ps|] eqn:EF; [|discriminate].
  fold (first_errs C c esA accs). cbv zeta. intros H. exists mv, esA, accs, ps. split; [reflexivity|split; [exact EB|split; [exact EF|]]].
  destruct (first_errs C c esA accs) as [|e0 r] eqn:E.
  - right. split; [reflexivity|].
    destruct (check_module C mv ++ flat_map check_param (map (apply_main (main_unit ps)) ps)); [discriminate|].
    inversion H. reflexivity.
  - left. split; [discriminate|]. inversion H. reflexivity.
Qed.

Lemma rejected_has C c es mv esA accs e :
  mod_init C c = Rejected es -> phaseA C c = Some (mv, esA) -> phaseB (mexport mv) (c_params C) c = Some accs ->
  In e (first_errs C c esA accs) -> In e es.
Proof.
  intros H EA EB Hin. destruct (rejected_inv _ _ _ H) as [mv' [esA' [accs' [ps [EA' [EB' [_ Hc]]]]]]].
  rewrite EA in EA'. inversion EA'; subst mv' esA'. rewrite EB in EB'. inversion EB'; subst accs'.
  destruct Hc as [[_ ->]|[E _]]; [exact Hin|]. rewrite E in Hin. destruct Hin.
Qed.

Lemma apply_entry_keep_app : forall pre p p1 r, apply_entry_keep p pre = (p1, PGo p1) ->
  apply_entry_keep p (pre ++ r) = apply_entry_keep p1 r.
Proof.
  induction pre as [|kv pre IH]; intros p p1 r H; [simpl in H; inversion H; reflexivity|].
  rewrite <- app_comm_cons, apply_entry_keep_cons. rewrite apply_entry_keep_cons in H.
  destruct (prop_step (PGo p) kv) as [| |p'] eqn:E; [inversion H|inversion H|]. apply IH. exact H.
Qed.

(* every unknown name of the configuration is named *)
Lemma unknown_name_listed C c es k : mod_init C c = Rejected es ->
  In k (map fst c) -> mem_str k (known_names C) = false -> exists l, In (ErrUnknown l) es /\ In k l.
Proof.
  intros H Hin Hk. destruct (rejected_inv _ _ _ H) as [mv [esA [accs [ps [EA [EB _]]]]]].
  assert (Hu : In k (unknown_names C c)).
  { unfold unknown_names. apply filter_In. split; [exact Hin|]. rewrite Hk. reflexivity. }
  exists (unknown_names C c). split; [|exact Hu]. apply (rejected_has _ _ _ _ _ _ _ H EA EB).
  unfold first_errs. apply in_or_app. right. apply in_or_app. right.
  destruct (unknown_names C c); [destruct Hu|left; reflexivity].
Qed.

(* an error of the step of one accessible is in the list *)
Lemma acc_error_listed C c es p a e mv esA : mod_init C c = Rejected es -> phaseA C c = Some (mv, esA) ->
  In p (c_params C) -> p_optional p = false -> acc_step (mexport mv) p (assoc_str (p_name p) c) = Some a ->
  In e (a_errs a) -> In e es.
Proof.
  intros H EA Hin Ho Hs He. destruct (rejected_inv _ _ _ H) as [mv' [esA' [accs [ps [EA' [EB _]]]]]].
  rewrite EA in EA'. inversion EA'; subst mv' esA'.
  destruct (phaseB_in _ _ _ _ _ EB Hin Ho) as [a' [Ha Hs']]. rewrite Hs in Hs'. inversion Hs'; subst a'.
  apply (rejected_has _ _ _ _ _ _ _ H EA EB). unfold first_errs. apply in_or_app. right. apply in_or_app. left.
  apply in_or_app. left. apply in_flat_map. exists a. split; assumption.
Qed.

(* a Param entry whose properties all apply and whose value / default / constant is no value of the final datatype: the
   first of the three (in the fixed order of the second loop) that fails is named *)
Lemma check_error_listed C c es p en p1 er : mod_init C c = Rejected es ->
  In p (c_params C) -> p_optional p = false -> p_iscmd p = false ->
  assoc_str (p_name p) c = Some (CDict en) -> apply_entry_keep p en = (p1, PGo p1) ->
  check_loop p1 en checked_value_props = PErr er -> In er es.
Proof.
  intros H Hin Ho Hc Hcfg Hpre Hck.
  destruct (rejected_inv _ _ _ H) as [mv [esA [accs [ps [EA [EB _]]]]]].
  destruct (phaseB_in _ _ _ _ _ EB Hin Ho) as [a [Ha Hs]].
  apply (acc_error_listed _ _ _ _ _ _ _ _ H EA Hin Ho Hs).
  destruct (entry_inv _ _ _ Hc Hpre) as [K _].
  assert (Hc1 : p_iscmd p1 = false) by (rewrite (k_cmd _ _ K); exact Hc).
  rewrite Hcfg in Hs. unfold acc_step, apply_entry in Hs. rewrite Hpre, Hck in Hs. cbv zeta in Hs. rewrite post_cmd, Hc1 in Hs.
  destruct (handle_writes (post (mexport mv) p1)) as [[p2 es0] w]. inversion Hs; subst a. simpl. left. reflexivity.
Qed.

Lemma wrong_type_listed C c es p en k v p1 d1 e : mod_init C c = Rejected es ->
  In p (c_params C) -> p_optional p = false -> p_iscmd p = false ->
  assoc_str (p_name p) c = Some (CDict en) -> apply_entry_keep p en = (p1, PGo p1) ->
  mem_str k checked_value_props = true -> assoc_str k en = Some v -> p_dt p1 = Some d1 -> conv d1 v = Err e ->
  exists k', mem_str k' checked_value_props = true /\ In (ErrBadValue (p_name p) k') es.
Proof.
  intros H Hin Ho Hc Hcfg Hpre Hm Ha Ed1 Hcv.
  destruct (entry_inv _ _ _ Hc Hpre) as [K _].
  destruct (check_loop p1 en checked_value_props) as [|er|p2] eqn:Eck.
  - (* an exception that is no BadValueError leaves __init__: the module is not Rejected *)
    exfalso. destruct (rejected_inv _ _ _ H) as [mv [esA [accs [ps [EA [EB _]]]]]].
    destruct (phaseB_in _ _ _ _ _ EB Hin Ho) as [a [_ Hs]].
    rewrite Hcfg in Hs. unfold acc_step, apply_entry in Hs. rewrite Hpre, Eck in Hs. discriminate.
  - destruct (check_loop_err _ _ _ _ Eck) as [k' [Hk' He]]. subst er. exists k'. split; [apply mem_str_In; exact Hk'|].
    rewrite <- (k_name _ _ K). eapply check_error_listed; eassumption.
  - exfalso. destruct (check_loop_ok _ _ _ _ Eck k v d1 (mem_checked_in _ Hm) Ha Ed1) as [c1 Hc1]. rewrite Hcv in Hc1. discriminate.
Qed.

(* a required value that is neither configured nor given by the class is named *)
Lemma missing_value_listed C c es p d : mod_init C c = Rejected es ->
  In p (c_params C) -> p_optional p = false -> p_iscmd p = false -> p_dt p = Some d -> p_needscfg p = true ->
  p_value p = None -> assoc_str (p_name p) c = None -> In (ErrNeedsCfg (p_name p)) es.
Proof.
  intros H Hin Ho Hc Hd Hn Hv Hcfg.
  destruct (rejected_inv _ _ _ H) as [mv [esA [accs [ps [EA [EB _]]]]]].
  destruct (phaseB_in _ _ _ _ _ EB Hin Ho) as [a [Ha Hs]].
  apply (acc_error_listed _ _ _ _ _ _ _ _ H EA Hin Ho Hs).
  rewrite Hcfg in Hs. unfold acc_step in Hs. cbv beta iota zeta in Hs. rewrite post_cmd, Hc in Hs.
  destruct (post_keeps (mexport mv) p) as [K0 [PV [PN [_ [PD _]]]]].
  unfold handle_writes in Hs. rewrite PD, Hd, PV, Hv, PN, Hn in Hs.
  destruct (p_default (post (mexport mv) p)); inversion Hs; subst a; simpl; left; rewrite (k_name _ _ K0); reflexivity.
Qed.

(* a module property whose configured value does not validate is named *)
Definition mprop_cfg_value (c : cfg) (k : str) : option pyval :=
  match assoc_str k c with
  | Some (CRaw PNone) => None
  | Some (CRaw v) => Some v
  | Some (CDict e) => assoc_str k_value e
  | None => None
  end.

Lemma mprop_step_inv c acc a mv1 es1 : mprop_step c acc a = Some (mv1, es1) ->
  exists mv0 es0, acc = Some (mv0, es0) /\ incl es0 es1 /\
    forall v e, mprop_cfg_value c (mp_name a) = Some v -> mp_validate (mp_type a) v = Err e -> is_bad_value e = true ->
                In (ErrModProp (mp_name a)) es1.
Proof.
  unfold mprop_step, mprop_cfg_value. destruct acc as [[mv0 es0]|]; [|discriminate]. intros H. exists mv0, es0.
  split; [reflexivity|].
  destruct (assoc_str (mp_name a) c) as [cv|].
  2:{ inversion H; subst. split; [apply incl_refl|discriminate]. }
  assert (G : forall v, (match mp_validate (mp_type a) v with
                         | Ok x => Some (dict_set (mp_name a) x mv0, es0)
                         | Err e => if is_bad_value e then Some (mv0, es0 ++ [ErrModProp (mp_name a)]) else None
                         end = Some (mv1, es1)) ->
            incl es0 es1 /\ forall e, mp_validate (mp_type a) v = Err e -> is_bad_value e = true ->
                                       In (ErrModProp (mp_name a)) es1).
  { intros v Hv. destruct (mp_validate (mp_type a) v) as [x|e0].
    - inversion Hv; subst. split; [apply incl_refl|discriminate].
    - destruct (is_bad_value e0); [|discriminate]. inversion Hv; subst. split; [apply incl_appl; apply incl_refl|].
      intros _ _ _. apply in_or_app. right. left. reflexivity. }
  destruct cv as [v|en].
  - destruct v; try (destruct (G _ H) as [G1 G2]; split; [exact G1|intros v0 e0 Hv; inversion Hv; subst; apply G2]).
    inversion H; subst. split; [apply incl_refl|discriminate].
  - destruct (assoc_str k_value en) as [v|]; [|discriminate].
    destruct (G _ H) as [G1 G2]. split; [exact G1|intros v0 e0 Hv; inversion Hv; subst; apply G2].
Qed.

Lemma phaseA_fold c : forall l acc mv es, fold_left (mprop_step c) l acc = Some (mv, es) ->
  exists mv0 es0, acc = Some (mv0, es0) /\ incl es0 es /\
    forall sp v e, In sp l -> mprop_cfg_value c (mp_name sp) = Some v -> mp_validate (mp_type sp) v = Err e ->
                   is_bad_value e = true -> In (ErrModProp (mp_name sp)) es.
Proof.
  induction l as [|a l IH]; intros acc mv es H; simpl in H.
  - exists mv, es. split; [exact H|split; [apply incl_refl|intros ? ? ? []]].
  - destruct (IH _ _ _ H) as [mv1 [es1 [H1 [I1 F1]]]].
    destruct (mprop_step_inv _ _ _ _ _ H1) as [mv0 [es0 [H0 [I0 F0]]]].
    exists mv0, es0. split; [exact H0|split; [eapply incl_tran; eassumption|]].
    intros sp v e [Hs|Hs] Hv He Hb; [subst sp; apply I1; eapply F0; eassumption|eapply F1; eassumption].
Qed.

Lemma bad_module_property_listed C c es sp v e : mod_init C c = Rejected es ->
  In sp (all_mprops C) -> mprop_cfg_value c (mp_name sp) = Some v -> mp_validate (mp_type sp) v = Err e ->
  is_bad_value e = true -> In (ErrModProp (mp_name sp)) es.
Proof.
  intros H Hin Hv He Hb. destruct (rejected_inv _ _ _ H) as [mv [esA [accs [ps [EA [EB _]]]]]].
  apply (rejected_has _ _ _ _ _ _ _ H EA EB). unfold first_errs. apply in_or_app. left.
  unfold phaseA in EA. destruct (fold_left (mprop_step c) (all_mprops C) (Some ([], []))) as [[mv0 es0]|] eqn:E; [|discriminate].
  inversion EA; subst. destruct (phaseA_fold _ _ _ _ _ E) as [_ [_ [_ [_ F]]]]. eapply F; eassumption.
Qed.

(* ------------------------------------------------------------------ the name map of a created module *)
Lemma dup_errs_nodup : forall l seen, dup_errs seen l = [] ->
  NoDup (map fst (names_of l)) /\ forall x, In x (map fst (names_of l)) -> ~ In x seen.
Proof.
  unfold names_of. induction l as [|a l IH]; intros seen H; simpl in *.
  - split; [constructor|intros x []].
  - destruct (a_name a) as [[x n]|]; simpl.
    + apply app_eq_nil in H. destruct H as [H1 H2]. destruct (IH _ H2) as [ND Hs].
      destruct (mem_str x seen) eqn:E; [discriminate|]. split.
      * constructor; [|exact ND]. intros Hin. apply (Hs x Hin). left. reflexivity.
      * intros y [Hy|Hy]; [subst; intros Hin; apply mem_str_In in Hin; rewrite Hin in E; discriminate|].
        intros Hin. apply (Hs y Hy). right. exact Hin.
    + apply IH. exact H.
Qed.

Lemma map_opt_back {A B} (f : A -> option B) : forall l r y, map_opt f l = Some r -> In y r -> exists x, In x l /\ f x = Some y.
Proof.
  induction l as [|a l IH]; intros r y H Hin; simpl in H; [inversion H; subst; destruct Hin|].
  destruct (f a) as [b|] eqn:E; [|discriminate]. destruct (map_opt f l) as [ys|] eqn:E2; [|discriminate].
  inversion H; subst. destruct Hin as [Hy|Hin].
  - subst. exists a. split; [left; reflexivity|exact E].
  - destruct (IH ys y eq_refl Hin) as [x [Hx Hf]]. exists x. split; [right; exact Hx|exact Hf].
Qed.

Lemma finish_param_export p y : p_export p <> XTrue -> finish_param p = Some y -> p_export y = p_export p /\ p_name y = p_name p.
Proof.
  intros NX. unfold finish_param. destruct (p_iscmd p); [intros H; inversion H; auto|].
  destruct (finish_constant p) as [[cst ro]|]; [|discriminate].
  destruct (refit (p_dt p) (p_default p)); [|discriminate]. destruct (refit (p_dt p) (p_value p)); [|discriminate].
  intros H; inversion H; subst; simpl. destruct (p_export p); try contradiction; auto.
Qed.

(* requests are resolved under exactly the export names of the final accessibles, each name at most once *)
Lemma created_names C c i : mod_init C c = Created i ->
  NoDup (map fst (i_names i)) /\
  forall s n, In (s, n) (i_names i) <-> exists p', In p' (i_params i) /\ p_name p' = n /\ p_export p' = XName s.
Proof.
  intros H. destruct (created_inv _ _ _ H) as [mv [accs [ps [_ [EB [_ [Edup [_ [EF [_ [_ Ei]]]]]]]]]]]. subst i. simpl.
  split; [apply (dup_errs_nodup _ _ Edup)|].
  pose proof (phaseB_shape _ _ _ _ EB) as Sh. rewrite Forall_forall in Sh.
  intros s n. unfold names_of. rewrite in_flat_map. split.
  - intros [a [Ha Hn]]. destruct (Sh a Ha) as [Hna NX]. rewrite Hna in Hn. unfold name_of in Hn.
    destruct (p_export (a_param a)) as [| |s'] eqn:Ex; [destruct Hn|destruct Hn|]. destruct Hn as [Hn|[]]. inversion Hn; subst.
    destruct (map_opt_in finish_param _ _ (a_param a) EF) as [y [Hy Hyin]]; [apply in_map; exact Ha|].
    assert (NX' : p_export (a_param a) <> XTrue) by (rewrite Ex; discriminate).
    destruct (finish_param_export _ _ NX' Hy) as [Fx Fn].
    destruct (apply_main_keeps (main_unit ps) y) as [M1 [_ [_ [_ [_ [_ M7]]]]]].
    exists (apply_main (main_unit ps) y). split; [apply in_map; exact Hyin|]. split; [congruence|congruence].
  - intros [p' [Hin [Hn Hx]]]. apply in_map_iff in Hin. destruct Hin as [y [Hy Hyin]]. subst p'.
    destruct (map_opt_back finish_param _ _ y EF Hyin) as [q [Hq Hf]]. apply in_map_iff in Hq. destruct Hq as [a [Haq Ha]]. subst q.
    destruct (Sh a Ha) as [Hna NX]. destruct (finish_param_export _ _ NX Hf) as [Fx Fn].
    destruct (apply_main_keeps (main_unit ps) y) as [M1 [_ [_ [_ [_ [_ M7]]]]]].
    exists a. split; [exact Ha|]. rewrite Hna. unfold name_of. rewrite <- Fx, <- M7, Hx. left. congruence.
Qed.

(* ------------------------------------------------------------------ Param(value, overrides): the value is checked by, and
   converted with, the CONFIGURED datatype *)
Lemma dict_set_absent {A} k (v : A) : forall l, assoc_str k l = None -> dict_set k v l = l ++ [(k, v)].
Proof.
  induction l as [|[k' x] l IH]; simpl; intros H; [reflexivity|].
  destruct (str_eqb k k'); [discriminate|]. rewrite (IH H). reflexivity.
Qed.
Lemma assoc_none_notin {A} k : forall (l : list (str * A)), assoc_str k l = None -> ~ In k (map fst l).
Proof.
  induction l as [|[k' x] l IH]; simpl; intros H; [tauto|].
  destruct (str_eqb k k') eqn:E; [discriminate|]. intros [Hk|Hk]; [subst; rewrite str_eqb_refl' in E; discriminate|].
  exact (IH H Hk).
Qed.
(* the dict a Param(v, kw) builds: the keyword overrides in their order, `value` last *)
Lemma param_dict_some v kw : assoc_str k_value kw = None -> param_dict (Some v) kw = kw ++ [(k_value, v)].
Proof. intros H. unfold param_dict. apply dict_set_absent. exact H. Qed.

Lemma NoDup_app_last {A} (l : list A) x : NoDup l -> ~ In x l -> NoDup (l ++ [x]).
Proof.
  induction l as [|a l IH]; simpl; intros ND Hn; [constructor; [intros []|constructor]|].
  inversion ND; subst. constructor.
  - intros Hi. apply in_app_or in Hi. destruct Hi as [Hi|[Hi|[]]]; [contradiction|subst; apply Hn; left; reflexivity].
  - apply IH; [assumption|intros Hi; apply Hn; right; exact Hi].
Qed.
Lemma value_ptype : exists t, pprop_type param_props k_value = Some t.
Proof. vm_compute. eexists. reflexivity. Qed.
Lemma value_is_checked : mem_str k_value checked_value_props = true.
Proof. vm_compute. reflexivity. Qed.

Lemma over_step_value s v : over_step s (k_value, v) = s.
Proof. unfold over_step. change (fst (k_value, v)) with k_value. destruct value_ptype as [t Ht]. rewrite Ht. reflexivity. Qed.
Lemma configured_dt_value d u kw v : configured_dt d u (kw ++ [(k_value, v)]) = configured_dt d u kw.
Proof.
  unfold configured_dt. rewrite configured_app. unfold configured at 1. cbn [fold_left]. rewrite over_step_value. reflexivity.
Qed.

Lemma value_step p1 v : p_iscmd p1 = false -> prop_step (PGo p1) (k_value, v) = PGo (set_value p1 (nn v)).
Proof.
  intros Hc. unfold prop_step. rewrite Hc. unfold param_setprop.
  destruct value_ptype as [t Ht]. rewrite Ht, str_eqb_refl'. reflexivity.
Qed.

Lemma assoc_app_last {A} k (v : A) : forall l, assoc_str k l = None -> assoc_str k (l ++ [(k, v)]) = Some v.
Proof.
  induction l as [|[k' x] l IH]; simpl; intros H; [rewrite str_eqb_refl'; reflexivity|].
  destruct (str_eqb k k'); [discriminate|]. apply IH. exact H.
Qed.
Lemma assoc_app_other {A} k k2 (v : A) : forall l, str_eqb k k2 = false -> assoc_str k (l ++ [(k2, v)]) = assoc_str k l.
Proof.
  induction l as [|[k' x] l IH]; simpl; intros H; [rewrite H; reflexivity|].
  destruct (str_eqb k k'); [reflexivity|]. apply IH. exact H.
Qed.

Lemma value_checked C c p d v kw :
  In p (c_params C) -> p_optional p = false -> p_iscmd p = false -> p_dt p = Some d ->
  assoc_str k_value kw = None -> NoDup (map fst kw) ->
  assoc_str (p_name p) c = Some (CDict (param_dict (Some v) kw)) ->
  exists dcfg, configured_dt d (p_unit p) kw = Some dcfg /\
    (forall i, mod_init C c = Created i ->
       exists p' c1, In p' (i_params i) /\ p_name p' = p_name p /\ p_dt p' = Some dcfg /\ conv dcfg v = Ok c1 /\
         p_value p' = match conv dcfg c1 with Ok c2 => Some c2 | Err _ => None end /\
         (p_has_write p = true -> In (p_name p, v) (i_write i))) /\
    (forall e i, conv dcfg v = Err e -> mod_init C c <> Created i) /\
    (forall e es p1, conv dcfg v = Err e -> is_bad_value e = true -> apply_entry_keep p kw = (p1, PGo p1) ->
       mod_init C c = Rejected es -> In (ErrBadValue (p_name p) k_value) es) /\
    (forall c1 p1 mexp, conv dcfg v = Ok c1 -> apply_entry_keep p kw = (p1, PGo p1) ->
       (forall k v', In k [k_default; k_constant] -> assoc_str k kw = Some v' -> exists c', conv dcfg v' = Ok c') ->
       exists a, acc_step mexp p (Some (CDict (param_dict (Some v) kw))) = Some a /\ a_errs a = [] /\
         p_dt (a_param a) = Some dcfg /\ p_value (a_param a) = Some c1 /\
         a_write a = (if p_has_write p then Some v else None)).
Proof.
  intros Hin Ho Hc Hd Hkw NDk Hcfg. rewrite (param_dict_some _ _ Hkw) in *.
  destruct (configured_some kw (Some d, p_unit p) d eq_refl) as [dcfg Hdc]. exists dcfg. split; [exact Hdc|].
  assert (NDe : NoDup (map fst (kw ++ [(k_value, v)]))).
  { rewrite map_app. simpl. apply NoDup_app_last; [exact NDk|apply assoc_none_notin; exact Hkw]. }
  assert (A1 : forall i, mod_init C c = Created i ->
       exists p' c1, In p' (i_params i) /\ p_name p' = p_name p /\ p_dt p' = Some dcfg /\ conv dcfg v = Ok c1 /\
         p_value p' = match conv dcfg c1 with Ok c2 => Some c2 | Err _ => None end /\
         (p_has_write p = true -> In (p_name p, v) (i_write i))).
  { intros i H.
    assert (Hiv : In (k_value, v) (kw ++ [(k_value, v)])) by (apply in_or_app; right; left; reflexivity).
    destruct (value_applied _ _ _ _ _ _ _ H Hin Ho Hc Hd Hcfg NDe Hiv) as [p' [d' [c1 [Hp' [Hn [Hd' [Hpd [Hc1 [Hval [Hw _]]]]]]]]]].
    rewrite configured_dt_value in Hd'. unfold configured_dt in Hd', Hdc. rewrite Hdc in Hd'. inversion Hd'; subst d'.
    exists p', c1. repeat split; assumption. }
  (* the entry with the value appended: all properties apply when the overrides do *)
  assert (PD : forall p1, apply_entry_keep p kw = (p1, PGo p1) ->
            p_iscmd p1 = false /\ p_dt p1 = Some dcfg /\ keeps p p1 /\
            apply_entry_keep p (kw ++ [(k_value, v)]) = (set_value p1 (nn v), PGo (set_value p1 (nn v)))).
  { intros p1 Hpre. destruct (entry_inv _ _ _ Hc Hpre) as [K [DU _]].
    assert (Hcp : p_iscmd p1 = false) by (rewrite (k_cmd _ _ K); exact Hc).
    split; [exact Hcp|]. split; [|split; [exact K|]].
    - unfold dtu in DU. rewrite Hd in DU. unfold configured_dt in Hdc. rewrite <- DU in Hdc. exact Hdc.
    - rewrite (apply_entry_keep_app _ _ _ _ Hpre), apply_entry_keep_cons, (value_step _ _ Hcp). reflexivity. }
  split; [exact A1|]. split; [|split].
  - intros e i He H. destruct (A1 i H) as [p' [c1 [_ [_ [_ [Hc1 _]]]]]]. rewrite He in Hc1. discriminate.
  - intros e es p1 He Hb Hpre H. destruct (PD p1 Hpre) as [Hcp [Hd1 [K Happ]]].
    rewrite <- (k_name _ _ K). change (p_name p1) with (p_name (set_value p1 (nn v))).
    eapply check_error_listed; try eassumption.
    rewrite checked_order. simpl. rewrite (assoc_app_last _ _ _ Hkw). change (p_iscmd (set_value p1 (nn v))) with (p_iscmd p1).
    rewrite Hcp. change (p_dt (set_value p1 (nn v))) with (p_dt p1). rewrite Hd1, He, Hb. reflexivity.
  - intros c1 p1 mexp Hc1 Hpre Hdc2. destruct (PD p1 Hpre) as [Hcp [Hd1 [K Happ]]].
    rewrite (conv_ok_nn _ _ _ Hc1) in Happ.
    set (q := set_value p1 (Some v)) in *.
    assert (Hck : check_loop q (kw ++ [(k_value, v)]) checked_value_props = PGo q).
    { apply (check_loop_pass q _ dcfg Hcp Hd1). rewrite checked_order. intros k v' [Hk|Hk] Ha.
      - subst k. rewrite (assoc_app_last _ _ _ Hkw) in Ha. inversion Ha; subst v'. exists c1. exact Hc1.
      - assert (str_eqb k k_value = false) as Hne by (destruct Hk as [Hk|[Hk|[]]]; subst k; reflexivity).
        rewrite (assoc_app_other _ _ _ _ Hne) in Ha. eapply Hdc2; eassumption. }
    unfold acc_step, apply_entry. rewrite Happ, Hck. cbv beta iota zeta.
    destruct (post_keeps mexp q) as [K0 [PV [_ [_ [PD0 _]]]]].
    rewrite post_cmd. change (p_iscmd q) with (p_iscmd p1). rewrite Hcp.
    unfold handle_writes. rewrite PD0, PV. change (p_dt q) with (p_dt p1). change (p_value q) with (Some v).
    rewrite Hd1, Hc1. eexists. split; [reflexivity|]. simpl. split; [reflexivity|].
    split; [rewrite PD0; exact Hd1|]. split; [reflexivity|].
    rewrite (k_hw _ _ K0). change (p_has_write q) with (p_has_write p1). rewrite (k_hw _ _ K). reflexivity.
Qed.

(* the corollary in the old shape: as long as a Param entry overrides only limits and unit, the datatype of the instance
   converts like the class-level datatype *)
Lemma limits_only_app a b : limits_only (a ++ b) = limits_only a && limits_only b.
Proof. unfold limits_only. apply forallb_app. Qed.
