(* C10 - executable model of how a module configuration is applied or rejected:
   config DSL (Mod/Param/Group, module-name check), merging of several files, Module.__init__ (module properties,
   parameter cfg, _handle_writes, finish, main unit, checkProperties, error collection), SecNode registration rule,
   node-level aggregation, and the start-up part of the poll thread (writeInitParams before the first polls).
   Datatype conversion/validation is the validated C01 model (dt_call / dt_validate).  No proofs here. *)
From Coq Require Import String Ascii.
From Coq Require Import ZArith NArith Bool List.
Import ListNotations.
Local Open Scope list_scope.
Require Import FV.Base.Util FV.Base.F64 FV.Base.PyVal FV.C01.Model FV.Gen.C10.

(* ------------------------------------------------------------------ names *)
Fixpoint s_ (x : string) : str :=
  match x with EmptyString => [] | String a r => N_of_ascii a :: s_ r end.
Definition k_value := s_ "value".
Definition k_default := s_ "default".
Definition k_constant := s_ "constant".
Definition k_min := s_ "min".
Definition k_max := s_ "max".
Definition k_unit := s_ "unit".
Definition k_readonly := s_ "readonly".
Definition k_group := s_ "group".
Definition k_visibility := s_ "visibility".
Definition k_description := s_ "description".
Definition k_export := s_ "export".
Definition k_needscfg := s_ "needscfg".
Definition k_original_id := s_ "original_id".
Definition k_implementation := s_ "implementation".
Definition k_interface_classes := s_ "interface_classes".
Definition k_features := s_ "features".
Definition k_minchars := s_ "minchars".
Definition k_maxchars := s_ "maxchars".
Definition k_isutf8 := s_ "isUTF8".
Definition k_minbytes := s_ "minbytes".
Definition k_maxbytes := s_ "maxbytes".
Definition k_minlen := s_ "minlen".
Definition k_maxlen := s_ "maxlen".
Definition c_string := s_ "StringType".
Definition c_blob := s_ "BLOBType".
Definition c_array := s_ "ArrayOf".

Definition conv (d : dtype) (v : pyval) : res pyval := dt_call d v.           (* datatype(value) *)
Definition valid (d : dtype) (v : pyval) : res pyval := dt_validate d v PNone. (* datatype.validate(value) *)

Definition relres0 : f64 := fmk (fst float_default_relres) (snd float_default_relres).
Definition vis_members : list (str * Z) := [(s_ "user", 1%Z); (s_ "advanced", 2%Z); (s_ "expert", 3%Z)].

(* ------------------------------------------------------------------ property datatypes (module / parameter properties) *)
Inductive mptype :=
| MBool | MString | MText | MVis | MFloat (mn mx : f64) | MInt (mn mx : Z)
| MNoneOrString | MNoneOrFloat | MBoolOrString | MNoneOrBool | MUnmodelled.

Definition decode_ptype (kind : nat) (fl : list (Z * Z)) : mptype :=
  match kind, fl with
  | 0, _ => MBool | 1, _ => MString | 2, _ => MText | 3, _ => MVis
  | 4, [a; b] => MFloat (fmk (fst a) (snd a)) (fmk (fst b) (snd b))
  | 5, _ => MNoneOrString | 6, _ => MNoneOrFloat | 7, _ => MBoolOrString | 8, _ => MNoneOrBool
  | _, _ => MUnmodelled
  end.

(* Property.datatype.validate(value) *)
Definition mp_validate (t : mptype) (v : pyval) : res pyval :=
  match t with
  | MBool => bool_call v
  | MString | MText => string_call 0 unlimited false v
  | MVis => enum_call vis_members v
  | MFloat mn mx => float_validate mn mx fzero relres0 v
  | MInt mn mx => int_validate mn mx v
  | MNoneOrString => match v with PNone => Ok PNone | _ => string_call 0 unlimited false v end
  | MNoneOrFloat => match v with PNone => Ok PNone | _ => float_call v end
  | MNoneOrBool => match v with PNone => Ok PNone | _ => bool_call v end
  | MBoolOrString =>                                  (* OrType: first member type that validates *)
      match bool_call v with
      | Ok b => Ok b
      | Err _ => match string_call 0 unlimited false v with Ok s => Ok s | Err _ => Err EWrongType end
      end
  | MUnmodelled => Err EOther
  end.

Record mpspec := { mp_name : str; mp_type : mptype; mp_mandatory : bool }.
Definition decode_row (r : list N * nat * list (Z * Z) * bool) : mpspec :=
  let '(n, k, fl, m) := r in {| mp_name := n; mp_type := decode_ptype k fl; mp_mandatory := m |}.
Definition base_mprops : list mpspec := map decode_row module_props.
Definition pprop_type (table : list (list N * nat * list (Z * Z) * bool)) (k : str) : option mptype :=
  option_map mp_type (find (fun sp => str_eqb k (mp_name sp)) (map decode_row table)).

(* ------------------------------------------------------------------ class descriptors *)
Inductive expo := XFalse | XTrue | XName (s : str).

Record param := {
  p_name : str;
  p_iscmd : bool;
  p_optional : bool;
  p_predef : bool;                (* predefined accessible of the same kind: export name = name, else '_' + name *)
  p_dt : option dtype;            (* None: no datatype given (the ValueType default) / a command *)
  p_unit : str;                   (* unit of the numeric leaf (float / scaled, directly or as array element) *)
  p_dtdefault : pyval;            (* datatype.default of the class-level datatype (data) *)
  p_descr : option str;
  p_readonly : bool;
  p_needscfg : bool;
  p_export : expo;
  p_visibility : Z;
  p_group : str;
  p_default : option pyval;
  p_value : option pyval;
  p_has_write : bool;            (* the instance has a write_<p> attribute (driver method or generated wrapper) *)
  p_wfunc : bool;                (* the class defines a driver method write_<p> *)
  p_polled : bool;                (* has a read method with poll = True *)
  p_uninit : bool;                (* instance only: the "not initialized" readerror marker *)
  p_takes : list str;             (* script of the driver method write_<p>: pending start values of these parameters are
                                     taken over (popped from self.writeDict and written through their write_<q>), in
                                     this order, like frappy.rwhandler.CommonWriteHandler does *)
  p_constant : option pyval;      (* the `constant` property: class level = the exported form Parameter.finish stored at
                                     class creation; None = not set (Python None) *)
}.

Definition upd_param (p : param) (dt : option dtype) (unit : str) (descr : option str) (ro nc : bool) (ex : expo)
  (vis : Z) (grp : str) (dflt val : option pyval) (uninit : bool) : param :=
  {| p_name := p_name p; p_iscmd := p_iscmd p; p_optional := p_optional p; p_predef := p_predef p;
     p_dt := dt; p_unit := unit; p_dtdefault := p_dtdefault p; p_descr := descr; p_readonly := ro; p_needscfg := nc;
     p_export := ex; p_visibility := vis; p_group := grp; p_default := dflt; p_value := val;
     p_has_write := p_has_write p; p_wfunc := p_wfunc p; p_polled := p_polled p; p_uninit := uninit;
     p_takes := p_takes p; p_constant := p_constant p |}.
Definition set_constant (p : param) (x : option pyval) : param :=
  {| p_name := p_name p; p_iscmd := p_iscmd p; p_optional := p_optional p; p_predef := p_predef p;
     p_dt := p_dt p; p_unit := p_unit p; p_dtdefault := p_dtdefault p; p_descr := p_descr p; p_readonly := p_readonly p;
     p_needscfg := p_needscfg p; p_export := p_export p; p_visibility := p_visibility p; p_group := p_group p;
     p_default := p_default p; p_value := p_value p; p_has_write := p_has_write p; p_wfunc := p_wfunc p;
     p_polled := p_polled p; p_uninit := p_uninit p; p_takes := p_takes p; p_constant := x |}.
Definition set_dt p d u := upd_param p (Some d) u (p_descr p) (p_readonly p) (p_needscfg p) (p_export p)
  (p_visibility p) (p_group p) (p_default p) (p_value p) (p_uninit p).
Definition set_descr p x := upd_param p (p_dt p) (p_unit p) (Some x) (p_readonly p) (p_needscfg p) (p_export p)
  (p_visibility p) (p_group p) (p_default p) (p_value p) (p_uninit p).
Definition set_readonly p x := upd_param p (p_dt p) (p_unit p) (p_descr p) x (p_needscfg p) (p_export p)
  (p_visibility p) (p_group p) (p_default p) (p_value p) (p_uninit p).
Definition set_needscfg p x := upd_param p (p_dt p) (p_unit p) (p_descr p) (p_readonly p) x (p_export p)
  (p_visibility p) (p_group p) (p_default p) (p_value p) (p_uninit p).
Definition set_export p x := upd_param p (p_dt p) (p_unit p) (p_descr p) (p_readonly p) (p_needscfg p) x
  (p_visibility p) (p_group p) (p_default p) (p_value p) (p_uninit p).
Definition set_visibility p x := upd_param p (p_dt p) (p_unit p) (p_descr p) (p_readonly p) (p_needscfg p) (p_export p)
  x (p_group p) (p_default p) (p_value p) (p_uninit p).
Definition set_group p x := upd_param p (p_dt p) (p_unit p) (p_descr p) (p_readonly p) (p_needscfg p) (p_export p)
  (p_visibility p) x (p_default p) (p_value p) (p_uninit p).
Definition set_default p x := upd_param p (p_dt p) (p_unit p) (p_descr p) (p_readonly p) (p_needscfg p) (p_export p)
  (p_visibility p) (p_group p) x (p_value p) (p_uninit p).
Definition set_value p x := upd_param p (p_dt p) (p_unit p) (p_descr p) (p_readonly p) (p_needscfg p) (p_export p)
  (p_visibility p) (p_group p) (p_default p) x (p_uninit p).
Definition set_dv p d v u := upd_param p (p_dt p) (p_unit p) (p_descr p) (p_readonly p) (p_needscfg p) (p_export p)
  (p_visibility p) (p_group p) d v u.

Record cls := {
  c_params : list param;          (* cls.accessibles in order (after class creation) *)
  c_props : list mpspec;          (* module properties added by the class, after the ones of Module *)
  c_enablepoll : bool;
}.
Definition all_mprops (c : cls) : list mpspec := base_mprops ++ c_props c.

(* ------------------------------------------------------------------ configuration as Module.__init__ receives it *)
Definition entry := list (str * pyval).                 (* one Param(...) dict, insertion order *)
Inductive cval := CRaw (v : pyval) | CDict (e : entry).
Definition cfg := list (str * cval).                    (* the module section without 'cls' *)

Inductive err :=
| ErrModProp (key : str)                (* '<key>: value ... does not match ...' *)
| ErrNoProp (name prop : str)           (* "'<name>' has no property '<prop>'" *)
| ErrBadValue (name prop : str)         (* '<name>.<prop>: ...' *)
| ErrNeedsDt (name : str)               (* '<name> needs a datatype' *)
| ErrNeedsCfg (name : str)              (* "'<name>' has no default value and was not given in config!" *)
| ErrUnknown (names : list str)         (* '<a>, <b> does not exist (use one of ...)' *)
| ErrMandatory (prop : str)             (* module property '<prop> needs a value of type ...' *)
| ErrCheck (name : str)                 (* '<aname>: ...' from the accessible's checkProperties *)
| ErrDupExport (name : str).            (* '<name>: export name ... is already used by ...' *)

(* ------------------------------------------------------------------ phase A: module properties *)
Definition mvals := list (str * pyval).

(* None = an exception other than BadValueError leaves __init__ *)
Definition mprop_step (c : cfg) (acc : option (mvals * list err)) (sp : mpspec) : option (mvals * list err) :=
  match acc with
  | None => None
  | Some (mv, es) =>
      match assoc_str (mp_name sp) c with
      | None => acc
      | Some cv =>
          let ov := match cv with CRaw v => Some v | CDict e => assoc_str k_value e end in
          match cv, ov with
          | CRaw PNone, _ => acc                           (* `if value is not None` *)
          | _, None => None                                (* KeyError 'value' *)
          | _, Some v =>
              match mp_validate (mp_type sp) v with
              | Ok x => Some (dict_set (mp_name sp) x mv, es)
              | Err e => if is_bad_value e then Some (mv, es ++ [ErrModProp (mp_name sp)]) else None
              end
          end
      end
  end.

Definition auto_props (mv : mvals) : mvals :=
  dict_set k_features POpaque (dict_set k_interface_classes POpaque (dict_set k_implementation POpaque mv)).

Definition phaseA (C : cls) (c : cfg) : option (mvals * list err) :=
  match fold_left (mprop_step c) (all_mprops C) (Some ([], [])) with
  | None => None
  | Some (mv, es) => Some (auto_props mv, es)
  end.

Definition mexport (mv : mvals) : bool :=
  match assoc_str k_export mv with Some (PBool false) => false | _ => true end.

(* ------------------------------------------------------------------ datatype properties settable from cfg *)
Definition unl_float (v : pyval) : res pyval := float_validate (fopp fmaxval) fmaxval fzero relres0 v.
Definition unl_int (v : pyval) : res pyval := int_validate (- unlimited) unlimited v.
Definition unit_validate (v : pyval) : res pyval := string_call 0 unlimited true v.

(* the length properties of StringType / BLOBType / ArrayOf: `Property(..., IntRange(lo, hi), ...)`, bounds from the
   translator table dt_length_props (class, property, lo, hi); HasProperties.setProperty validates with them *)
Definition len_validate (cls k : str) (v : pyval) : res pyval :=
  match find (fun r => str_eqb cls (fst (fst (fst r))) && str_eqb k (snd (fst (fst r)))) dt_length_props with
  | Some (_, _, lo, hi) => int_validate lo hi v
  | None => Err EOther
  end.
Definition set_len (cls k : str) (v : pyval) : option Z :=
  match len_validate cls k v with Ok (PInt z) => Some z | _ => None end.

(* datatype.setProperty(key, value) for the modelled leaves; None = KeyError / BadValueError, which Parameter.setProperty
   turns into ProgrammingError.  min/max/unit of the numeric types do not influence the conversion datatype(value);
   minchars/maxchars/isUTF8 of a string and minbytes/maxbytes of a blob DO: they decide which values are legal *)
Definition leaf_setprop (d : dtype) (u : str) (k : str) (v : pyval) : option (dtype * str) :=
  match d with
  | TFloat mn mx a r =>
      if str_eqb k k_min then match unl_float v with Ok (PFloat f) => Some (TFloat f mx a r, u) | _ => None end
      else if str_eqb k k_max then match unl_float v with Ok (PFloat f) => Some (TFloat mn f a r, u) | _ => None end
      else if str_eqb k k_unit then match unit_validate v with Ok (PStr s) => Some (d, s) | _ => None end
      else None
  | TInt mn mx =>
      if str_eqb k k_min then match unl_int v with Ok (PInt z) => Some (TInt z mx, u) | _ => None end
      else if str_eqb k k_max then match unl_int v with Ok (PInt z) => Some (TInt mn z, u) | _ => None end
      else None
  | TScaled sc mn mx =>
      if str_eqb k k_min then match unl_float v with Ok (PFloat f) => Some (TScaled sc f mx, u) | _ => None end
      else if str_eqb k k_max then match unl_float v with Ok (PFloat f) => Some (TScaled sc mn f, u) | _ => None end
      else if str_eqb k k_unit then match unit_validate v with Ok (PStr s) => Some (d, s) | _ => None end
      else None
  | TString a b u8 =>
      if str_eqb k k_minchars then match set_len c_string k v with Some z => Some (TString z b u8, u) | None => None end
      else if str_eqb k k_maxchars then match set_len c_string k v with Some z => Some (TString a z u8, u) | None => None end
      else if str_eqb k k_isutf8 then match bool_call v with Ok (PBool x) => Some (TString a b x, u) | _ => None end
      else None
  | TBlob a b =>
      if str_eqb k k_minbytes then match set_len c_blob k v with Some z => Some (TBlob z b, u) | None => None end
      else if str_eqb k k_maxbytes then match set_len c_blob k v with Some z => Some (TBlob a z, u) | None => None end
      else None
  | _ => None
  end.

(* ArrayOf.setProperty: its own properties minlen / maxlen, every other key is forwarded to the element type
   (through nested arrays) *)
Fixpoint dt_setprop (d : dtype) (u : str) (k : str) (v : pyval) {struct d} : option (dtype * str) :=
  match d with
  | TArray elem a b =>
      if str_eqb k k_minlen then match set_len c_array k v with Some z => Some (TArray elem z b, u) | None => None end
      else if str_eqb k k_maxlen then match set_len c_array k v with Some z => Some (TArray elem a z, u) | None => None end
      else match dt_setprop elem u k v with Some (e', u') => Some (TArray e' a b, u') | None => None end
  | _ => leaf_setprop d u k v
  end.

(* ------------------------------------------------------------------ phase B: one accessible with its cfg entry *)
Inductive pres := PCrash | PErr (e : err) | PGo (p : param).

(* setProperty('value' / 'default', None) stores Python's None: for `pobj.value is None` / `pobj.default is None` in
   _handle_writes and for Parameter.finish (None never converts, the entry is cleared) that is the same as not set.
   (Since 8b6cdcd the property is set BEFORE the datatype check fails on it.) *)
Definition nn (v : pyval) : option pyval := match v with PNone => None | _ => Some v end.

(* Parameter.setProperty(key, v): first loop of the cfg entry; only called on PGo *)
Definition param_setprop (p : param) (k : str) (v : pyval) : pres :=
  match pprop_type param_props k with
  | Some t =>
      if str_eqb k k_value then PGo (set_value p (nn v))            (* ValueType: stored as given *)
      else if str_eqb k k_default then PGo (set_default p (nn v))
      else if str_eqb k k_constant then PGo (set_constant p (nn v))  (* ValueType too; converted by Parameter.finish *)
      else
        match mp_validate t v with
        | Err _ => PCrash                                          (* BadValueError -> ProgrammingError *)
        | Ok x =>
            if str_eqb k k_readonly then match x with PBool b => PGo (set_readonly p b) | _ => PCrash end
            else if str_eqb k k_needscfg then
              match x with PBool b => PGo (set_needscfg p b) | PNone => PGo (set_needscfg p false) | _ => PCrash end
            else if str_eqb k k_visibility then match x with PEnum _ z => PGo (set_visibility p z) | _ => PCrash end
            else if str_eqb k k_group then match x with PStr s => PGo (set_group p s) | _ => PCrash end
            else if str_eqb k k_description then match x with PStr s => PGo (set_descr p s) | _ => PCrash end
            else if str_eqb k k_export then
              match x with
              | PBool b => PGo (set_export p (if b then XTrue else XFalse))
              | PStr s => PGo (set_export p (XName s))
              | _ => PCrash
              end
            else PCrash                                            (* datatype, update_unchanged, influences: not modelled *)
        end
  | None =>
      match p_dt p with
      | None => PGo p                                              (* ValueType.setProperty: silently ignored *)
      | Some d => match dt_setprop d (p_unit p) k v with Some (d', u') => PGo (set_dt p d' u') | None => PCrash end
      end
  end.

(* Command.setProperty: KeyError passes (collected), WrongTypeError passes (collected), RangeError is a ValueError
   and becomes ProgrammingError *)
Definition cmd_setprop (p : param) (k : str) (v : pyval) : pres :=
  match pprop_type command_props k with
  | None => PErr (ErrNoProp (p_name p) k)
  | Some t =>
      match mp_validate t v with
      | Err EWrongType => PErr (ErrBadValue (p_name p) k)
      | Err _ => PCrash
      | Ok x =>
          if str_eqb k k_visibility then match x with PEnum _ z => PGo (set_visibility p z) | _ => PCrash end
          else if str_eqb k k_group then match x with PStr s => PGo (set_group p s) | _ => PCrash end
          else if str_eqb k k_description then match x with PStr s => PGo (set_descr p s) | _ => PCrash end
          else if str_eqb k k_export then
            match x with
            | PBool b => PGo (set_export p (if b then XTrue else XFalse))
            | PStr s => PGo (set_export p (XName s))
            | _ => PCrash
            end
          else PCrash
      end
  end.

(* first loop of Module._add_accessible (since 8b6cdcd): accessible.setProperty for every item of the entry, in dict
   order; no datatype check here *)
Definition prop_step (r : pres) (kv : str * pyval) : pres :=
  match r with
  | PGo p =>
      let '(k, v) := kv in
      if p_iscmd p then cmd_setprop p k v else param_setprop p k v
  | _ => r
  end.

(* second loop: AFTER all properties are applied `for propname in ('value', 'default', 'constant'): if propname in cfg:
   accessible.datatype(cfg[propname])` - in this fixed order, with the final datatype; the first failure ends the entry
   (BadValueError collected as '<name>.<propname>: ...', anything else leaves __init__).  A command never gets here with
   one of these keys (they are no Command properties: KeyError in the first loop); CommandType(value) is outside the model *)
Fixpoint check_loop (p : param) (en : entry) (ks : list str) : pres :=
  match ks with
  | [] => PGo p
  | k :: r =>
      match assoc_str k en with
      | None => check_loop p en r
      | Some v =>
          if p_iscmd p then PCrash
          else match p_dt p with
               | None => check_loop p en r
               | Some d => match conv d v with
                           | Ok _ => check_loop p en r
                           | Err e => if is_bad_value e then PErr (ErrBadValue (p_name p) k) else PCrash
                           end
               end
      end
  end.

(* _handle_writes: returns the parameter, the errors and the writeDict entry *)
Definition handle_writes (p : param) : param * list err * option pyval :=
  match p_dt p with
  | None => (p, [ErrNeedsDt (p_name p)], None)
  | Some d =>
      match p_value p with
      | None =>
          let es := if p_needscfg p then [ErrNeedsCfg (p_name p)] else [] in
          match p_default p with
          | None => (set_dv p (Some (p_dtdefault p)) (Some (p_dtdefault p)) true, es, None)
          | Some dv => (set_dv p (Some dv) (Some dv) (p_uninit p), es, None)
          end
      | Some v =>
          let w := if p_has_write p then Some v else None in
          let dflt := match p_default p with None => Some v | x => x end in
          (* setattr(self, pname, value) -> announceUpdate: the converted value is stored; when the conversion
             fails the error goes to readerror and the value stays *)
          let v' := match conv d v with Ok c => c | Err _ => v end in
          (set_dv p dflt (Some v') (p_uninit p), [], w)
      end
  end.

Definition export_name (p : param) : str := if p_predef p then p_name p else (95%N :: p_name p).

Record accres := { a_param : param; a_errs : list err; a_write : option pyval; a_name : option (str * str) }.

(* a failing property stops the loop: the properties applied before it stay applied, _handle_writes still runs *)
Fixpoint apply_entry_keep (p : param) (e : entry) : param * pres :=
  match e with
  | [] => (p, PGo p)
  | kv :: r =>
      match prop_step (PGo p) kv with
      | PGo p' => apply_entry_keep p' r
      | x => (p, x)
      end
  end.
(* the whole try block: all properties, then the checks of value / default / constant with the final datatype (a failing
   check leaves all properties applied) *)
Definition apply_entry (p : param) (e : entry) : param * pres :=
  match apply_entry_keep p e with
  | (p1, PGo _) => (p1, check_loop p1 e checked_value_props)
  | x => x
  end.

(* after the cfg entry (also when it failed): hiding for an unexported module, fixExport, then the name map *)
Definition fix_export (p : param) : param :=
  match p_export p with XTrue => set_export p (XName (export_name p)) | _ => p end.
Definition post (mexp : bool) (p : param) : param := fix_export (if mexp then p else set_export p XFalse).
Definition name_of (p : param) : option (str * str) :=
  match p_export p with XName s => Some (s, p_name p) | _ => None end.

Definition acc_step (mexp : bool) (p : param) (e : option cval) : option accres :=
  match e with
  | Some (CRaw _) => None
  | _ =>
      let '(pk, r) := match e with Some (CDict en) => apply_entry p en | _ => (p, PGo p) end in
      match r with
      | PCrash => None
      | PErr er =>
          let q := post mexp pk in
          if p_iscmd q then Some {| a_param := q; a_errs := [er]; a_write := None; a_name := name_of q |}
          else let '(p1, es, w) := handle_writes q in
               Some {| a_param := p1; a_errs := er :: es; a_write := w; a_name := name_of q |}
      | PGo p1 =>
          let q := post mexp p1 in
          if p_iscmd q then Some {| a_param := q; a_errs := []; a_write := None; a_name := name_of q |}
          else let '(p2, es, w) := handle_writes q in
               Some {| a_param := p2; a_errs := es; a_write := w; a_name := name_of q |}
      end
  end.

Fixpoint phaseB (mexp : bool) (ps : list param) (c : cfg) : option (list accres) :=
  match ps with
  | [] => Some []
  | p :: r =>
      if p_optional p then phaseB mexp r c
      else match acc_step mexp p (assoc_str (p_name p) c) with
           | None => None
           | Some a => match phaseB mexp r c with Some l => Some (a :: l) | None => None end
           end
  end.

(* ------------------------------------------------------------------ phase C: names left over in cfgdict *)
Definition known_names (C : cls) : list str :=
  map mp_name (all_mprops C) ++ map p_name (filter (fun p => negb (p_optional p)) (c_params C)).
Definition unknown_names (C : cls) (c : cfg) : list str :=
  filter (fun k => negb (mem_str k (known_names C))) (map fst c).

(* ------------------------------------------------------------------ phase D: Parameter.finish *)
Definition refit (d : option dtype) (v : option pyval) : option (option pyval) :=   (* outer None = crash *)
  match d, v with
  | Some dd, Some x =>
      match conv dd x with
      | Ok c => Some (Some c)
      | Err e => if is_bad_value e then Some None else None
      end
  | _, _ => Some v
  end.

(* datatype.export_value(x) for a value x that datatype(...) returned (float: float(x), int: int(x), scaled:
   int(round(x / scale)), bool, enum: int(member), string, blob: b64encode(x).decode('ascii'), array: list of the exported
   elements, struct: dict of the exported members); None = the call raises / the value has not the shape datatype(...)
   returns.  Tuples are not generated *)
Definition b64_alphabet : list N :=
  map (fun i => if i <? 26 then 65 + i else if i <? 52 then 97 + (i - 26) else if i <? 62 then 48 + (i - 52)
                else if i =? 62 then 43 else 47)%N
      (map N.of_nat (seq 0 64)).
Definition b64c (i : N) : N := nth (N.to_nat i) b64_alphabet 61%N.
Fixpoint b64enc (b : list N) : list N :=
  match b with
  | [] => []
  | [x] => [b64c (x / 4); b64c ((x mod 4) * 16); 61; 61]%N
  | [x; y] => [b64c (x / 4); b64c ((x mod 4) * 16 + y / 16); b64c ((y mod 16) * 4); 61]%N
  | x :: y :: z :: r =>
      (b64c (x / 4) :: b64c ((x mod 4) * 16 + y / 16) :: b64c ((y mod 16) * 4 + z / 64) :: b64c (z mod 64) :: b64enc r)%N
  end.
Fixpoint map_o {A B} (f : A -> option B) (l : list A) : option (list B) :=
  match l with
  | [] => Some []
  | x :: r => match f x, map_o f r with Some y, Some ys => Some (y :: ys) | _, _ => None end
  end.
Fixpoint dt_exp (d : dtype) (x : pyval) {struct d} : option pyval :=
  match d, x with
  | TFloat _ _ _ _, PFloat f => Some (PFloat f)
  | TInt _ _, PInt z => Some (PInt z)
  | TScaled sc _ _, PFloat f => match py_round (fdiv f sc) with Ok k => Some (PInt k) | Err _ => None end
  | TBool, PBool b => Some (PBool b)
  | TEnum _, PEnum _ z => Some (PInt z)
  | TString _ _ _, PStr s => Some (PStr s)
  | TBlob _ _, PBytes b => Some (PStr (b64enc b))
  | TArray e _ _, PTuple l | TArray e _ _, PList l => option_map PList (map_o (dt_exp e) l)
  | TStruct ms _ _, PDict kv =>
      option_map PDict
        ((fix go (kv : list (str * pyval)) : option (list (str * pyval)) :=
            match kv with
            | [] => Some []
            | (k, v) :: r =>
                match (fix find (ms : list (str * dtype)) : option pyval :=
                         match ms with
                         | [] => None
                         | (n, dm) :: ms' => if str_eqb k n then dt_exp dm v else find ms'
                         end) ms, go r with
                | Some j, Some r' => Some ((k, j) :: r')
                | _, _ => None
                end
            end) kv)
  | _, _ => None
  end.

(* Parameter.finish on the constant: `if self.constant is not None: constant = self.datatype(self.constant);
   self.constant = self.datatype.export_value(constant); self.readonly = True` - NOT guarded: a constant that is no value
   of the datatype raises here (the BadValueError collected before does not matter: the exception leaves __init__).
   Outer None = raises.  Without a datatype (ValueType) the constant stays as it is *)
Definition finish_constant (p : param) : option (option pyval * bool) :=
  match p_constant p with
  | None => Some (None, p_readonly p)
  | Some c =>
      match p_dt p with
      | None => Some (Some c, true)
      | Some d => match conv d c with
                  | Ok x => match dt_exp d x with Some j => Some (Some j, true) | None => None end
                  | Err _ => None
                  end
      end
  end.

Definition finish_param (p : param) : option param :=
  if p_iscmd p then Some p
  else
    let ex := match p_export p with XTrue => XName (export_name p) | x => x end in
    match finish_constant p, refit (p_dt p) (p_default p), refit (p_dt p) (p_value p) with
    | Some (cst, ro), Some d', Some v' =>
        Some (set_constant (set_readonly (set_dv (set_export p ex) d' v' (p_uninit p)) ro) cst)
    | _, _, _ => None
    end.

Fixpoint map_opt {A B} (f : A -> option B) (l : list A) : option (list B) :=
  match l with
  | [] => Some []
  | x :: r => match f x, map_opt f r with Some y, Some ys => Some (y :: ys) | _, _ => None end
  end.

(* ------------------------------------------------------------------ phase E: main unit *)
Definition dollar : N := 36%N.
Definition subst_unit (main u : str) : str := flat_map (fun c => if N.eqb c dollar then main else [c]) u.
Definition has_dollar (u : str) : bool := existsb (N.eqb dollar) u.
Definition carries_unit (d : dtype) : bool :=
  match d with
  | TFloat _ _ _ _ | TScaled _ _ _ => true
  | TArray (TFloat _ _ _ _) _ _ | TArray (TScaled _ _ _) _ _ => true
  | _ => false
  end.
Definition find_param (n : str) (ps : list param) : option param := find (fun p => str_eqb n (p_name p)) ps.
Definition main_unit (ps : list param) : str :=
  match find_param k_value ps with
  | Some p => if p_iscmd p then [] else
              match p_dt p with Some d => if carries_unit d then p_unit p else [] | None => [] end
  | None => []
  end.
Definition apply_main (main : str) (p : param) : param :=
  match main, p_dt p with
  | _ :: _, Some d =>
      if negb (p_iscmd p) && carries_unit d && has_dollar (p_unit p) then set_dt p d (subst_unit main (p_unit p)) else p
  | _, _ => p
  end.

(* ------------------------------------------------------------------ phase F: checkProperties *)
Definition leaf_inverted (d : dtype) : bool :=
  match d with
  | TFloat mn mx _ _ => flt mx mn
  | TInt mn mx => (mx <? mn)%Z
  | TScaled _ mn mx => flt mx mn
  | TString a b _ => (b <? a)%Z                       (* minchars > maxchars *)
  | TBlob a b => (b <? a)%Z                           (* minbytes > maxbytes *)
  | _ => false
  end.
(* ArrayOf.checkProperties: minlen > maxlen, then the element type *)
Fixpoint dt_inverted (d : dtype) : bool :=
  match d with TArray e a b => (b <? a)%Z || dt_inverted e | _ => leaf_inverted d end.
Definition check_param (p : param) : list err :=
  match p_descr p with
  | None => [ErrCheck (p_name p)]
  | Some _ =>
      if p_iscmd p then []
      else match p_dt p with
           | Some d => if dt_inverted d then [ErrCheck (p_name p)] else []
           | None => [ErrCheck (p_name p)]
           end
  end.
Definition check_module (C : cls) (mv : mvals) : list err :=
  match find (fun sp => mp_mandatory sp && match assoc_str (mp_name sp) mv with None => true | Some _ => false end)
             (all_mprops C) with
  | Some sp => [ErrMandatory (mp_name sp)]
  | None => []
  end.

(* ------------------------------------------------------------------ Module.__init__ *)
Record inst := {
  i_mvals : mvals;
  i_params : list param;
  i_write : list (str * pyval);       (* writeDict, insertion order *)
  i_names : list (str * str);         (* accessiblename2attr *)
  i_enablepoll : bool;
}.
Inductive outcome := Created (i : inst) | Rejected (es : list err) | Crashed.

Definition writes_of (l : list accres) : list (str * pyval) :=
  flat_map (fun a => match a_write a with Some v => [(p_name (a_param a), v)] | None => [] end) l.
(* accessiblename2attr in insertion order; a second accessible with an export name already in the map is a
   configuration error (the module is rejected, so the map of a created module has unique keys) *)
Definition names_of (l : list accres) : list (str * str) :=
  flat_map (fun a => match a_name a with Some xn => [xn] | None => [] end) l.
Fixpoint dup_errs (seen : list str) (l : list accres) : list err :=
  match l with
  | [] => []
  | a :: r => match a_name a with
              | Some (x, n) => (if mem_str x seen then [ErrDupExport n] else []) ++ dup_errs (x :: seen) r
              | None => dup_errs seen r
              end
  end.

Definition mod_init (C : cls) (c : cfg) : outcome :=
  match phaseA C c with
  | None => Crashed
  | Some (mv, esA) =>
      match phaseB (mexport mv) (c_params C) c with
      | None => Crashed
      | Some accs =>
          let esB := flat_map a_errs accs ++ dup_errs [] accs in
          let esC := match unknown_names C c with [] => [] | l => [ErrUnknown l] end in
          match map_opt finish_param (map a_param accs) with
          | None => Crashed
          | Some ps =>
              let ps' := map (apply_main (main_unit ps)) ps in
              let es := esA ++ esB ++ esC in
              let es' := match es with
                         | [] => check_module C mv ++ flat_map check_param ps'
                         | _ => es
                         end in
              match es' with
              | [] => Created {| i_mvals := mv; i_params := ps'; i_write := writes_of accs; i_names := names_of accs;
                                 i_enablepoll := c_enablepoll C |}
              | _ => Rejected es'
              end
          end
      end
  end.

(* ------------------------------------------------------------------ start-up part of the poll thread *)
Inductive ev := EvWrite (n : str) (v : pyval) | EvInit | EvRead (n : str).

(* self.writeDict while the poll thread works on it: a dict in insertion order; pop(name) *)
Definition wdict := list (str * pyval).
Fixpoint wpop (n : str) (w : wdict) : option (pyval * wdict) :=
  match w with
  | [] => None
  | (k, x) :: r =>
      if str_eqb n k then Some (x, r)
      else match wpop n r with Some (y, r') => Some (y, (k, x) :: r') | None => None end
  end.

(* result of a call of a write wrapper: hardware writes (driver methods entered) in call order, self.writeDict afterwards,
   true = returned normally / false = raised *)
Definition wres := (list ev * wdict * bool)%type.

(* the script of a driver write method: for q in takes: if q in self.writeDict: self.write_q(self.writeDict.pop(q));
   an exception of a nested write leaves the method (the remaining names stay pending) *)
Fixpoint takes_loop (call : str -> pyval -> wdict -> wres) (qs : list str) (w : wdict) : wres :=
  match qs with
  | [] => ([], w, true)
  | q :: r =>
      match wpop q w with
      | None => takes_loop call r w
      | Some (vq, w1) =>
          let '(e1, w2, ok) := call q vq w1 in
          if ok then let '(e2, w3, ok2) := takes_loop call r w2 in (e1 ++ e2, w3, ok2)
          else (e1, w2, false)
      end
  end.

(* the write wrapper write_<n>(v): validates first (a value that does not validate raises and never reaches the driver
   method), then the driver method: it is handed the validated value and then runs its take-over script; `call` is the
   wrapper for the nested writes *)
Definition wrapper (call : str -> pyval -> wdict -> wres) (ps : list param) (n : str) (v : pyval) (w : wdict) : wres :=
  match find_param n ps with
  | Some p => match p_dt p with
              | Some d => match valid d v with
                          | Ok x => if p_wfunc p
                                    then let '(es, w', ok) := takes_loop call (p_takes p) w in (EvWrite n x :: es, w', ok)
                                    else ([], w, true)
                          | Err _ => ([], w, false)
                          end
              | None => ([], w, false)
              end
  | None => ([], w, false)
  end.
(* nesting depth is bounded by the number of pending entries (every nested call has popped one) *)
Fixpoint wcall (fuel : nat) (ps : list param) (n : str) (v : pyval) (w : wdict) : wres :=
  match fuel with
  | 0 => ([], w, false)
  | S f => wrapper (wcall f ps) ps n v w
  end.

(* writeInitParams: for pname in list(self.writeDict): value = self.writeDict.pop(pname, Done); if value is not Done:
   write_<pname>(value) - the value is fetched at the time of use, entries consumed meanwhile are skipped; exceptions
   are logged *)
Fixpoint init_loop (ps : list param) (names : list str) (w : wdict) : list ev * wdict :=
  match names with
  | [] => ([], w)
  | n :: r =>
      match wpop n w with
      | None => init_loop ps r w
      | Some (v, w1) =>
          let '(e, w2, _) := wcall (S (List.length w1)) ps n v w1 in
          let '(e', w3) := init_loop ps r w2 in (e ++ e', w3)
      end
  end.
Definition write_init (ps : list param) (w : wdict) : list ev * wdict := init_loop ps (map fst w) w.

Definition polled_names (i : inst) : list str :=
  if i_enablepoll i then map p_name (filter (fun p => negb (p_iscmd p) && p_polled p) (i_params i)) else [].
Definition has_thread (i : inst) : bool :=
  i_enablepoll i || match i_write i with [] => false | _ => true end.
Definition startup (i : inst) : list ev :=
  if has_thread i then fst (write_init (i_params i) (i_write i)) ++ [EvInit] ++ map EvRead (polled_names i)
  else [].

(* ------------------------------------------------------------------ config DSL: Mod(name, cls, description, kwds) *)
Inductive kwv := KwBare (v : pyval) | KwParam (v : option pyval) (kw : entry) | KwGroup (members : list str).

Definition is_alpha (c : N) : bool := ((65 <=? c) && (c <=? 90) || (97 <=? c) && (c <=? 122))%N.
Definition is_word (c : N) : bool := (is_alpha c || (48 <=? c) && (c <=? 57) || (c =? 95))%N.
Definition valid_modname (n : str) : bool :=
  match n with
  | [] => false
  | c :: r => is_alpha c && forallb is_word r && Nat.leb (List.length r) modname_regex
  end.

(* config.Param.__init__ (value, keyword overrides kwds): `if value is not Undef: kwds['value'] = value`, then the dict
   is built from kwds - an ORDERED dict: the keyword
   overrides in the order they are written, `value` LAST (`value` cannot be among kwds: it is the positional parameter).
   Module._add_accessible walks the items in this order, so the value is checked by the datatype with all the
   overrides of the same Param applied *)
Definition param_dict (v : option pyval) (kw : entry) : entry :=
  match v with Some x => dict_set k_value x kw | None => kw end.

Definition dsl_entries (kws : list (str * kwv)) : list (str * entry) :=
  flat_map (fun kv => match snd kv with
                      | KwBare v => [(fst kv, [(k_value, v)])]
                      | KwParam v kw => [(fst kv, param_dict v kw)]
                      | KwGroup _ => []
                      end) kws.
Definition dsl_groups (kws : list (str * kwv)) : list (str * str) :=     (* (member, group) in application order *)
  flat_map (fun kv => match snd kv with KwGroup ms => map (fun m => (m, fst kv)) ms | _ => [] end) kws.

Fixpoint set_entry (k : str) (f : entry -> entry) (l : list (str * entry)) : option (list (str * entry)) :=
  match l with
  | [] => None                                                           (* KeyError *)
  | (k', e) :: r => if str_eqb k k' then Some ((k', f e) :: r)
                    else match set_entry k f r with Some r' => Some ((k', e) :: r') | None => None end
  end.
Definition tag_groups (gs : list (str * str)) (l : list (str * entry)) : option (list (str * entry)) :=
  fold_left (fun acc mg => match acc with
                           | Some l' => set_entry (fst mg) (dict_set k_group (PStr (snd mg))) l'
                           | None => None end) gs (Some l).

Record modcall := { mc_name : str; mc_cls : nat; mc_descr : pyval; mc_kws : list (str * kwv) }.

(* the dict built by Mod(...) without 'name'/'cls'; None = the call raises *)
Definition mod_dsl (m : modcall) : option cfg :=
  if valid_modname (mc_name m) then
    match tag_groups (dsl_groups (mc_kws m)) (dsl_entries (mc_kws m)) with
    | Some l => Some ((k_description, CRaw (mc_descr m)) :: map (fun ke => (fst ke, CDict (snd ke))) l)
    | None => None
    end
  else None.

(* ------------------------------------------------------------------ files and merging *)
Record file := { f_eid : str; f_mods : list modcall }.
Definition section := (nat * cfg)%type.                                    (* class index, module cfg *)

(* Config(node, modules): a dict keyed by module name (a later duplicate replaces the earlier one in place) *)
Fixpoint file_sections (ms : list modcall) (acc : list (str * section)) : option (list (str * section)) :=
  match ms with
  | [] => Some acc
  | m :: r => match mod_dsl m with
              | Some c => file_sections r (dict_set (mc_name m) (mc_cls m, c) acc)
              | None => None
              end
  end.

Definition tag_origin (eid : str) (s : section) : section := (fst s, dict_set k_original_id (CRaw (PStr eid)) (snd s)).

(* Config.merge_modules *)
Definition merge_step (eid : str) (acc : list (str * section)) (ns : str * section) : list (str * section) :=
  if mem_str (fst ns) (map fst acc) then acc else acc ++ [(fst ns, tag_origin eid (snd ns))].
Definition merge_modules (acc : list (str * section)) (eid : str) (other : list (str * section)) :=
  fold_left (merge_step eid) other acc.

Fixpoint load_rest (acc : list (str * section)) (fs : list file) : option (list (str * section)) :=
  match fs with
  | [] => Some acc
  | f :: r => match file_sections (f_mods f) [] with
              | Some o => load_rest (merge_modules acc (f_eid f) o) r
              | None => None
              end
  end.
Definition load_config (fs : list file) : option (list (str * section)) :=
  match fs with
  | [] => None
  | f :: r => match file_sections (f_mods f) [] with Some a => load_rest a r | None => None end
  end.

(* ------------------------------------------------------------------ node *)
Definition dummy_cls : cls := {| c_params := []; c_props := []; c_enablepoll := true |}.
Definition create_all (classes : list cls) (secs : list (str * section)) : list (str * outcome) :=
  map (fun ns => (fst ns, mod_init (nth (fst (snd ns)) classes dummy_cls) (snd (snd ns)))) secs.

Inductive nerr := NRejected (m : str) (es : list err) | NCrashed (m : str).
Definition registered (rs : list (str * outcome)) : list str :=
  flat_map (fun r => match snd r with Created _ => [fst r] | _ => [] end) rs.
Definition node_errors (rs : list (str * outcome)) : list nerr :=
  flat_map (fun r => match snd r with
                     | Created _ => [] | Rejected es => [NRejected (fst r) es] | Crashed => [NCrashed (fst r)] end) rs.
Definition node_starts (rs : list (str * outcome)) : bool :=
  match node_errors rs with [] => true | _ => false end.

Inductive noderes := LoadFailed | Loaded (rs : list (str * outcome)).
Definition node_run (classes : list cls) (fs : list file) : noderes :=
  match load_config fs with
  | None => LoadFailed
  | Some secs => Loaded (create_all classes secs)
  end.
