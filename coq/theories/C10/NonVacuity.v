(* C10 - vacuity audit of the theorems of Properties.v: for every theorem the premises are instantiated with a
   concrete, non-degenerate instance (several parameters, several items in a Param dict, several files / modules) and
   the theorem is applied to it.  C10 has no oracle / environment hypotheses: the model is closed, every premise is an
   equation on the executable model.  The instance k = `constant` of the "value / default / constant" statements was
   vacuous while the model gave up on every entry with a `constant`; the property is modelled now (Parameter.setProperty,
   Parameter.finish): see the last section for both sides of every statement about it. *)
From Coq Require Import String.
From Coq Require Import ZArith NArith Bool List Permutation Lia.
Import ListNotations.
Local Open Scope list_scope.
Require Import FV.Base.Util FV.Base.F64 FV.Base.PyVal FV.C01.Model FV.C01.Lemmas FV.Gen.C10 FV.C10.Model FV.C10.Lemmas
  FV.C10.LemmasConst FV.C10.Refuted FV.C10.Properties.

Ltac nodup := repeat (apply NoDup_cons; [vm_compute; intuition discriminate|]); apply NoDup_nil.
(* mod_init C c is Created: decided by vm_compute on a boolean, the instance itself is never printed *)
Ltac created C c i E :=
  let H := fresh in
  assert (H : match mod_init C c with Created _ => true | _ => false end = true) by (vm_compute; reflexivity);
  destruct (mod_init C c) as [i| |] eqn:E; try discriminate H; clear H.
Ltac rejected C c es E :=
  let H := fresh in
  assert (H : match mod_init C c with Rejected _ => true | _ => false end = true) by (vm_compute; reflexivity);
  destruct (mod_init C c) as [|es|] eqn:E; try discriminate H; clear H.

(* ================================================================== instance 1: C1 / demo_cfg
   three parameters (float with driver method, bool, array of float), Param(5, min=1, unit='mK') *)
Definition p1 : param := mkp "p1" fl010 true.
Definition en1 : entry := [(k_min, PInt 1); (k_unit, PStr (s_ "mK")); (k_value, PInt 5)].

(* all premises of C10_value_applied, C10_value_applied_idempotent, C10_configured_value_written_exactly_once,
   C10_written_once_before_poll, C10_written_exactly_once, C10_writedict_only_configured_values,
   C10_export_names_applied at once *)
Example C10_nonvacuous_applied_premises :
  exists i, mod_init C1 demo_cfg = Created i /\ In p1 (c_params C1) /\ p_optional p1 = false /\ p_iscmd p1 = false /\
    p_dt p1 = Some fl010 /\ assoc_str (p_name p1) demo_cfg = Some (CDict en1) /\ NoDup (map fst en1) /\
    In (k_value, PInt 5) en1 /\ NoDup (map p_name (active (c_params C1))) /\ p_has_write p1 = true.
Proof.
  created C1 demo_cfg i E. exists i. split; [reflexivity|]. split; [left; reflexivity|].
  split; [reflexivity|]. split; [reflexivity|]. split; [reflexivity|]. split; [vm_compute; reflexivity|].
  split; [nodup|]. split; [vm_compute; auto 10|]. split; [nodup|reflexivity].
Qed.

Example C10_value_applied_applies :
  exists i p' d' c1, mod_init C1 demo_cfg = Created i /\ In p' (i_params i) /\ p_name p' = s_ "p1" /\
    configured_dt fl010 [] en1 = Some d' /\ p_dt p' = Some d' /\ conv d' (PInt 5) = Ok c1 /\
    p_value p' = match conv d' c1 with Ok c2 => Some c2 | Err _ => None end /\ In (s_ "p1", PInt 5) (i_write i).
Proof.
  destruct C10_nonvacuous_applied_premises as [i [E [A [B [D [F [G [H [I [J K]]]]]]]]]].
  destruct (C10_value_applied C1 demo_cfg i p1 fl010 en1 (PInt 5) E A B D F G H I) as [p' [d' [c1 [L [M [N [O [P [Q R]]]]]]]]].
  exists i, p', d', c1. split; [exact E|]. split; [exact L|]. split; [exact M|]. split; [exact N|].
  split; [exact O|]. split; [exact P|]. split; [exact Q|exact (R K)].
Qed.

Example C10_value_applied_idempotent_applies :
  exists i p' d' c1, mod_init C1 demo_cfg = Created i /\ In p' (i_params i) /\ p_name p' = s_ "p1" /\
    p_dt p' = Some d' /\ conv d' (PInt 5) = Ok c1 /\ (conv d' c1 = Ok c1 -> p_value p' = Some c1).
Proof.
  destruct C10_nonvacuous_applied_premises as [i [E [A [B [D [F [G [H [I [J K]]]]]]]]]].
  destruct (C10_value_applied_idempotent C1 demo_cfg i p1 fl010 en1 (PInt 5) E A B D F G H I) as [p' [d' [c1 L]]].
  exists i, p', d', c1. split; [exact E|exact L].
Qed.

(* the configured datatype of instance 1 without printing floats *)
Definition dcfg1 : dtype := match configured_dt fl010 [] en1 with Some d => d | None => TBool end.
Lemma dcfg1_eq : configured_dt fl010 (p_unit p1) en1 = Some dcfg1.
Proof.
  unfold dcfg1. change (p_unit p1) with (@nil N).
  assert (H : match configured_dt fl010 [] en1 with Some _ => true | None => false end = true) by (vm_compute; reflexivity).
  destruct (configured_dt fl010 [] en1); [reflexivity|discriminate H].
Qed.
(* the configured limits are there: min = 1 (class level: 0), max = 10 *)
Example dcfg1_shape :
  match dcfg1 with TFloat mn mx _ _ => fsame mn (of_Z 1) && fsame mx (of_Z 10) | _ => false end = true.
Proof. vm_compute. reflexivity. Qed.
Lemma dcfg1_wf : wf dcfg1.
Proof. vm_compute. reflexivity. Qed.

(* the driver method of p1 receives the validated 5 exactly once; the `match` of the conclusion takes its Ok branch *)
Example C10_configured_value_written_exactly_once_applies :
  exists i x, mod_init C1 demo_cfg = Created i /\ has_thread i = true /\ valid dcfg1 (PInt 5) = Ok x /\
    writes_for (s_ "p1") (startup i) = [x].
Proof.
  destruct C10_nonvacuous_applied_premises as [i [E [A [B [D [F [G [H [I [J K]]]]]]]]]].
  destruct (C10_configured_value_written_exactly_once C1 demo_cfg i p1 fl010 en1 (PInt 5) E A B D F G H I J K)
    as [p' [d' [L [M [N [O P]]]]]].
  rewrite dcfg1_eq in N. inversion N; subst d'.
  assert (V : match valid dcfg1 (PInt 5) with Ok _ => true | Err _ => false end = true) by (vm_compute; reflexivity).
  destruct (valid dcfg1 (PInt 5)) as [x|] eqn:EV; [|discriminate V].
  exists i, x. split; [exact E|]. split; [exact O|]. split; [reflexivity|]. exact P.
Qed.

(* C10_later_range_checks_use_instance_limits: the class-level datatype fl010 is well formed, the entry of p1 overrides
   min and unit of a float (nothing scaled): the theorem DERIVES wf of the instance datatype dcfg1 (min = 1) and gives the
   soundness of its validate; probe 5 *)
Lemma fl010_wf : wf fl010.
Proof. vm_compute. reflexivity. Qed.
Lemma en1_scaled_kept : scaled_limits_kept fl010 en1.
Proof. intros S. vm_compute in S. discriminate S. Qed.
Example C10_later_range_checks_applies :
  exists i p y, mod_init C1 demo_cfg = Created i /\ In p (i_params i) /\ p_dt p = Some dcfg1 /\ wf dcfg1 /\
    valid dcfg1 (PInt 5) = Ok y /\ in_setb dcfg1 y = true.
Proof.
  destruct C10_nonvacuous_applied_premises as [i [E [A [B [D [F [G [H [I [J K]]]]]]]]]].
  destruct (C10_later_range_checks_use_instance_limits C1 demo_cfg i p1 fl010 en1 E A B D F G fl010_wf en1_scaled_kept)
    as [p' [d' [L [M [N [O [W V]]]]]]].
  rewrite dcfg1_eq in N. inversion N; subst d'.
  assert (X : match valid dcfg1 (PInt 5) with Ok _ => true | Err _ => false end = true) by (vm_compute; reflexivity).
  destruct (valid dcfg1 (PInt 5)) as [y|] eqn:EV; [|discriminate X].
  exists i, p', y. split; [exact E|]. split; [exact L|]. split; [exact O|]. split; [exact W|].
  split; [reflexivity|]. exact (V (PInt 5) y EV).
Qed.
(* the start-up write of p1 (the validated 5) lies in the value set of the configured datatype *)
Example C10_start_up_write_within_configured_limits_applies :
  exists i x, mod_init C1 demo_cfg = Created i /\ writes_for (s_ "p1") (startup i) = [x] /\ in_setb dcfg1 x = true.
Proof.
  destruct C10_nonvacuous_applied_premises as [i [E [A [B [D [F [G [H [I [J K]]]]]]]]]].
  destruct (C10_configured_value_written_exactly_once_applies) as [i' [x [E' [_ [_ W]]]]].
  rewrite E in E'. inversion E'; subst i'.
  destruct (C10_start_up_write_within_configured_limits C1 demo_cfg i p1 fl010 en1 (PInt 5) E A B D F G H I J K fl010_wf
              en1_scaled_kept) as [d' [N V]].
  rewrite dcfg1_eq in N. inversion N; subst d'.
  exists i, x. split; [exact E|]. split; [exact W|]. apply V. change (p_name p1) with (s_ "p1"). rewrite W. left. reflexivity.
Qed.
(* ... and a probe outside the configured limits (0.5 < min = 1 is not available as an integer: 0) is refused by the
   instance datatype although the class-level datatype fl010 accepts it: the premise `valid d x = Ok y` is a real
   restriction *)
Example later_range_check_refuses :
  match valid dcfg1 (PInt 0), valid fl010 (PInt 0) with Err _, Ok _ => true | _, _ => false end = true.
Proof. vm_compute. reflexivity. Qed.

Example C10_limit_overrides_keep_conversion_applies :
  limits_only en1 = true /\ configured_dt fl010 [] en1 = Some dcfg1 /\ forall x, conv dcfg1 x = conv fl010 x.
Proof.
  assert (L : limits_only en1 = true) by (vm_compute; reflexivity).
  split; [exact L|]. split; [exact dcfg1_eq|].
  exact (C10_limit_overrides_keep_conversion en1 fl010 [] dcfg1 L dcfg1_eq).
Qed.

Example C10_inverted_limits_rejected_applies :
  exists i p, mod_init C1 demo_cfg = Created i /\ In p (i_params i) /\ p_iscmd p = false /\ p_dt p = Some dcfg1 /\
    dt_inverted dcfg1 = false.
Proof.
  destruct C10_nonvacuous_applied_premises as [i [E [A [B [D [F [G [H [I [J K]]]]]]]]]].
  destruct (C10_value_applied C1 demo_cfg i p1 fl010 en1 (PInt 5) E A B D F G H I) as [p' [d' [c1 [L [M [N [O _]]]]]]].
  rewrite dcfg1_eq in N. inversion N; subst d'.
  assert (Hc : forallb (fun p => negb (p_iscmd p)) (i_params i) = true).
  { assert (X : match mod_init C1 demo_cfg with Created j => forallb (fun p => negb (p_iscmd p)) (i_params j) | _ => false end
               = true) by (vm_compute; reflexivity).
    rewrite E in X. exact X. }
  assert (Hp : p_iscmd p' = false).
  { rewrite forallb_forall in Hc. specialize (Hc p' L). destruct (p_iscmd p'); [discriminate Hc|reflexivity]. }
  exists i, p'. split; [exact E|]. split; [exact L|]. split; [exact Hp|]. split; [exact O|].
  exact (C10_inverted_limits_rejected C1 demo_cfg i p' dcfg1 E L Hp O).
Qed.
(* the other side: Param(5, min=20) on fl010 (max 10), and minlen=5 on the array p3 (maxlen 3) are refused *)
Example inverted_limits_refused :
  match mod_init C1 [descr; (s_ "p1", CDict [(k_min, PInt 20)]); (s_ "p3", CDict [(k_minlen, PInt 5)])] with
  | Rejected [ErrCheck a; ErrCheck b] => str_eqb a (s_ "p1") && str_eqb b (s_ "p3")
  | _ => false
  end = true.
Proof. vm_compute. reflexivity. Qed.

Example C10_export_names_applied_applies :
  exists i, mod_init C1 demo_cfg = Created i /\ List.length (i_names i) = 3 /\ NoDup (map fst (i_names i)) /\
    exists p', In p' (i_params i) /\ p_name p' = s_ "p2" /\ p_export p' = XName (s_ "_p2").
Proof.
  created C1 demo_cfg i E. exists i. split; [reflexivity|].
  assert (X : match mod_init C1 demo_cfg with
              | Created j => Nat.eqb (List.length (i_names j)) 3 &&
                             existsb (fun sn => str_eqb (fst sn) (s_ "_p2") && str_eqb (snd sn) (s_ "p2")) (i_names j)
              | _ => false end = true) by (vm_compute; reflexivity).
  rewrite E in X. apply andb_prop in X. destruct X as [X1 X2]. apply Nat.eqb_eq in X1.
  apply existsb_exists in X2. destruct X2 as [[s n] [Hin Hsn]]. apply andb_prop in Hsn. destruct Hsn as [Hs Hn].
  apply str_eqb_true in Hs. apply str_eqb_true in Hn. simpl in Hs, Hn. subst s n.
  destruct (C10_export_names_applied C1 demo_cfg i E) as [ND Hiff].
  split; [exact X1|]. split; [exact ND|]. apply Hiff. exact Hin.
Qed.

(* ================================================================== instance 2: C2 / demo_cfg2 (take-over scripts) *)
Example C10_written_exactly_once_applies :
  exists i ws rs, mod_init C2 demo_cfg2 = Created i /\ List.length (i_write i) = 3 /\
    startup i = ws ++ EvInit :: rs /\ forallb is_write ws = true /\ forallb is_read rs = true /\
    Permutation ws (flat_map (fun nv => map (EvWrite (fst nv)) (handed (i_params i) (fst nv) (snd nv))) (i_write i)) /\
    List.length ws = 3.
Proof.
  created C2 demo_cfg2 i E.
  assert (ND : NoDup (map p_name (active (c_params C2)))) by nodup.
  assert (X : match mod_init C2 demo_cfg2 with
              | Created j => has_thread j && Nat.eqb (List.length (i_write j)) 3 &&
                             Nat.eqb (List.length (flat_map (fun nv => map (EvWrite (fst nv))
                                         (handed (i_params j) (fst nv) (snd nv))) (i_write j))) 3
              | _ => false end = true) by (vm_compute; reflexivity).
  rewrite E in X. apply andb_prop in X. destruct X as [X X3]. apply andb_prop in X. destruct X as [X1 X2].
  apply Nat.eqb_eq in X2. apply Nat.eqb_eq in X3.
  destruct (C10_written_exactly_once C2 demo_cfg2 i E ND) as [Hs _].
  destruct (Hs X1) as [ws [rs [A [B [D [P _]]]]]].
  exists i, ws, rs. split; [reflexivity|]. split; [exact X2|]. split; [exact A|]. split; [exact B|].
  split; [exact D|]. split; [exact P|]. rewrite (Permutation_length P). exact X3.
Qed.

Example C10_written_once_before_poll_applies :
  exists i v, mod_init C2 demo_cfg2 = Created i /\ assoc_str (s_ "p3") (i_write i) = Some v /\
    writes_for (s_ "p3") (startup i) = handed (i_params i) (s_ "p3") v /\
    List.length (writes_for (s_ "p3") (startup i)) = 1.
Proof.
  created C2 demo_cfg2 i E.
  assert (ND : NoDup (map p_name (active (c_params C2)))) by nodup.
  assert (X : match mod_init C2 demo_cfg2 with
              | Created j => has_thread j &&
                  match assoc_str (s_ "p3") (i_write j) with Some _ => true | None => false end &&
                  Nat.eqb (List.length (writes_for (s_ "p3") (startup j))) 1
              | _ => false end = true) by (vm_compute; reflexivity).
  rewrite E in X. apply andb_prop in X. destruct X as [X X3]. apply andb_prop in X. destruct X as [X1 X2].
  apply Nat.eqb_eq in X3.
  destruct (C10_written_once_before_poll C2 demo_cfg2 i (s_ "p3") E ND) as [_ [W _]].
  rewrite X1 in W. destruct (assoc_str (s_ "p3") (i_write i)) as [v|] eqn:EA; [|discriminate X2].
  exists i, v. split; [reflexivity|]. split; [exact EA|]. split; [exact W|exact X3].
Qed.

Example C10_writedict_only_configured_values_applies :
  exists i p, mod_init C2 demo_cfg2 = Created i /\ In (s_ "p3", PInt 3) (i_write i) /\
    In p (c_params C2) /\ p_name p = s_ "p3" /\ p_has_write p = true /\ NoDup (map fst (i_write i)).
Proof.
  created C2 demo_cfg2 i E.
  assert (ND : NoDup (map p_name (active (c_params C2)))) by nodup.
  assert (X : match mod_init C2 demo_cfg2 with
              | Created j => existsb (fun nv => str_eqb (fst nv) (s_ "p3") &&
                                        match snd nv with PInt 3 => true | _ => false end) (i_write j)
              | _ => false end = true) by (vm_compute; reflexivity).
  rewrite E in X. apply existsb_exists in X. destruct X as [[n v] [Hin Hnv]]. apply andb_prop in Hnv.
  destruct Hnv as [Hn Hv]. apply str_eqb_true in Hn. simpl in Hn, Hv. subst n.
  assert (v = PInt 3) as -> by (destruct v as [| | z | | | | | | | |]; try discriminate Hv;
                               destruct z as [|q|q]; try discriminate Hv;
                               destruct q as [q|q|]; try discriminate Hv; destruct q as [q|q|]; try discriminate Hv;
                               reflexivity).
  destruct (C10_writedict_only_configured_values C2 demo_cfg2 i E) as [S N].
  destruct (S _ _ Hin) as [p [A [_ [_ [B [D _]]]]]].
  exists i, p. split; [reflexivity|]. split; [exact Hin|]. split; [exact A|]. split; [exact B|]. split; [exact D|exact (N ND)].
Qed.

(* the clause `has_thread i = false -> ...` of C10_written_exactly_once: a class without polling and no configured
   value *)
Definition C6 : cls := {| c_params := [mkp "p1" fl010 true; mkp "p2" TBool false]; c_props := []; c_enablepoll := false |}.
Example C10_written_exactly_once_no_thread :
  exists i, mod_init C6 [descr] = Created i /\ has_thread i = false /\ i_write i = [] /\ startup i = [].
Proof.
  created C6 [descr] i E. exists i. split; [reflexivity|].
  assert (ND : NoDup (map p_name (active (c_params C6)))) by nodup.
  assert (X : match mod_init C6 [descr] with Created j => negb (has_thread j) | _ => false end = true)
    by (vm_compute; reflexivity).
  rewrite E in X. destruct (has_thread i) eqn:T; [discriminate X|]. split; [reflexivity|].
  destruct (C10_written_exactly_once C6 [descr] i E ND) as [_ [_ H]]. exact (H T).
Qed.

(* ================================================================== instance 3: C3, Param(value, overrides)
   C10_value_checked_against_configured_datatype, rejecting side: Param('abcdef', maxchars=3) *)
Definition plabel : param := mkp "label" str0 false.
Definition kw3 : entry := [(k_maxchars, PInt 3)].
Definition cfg3 : cfg := [descr; (s_ "label", CDict (param_dict (Some abcdef) kw3))].

Example C10_value_checked_rejects :
  param_dict (Some abcdef) kw3 = kw3 ++ [(k_value, abcdef)] /\
  configured_dt str0 (p_unit plabel) kw3 = Some (TString 0 3 false) /\
  conv (TString 0 3 false) abcdef = Err ERange /\
  (forall i, mod_init C3 cfg3 <> Created i) /\
  exists es, mod_init C3 cfg3 = Rejected es /\ In (ErrBadValue (s_ "label") k_value) es.
Proof.
  assert (A : In plabel (c_params C3)) by (left; reflexivity).
  assert (K : assoc_str k_value kw3 = None) by (vm_compute; reflexivity).
  assert (ND : NoDup (map fst kw3)) by nodup.
  assert (Hc : assoc_str (p_name plabel) cfg3 = Some (CDict (param_dict (Some abcdef) kw3))) by (vm_compute; reflexivity).
  destruct (C10_value_checked_against_configured_datatype C3 cfg3 plabel str0 abcdef kw3 A eq_refl eq_refl eq_refl K ND Hc)
    as [PD [dcfg [HD [_ [R1 [R2 _]]]]]].
  assert (HD' : configured_dt str0 (p_unit plabel) kw3 = Some (TString 0 3 false)) by (vm_compute; reflexivity).
  rewrite HD' in HD. inversion HD; subst dcfg.
  assert (CV : conv (TString 0 3 false) abcdef = Err ERange) by (vm_compute; reflexivity).
  split; [exact PD|]. split; [exact HD'|]. split; [exact CV|]. split; [intros i; exact (R1 ERange i CV)|].
  rejected C3 cfg3 es E. exists es. split; [reflexivity|].
  apply (R2 ERange es (set_dt plabel (TString 0 3 false) []) CV eq_refl); [vm_compute; reflexivity|reflexivity].
Qed.

(* applying side, with a configured default besides the value (so that the hypothesis on default / constant of the last
   clause is not empty): Param('\181m', isUTF8=True, default='\181m') *)
Definition kwu : entry := [(k_isutf8, PBool true); (k_default, um)].
Definition cfgu : cfg := [descr; (s_ "label", CDict (param_dict (Some um) kwu))].
Definition dutf : dtype := TString 0 unlimited true.

Example C10_value_checked_applies :
  configured_dt str0 (p_unit plabel) kwu = Some dutf /\ conv dutf um = Ok um /\ (exists e, conv str0 um = Err e /\ is_bad_value e = true) /\
  (exists i p', mod_init C3 cfgu = Created i /\ In p' (i_params i) /\ p_name p' = s_ "label" /\ p_dt p' = Some dutf /\
     p_value p' = Some um /\ In (s_ "label", um) (i_write i)) /\
  (exists a, acc_step true plabel (Some (CDict (param_dict (Some um) kwu))) = Some a /\ a_errs a = [] /\
     p_dt (a_param a) = Some dutf /\ p_value (a_param a) = Some um /\ a_write a = Some um).
Proof.
  assert (A : In plabel (c_params C3)) by (left; reflexivity).
  assert (K : assoc_str k_value kwu = None) by (vm_compute; reflexivity).
  assert (ND : NoDup (map fst kwu)) by nodup.
  assert (Hc : assoc_str (p_name plabel) cfgu = Some (CDict (param_dict (Some um) kwu))) by (vm_compute; reflexivity).
  destruct (C10_value_checked_against_configured_datatype C3 cfgu plabel str0 um kwu A eq_refl eq_refl eq_refl K ND Hc)
    as [_ [dcfg [HD [R0 [_ [_ R3]]]]]].
  assert (HD' : configured_dt str0 (p_unit plabel) kwu = Some dutf) by (vm_compute; reflexivity).
  rewrite HD' in HD. inversion HD; subst dcfg.
  assert (CV : conv dutf um = Ok um) by (vm_compute; reflexivity).
  split; [exact HD'|]. split; [exact CV|]. split; [exists ERange; split; vm_compute; reflexivity|]. split.
  - created C3 cfgu i E. destruct (R0 i eq_refl) as [p' [c1 [L [M [N [O [P Q]]]]]]].
    rewrite CV in O. inversion O; subst c1. rewrite CV in P.
    exists i, p'. split; [reflexivity|]. split; [exact L|]. split; [exact M|]. split; [exact N|]. split; [exact P|].
    exact (Q eq_refl).
  - destruct (R3 um (set_default (set_dt plabel dutf []) (Some um)) true CV) as [a [S1 [S2 [S3 [S4 S5]]]]].
    + vm_compute. reflexivity.
    + intros k v' [Hk|[Hk|[]]] Hv; subst k; vm_compute in Hv; [|discriminate Hv].
      inversion Hv; subst v'. exists um. exact CV.
    + exists a. split; [exact S1|]. split; [exact S2|]. split; [exact S3|]. split; [exact S4|exact S5].
Qed.

(* C10_wrong_type_value_rejected for k = value (value BEFORE the override that refuses it) and k = default *)
Example C10_wrong_type_value_rejected_applies :
  (forall i, mod_init C3 [descr; (s_ "label", CDict [(k_value, abcdef); (k_maxchars, PInt 3)])] <> Created i) /\
  (forall i, mod_init C3 cfg_default_first <> Created i).
Proof.
  assert (A : In plabel (c_params C3)) by (left; reflexivity).
  split; intros i.
  - apply (C10_wrong_type_value_rejected C3 _ i plabel str0 [(k_value, abcdef); (k_maxchars, PInt 3)] k_value abcdef
             (TString 0 3 false) ERange A eq_refl eq_refl eq_refl); vm_compute; reflexivity.
  - apply (C10_wrong_type_value_rejected C3 _ i plabel str0 [(k_default, abcdef); (k_maxchars, PInt 3)] k_default abcdef
             (TString 0 3 false) ERange A eq_refl eq_refl eq_refl); vm_compute; reflexivity.
Qed.

(* ================================================================== instance 4: a module with four different errors *)
Definition pneed : param := set_needscfg (mkp "need" fl010 false) true.
Definition C4 : cls :=
  {| c_params := [mkp "p1" fl010 true; plabel; pneed]; c_props := []; c_enablepoll := true |}.
Definition en4 : entry := [(k_maxchars, PInt 3); (k_value, abcdef)].
Definition c4 : cfg :=
  [descr; (k_visibility, CRaw (PStr (s_ "nonsense"))); (s_ "label", CDict en4); (s_ "bogus", CRaw (PInt 1))].

Example C10_unknown_name_rejected_applies : forall i, mod_init C4 c4 <> Created i.
Proof.
  intros i. apply (C10_unknown_name_rejected C4 c4 (s_ "bogus") i); [vm_compute; auto 10|vm_compute; reflexivity].
Qed.
(* unknown name alone: the module is Rejected (not Crashed) and the name is listed *)
Example unknown_name_alone :
  match mod_init C1 [descr; (s_ "bogus", CRaw (PInt 1))] with
  | Rejected [ErrUnknown [n]] => str_eqb n (s_ "bogus") | _ => false end = true.
Proof. vm_compute. reflexivity. Qed.

Example C10_missing_required_value_rejected_applies :
  (forall i, mod_init C4 [descr] <> Created i) /\
  match mod_init C4 [descr] with Rejected [ErrNeedsCfg n] => str_eqb n (s_ "need") | _ => false end = true.
Proof.
  split; [|vm_compute; reflexivity]. intros i.
  apply (C10_missing_required_value_rejected C4 [descr] i pneed); try reflexivity.
  right; right; left; reflexivity.
Qed.

Definition pnodescr : param :=
  upd_param (mkp "q" fl010 false) (Some fl010) [] None false false (XName (95%N :: s_ "q")) 1 [] None None false.
Definition C5 : cls := {| c_params := [mkp "p1" fl010 true; pnodescr]; c_props := []; c_enablepoll := true |}.
Example C10_missing_mandatory_description_rejected_applies :
  (forall i, mod_init C5 [descr] <> Created i) /\
  match mod_init C5 [descr] with Rejected [ErrCheck n] => str_eqb n (s_ "q") | _ => false end = true.
Proof.
  split; [|vm_compute; reflexivity]. intros i.
  apply (C10_missing_mandatory_description_rejected C5 [descr] i pnodescr); try reflexivity.
  right; left; reflexivity.
Qed.

(* all four clauses of C10_error_list_names_every_collected_item in ONE rejected module *)
Example C10_error_list_applies :
  exists es, mod_init C4 c4 = Rejected es /\
    (exists l, In (ErrUnknown l) es /\ In (s_ "bogus") l) /\
    In (ErrModProp k_visibility) es /\
    (exists k', mem_str k' checked_value_props = true /\ In (ErrBadValue (s_ "label") k') es) /\
    In (ErrNeedsCfg (s_ "need")) es.
Proof.
  rejected C4 c4 es E. exists es. split; [reflexivity|].
  destruct (C10_error_list_names_every_collected_item C4 c4 es E) as [U [M [B N]]].
  split; [|split; [|split]].
  - apply U; [vm_compute; auto 10|vm_compute; reflexivity].
  - assert (F : match find (fun sp => str_eqb k_visibility (mp_name sp)) (all_mprops C4) with
                | Some sp => str_eqb (mp_name sp) k_visibility && match mp_type sp with MVis => true | _ => false end
                | None => false end = true) by (vm_compute; reflexivity).
    destruct (find (fun sp => str_eqb k_visibility (mp_name sp)) (all_mprops C4)) as [sp|] eqn:EF; [|discriminate F].
    apply andb_prop in F. destruct F as [F1 F2]. apply str_eqb_true in F1.
    apply find_some in EF. destruct EF as [Hin _].
    rewrite <- F1. apply (M sp (PStr (s_ "nonsense")) ERange Hin).
    + rewrite F1. vm_compute. reflexivity.
    + destruct (mp_type sp); try discriminate F2. vm_compute. reflexivity.
    + reflexivity.
  - apply (B plabel en4 k_value abcdef (set_value (set_dt plabel (TString 0 3 false) []) (Some abcdef))
             (TString 0 3 false) ERange);
      [right; left; reflexivity|reflexivity|reflexivity|vm_compute; reflexivity|vm_compute; reflexivity
      |vm_compute; reflexivity|vm_compute; reflexivity|reflexivity|vm_compute; reflexivity].
  - apply (N pneed fl010); try reflexivity. right; right; left; reflexivity.
Qed.

(* ================================================================== node level and merging *)
Definition secs7 : list (str * section) := [(s_ "a", (0, demo_cfg)); (s_ "b", (1, c4)); (s_ "c", (0, demo_cfg2))].
(* C10_node_rejects_whole has no premises; both sides of its equivalences are inhabited: one registered module, one
   refused one (class 0 with demo_cfg2 is rejected too: p3 is an array there), the node does not start *)
Example C10_node_rejects_whole_instance :
  let rs := create_all [C1; C4] secs7 in
  list_eqb str_eqb (registered rs) [s_ "a"] && negb (node_starts rs) &&
  list_eqb str_eqb (map nerr_name (node_errors rs)) [s_ "b"; s_ "c"] = true.
Proof. vm_compute. reflexivity. Qed.
Example C10_node_rejects_whole_applies :
  exists i, In (s_ "a") (registered (create_all [C1; C4] secs7)) /\ mod_init C1 demo_cfg = Created i.
Proof.
  destruct (C10_node_rejects_whole [C1; C4] secs7) as [R _].
  assert (H : In (s_ "a") (registered (create_all [C1; C4] secs7))).
  { assert (X : mem_str (s_ "a") (registered (create_all [C1; C4] secs7)) = true) by (vm_compute; reflexivity).
    apply mem_str_In. exact X. }
  destruct (proj1 (R (s_ "a")) H) as [s [i [Hs Hi]]]. exists i. split; [exact H|].
  destruct Hs as [Hs|[Hs|[Hs|[]]]]; inversion Hs; subst s; try exact Hi.
Qed.

Definition mc (name : string) (k : nat) (kws : list (str * kwv)) : modcall :=
  {| mc_name := s_ name; mc_cls := k; mc_descr := PStr (s_ "d"); mc_kws := kws |}.
Definition f1 : file :=
  {| f_eid := s_ "eq1"; f_mods := [mc "a" 0 [(s_ "p1", KwParam (Some (PInt 5)) [(k_min, PInt 1)])]; mc "b" 1 []] |}.
Definition f2 : file := {| f_eid := s_ "eq2"; f_mods := [mc "b" 0 [(s_ "p1", KwBare (PInt 2))]; mc "c" 0 []] |}.
Definition f3 : file := {| f_eid := s_ "eq3"; f_mods := [mc "c" 1 []; mc "d" 1 []] |}.
Definition acc1 : list (str * section) := match file_sections (f_mods f1) [] with Some a => a | None => [] end.

Example C10_merge_first_file_wins_applies :
  exists res extra, load_config [f1; f2; f3] = Some res /\ load_rest acc1 [f2; f3] = Some res /\
    List.length acc1 = 2 /\ res = acc1 ++ extra /\ List.length extra = 2 /\
    Forall (fun e => mem_str (fst e) (map fst acc1) = false /\
                     exists f s, In f [f2; f3] /\ snd e = tag_origin (f_eid f) s) extra.
Proof.
  assert (X : match load_rest acc1 [f2; f3] with
              | Some r => Nat.eqb (List.length r) 4 && Nat.eqb (List.length acc1) 2 | None => false end = true)
    by (vm_compute; reflexivity).
  assert (Y : load_config [f1; f2; f3] = load_rest acc1 [f2; f3]) by (vm_compute; reflexivity).
  destruct (load_rest acc1 [f2; f3]) as [res|] eqn:E; [|discriminate X].
  apply andb_prop in X. destruct X as [X1 X2]. apply Nat.eqb_eq in X1. apply Nat.eqb_eq in X2.
  destruct (C10_merge_first_file_wins [f2; f3] acc1 res E) as [extra [He Hf]].
  exists res, extra. split; [exact Y|]. split; [reflexivity|]. split; [exact X2|]. split; [exact He|]. split; [|exact Hf].
  rewrite He, app_length, X2 in X1. lia.
Qed.

(* ================================================================== the `constant` of a Param entry
   checked_value_props = [value; default; constant].  Modelled since the audit: Parameter.setProperty stores the constant
   as given, the second loop of _add_accessible checks it with the configured datatype, Parameter.finish converts and
   exports it and makes the parameter readonly - unguarded. *)
Definition enc : entry := [(k_constant, PInt 3); (k_min, PInt 1)].
Definition cfgc : cfg := [descr; (s_ "p1", CDict enc)].
Definition dcfgc : dtype := match configured_dt fl010 [] enc with Some d => d | None => TBool end.
Lemma dcfgc_eq : configured_dt fl010 (p_unit p1) enc = Some dcfgc.
Proof.
  unfold dcfgc. change (p_unit p1) with (@nil N).
  assert (H : match configured_dt fl010 [] enc with Some _ => true | None => false end = true) by (vm_compute; reflexivity).
  destruct (configured_dt fl010 [] enc); [reflexivity|discriminate H].
Qed.

(* the applying side: Param(constant=3, min=1) on FloatRange(0, 10): created, the instance carries the exported 3.0 and
   is readonly although the class says readonly = False *)
Example C10_constant_applied_applies :
  p_readonly p1 = false /\
  exists i p' c1 j, mod_init C1 cfgc = Created i /\ In p' (i_params i) /\ p_name p' = s_ "p1" /\ p_dt p' = Some dcfgc /\
    conv dcfgc (PInt 3) = Ok c1 /\ dt_exp dcfgc c1 = Some j /\ pv_same j (PFloat (of_Z 3)) = true /\
    p_constant p' = Some j /\ p_readonly p' = true.
Proof.
  split; [reflexivity|]. created C1 cfgc i E.
  assert (A : In p1 (c_params C1)) by (left; reflexivity).
  assert (ND : NoDup (map fst enc)) by nodup.
  destruct (C10_constant_applied C1 cfgc i p1 fl010 enc (PInt 3) E A eq_refl eq_refl eq_refl) as
    [p' [d' [c1 [j [L [M [N [O [P [Q [R S]]]]]]]]]]]; [vm_compute; reflexivity|exact ND|left; reflexivity|].
  rewrite dcfgc_eq in N. inversion N; subst d'.
  assert (X : match conv dcfgc (PInt 3) with
              | Ok c => match dt_exp dcfgc c with Some j0 => pv_same j0 (PFloat (of_Z 3)) | None => false end
              | Err _ => false end = true) by (vm_compute; reflexivity).
  rewrite P, Q in X.
  exists i, p', c1, j. split; [reflexivity|]. split; [exact L|]. split; [exact M|]. split; [exact O|]. split; [exact P|].
  split; [exact Q|]. split; [exact X|]. split; [exact R|exact S].
Qed.

(* the rejecting side: C10_wrong_type_value_rejected with k = constant and C10_wrong_type_constant_leaves_init on
   Param(constant='abcdef', maxchars=3): no instance and no ConfigError either - the outcome is Crashed *)
Definition enw : entry := [(k_constant, abcdef); (k_maxchars, PInt 3)].
Definition cfgw : cfg := [descr; (s_ "label", CDict enw)].
Example C10_wrong_type_constant_applies :
  (forall i, mod_init C3 cfgw <> Created i) /\ (forall es, mod_init C3 cfgw <> Rejected es) /\
  match mod_init C3 cfgw with Crashed => true | _ => false end = true /\
  (* the same constant IS accepted without the override that refuses it *)
  match mod_init C3 [descr; (s_ "label", CDict [(k_constant, abcdef)])] with Created _ => true | _ => false end = true.
Proof.
  assert (A : In plabel (c_params C3)) by (left; reflexivity).
  assert (ND : NoDup (map fst enw)) by nodup.
  destruct (C10_wrong_type_constant_leaves_init C3 cfgw plabel str0 enw abcdef (TString 0 3 false) ERange A eq_refl eq_refl
              eq_refl) as [N1 N2]; [vm_compute; reflexivity|exact ND|left; reflexivity|discriminate|vm_compute; reflexivity
              |vm_compute; reflexivity|].
  split; [|split; [exact N2|split; vm_compute; reflexivity]].
  intros i. apply (C10_wrong_type_value_rejected C3 cfgw i plabel str0 enw k_constant abcdef (TString 0 3 false) ERange A
                     eq_refl eq_refl eq_refl); vm_compute; reflexivity.
Qed.

(* third clause of C10_error_list_names_every_collected_item with k = constant: the premises (Rejected, the entry applies,
   the constant is no value of the final datatype) are satisfiable exactly for Param(constant=None) - datatype(None) is
   collected by the second loop, Parameter.finish skips a None constant - and the clause names `p1.constant` *)
Definition enn : entry := [(k_constant, PNone)].
Definition cfgn : cfg := [descr; (s_ "p1", CDict enn)].
Example C10_error_list_constant_applies :
  exists es, mod_init C1 cfgn = Rejected es /\ In (ErrBadValue (s_ "p1") k_constant) es.
Proof.
  rejected C1 cfgn es E. exists es. split; [reflexivity|].
  destruct (C10_error_list_names_every_collected_item C1 cfgn es E) as [_ [_ [B _]]].
  destruct (B p1 enn k_constant PNone (set_constant p1 None) fl010 EWrongType) as [k' [Hk' Hin]];
    [left; reflexivity|reflexivity|reflexivity|vm_compute; reflexivity|reflexivity|vm_compute; reflexivity
    |vm_compute; reflexivity|reflexivity|reflexivity|].
  assert (X : match mod_init C1 cfgn with
              | Rejected l => forallb (fun e0 => match e0 with ErrBadValue _ k0 => str_eqb k0 k_constant | _ => true end) l
              | _ => false end = true) by (vm_compute; reflexivity).
  rewrite E in X. rewrite forallb_forall in X. specialize (X _ Hin). simpl in X. apply str_eqb_true in X. subst k'. exact Hin.
Qed.

(* last clause of C10_value_checked_against_configured_datatype with a configured constant among the keywords (the member
   `constant` of its hypothesis on [default; constant] now occurs): Param(5, constant=7) on FloatRange(0, 10) *)
Definition kwk : entry := [(k_constant, PInt 7)].
Example C10_value_checked_with_constant_applies :
  exists a, acc_step true p1 (Some (CDict (param_dict (Some (PInt 5)) kwk))) = Some a /\ a_errs a = [] /\
    p_constant (a_param a) = Some (PInt 7).
Proof.
  assert (A : In p1 (c_params C1)) by (left; reflexivity).
  assert (ND : NoDup (map fst kwk)) by nodup.
  set (cc := [descr; (s_ "p1", CDict (param_dict (Some (PInt 5)) kwk))] : cfg).
  destruct (C10_value_checked_against_configured_datatype C1 cc p1 fl010 (PInt 5) kwk A eq_refl eq_refl eq_refl)
    as [_ [dcfg [HD [_ [_ [_ R3]]]]]]; [vm_compute; reflexivity|exact ND|vm_compute; reflexivity|].
  assert (HD' : configured_dt fl010 (p_unit p1) kwk = Some fl010) by reflexivity.
  rewrite HD' in HD. inversion HD; subst dcfg.
  assert (X : match conv fl010 (PInt 5) with Ok _ => true | Err _ => false end = true) by (vm_compute; reflexivity).
  destruct (conv fl010 (PInt 5)) as [c1|] eqn:CV; [|discriminate X].
  destruct (R3 c1 (set_constant p1 (Some (PInt 7))) true eq_refl) as [a [S1 [S2 _]]].
  - reflexivity.
  - intros k v' [Hk|[Hk|[]]] Hv; subst k; vm_compute in Hv; [discriminate Hv|].
    inversion Hv; subst v'.
    assert (Y : match conv fl010 (PInt 7) with Ok _ => true | Err _ => false end = true) by (vm_compute; reflexivity).
    destruct (conv fl010 (PInt 7)) as [c'|]; [exists c'; reflexivity|discriminate Y].
  - exists a. split; [exact S1|]. split; [exact S2|].
    assert (Z : match acc_step true p1 (Some (CDict (param_dict (Some (PInt 5)) kwk))) with
                | Some a0 => match p_constant (a_param a0) with Some (PInt 7) => true | _ => false end
                | None => false end = true) by (vm_compute; reflexivity).
    rewrite S1 in Z. destruct (p_constant (a_param a)) as [[| |z| | | | | | | |]|]; try discriminate Z.
    destruct z as [|q|q]; try discriminate Z.
    destruct q as [q|q|]; try discriminate Z; destruct q as [q|q|]; try discriminate Z;
      destruct q as [q|q|]; try discriminate Z. reflexivity.
Qed.
