(* C10 - witness for the place where the code still violates the property (the model reproduces it).
   The witnesses for unexported modules, inverted limits of array elements and the stale name map are gone with the
   repairs 68acea7, 6fe53e9, 8235152: the positive theorems are now unconditional. *)
From Coq Require Import String.
From Coq Require Import ZArith NArith Bool List.
Import ListNotations.
Local Open Scope list_scope.
Require Import FV.Base.Util FV.Base.F64 FV.Base.PyVal FV.C01.Model FV.Gen.C10 FV.C10.Model FV.C10.Lemmas.

Definition fl010 : dtype := TFloat fzero (of_Z 10) fzero relres0.
Definition mkpt (name : string) (dt : dtype) (wf : bool) (takes : list str) : param :=
  {| p_name := s_ name; p_iscmd := false; p_optional := false; p_predef := false; p_dt := Some dt; p_unit := [];
     p_dtdefault := PInt 0; p_descr := Some (s_ "d"); p_readonly := false; p_needscfg := false;
     p_export := XName (95%N :: s_ name); p_visibility := 1; p_group := []; p_default := None; p_value := None;
     p_has_write := true; p_wfunc := wf; p_polled := false; p_uninit := false; p_takes := takes |}.
Definition mkp (name : string) (dt : dtype) (wf : bool) : param := mkpt name dt wf [].
Definition C1 : cls :=
  {| c_params := [mkp "p1" fl010 true; mkp "p2" TBool false; mkp "p3" (TArray fl010 0 3) false]; c_props := [];
     c_enablepoll := true |}.
Definition descr : str * cval := (k_description, CRaw (PStr (s_ "a module"))).

(* Mod('m', C1, 'a module', p1=100) *)
Definition cfg_oor : cfg := [descr; (s_ "p1", CDict [(k_value, PInt 100)])].
Definition nilb {A} (l : list A) : bool := match l with [] => true | _ => false end.

(* a writeDict entry of a parameter with a driver write method, in a module that has a poll thread, whose value the
   write method never receives *)
Definition never_handed (i : inst) : bool :=
  has_thread i &&
  existsb (fun nv => match find_param (fst nv) (i_params i) with
                     | Some p => p_wfunc p && nilb (writes_for (fst nv) (startup i))
                     | None => false end) (i_write i).

Ltac witness C c :=
  match goal with |- exists C' c' i, mod_init C' c' = Created i /\ ?w i = true =>
    let H := fresh in
    assert (H : match mod_init C c with Created i => w i | _ => false end = true) by (vm_compute; reflexivity);
    destruct (mod_init C c) as [i| |] eqn:E; try discriminate; exists C, c, i; split; [exact E|exact H]
  end.

Theorem refuted_out_of_range_value_not_written : exists C c i, mod_init C c = Created i /\ never_handed i = true.
Proof. witness C1 cfg_oor. Qed.

(* ---- a configured `default` written BEFORE a datatype override of the same Param: Module._add_accessible checks it
   with the datatype as it is at that position of the dict (the class-level one), the override is applied afterwards and
   Parameter.finish silently clears the default that no longer converts - module created, default (and with it the start
   value) dropped, no error.  Param(default='abcdef', maxchars=3) on a StringType() parameter.
   (The positional VALUE of a Param is not affected: config.Param puts it last, see C10_value_checked_against_configured_datatype.) *)
Definition str0 : dtype := TString 0 unlimited false.
Definition C3 : cls := {| c_params := [mkp "label" str0 false]; c_props := []; c_enablepoll := true |}.
Definition abcdef : pyval := PStr (s_ "abcdef").
Definition cfg_default_first : cfg :=
  [descr; (s_ "label", CDict [(k_default, abcdef); (k_maxchars, PInt 3)])].
Definition cfg_default_last : cfg :=
  [descr; (s_ "label", CDict [(k_maxchars, PInt 3); (k_default, abcdef)])].

(* some Param entry of the configuration has a `default` which is no value of the datatype the instance ends up with,
   and the instance has no default and no value for that parameter *)
Definition default_dropped (c : cfg) (i : inst) : bool :=
  existsb (fun kc => match snd kc with
                     | CDict en =>
                         match assoc_str k_default en, find_param (fst kc) (i_params i) with
                         | Some v, Some p' =>
                             match p_dt p' with
                             | Some d' => match conv d' v with Err _ => true | Ok _ => false end
                                          && nilb (match p_default p' with Some x => [x] | None => [] end)
                                          && nilb (match p_value p' with Some x => [x] | None => [] end)
                             | None => false
                             end
                         | _, _ => false
                         end
                     | CRaw _ => false
                     end) c.

Theorem refuted_default_before_datatype_override :
  exists C c i, mod_init C c = Created i /\ default_dropped c i = true.
Proof.
  assert (H : match mod_init C3 cfg_default_first with Created i => default_dropped cfg_default_first i | _ => false end = true)
    by (vm_compute; reflexivity).
  destruct (mod_init C3 cfg_default_first) as [i| |] eqn:E; try discriminate.
  exists C3, cfg_default_first, i. split; [exact E|exact H].
Qed.
(* the same two items in the other order are rejected *)
Example default_after_override_rejected :
  match mod_init C3 cfg_default_last with Rejected [ErrBadValue _ _] => true | _ => false end = true.
Proof. vm_compute. reflexivity. Qed.
