(* C10 - witness for the place where the code still violates the property (the model reproduces it).
   The witnesses for unexported modules, inverted limits of array elements and the stale name map are gone with the
   repairs 68acea7, 6fe53e9, 8235152: the positive theorems are now unconditional. *)
From Coq Require Import String.
From Coq Require Import ZArith NArith Bool List.
Import ListNotations.
Local Open Scope list_scope.
Require Import FV.Base.Util FV.Base.F64 FV.Base.PyVal FV.C01.Model FV.Gen.C10 FV.C10.Model FV.C10.Lemmas.

Definition fl010 : dtype := TFloat fzero (of_Z 10) fzero relres0.
Definition mkpt (name : string) (dt : dtype) (wf : bool) (takes : list str) : param :=
  {| p_name := s_ name; p_iscmd := false; p_optional := false; p_predef := false; p_dt := Some dt; p_unit := [];
     p_dtdefault := PInt 0; p_descr := Some (s_ "d"); p_readonly := false; p_needscfg := false;
     p_export := XName (95%N :: s_ name); p_visibility := 1; p_group := []; p_default := None; p_value := None;
     p_has_write := true; p_wfunc := wf; p_polled := false; p_uninit := false; p_takes := takes;
     p_constant := None |}.
Definition mkp (name : string) (dt : dtype) (wf : bool) : param := mkpt name dt wf [].
Definition C1 : cls :=
  {| c_params := [mkp "p1" fl010 true; mkp "p2" TBool false; mkp "p3" (TArray fl010 0 3) false]; c_props := [];
     c_enablepoll := true |}.
Definition descr : str * cval := (k_description, CRaw (PStr (s_ "a module"))).

(* Mod('m', C1, 'a module', p1=100) *)
Definition cfg_oor : cfg := [descr; (s_ "p1", CDict [(k_value, PInt 100)])].
Definition nilb {A} (l : list A) : bool := match l with [] => true | _ => false end.

(* a writeDict entry of a parameter with a driver write method, in a module that has a poll thread, whose value the
   write method never receives *)
Definition never_handed (i : inst) : bool :=
  has_thread i &&
  existsb (fun nv => match find_param (fst nv) (i_params i) with
                     | Some p => p_wfunc p && nilb (writes_for (fst nv) (startup i))
                     | None => false end) (i_write i).

Ltac witness C c :=
  match goal with |- exists C' c' i, mod_init C' c' = Created i /\ ?w i = true =>
    let H := fresh in
    assert (H : match mod_init C c with Created i => w i | _ => false end = true) by (vm_compute; reflexivity);
    destruct (mod_init C c) as [i| |] eqn:E; try discriminate; exists C, c, i; split; [exact E|exact H]
  end.

Theorem refuted_out_of_range_value_not_written : exists C c i, mod_init C c = Created i /\ never_handed i = true.
Proof. witness C1 cfg_oor. Qed.

(* ---- regression for the repaired finding C10/default-before-datatype-override (8b6cdcd): a configured `default` is
   checked with the datatype as configured by ALL items of the same Param, whether it is written before or after the
   override that decides about it.  The witness that used to be here (default silently dropped) is gone. *)
Definition str0 : dtype := TString 0 unlimited false.
Definition C3 : cls := {| c_params := [mkp "label" str0 false]; c_props := []; c_enablepoll := true |}.
Definition abcdef : pyval := PStr (s_ "abcdef").
Definition cfg_default_first : cfg :=
  [descr; (s_ "label", CDict [(k_default, abcdef); (k_maxchars, PInt 3)])].
Definition cfg_default_last : cfg :=
  [descr; (s_ "label", CDict [(k_maxchars, PInt 3); (k_default, abcdef)])].
Definition is_default_error (o : outcome) : bool :=
  match o with Rejected [ErrBadValue n k] => str_eqb n (s_ "label") && str_eqb k k_default | _ => false end.
Example default_rejected_in_either_order :
  is_default_error (mod_init C3 cfg_default_first) && is_default_error (mod_init C3 cfg_default_last) = true.
Proof. vm_compute. reflexivity. Qed.
(* Param(default='\181m', isUTF8=True) and Param(isUTF8=True, default='\181m') are both applied *)
Definition um : pyval := PStr [181%N; 109%N].
Example utf8_default_applied_in_either_order :
  match mod_init C3 [descr; (s_ "label", CDict [(k_default, um); (k_isutf8, PBool true)])],
        mod_init C3 [descr; (s_ "label", CDict [(k_isutf8, PBool true); (k_default, um)])] with
  | Created i1, Created i2 =>
      match find_param (s_ "label") (i_params i1), find_param (s_ "label") (i_params i2) with
      | Some p1, Some p2 => pv_same (match p_value p1 with Some x => x | None => PNone end) um
                            && pv_same (match p_value p2 with Some x => x | None => PNone end) um
      | _, _ => false
      end
  | _, _ => false
  end = true.
Proof. vm_compute. reflexivity. Qed.
