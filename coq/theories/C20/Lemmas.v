(* C20 -- routing: specification over histories, refinement of the subscription table, exact delivery,
   stop and non-interference. *)
From Coq Require Import List Arith ZArith Bool NArith Lia.
Import ListNotations.
Require Import FV.Gen.C20 FV.C20.Model.

(* ------------------------------------------------------------------ specification side *)

(* the level connection c chose for module m according to table t *)
Definition subs_of (m : name) (t : table) : subs := match get_mod m t with Some l => l | None => [] end.
Definition chosen (t : table) (m : name) (c : conn) : option Z := conn_get c (subs_of m t).

(* does a logging request with this specifier address module m of a node with these modules *)
Definition targets (mods : list name) (spec : option name) (m : name) : bool :=
  if is_all spec then mem_name m mods
  else match spec with Some s => name_eqb s m && mem_name m mods | None => false end.

(* what one operation decides about the pair (m, c): None = nothing, Some x = the choice is now x *)
Definition req_effect (mods : list name) (o : op) (m : name) (c : conn) : option (option Z) :=
  match o with
  | OLogging c' spec d =>
      if Nat.eqb c' c then
        match check_level d with
        | inl lv => if targets mods spec m then Some (if Z.eqb lv OFF then None else Some lv) else None
        | inr _ => None
        end
      else None
  | OIdent c' | ODisconnect c' => if Nat.eqb c' c && mem_name m mods then Some None else None
  | OEmit _ _ _ => None
  | OActivate _ _ | ODeactivate _ _ => None        (* activation requests decide nothing about logging *)
  end.

(* the choice in force after a history, given newest first: the latest operation that decides, decides *)
Fixpoint spec_choice (mods : list name) (newest_first : list op) (m : name) (c : conn) : option Z :=
  match newest_first with
  | [] => None
  | o :: r => match req_effect mods o m c with Some x => x | None => spec_choice mods r m c end
  end.

(* the messages connection c must get for a record (m, lv) when its choice is ch *)
Definition expected (ch : option Z) (m : name) (lv : Z) (pyname : name) (c : conn) : list delivery :=
  match ch with
  | Some x => if Z.leb x lv then [(c, m, record_name lv pyname)] else []
  | None => []
  end.

Definition deliv_to (c : conn) (ds : list delivery) : list delivery :=
  filter (fun d => Nat.eqb (fst (fst d)) c) ds.

(* all messages sent during a history, in order *)
Fixpoint trace_from (mods : list name) (t : table) (ops : list op) : list delivery :=
  match ops with
  | [] => []
  | o :: r => fst (snd (step mods t o)) ++ trace_from mods (fst (step mods t o)) r
  end.

(* the operation is a request or event of connection c *)
Definition by_conn (c : conn) (o : op) : bool :=
  match o with
  | OLogging c' _ _ | OIdent c' | ODisconnect c' | OActivate c' _ | ODeactivate c' _ => Nat.eqb c' c
  | OEmit _ _ _ => false
  end.
Definition is_logging_by (c : conn) (o : op) : bool :=
  match o with OLogging c' _ _ => Nat.eqb c' c | _ => false end.

(* ------------------------------------------------------------------ names *)
Lemma name_eqb_refl a : name_eqb a a = true.
Proof. induction a; simpl; auto. rewrite N.eqb_refl; auto. Qed.

Lemma name_eqb_eq a b : name_eqb a b = true <-> a = b.
Proof.
  revert b; induction a; destruct b; simpl; split; intros H; try discriminate; auto.
  - apply andb_true_iff in H as [H1 H2]. apply N.eqb_eq in H1. apply IHa in H2. subst; auto.
  - inversion H; subst. rewrite N.eqb_refl. simpl. apply IHa; auto.
Qed.

Lemma name_eqb_neq a b : name_eqb a b = false <-> a <> b.
Proof.
  split; intros H.
  - intros E. apply name_eqb_eq in E. congruence.
  - destruct (name_eqb a b) eqn:E; auto. apply name_eqb_eq in E. contradiction.
Qed.

Lemma name_eqb_sym a b : name_eqb a b = name_eqb b a.
Proof.
  destruct (name_eqb a b) eqn:E.
  - apply name_eqb_eq in E; subst. symmetry; apply name_eqb_refl.
  - symmetry. apply name_eqb_neq. apply name_eqb_neq in E. congruence.
Qed.

(* ------------------------------------------------------------------ the per-module dict *)
Lemma conn_get_set_same c lv l : conn_get c (conn_set c lv l) = Some lv.
Proof.
  induction l as [|[c' x] r]; simpl.
  - rewrite Nat.eqb_refl; auto.
  - destruct (Nat.eqb c c') eqn:E; simpl; rewrite E; auto.
Qed.

Lemma conn_get_set_other c c' lv l : c <> c' -> conn_get c' (conn_set c lv l) = conn_get c' l.
Proof.
  intros N. induction l as [|[c2 x] r]; simpl.
  - destruct (Nat.eqb c' c) eqn:E; auto. apply Nat.eqb_eq in E; congruence.
  - destruct (Nat.eqb c c2) eqn:E; simpl.
    + apply Nat.eqb_eq in E; subst. destruct (Nat.eqb c' c2) eqn:E2; auto.
      apply Nat.eqb_eq in E2; congruence.
    + destruct (Nat.eqb c' c2); auto.
Qed.

Lemma conn_get_pop_same c l : conn_get c (conn_pop c l) = None.
Proof.
  induction l as [|[c' x] r]; simpl; auto.
  destruct (Nat.eqb c c') eqn:E; simpl; auto. rewrite E; auto.
Qed.

Lemma conn_get_pop_other c c' l : c <> c' -> conn_get c' (conn_pop c l) = conn_get c' l.
Proof.
  intros N. induction l as [|[c2 x] r]; simpl; auto.
  destruct (Nat.eqb c c2) eqn:E; simpl.
  - apply Nat.eqb_eq in E; subst. destruct (Nat.eqb c' c2) eqn:E2; auto.
    apply Nat.eqb_eq in E2; congruence.
  - destruct (Nat.eqb c' c2); auto.
Qed.

Lemma conn_set_keys c lv l k : In k (map fst (conn_set c lv l)) -> k = c \/ In k (map fst l).
Proof.
  induction l as [|[c' x] r]; simpl.
  - intros [H|[]]; auto.
  - destruct (Nat.eqb c c') eqn:E; simpl; intros [H|H]; auto.
    destruct (IHr H); auto.
Qed.

Lemma conn_set_nodup c lv l : NoDup (map fst l) -> NoDup (map fst (conn_set c lv l)).
Proof.
  induction l as [|[c' x] r]; simpl; intros H.
  - repeat constructor; auto.
  - inversion H; subst. destruct (Nat.eqb c c') eqn:E; simpl.
    + constructor; auto.
    + constructor; auto. intros I. apply conn_set_keys in I as [I|I]; auto.
      subst. rewrite Nat.eqb_refl in E. discriminate.
Qed.

Lemma conn_pop_keys c l k : In k (map fst (conn_pop c l)) -> In k (map fst l).
Proof.
  induction l as [|[c' x] r]; simpl; auto.
  destruct (Nat.eqb c c'); simpl; intros H; auto. destruct H; auto.
Qed.

Lemma conn_pop_nodup c l : NoDup (map fst l) -> NoDup (map fst (conn_pop c l)).
Proof.
  induction l as [|[c' x] r]; simpl; intros H; auto.
  inversion H; subst. destruct (Nat.eqb c c'); simpl; auto.
  constructor; auto. intros I. apply conn_pop_keys in I. contradiction.
Qed.

Lemma conn_get_notin c l : ~ In c (map fst l) -> conn_get c l = None.
Proof.
  induction l as [|[c' x] r]; simpl; auto. intros H.
  destruct (Nat.eqb c c') eqn:E.
  - apply Nat.eqb_eq in E. subst. exfalso; apply H; auto.
  - apply IHr. intros I; apply H; auto.
Qed.

(* ------------------------------------------------------------------ the table *)
Lemma get_upd_same m f t : get_mod m (upd_mod m f t) = Some (f (subs_of m t)).
Proof.
  unfold subs_of. induction t as [|[m' l] r]; simpl.
  - rewrite name_eqb_refl; auto.
  - destruct (name_eqb m m') eqn:E; simpl; rewrite E; auto.
Qed.

Lemma get_upd_other m m' f t : m <> m' -> get_mod m' (upd_mod m f t) = get_mod m' t.
Proof.
  intros N. induction t as [|[m2 l] r]; simpl.
  - destruct (name_eqb m' m) eqn:E; auto. apply name_eqb_eq in E; congruence.
  - destruct (name_eqb m m2) eqn:E; simpl.
    + apply name_eqb_eq in E; subst. destruct (name_eqb m' m2) eqn:E2; auto.
      apply name_eqb_eq in E2; congruence.
    + destruct (name_eqb m' m2); auto.
Qed.

Definition wf (t : table) : Prop := forall m l, get_mod m t = Some l -> NoDup (map fst l).

Lemma wf_nil : wf [].
Proof. intros m l H; discriminate. Qed.

Lemma wf_subs_of m t : wf t -> NoDup (map fst (subs_of m t)).
Proof.
  intros W. unfold subs_of. destruct (get_mod m t) eqn:E.
  - eapply W; eauto.
  - constructor.
Qed.

Lemma wf_upd m f t :
  (forall l, NoDup (map fst l) -> NoDup (map fst (f l))) -> wf t -> wf (upd_mod m f t).
Proof.
  intros F W m' l H. destruct (name_eqb m m') eqn:E.
  - apply name_eqb_eq in E; subst. rewrite get_upd_same in H. inversion H; subst.
    apply F. apply wf_subs_of; auto.
  - apply name_eqb_neq in E. rewrite get_upd_other in H by auto. eapply W; eauto.
Qed.

(* ------------------------------------------------------------------ set_conn_level and the dispatcher *)
Definition new_choice (lv : Z) : option Z := if Z.eqb lv OFF then None else Some lv.

Lemma set_conn_level_invalid t m c d e : check_level d = inr e -> set_conn_level t m c d = (t, Some e).
Proof. intros H. unfold set_conn_level. rewrite H. auto. Qed.

Lemma set_conn_level_valid t m c d lv :
  check_level d = inl lv ->
  exists t', set_conn_level t m c d = (t', None) /\ (wf t -> wf t') /\
    forall m' c', chosen t' m' c' =
      if name_eqb m m' && Nat.eqb c c' then new_choice lv else chosen t m' c'.
Proof.
  intros H. unfold set_conn_level. rewrite H. eexists; split; [reflexivity|]. split.
  - intros W. apply wf_upd; auto. intros l N. destruct (Z.eqb lv OFF).
    + apply conn_pop_nodup; auto.
    + apply conn_set_nodup; auto.
  - intros m' c'. unfold chosen, new_choice.
    destruct (name_eqb m m') eqn:E; simpl.
    + apply name_eqb_eq in E; subst m'. unfold subs_of at 1. rewrite get_upd_same.
      destruct (Nat.eqb c c') eqn:E2.
      * apply Nat.eqb_eq in E2; subst c'. destruct (Z.eqb lv OFF).
        -- apply conn_get_pop_same.
        -- apply conn_get_set_same.
      * apply Nat.eqb_neq in E2. destruct (Z.eqb lv OFF).
        -- apply conn_get_pop_other; auto.
        -- apply conn_get_set_other; auto.
    + apply name_eqb_neq in E. unfold subs_of at 1. rewrite get_upd_other by auto. reflexivity.
Qed.

Lemma set_all_invalid t mods c d e :
  check_level d = inr e -> fst (set_all t mods c d) = t.
Proof.
  intros H. destruct mods; simpl; auto. rewrite (set_conn_level_invalid _ _ _ _ _ H). auto.
Qed.

Lemma set_all_valid mods : forall t c d lv,
  check_level d = inl lv ->
  exists t', set_all t mods c d = (t', None) /\ (wf t -> wf t') /\
    forall m' c', chosen t' m' c' =
      if mem_name m' mods && Nat.eqb c c' then new_choice lv else chosen t m' c'.
Proof.
  induction mods as [|m r]; intros t c d lv H; simpl.
  - exists t. split; auto.
  - destruct (set_conn_level_valid t m c d lv H) as (t1 & E1 & W1 & C1). rewrite E1.
    destruct (IHr t1 c d lv H) as (t2 & E2 & W2 & C2). exists t2. split; auto. split; auto.
    intros m' c'. rewrite C2, C1. rewrite (name_eqb_sym m' m).
    destruct (name_eqb m m'); simpl; destruct (mem_name m' r); simpl; auto.
    destruct (Nat.eqb c c'); auto.
Qed.

(* every operation keeps the table well formed and changes a choice exactly as the specification says *)
Lemma step_chosen mods t o :
  (wf t -> wf (fst (step mods t o))) /\
  forall m c, chosen (fst (step mods t o)) m c =
              match req_effect mods o m c with Some x => x | None => chosen t m c end.
Proof.
  destruct o as [c spec d|m0 lv py|c|c|c sp|c sp]; simpl; [| | | |split; auto|split; auto].
  - (* logging request *)
    unfold handle_logging, targets.
    destruct (check_level d) as [lv|e] eqn:CL.
    + destruct (is_all spec) eqn:A.
      * destruct (set_all_valid mods t c d lv CL) as (t' & E & W & C). rewrite E. simpl. split; auto.
        intros m c'. rewrite C. destruct (Nat.eqb c c'); simpl.
        -- rewrite andb_true_r. destruct (mem_name m mods); auto.
        -- rewrite andb_false_r. auto.
      * destruct spec as [s|]; [|discriminate A].
        destruct (mem_name s mods) eqn:M.
        -- destruct (set_conn_level_valid t s c d lv CL) as (t' & E & W & C). rewrite E. simpl. split; auto.
           intros m c'. rewrite C. destruct (Nat.eqb c c'); simpl.
           ++ rewrite andb_true_r. destruct (name_eqb s m) eqn:E2; simpl; auto.
              apply name_eqb_eq in E2; subst. rewrite M. auto.
           ++ rewrite andb_false_r. auto.
        -- simpl. split; auto. intros m c'. destruct (Nat.eqb c c'); auto.
           destruct (name_eqb s m) eqn:E2; simpl; auto.
           apply name_eqb_eq in E2; subst. rewrite M. auto.
    + assert (fst (let '(t', e0) :=
                (if is_all spec then set_all t mods c d
                 else match spec with
                      | Some m => if mem_name m mods then set_conn_level t m c d else (t, Some EKey)
                      | None => (t, None) end) in (t', (@nil delivery, e0))) = t) as R.
      { destruct (is_all spec).
        - pose proof (set_all_invalid t mods c d e CL) as S. destruct (set_all t mods c d); simpl in *; auto.
        - destruct spec as [s|]; simpl; auto. destruct (mem_name s mods); simpl; auto.
          rewrite (set_conn_level_invalid _ _ _ _ _ CL). auto. }
      rewrite R. split; auto. intros m c'. destruct (Nat.eqb c c'); auto.
  - split; auto.
  - unfold reset_connection.
    assert (check_level (LStr s_off) = inl OFF) as CL.
    { unfold check_level. simpl. reflexivity. }
    destruct (set_all_valid mods t c (LStr s_off) OFF CL) as (t' & E & W & C). rewrite E. simpl. split; auto.
    intros m c'. rewrite C. unfold new_choice. rewrite Z.eqb_refl.
    rewrite andb_comm. destruct (Nat.eqb c c' && mem_name m mods); auto.
  - unfold reset_connection.
    assert (check_level (LStr s_off) = inl OFF) as CL.
    { unfold check_level. simpl. reflexivity. }
    destruct (set_all_valid mods t c (LStr s_off) OFF CL) as (t' & E & W & C). rewrite E. simpl. split; auto.
    intros m c'. rewrite C. unfold new_choice. rewrite Z.eqb_refl.
    rewrite andb_comm. destruct (Nat.eqb c c' && mem_name m mods); auto.
Qed.

(* ------------------------------------------------------------------ histories *)
Definition run_from (mods : list name) (t : table) (ops : list op) : table :=
  fold_left (fun t o => fst (step mods t o)) ops t.

Lemma run_from_wf mods ops : forall t, wf t -> wf (run_from mods t ops).
Proof.
  induction ops as [|o r]; simpl; intros t W; auto.
  apply IHr. apply (proj1 (step_chosen mods t o)); auto.
Qed.

Lemma run_wf mods ops : wf (run mods ops).
Proof. apply (run_from_wf mods ops []). apply wf_nil. Qed.

Lemma chosen_nil m c : chosen [] m c = None.
Proof. reflexivity. Qed.

(* refinement: the table of the handler after any history is the specification's choice function *)
Lemma run_refines_spec mods ops m c :
  chosen (run mods ops) m c = spec_choice mods (rev ops) m c.
Proof.
  unfold run. induction ops as [|o r IH] using rev_ind; simpl; auto.
  rewrite fold_left_app, rev_app_distr. simpl.
  rewrite (proj2 (step_chosen mods _ o)). rewrite IH. reflexivity.
Qed.

(* ------------------------------------------------------------------ handle *)
Lemma handle_loop_exact m nm lv c l :
  NoDup (map fst l) ->
  deliv_to c (handle_loop m nm lv l) =
  match conn_get c l with Some x => if Z.leb x lv then [(c, m, nm)] else [] | None => [] end.
Proof.
  induction l as [|[c' x] r]; simpl; intros ND; auto.
  inversion ND; subst.
  destruct (Nat.eqb c c') eqn:E.
  - apply Nat.eqb_eq in E; subst c'.
    assert (deliv_to c (handle_loop m nm lv r) = []) as Z0.
    { rewrite IHr by auto. rewrite conn_get_notin by auto. reflexivity. }
    destruct (Z.leb x lv).
    + simpl. rewrite Nat.eqb_refl. rewrite Z0. reflexivity.
    + apply Z0.
  - destruct (Z.leb x lv).
    + simpl. rewrite Nat.eqb_sym, E. apply IHr; auto.
    + apply IHr; auto.
Qed.

Lemma handle_exact t m lv py c :
  wf t -> deliv_to c (handle t m lv py) = expected (chosen t m c) m lv py c.
Proof.
  intros W. unfold handle, chosen, subs_of, expected. destruct (get_mod m t) as [l|] eqn:G.
  - apply handle_loop_exact. eapply W; eauto.
  - reflexivity.
Qed.

(* full-strength routing statement *)
Lemma routing_exact mods ops m lv py c :
  deliv_to c (handle (run mods ops) m lv py) = expected (spec_choice mods (rev ops) m c) m lv py c.
Proof. rewrite handle_exact by apply run_wf. rewrite run_refines_spec. reflexivity. Qed.

Lemma in_deliv_to c d ds : In d (deliv_to c ds) <-> In d ds /\ fst (fst d) = c.
Proof. unfold deliv_to. rewrite filter_In. rewrite Nat.eqb_eq. tauto. Qed.

(* the property as an "exactly when", for every level number *)
Lemma routing_iff mods ops m lv py c :
  In (c, m, record_name lv py) (handle (run mods ops) m lv py) <->
  exists x, spec_choice mods (rev ops) m c = Some x /\ (x <= lv)%Z.
Proof.
  pose proof (routing_exact mods ops m lv py c) as R. unfold expected in R.
  split.
  - intros I. assert (In (c, m, record_name lv py) (deliv_to c (handle (run mods ops) m lv py))) as I2.
    { apply in_deliv_to. split; auto. }
    rewrite R in I2. destruct (spec_choice mods (rev ops) m c) as [x|]; [|destruct I2].
    destruct (Z.leb x lv) eqn:L; [|destruct I2]. exists x. split; auto. apply Z.leb_le; auto.
  - intros (x & S & L). rewrite S in R. apply Z.leb_le in L. rewrite L in R.
    assert (In (c, m, record_name lv py) (deliv_to c (handle (run mods ops) m lv py))) as I2.
    { rewrite R. left; auto. }
    apply in_deliv_to in I2. tauto.
Qed.

(* ------------------------------------------------------------------ stop *)
(* the operation makes connection c stop receiving records of module m *)
Definition silences (mods : list name) (o : op) (m : name) (c : conn) : Prop :=
  req_effect mods o m c = Some None.

Lemma spec_choice_silent mods m c o : forall later older,
  (forall o', In o' later -> is_logging_by c o' = false) ->
  silences mods o m c ->
  spec_choice mods (later ++ o :: older) m c = None.
Proof.
  induction later as [|o' r]; simpl; intros older NL S.
  - unfold silences in S. rewrite S. auto.
  - assert (is_logging_by c o' = false) as N1 by (apply NL; auto).
    assert (spec_choice mods (r ++ o :: older) m c = None) as IH by (apply IHr; auto).
    destruct o' as [c' spec d|m0 lv py|c'|c'|c' sp|c' sp]; simpl in *; auto.
    + rewrite N1. auto.
    + destruct (Nat.eqb c' c && mem_name m mods); auto.
    + destruct (Nat.eqb c' c && mem_name m mods); auto.
Qed.

Lemma stop_exact mods ops1 o ops2 m c lv py :
  silences mods o m c ->
  (forall o', In o' ops2 -> is_logging_by c o' = false) ->
  deliv_to c (handle (run mods (ops1 ++ o :: ops2)) m lv py) = [].
Proof.
  intros S NL. rewrite routing_exact. rewrite rev_app_distr. simpl. rewrite <- app_assoc. simpl.
  rewrite spec_choice_silent; auto.
  intros o' I. apply NL. apply in_rev; auto.
Qed.

(* the three ways of stopping named in the property are silencing operations *)
Lemma silences_ident mods m c : mem_name m mods = true -> silences mods (OIdent c) m c.
Proof. intros M. unfold silences; simpl. rewrite Nat.eqb_refl, M. auto. Qed.
Lemma silences_disconnect mods m c : mem_name m mods = true -> silences mods (ODisconnect c) m c.
Proof. intros M. unfold silences; simpl. rewrite Nat.eqb_refl, M. auto. Qed.
Lemma silences_off mods spec m c :
  targets mods spec m = true -> silences mods (OLogging c spec (LStr s_off)) m c.
Proof.
  intros T. unfold silences; simpl. rewrite Nat.eqb_refl.
  change (check_level (LStr s_off)) with (@inl Z exn OFF). rewrite T. auto.
Qed.

(* a module that is not part of the node never has subscribers *)
Lemma spec_choice_unknown_module mods m c : forall l, mem_name m mods = false -> spec_choice mods l m c = None.
Proof.
  intros l M. induction l as [|o r]; simpl; auto.
  destruct o as [c' spec d|m0 lv py|c'|c'|c' sp|c' sp]; simpl; auto.
  - destruct (Nat.eqb c' c); auto. destruct (check_level d); auto.
    unfold targets. rewrite M. destruct (is_all spec); auto. destruct spec; auto. rewrite andb_false_r. auto.
  - rewrite M, andb_false_r. auto.
  - rewrite M, andb_false_r. auto.
Qed.

(* ------------------------------------------------------------------ other connections are unaffected *)
Lemma deliv_to_app c a b : deliv_to c (a ++ b) = deliv_to c a ++ deliv_to c b.
Proof. apply filter_app. Qed.

Lemma req_effect_other mods o m c c' : by_conn c o = true -> c <> c' -> req_effect mods o m c' = None.
Proof.
  intros B N. destruct o as [c0 spec d|m0 lv py|c0|c0|c0 sp|c0 sp]; simpl in *; try discriminate; auto.
  - apply Nat.eqb_eq in B; subst. destruct (Nat.eqb c c') eqn:E; auto. apply Nat.eqb_eq in E; contradiction.
  - apply Nat.eqb_eq in B; subst. destruct (Nat.eqb c c') eqn:E; auto. apply Nat.eqb_eq in E; contradiction.
  - apply Nat.eqb_eq in B; subst. destruct (Nat.eqb c c') eqn:E; auto. apply Nat.eqb_eq in E; contradiction.
Qed.

Definition is_emit (o : op) : bool := match o with OEmit _ _ _ => true | _ => false end.

Lemma step_request_silent mods t o : is_emit o = false -> fst (snd (step mods t o)) = [].
Proof.
  destruct o as [c spec d|m0 lv py|c|c|c sp|c sp]; simpl; intros H; try discriminate; auto.
  - destruct (handle_logging mods t c spec d); auto.
  - destruct (reset_connection mods t c); auto.
  - destruct (reset_connection mods t c); auto.
Qed.

Lemma by_conn_not_emit c o : by_conn c o = true -> is_emit o = false.
Proof. destruct o; simpl; auto; discriminate. Qed.

Lemma noninterference mods c c' : c <> c' -> forall ops t1 t2,
  wf t1 -> wf t2 -> (forall m, chosen t1 m c' = chosen t2 m c') ->
  deliv_to c' (trace_from mods t1 ops) =
  deliv_to c' (trace_from mods t2 (filter (fun o => negb (by_conn c o)) ops)).
Proof.
  intros N. induction ops as [|o r]; intros t1 t2 W1 W2 A; simpl; auto.
  destruct (step_chosen mods t1 o) as [SW1 SC1].
  rewrite deliv_to_app.
  destruct (by_conn c o) eqn:B; simpl.
  - rewrite step_request_silent by (eapply by_conn_not_emit; eauto). simpl.
    apply IHr; auto. intros m. rewrite SC1. rewrite (req_effect_other mods o m c c') by auto. auto.
  - destruct (step_chosen mods t2 o) as [SW2 SC2].
    rewrite deliv_to_app. f_equal.
    + destruct (is_emit o) eqn:E.
      * destruct o as [c0 spec d|m0 lv py|c0|c0|c0 sp|c0 sp]; try discriminate. simpl.
        rewrite !handle_exact by auto. rewrite A. auto.
      * rewrite !step_request_silent by auto. auto.
    + apply IHr; auto. intros m. rewrite SC1, SC2. rewrite A. auto.
Qed.

(* ------------------------------------------------------------------ rejected requests change nothing *)
Lemma invalid_level_no_effect mods t c spec d e :
  check_level d = inr e -> fst (step mods t (OLogging c spec d)) = t.
Proof.
  intros CL. simpl. unfold handle_logging. destruct (is_all spec).
  - pose proof (set_all_invalid t mods c d e CL) as S. destruct (set_all t mods c d); simpl in *; auto.
  - destruct spec as [s|]; simpl; auto. destruct (mem_name s mods); simpl; auto.
    rewrite (set_conn_level_invalid _ _ _ _ _ CL). auto.
Qed.

Lemma unknown_module_no_effect mods t c s d :
  is_all (Some s) = false -> mem_name s mods = false ->
  step mods t (OLogging c (Some s) d) = (t, ([], Some EKey)).
Proof. intros A M. simpl. unfold handle_logging. rewrite A, M. reflexivity. Qed.

(* ------------------------------------------------------------------ activation requests: frame *)
(* activate / deactivate requests (event subscriptions, property C08) do not touch remote logging *)
Definition not_activation (o : op) : bool := negb (is_activation o).
Definition without_activation (ops : list op) : list op := filter not_activation ops.

Lemma step_activation mods t o : is_activation o = true -> step mods t o = (t, ([], None)).
Proof. destruct o; simpl; intros H; try discriminate; reflexivity. Qed.

Lemma run_from_without_activation mods ops : forall t,
  run_from mods t ops = run_from mods t (without_activation ops).
Proof.
  induction ops as [|o r IH]; intros t; simpl; auto.
  unfold not_activation. destruct (is_activation o) eqn:A; simpl.
  - rewrite (step_activation mods t o A). simpl. apply IH.
  - apply IH.
Qed.

Lemma trace_from_without_activation mods ops : forall t,
  trace_from mods t ops = trace_from mods t (without_activation ops).
Proof.
  induction ops as [|o r IH]; intros t; simpl; auto.
  unfold not_activation. destruct (is_activation o) eqn:A; simpl.
  - rewrite (step_activation mods t o A). simpl. apply IH.
  - rewrite IH. reflexivity.
Qed.

Lemma run_without_activation mods ops : run mods ops = run mods (without_activation ops).
Proof. apply (run_from_without_activation mods ops []). Qed.

(* inserting activation requests anywhere into a history changes nothing *)
Lemma run_insert_activation mods ops1 acts ops2 :
  forallb is_activation acts = true -> run mods (ops1 ++ acts ++ ops2) = run mods (ops1 ++ ops2).
Proof.
  intros H. rewrite run_without_activation, (run_without_activation mods (ops1 ++ ops2)).
  unfold without_activation. rewrite !filter_app.
  assert (filter not_activation acts = []) as E.
  { induction acts as [|a r IH]; simpl in *; auto. apply andb_true_iff in H as [H1 H2].
    unfold not_activation at 1. rewrite H1. simpl. auto. }
  rewrite E. reflexivity.
Qed.

(* a subscription survives any number of activation requests of anybody: only a logging request of c, *IDN? of c or
   disconnect of c among the later operations can end it *)
Lemma subscription_survives mods ops later m c x :
  chosen (run mods ops) m c = Some x ->
  (forall o, In o later -> is_activation o = true \/ by_conn c o = false) ->
  chosen (run mods (ops ++ later)) m c = Some x.
Proof.
  intros H. induction later as [|o r IH] using rev_ind; intros A.
  - rewrite app_nil_r. exact H.
  - rewrite app_assoc. unfold run. rewrite fold_left_app. simpl.
    rewrite (proj2 (step_chosen mods _ o)).
    assert (req_effect mods o m c = None) as E.
    { destruct (A o) as [Ao|Bo]; [apply in_or_app; right; left; reflexivity| |].
      - destruct o; simpl in *; try discriminate; reflexivity.
      - destruct o as [c0 sp d|m0 lv py|c0|c0|c0 sp|c0 sp]; simpl in *; auto; rewrite Bo; auto. }
    rewrite E. apply IH. intros o' I. apply A. apply in_or_app; left; exact I.
Qed.
