(* C20 -- witnesses for the places where the pinned code violates the property. *)
From Coq Require Import List Arith ZArith Bool NArith Lia.
Import ListNotations.
Require Import FV.Gen.C20 FV.C20.Model FV.C20.Lemmas FV.C20.LemmasRot.

Definition m0 : name := [109; 48]%N.
Definition frappy : name := [102; 114; 97; 112; 112; 121]%N.
Definition date_n (n : N) : name := [50; 48; 50; 52; 45; 48; 49; 45; 48; 48 + n]%N.   (* 2024-01-0n *)
Definition dated (n : N) : entry := {| e_name := log_name frappy (date_n n); e_dir := false |}.

(* finding C20/record-level-without-name: the connection chose debug for m0, a record of level 50 (critical)
   is at or above that level, yet nothing is delivered and the logging call raises KeyError *)
Theorem C20_refuted_unnamed_level :
  exists mods ops m lv c x,
    spec_choice mods (rev ops) m c = Some x /\ (x <= lv)%Z /\
    handle (run mods ops) m lv = ([], Some EKey).
Proof.
  exists [m0], [OLogging 0 (Some m0) (LStr s_debug)], m0, 50%Z, 0, 10%Z.
  vm_compute. repeat split; discriminate.
Qed.

(* finding C20/rollover-removes-newest: the slice in the source is files[-max_days:] *)
Theorem C20_refuted_retention :
  source_slice = SliceTail /\
  exists prefix n d date,
    0 < n /\ has_name (log_name prefix date) (fst (do_rollover source_slice prefix n d date)) = false.
Proof.
  split; [reflexivity|].
  exists frappy, 2, [dated 1; dated 2; dated 3; dated 4], (date_n 5).
  split; [lia|]. vm_compute. reflexivity.
Qed.

(* ... and this happens in every rollover with retention > 0 of a directory without sub-directories in which the
   new file name sorts last: the file just opened is removed *)
Theorem C20_refuted_retention_everywhere : forall prefix n d date,
  (forall e, In e (open_file d (log_name prefix date)) -> e_dir e = false) ->
  (forall e, In e (open_file d (log_name prefix date)) -> e_name e <> cur_name ->
             name_leb (e_name e) (log_name prefix date) = true) ->
  has_name (log_name prefix date) (fst (do_rollover source_slice prefix (S n) d date)) = false.
Proof.
  intros. change source_slice with SliceTail. apply tail_removes_written; auto.
Qed.

(* finding C20/rollover-removes-foreign: a file that is no log file of the handler is removed *)
Theorem C20_refuted_foreign_removed :
  exists prefix n d date foreign,
    has_name foreign d = true /\ has_name foreign (fst (do_rollover source_slice prefix n d date)) = false.
Proof.
  exists frappy, 1, [dated 1; {| e_name := [122; 122]%N; e_dir := false |}], (date_n 5), [122; 122]%N.
  vm_compute. split; reflexivity.
Qed.
