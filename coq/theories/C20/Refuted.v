(* C20 -- witnesses for the places where the code violates the property (all retention witnesses are gone:
   repaired by 8755e5f, f977176 and deef1e5). *)
From Coq Require Import List Arith ZArith Bool NArith Lia.
Import ListNotations.
Require Import FV.Gen.C20 FV.C20.Model FV.C20.Lemmas FV.C20.LemmasRot.

Definition m0 : name := [109; 48]%N.
Definition frappy : name := [102; 114; 97; 112; 112; 121]%N.
Definition date_n (n : N) : name := [50; 48; 50; 52; 45; 48; 49; 45; 48; 48 + n]%N.   (* 2024-01-0n *)
Definition dated (n : N) : entry := {| e_name := log_name frappy (date_n n); e_file := true |}.

(* finding C20/record-level-without-name: the connection chose debug for m0, a record of level 50 (critical)
   is at or above that level, yet nothing is delivered and the logging call raises KeyError *)
Theorem C20_refuted_unnamed_level :
  exists mods ops m lv c x,
    spec_choice mods (rev ops) m c = Some x /\ (x <= lv)%Z /\
    handle (run mods ops) m lv = ([], Some EKey).
Proof.
  exists [m0], [OLogging 0 (Some m0) (LStr s_debug)], m0, 50%Z, 0, 10%Z.
  vm_compute. repeat split; discriminate.
Qed.
