(* C20 -- concurrent layer: every mutation of a module's subscription dict is one atomic in-place operation on one key,
   hence (for ALL schedules) the table is the result of the executed operations in an order consistent with every thread's
   program order, the entry of a key depends only on the operations on that key, and a connection whose entries are written
   by its own thread only ends up exactly where the sequential specification says. *)
From Coq Require Import List Arith ZArith Bool NArith Lia.
Import ListNotations.
Require Import FV.Gen.C20 FV.C20.Model FV.C20.ConcModel FV.C20.Lemmas.

(* ------------------------------------------------------------------ one key *)
Lemma look_chosen t m c : look t m c = chosen t m c.
Proof. unfold look, chosen, subs_of. destruct (get_mod m t); reflexivity. Qed.

(* what an operation does to the entry (m, c) *)
Definition key_eff (m : name) (c : conn) (o : top) (v : option Z) : option Z :=
  match o with
  | TSetDefault _ => v
  | TSet m' c' lv => if name_eqb m' m && Nat.eqb c' c then Some lv else v
  | TPop m' c' => if name_eqb m' m && Nat.eqb c' c then None else v
  end.
Definition key_run (m : name) (c : conn) (os : list top) (v : option Z) : option Z :=
  fold_left (fun v o => key_eff m c o v) os v.

Lemma look_upd m' f t m c :
  look (upd_mod m' f t) m c =
  if name_eqb m' m then conn_get c (f (subs_of m t)) else look t m c.
Proof.
  unfold look. destruct (name_eqb m' m) eqn:E.
  - apply name_eqb_eq in E; subst. rewrite get_upd_same. reflexivity.
  - apply name_eqb_neq in E. rewrite get_upd_other by auto. reflexivity.
Qed.

Lemma look_subs_of t m c : conn_get c (subs_of m t) = look t m c.
Proof. unfold look, subs_of. destruct (get_mod m t); reflexivity. Qed.

(* frame lemma of the primitive updates *)
Lemma look_apply_top o t m c : look (apply_top o t) m c = key_eff m c o (look t m c).
Proof.
  destruct o as [m'|m' c' lv|m' c']; simpl; rewrite look_upd.
  - destruct (name_eqb m' m); auto. apply look_subs_of.
  - destruct (name_eqb m' m) eqn:E; simpl; auto.
    destruct (Nat.eqb c' c) eqn:E2.
    + apply Nat.eqb_eq in E2; subst. apply conn_get_set_same.
    + apply Nat.eqb_neq in E2. rewrite conn_get_set_other by auto. apply look_subs_of.
  - destruct (name_eqb m' m) eqn:E; simpl; auto.
    destruct (Nat.eqb c' c) eqn:E2.
    + apply Nat.eqb_eq in E2; subst. apply conn_get_pop_same.
    + apply Nat.eqb_neq in E2. rewrite conn_get_pop_other by auto. apply look_subs_of.
Qed.

Lemma look_apply_all os : forall t m c, look (apply_all os t) m c = key_run m c os (look t m c).
Proof.
  induction os as [|o r]; intros t m c; simpl; auto.
  unfold apply_all in *. simpl. rewrite IHr. rewrite look_apply_top. reflexivity.
Qed.

Lemma key_eff_untouched m c o v : touches m c o = false -> key_eff m c o v = v.
Proof. destruct o; simpl; intros H; auto; rewrite H; auto. Qed.

(* the entry of a key depends only on the operations on that key *)
Lemma key_run_filter m c os : forall v, key_run m c os v = key_run m c (filter (touches m c) os) v.
Proof.
  induction os as [|o r]; intros v; simpl; auto.
  unfold key_run in *. simpl. destruct (touches m c o) eqn:T; simpl.
  - apply IHr.
  - rewrite key_eff_untouched by auto. apply IHr.
Qed.

Lemma apply_top_wf o t : wf t -> wf (apply_top o t).
Proof.
  intros W. destruct o; simpl; apply wf_upd; auto.
  - intros; apply conn_set_nodup; auto.
  - intros; apply conn_pop_nodup; auto.
Qed.

Lemma apply_all_wf os : forall t, wf t -> wf (apply_all os t).
Proof.
  induction os as [|o r]; intros t W; simpl; auto.
  unfold apply_all in *. simpl. apply IHr. apply apply_top_wf; auto.
Qed.

Lemma apply_all_app a b t : apply_all (a ++ b) t = apply_all b (apply_all a t).
Proof. unfold apply_all. apply fold_left_app. Qed.

(* ------------------------------------------------------------------ programs *)
Lemma tops_app a : forall b, tops (a ++ b) = tops a ++ tops b.
Proof.
  induction a as [|x r]; intros b; simpl; auto.
  destruct x; simpl; rewrite ?IHr; auto.
Qed.

Lemma tops_In o p : In o (tops p) <-> In (ATab o) p.
Proof.
  induction p as [|x r]; simpl; [tauto|].
  destruct x; simpl; rewrite IHr; try (split; [intros H; right; exact H | intros [H|H]; [discriminate H | exact H]]).
  split.
  - intros [H|H]; [left; congruence | right; auto].
  - intros [H|H]; [left; congruence | right; auto].
Qed.

(* ------------------------------------------------------------------ set_nth *)
Lemma set_nth_length {A} (x : A) l : forall n, length (set_nth n x l) = length l.
Proof. induction l; destruct n; simpl; auto. Qed.

Lemma nth_set_nth_same {A} (x d : A) l : forall n, n < length l -> nth n (set_nth n x l) d = x.
Proof.
  induction l; intros n H; simpl in H; [lia|]. destruct n; simpl; auto. apply IHl. lia.
Qed.

Lemma nth_set_nth_other {A} (x d : A) l : forall n k, n <> k -> nth k (set_nth n x l) d = nth k l d.
Proof.
  induction l; intros n k H; destruct n; simpl; auto.
  - destruct k; auto. congruence.
  - destruct k; auto.
Qed.

Lemma nth_error_nth {A} (l : list A) n x d : nth_error l n = Some x -> nth n l d = x /\ n < length l.
Proof.
  revert n; induction l; intros n H; destruct n; simpl in *; try discriminate.
  - inversion H; split; auto. lia.
  - apply IHl in H. destruct H; split; auto. lia.
Qed.

(* ------------------------------------------------------------------ the invariant of every schedule *)
Definition by_thread (i : nat) (l : list (nat * aop)) : list aop :=
  map snd (filter (fun p => Nat.eqb (fst p) i) l).

Lemma by_thread_app i a b : by_thread i (a ++ b) = by_thread i a ++ by_thread i b.
Proof. unfold by_thread. rewrite filter_app, map_app. reflexivity. Qed.

Record inv (progs : list (list aop)) (t0 : table) (st : cstate) : Prop := {
  inv_table : c_table st = apply_all (tops (done_ops st)) t0;
  inv_order : forall i, done_by i st ++ nth i (c_progs st) [] = nth i progs [];
  inv_len : length (c_progs st) = length progs
}.

Lemma inv_init progs t0 : inv progs t0 (init progs t0).
Proof. constructor; simpl; auto. Qed.

Lemma done_ops_cons st i a :
  map snd (rev ((i, a) :: c_done st)) = done_ops st ++ [a].
Proof. unfold done_ops. simpl. rewrite map_app. reflexivity. Qed.

Lemma inv_step progs t0 st i : inv progs t0 st -> inv progs t0 (cstep st i).
Proof.
  intros [IT IO IL]. unfold cstep.
  destruct (l_pend (nth i (c_loc st) loc0)) as [|d pr]; [|constructor; auto].
  destruct (nth_error (c_progs st) i) as [[|a rest]|] eqn:E; try (constructor; auto; fail).
  destruct (enabled (c_lock st) a); [|constructor; auto].
  destruct (nth_error_nth _ _ _ [] E) as [N L].
  constructor; simpl.
  - unfold done_ops; simpl. rewrite map_app, tops_app, apply_all_app. simpl.
    fold (done_ops st). rewrite <- IT.
    destruct a; reflexivity.
  - intros k. unfold done_by; simpl. rewrite filter_app, map_app. simpl.
    fold (done_by k st).
    destruct (Nat.eqb i k) eqn:K.
    + apply Nat.eqb_eq in K; subst k. simpl. rewrite nth_set_nth_same by auto.
      rewrite <- app_assoc. simpl. rewrite <- N. apply IO.
    + apply Nat.eqb_neq in K. simpl. rewrite app_nil_r. rewrite nth_set_nth_other by auto. apply IO.
  - rewrite set_nth_length. auto.
Qed.

Lemma inv_run progs t0 sched : forall st, inv progs t0 st -> inv progs t0 (crun st sched).
Proof.
  induction sched as [|i r]; intros st I; simpl; auto.
  apply IHr. apply inv_step; auto.
Qed.

(* ------------------------------------------------------------------ linearizability, per key *)
(* For ALL programs and ALL schedules: the executed steps (lin, in the order they happened) contain, for every thread, exactly
   the executed prefix of its program in program order; the table is the result of applying the table operations among them
   in that order; and the entry of a key (m, c) is determined by the operations on that key alone. *)
Lemma routing_linearizable progs t0 sched :
  let st := crun (init progs t0) sched in
  exists lin : list (nat * aop),
    (forall i, by_thread i lin ++ nth i (c_progs st) [] = nth i progs []) /\
    c_table st = apply_all (tops (map snd lin)) t0 /\
    (forall m c, look (c_table st) m c =
                 key_run m c (filter (touches m c) (tops (map snd lin))) (look t0 m c)).
Proof.
  intros st. destruct (inv_run progs t0 sched _ (inv_init progs t0)) as [IT IO IL].
  fold st in IT, IO, IL. exists (rev (c_done st)). split; [|split].
  - exact IO.
  - exact IT.
  - intros m c. rewrite IT. rewrite look_apply_all. apply key_run_filter.
Qed.

Lemma all_done_nth st i : all_done st = true -> nth i (c_progs st) [] = [].
Proof.
  unfold all_done. intros H. apply andb_true_iff in H as [H _]. rewrite forallb_forall in H.
  destruct (nth_in_or_default i (c_progs st) []) as [I|D]; auto.
  specialize (H _ I). destruct (nth i (c_progs st) []); auto. discriminate.
Qed.

(* operations of the other threads that do not touch the key drop out of the filtered sequence *)
Lemma filter_owner m c i (l : list (nat * aop)) :
  (forall j a o, In (j, a) l -> j <> i -> a = ATab o -> touches m c o = false) ->
  filter (touches m c) (tops (map snd l)) = filter (touches m c) (tops (by_thread i l)).
Proof.
  unfold by_thread. induction l as [|[j a] r]; intros H; simpl; auto.
  assert (IH : filter (touches m c) (tops (map snd r)) =
               filter (touches m c) (tops (map snd (filter (fun p => Nat.eqb (fst p) i) r)))).
  { apply IHr. intros j' a' o' I. apply (H j' a' o'). right; auto. }
  destruct (Nat.eqb j i) eqn:E; simpl.
  - destruct a; simpl; rewrite ?IH; auto.
  - apply Nat.eqb_neq in E. destruct a; simpl; auto.
    rewrite (H j (ATab o) o); auto. left; auto.
Qed.

Lemma in_by_thread j a l : In (j, a) l -> In a (by_thread j l).
Proof.
  intros I. unfold by_thread. apply in_map_iff. exists (j, a). split; auto.
  apply filter_In. split; auto. simpl. apply Nat.eqb_refl.
Qed.

(* a key written by one thread only: when all threads have finished its entry is what that thread's program alone, run
   sequentially from the initial table, leaves there -- for every schedule *)
Lemma owner_determines progs t0 sched i m c :
  (forall j o, j <> i -> In o (tops (nth j progs [])) -> touches m c o = false) ->
  all_done (crun (init progs t0) sched) = true ->
  look (c_table (crun (init progs t0) sched)) m c = look (apply_all (tops (nth i progs [])) t0) m c.
Proof.
  intros OW AD.
  destruct (inv_run progs t0 sched _ (inv_init progs t0)) as [IT IO IL].
  set (st := crun (init progs t0) sched) in *.
  rewrite IT, !look_apply_all. rewrite key_run_filter. rewrite (key_run_filter m c (tops (nth i progs []))).
  f_equal. unfold done_ops.
  rewrite (filter_owner m c i).
  - f_equal. f_equal. pose proof (IO i) as P. rewrite all_done_nth in P by auto. rewrite app_nil_r in P.
    exact P.
  - intros j a o I N E. subst a. apply (OW j o N).
    pose proof (IO j) as P. rewrite all_done_nth in P by auto. rewrite app_nil_r in P.
    rewrite <- P. apply tops_In. unfold done_by. apply in_by_thread. exact I.
Qed.

(* ------------------------------------------------------------------ a thread's program run alone = the sequential model *)
Lemma upd_upd_id m f t : upd_mod m f (upd_mod m (fun l => l) t) = upd_mod m f t.
Proof.
  induction t as [|[m' l] r]; simpl.
  - rewrite name_eqb_refl. reflexivity.
  - destruct (name_eqb m m') eqn:E; simpl; rewrite E; auto. rewrite IHr. reflexivity.
Qed.

Lemma set_level_ops_seq t m c d lv :
  check_level d = inl lv ->
  apply_all (tops (set_level_ops c lv m)) t = fst (set_conn_level t m c d).
Proof.
  intros CL. unfold set_conn_level. rewrite CL. simpl. unfold apply_all. simpl.
  destruct (Z.eqb lv OFF); simpl; apply upd_upd_id.
Qed.

Lemma set_all_seq ms : forall t c d lv,
  check_level d = inl lv ->
  apply_all (tops (flat_map (set_level_ops c lv) ms)) t = fst (set_all t ms c d).
Proof.
  induction ms as [|m r]; intros t c d lv CL.
  - reflexivity.
  - cbn [flat_map]. rewrite tops_app, apply_all_app. rewrite (set_level_ops_seq t m c d lv CL).
    destruct (set_conn_level_valid t m c d lv CL) as (t' & E & _). cbn [set_all]. rewrite E. simpl.
    apply IHr; auto.
Qed.

Lemma logging_ops_seq mods t c spec d :
  apply_all (tops (fst (logging_ops mods c spec d))) t = fst (handle_logging mods t c spec d).
Proof.
  unfold logging_ops, req_targets, handle_logging.
  destruct (is_all spec) eqn:A.
  - destruct (check_level d) as [lv|e] eqn:CL; simpl.
    + apply set_all_seq; auto.
    + rewrite (set_all_invalid _ _ _ _ _ CL). reflexivity.
  - destruct spec as [s|]; [|discriminate A].
    destruct (mem_name s mods); simpl; auto.
    destruct (check_level d) as [lv|e] eqn:CL; simpl.
    + exact (set_level_ops_seq t s c d lv CL).
    + rewrite (set_conn_level_invalid _ _ _ _ _ CL). reflexivity.
Qed.

Lemma check_level_off : check_level (LStr s_off) = inl OFF.
Proof. reflexivity. Qed.

Lemma op_prog_seq mods t o : apply_all (tops (op_prog mods o)) t = fst (step mods t o).
Proof.
  destruct o as [c spec d|m lv py|c|c|c sp|c sp]; simpl; [| | | |reflexivity|reflexivity].
  - pose proof (logging_ops_seq mods t c spec d) as L.
    destruct (logging_ops mods c spec d) as [ops e]. simpl in *.
    rewrite tops_app. simpl. rewrite app_nil_r. rewrite L.
    destruct (handle_logging mods t c spec d); reflexivity.
  - reflexivity.
  - rewrite tops_app. simpl. rewrite app_nil_r. unfold reset_ops, reset_connection.
    rewrite (set_all_seq mods t c (LStr s_off) OFF check_level_off).
    destruct (set_all t mods c (LStr s_off)); reflexivity.
  - unfold reset_ops, reset_connection.
    rewrite (set_all_seq mods t c (LStr s_off) OFF check_level_off).
    destruct (set_all t mods c (LStr s_off)); reflexivity.
Qed.

Lemma conn_prog_seq mods ops : forall t, apply_all (tops (conn_prog mods ops)) t = run_from mods t ops.
Proof.
  induction ops as [|o r]; intros t; simpl; auto.
  unfold conn_prog in *. simpl. rewrite tops_app, apply_all_app. rewrite op_prog_seq. apply IHr.
Qed.

(* the program of a connection's thread writes entries of that connection only *)
Lemma set_level_ops_touch c lv m o m' c' :
  In o (tops (set_level_ops c lv m)) -> c' <> c -> touches m' c' o = false.
Proof.
  simpl. intros [H|[H|[]]] N; subst; simpl; auto.
  destruct (Z.eqb lv OFF); simpl; apply andb_false_iff; right; apply Nat.eqb_neq; auto.
Qed.

Lemma flat_set_level_touch c lv ms o m' c' :
  In o (tops (flat_map (set_level_ops c lv) ms)) -> c' <> c -> touches m' c' o = false.
Proof.
  induction ms as [|m r]; simpl; intros H N; [destruct H|].
  destruct H as [H|[H|H]]; subst; simpl; auto.
  destruct (Z.eqb lv OFF); simpl; apply andb_false_iff; right; apply Nat.eqb_neq; auto.
Qed.

Lemma op_prog_touch mods o c op m' c' :
  by_conn c op = true -> In o (tops (op_prog mods op)) -> c' <> c -> touches m' c' o = false.
Proof.
  destruct op as [c0 spec d|m lv py|c0|c0|c0 sp|c0 sp]; simpl; intros B H N; try discriminate;
    try (destruct H; fail);
    apply Nat.eqb_eq in B; subst c0.
  - unfold logging_ops in H. destruct (req_targets mods spec) as [ms|]; simpl in H; [|destruct H].
    destruct (check_level d) as [lv|e]; simpl in H; [|destruct H].
    rewrite tops_app in H. simpl in H. rewrite app_nil_r in H.
    eapply flat_set_level_touch; eauto.
  - rewrite tops_app in H. simpl in H. rewrite app_nil_r in H.
    eapply flat_set_level_touch; eauto.
  - eapply flat_set_level_touch; eauto.
Qed.

Lemma conn_prog_touch mods c ops o m' c' :
  (forall op, In op ops -> by_conn c op = true) ->
  In o (tops (conn_prog mods ops)) -> c' <> c -> touches m' c' o = false.
Proof.
  induction ops as [|op r]; simpl; intros B H N; [destruct H|].
  unfold conn_prog in H. simpl in H. rewrite tops_app in H. apply in_app_or in H as [H|H].
  - eapply op_prog_touch; eauto.
  - apply IHr; auto.
Qed.

(* ------------------------------------------------------------------ routing after a concurrent run *)
(* Any number of threads with any programs, any schedule.  If thread i serves connection c (its program is the one of the
   history ops of c) and no other thread writes an entry of c, then, once all threads have finished, c's choice for every
   module is the one the sequential model computes from c's own history -- whatever the others did and however the steps
   were interleaved. *)
Lemma concurrent_choice mods progs t0 sched i c ops :
  nth i progs [] = conn_prog mods ops ->
  (forall j o m, j <> i -> In o (tops (nth j progs [])) -> touches m c o = false) ->
  all_done (crun (init progs t0) sched) = true ->
  forall m, chosen (c_table (crun (init progs t0) sched)) m c = chosen (run_from mods t0 ops) m c.
Proof.
  intros P OW AD m. rewrite <- !look_chosen.
  rewrite (owner_determines progs t0 sched i m c); auto.
  - rewrite P. rewrite conn_prog_seq. reflexivity.
  - intros j o N I. eapply OW; eauto.
Qed.

Lemma crun_wf progs t0 sched : wf t0 -> wf (c_table (crun (init progs t0) sched)).
Proof.
  intros W. destruct (inv_run progs t0 sched _ (inv_init progs t0)) as [IT _ _].
  rewrite IT. apply apply_all_wf; auto.
Qed.

Lemma run_from_app mods t a b : run_from mods t (a ++ b) = run_from mods (run_from mods t a) b.
Proof. unfold run_from. apply fold_left_app. Qed.

(* the property after a concurrent phase: pre = the sequential history before the threads start *)
Lemma concurrent_routing mods pre progs sched i c ops m lv py :
  nth i progs [] = conn_prog mods ops ->
  (forall j o m, j <> i -> In o (tops (nth j progs [])) -> touches m c o = false) ->
  all_done (crun (init progs (run mods pre)) sched) = true ->
  deliv_to c (handle (c_table (crun (init progs (run mods pre)) sched)) m lv py) =
  expected (spec_choice mods (rev (pre ++ ops)) m c) m lv py c.
Proof.
  intros P OW AD. rewrite handle_exact by (apply crun_wf; apply run_wf).
  rewrite (concurrent_choice mods progs (run mods pre) sched i c ops P OW AD).
  change (run mods pre) with (run_from mods [] pre). rewrite <- run_from_app.
  change (run_from mods [] (pre ++ ops)) with (run mods (pre ++ ops)).
  rewrite run_refines_spec. reflexivity.
Qed.

(* ------------------------------------------------------------------ closing X and enabling Y commute *)
Lemma close_and_enable mods pre others sched X Y m d lv :
  X <> Y -> mem_name m mods = true -> check_level d = inl lv -> lv <> OFF ->
  (forall p o m', In p others -> In o (tops p) -> touches m' X o = false /\ touches m' Y o = false) ->
  let progs := conn_prog mods [ODisconnect X] :: conn_prog mods [OLogging Y (Some m) d] :: others in
  let st := crun (init progs (run mods pre)) sched in
  all_done st = true ->
  chosen (c_table st) m Y = Some lv /\ forall m', chosen (c_table st) m' X = None.
Proof.
  intros N M CL NO OT progs st AD.
  assert (others_in : forall k, In (nth k others []) others \/ nth k others [] = []).
  { intros k. destruct (nth_in_or_default k others []); auto. }
  split.
  - unfold st. rewrite (concurrent_choice mods progs (run mods pre) sched 1 Y [OLogging Y (Some m) d]); auto.
    + simpl. rewrite (proj2 (step_chosen mods (run mods pre) (OLogging Y (Some m) d))). simpl.
      rewrite Nat.eqb_refl, CL. unfold targets.
      destruct (is_all (Some m)) eqn:A.
      * rewrite M. destruct (Z.eqb lv OFF) eqn:E; auto. apply Z.eqb_eq in E. contradiction.
      * rewrite name_eqb_refl, M. simpl. destruct (Z.eqb lv OFF) eqn:E; auto. apply Z.eqb_eq in E. contradiction.
    + intros j o m' J I. destruct j as [|[|k]]; [|congruence|].
      * simpl in I. eapply (conn_prog_touch mods X [ODisconnect X]); eauto.
        intros op [H|[]]; subst; simpl; apply Nat.eqb_refl.
      * simpl in I. destruct (others_in k) as [H|H].
        -- apply (OT _ o m' H I).
        -- rewrite H in I. destruct I.
  - intros m'. unfold st. rewrite (concurrent_choice mods progs (run mods pre) sched 0 X [ODisconnect X]); auto.
    + simpl. rewrite (proj2 (step_chosen mods (run mods pre) (ODisconnect X))). simpl.
      rewrite Nat.eqb_refl. simpl. destruct (mem_name m' mods) eqn:M'; auto.
      change (run mods pre) with (run mods pre). rewrite run_refines_spec.
      apply spec_choice_unknown_module; auto.
    + intros j o m2 J I. destruct j as [|[|k]]; [congruence| |].
      * simpl in I. eapply (conn_prog_touch mods Y [OLogging Y (Some m) d]); eauto.
        intros op [H|[]]; subst; simpl; apply Nat.eqb_refl.
      * simpl in I. destruct (others_in k) as [H|H].
        -- apply (OT _ o m2 H I).
        -- rewrite H in I. destruct I.
Qed.

