(* C20 -- concurrent layer of the model: the subscription table of RemoteLogHandler operated by several threads.
   No proofs in this file.

   Threads: one per connection (its requests run under the dispatcher lock, Dispatcher.remove_connection runs without it)
   and module threads emitting records (RemoteLogHandler.handle reads the module's dict and iterates over it).
   Granularity: every dict operation the code performs is one atomic step --
     self.subscriptions.setdefault(modname, {})      TSetDefault
     subscriptions[conn] = level                     TSet
     subscriptions.pop(conn, None)                   TPop
     self.subscriptions[modname]  (in handle)        AGet
     one next() of the items() iterator              ANext / AEnd
   plus acquiring / releasing Dispatcher._lock.  A schedule is a list of thread numbers; a step of a thread that has
   finished or that waits for the lock changes nothing.  The second half of the file is the copy-on-write VARIANT of
   set_conn_level (read + copy, change the copy, store back) used only for the witness that such a variant loses updates. *)
From Coq Require Import List Arith ZArith Bool NArith.
Import ListNotations.
Require Import FV.Gen.C20 FV.C20.Model.

(* the level connection c has in module m's dict *)
Definition look (t : table) (m : name) (c : conn) : option Z :=
  match get_mod m t with Some l => conn_get c l | None => None end.

(* atomic in-place operations on the table *)
Inductive top :=
| TSetDefault (m : name)
| TSet (m : name) (c : conn) (lv : Z)
| TPop (m : name) (c : conn).

Definition apply_top (o : top) (t : table) : table :=
  match o with
  | TSetDefault m => upd_mod m (fun l => l) t
  | TSet m c lv => upd_mod m (conn_set c lv) t
  | TPop m c => upd_mod m (conn_pop c) t
  end.

Definition apply_all (os : list top) (t : table) : table := fold_left (fun t o => apply_top o t) os t.

(* atomic steps of a thread *)
Inductive aop :=
| AAcq                                   (* with self._lock: *)
| ARel (e : option exn)                  (* leaving the with block, normally or with the exception of the request *)
| ATab (o : top)
| AGet (m : name) (found : bool)         (* handle: subscriptions = self.subscriptions[modname]; KeyError -> return *)
| ANext (m : name) (lv : Z) (py : name) (c : conn) (lev : Z) (sent : option name)
                                         (* the iterator yields (c, lev) for a record (m, lv, python name py); sent: the level
                                            name of the message handed to send_log for c, if any.  What the iterator of a dict
                                            that is being modified yields is CPython behaviour and comes as data; the step
                                            checks it against the table and decides the delivery *)
| AEnd (err : bool)                      (* the iteration ends: StopIteration, or RuntimeError (dict changed size) *)
| ABad.                                  (* an operation the model does not know (never part of a compiled program) *)

Definition opt_name_eqb (a b : option name) : bool :=
  match a, b with
  | None, None => true
  | Some x, Some y => name_eqb x y
  | _, _ => false
  end.
Definition opt_Z_eqb (a b : option Z) : bool :=
  match a, b with
  | None, None => true
  | Some x, Some y => Z.eqb x y
  | _, _ => false
  end.

Record cstate := {
  c_table : table;
  c_lock : option nat;                   (* owner of Dispatcher._lock *)
  c_progs : list (list aop);             (* what every thread still has to do *)
  c_done : list (nat * aop);             (* executed steps, newest first *)
  c_ok : bool                            (* every reader step so far was consistent with the table *)
}.

Definition init (progs : list (list aop)) (t : table) : cstate :=
  {| c_table := t; c_lock := None; c_progs := progs; c_done := []; c_ok := true |}.

Fixpoint set_nth {A} (n : nat) (x : A) (l : list A) : list A :=
  match n, l with
  | _, [] => []
  | 0, _ :: r => x :: r
  | S n', y :: r => y :: set_nth n' x r
  end.

(* can thread i execute a now *)
Definition enabled (lock : option nat) (a : aop) : bool :=
  match a with
  | AAcq => match lock with None => true | Some _ => false end
  | _ => true
  end.

(* the delivery decision of handle for one item: if record.levelno >= lev: send_log(conn, modname, levelname, ...) *)
Definition next_sent (lv : Z) (py : name) (lev : Z) : option name :=
  if Z.leb lev lv then Some (record_name lv py) else None.

Definition reader_ok (t : table) (a : aop) : bool :=
  match a with
  | AGet m found => Bool.eqb found (match get_mod m t with Some _ => true | None => false end)
  | ANext m lv py c lev sent => opt_Z_eqb (look t m c) (Some lev) && opt_name_eqb sent (next_sent lv py lev)
  | ABad => false
  | _ => true
  end.

Definition cstep (st : cstate) (i : nat) : cstate :=
  match nth_error (c_progs st) i with
  | Some (a :: rest) =>
      if enabled (c_lock st) a then
        {| c_table := match a with ATab o => apply_top o (c_table st) | _ => c_table st end;
           c_lock := match a with AAcq => Some i | ARel _ => None | _ => c_lock st end;
           c_progs := set_nth i rest (c_progs st);
           c_done := (i, a) :: c_done st;
           c_ok := c_ok st && reader_ok (c_table st) a |}
      else st
  | _ => st
  end.

Definition crun (st : cstate) (sched : list nat) : cstate := fold_left cstep sched st.

Definition all_done (st : cstate) : bool := forallb (fun p => match p with [] => true | _ => false end) (c_progs st).

(* ------------------------------------------------------------------ programs of the threads *)
(* set_conn_level(m, c, <valid level lv>): setdefault, then one in-place operation on the module's dict *)
Definition set_level_ops (c : conn) (lv : Z) (m : name) : list aop :=
  [ATab (TSetDefault m); ATab (if Z.eqb lv OFF then TPop m c else TSet m c lv)].

(* the modules a logging request addresses: None = secnode.modules[specifier] raises KeyError *)
Definition req_targets (mods : list name) (spec : option name) : option (list name) :=
  if is_all spec then Some mods
  else match spec with
       | Some m => if mem_name m mods then Some [m] else None
       | None => Some []
       end.

(* the table operations of a request (no lock operations): handle_logging / reset_connection *)
Definition logging_ops (mods : list name) (c : conn) (spec : option name) (d : lvdata) : list aop * option exn :=
  match req_targets mods spec with
  | None => ([], Some EKey)
  | Some ms =>
      match check_level d with
      | inr e => ([], match ms with [] => None | _ => Some e end)       (* raised by the first module's set_conn_level *)
      | inl lv => (flat_map (set_level_ops c lv) ms, None)
      end
  end.

Definition reset_ops (mods : list name) (c : conn) : list aop := flat_map (set_level_ops c OFF) mods.

(* Dispatcher.handle_request takes the lock around the handler; remove_connection (called by the interface thread when
   the connection is closed) does not *)
Definition op_prog (mods : list name) (o : op) : list aop :=
  match o with
  | OLogging c spec d => let '(ops, e) := logging_ops mods c spec d in AAcq :: ops ++ [ARel e]
  | OIdent c => AAcq :: reset_ops mods c ++ [ARel None]
  | ODisconnect c => reset_ops mods c
  | OEmit _ _ _ => []
  end.

Definition conn_prog (mods : list name) (ops : list op) : list aop := flat_map (op_prog mods) ops.

(* the table operations of a program, in order *)
Fixpoint tops (p : list aop) : list top :=
  match p with
  | [] => []
  | ATab o :: r => o :: tops r
  | _ :: r => tops r
  end.

(* does the operation write the entry of connection c in module m's dict *)
Definition touches (m : name) (c : conn) (o : top) : bool :=
  match o with
  | TSetDefault _ => false
  | TSet m' c' _ | TPop m' c' => name_eqb m' m && Nat.eqb c' c
  end.

(* the steps of thread i among the executed ones, oldest first *)
Definition done_by (i : nat) (st : cstate) : list aop :=
  map snd (filter (fun p => Nat.eqb (fst p) i) (rev (c_done st))).
Definition done_ops (st : cstate) : list aop := map snd (rev (c_done st)).

(* ------------------------------------------------------------------ copy-on-write VARIANT (not the code of /repo) *)
(* set_conn_level as three steps: copy = dict(self.subscriptions.get(m, ())); change the private copy;
   self.subscriptions[m] = copy *)
Inductive wop :=
| WRead (m : name)
| WChange (f : subs -> subs)
| WStore (m : name).

Record wstate := { w_table : table; w_progs : list (list wop); w_local : list subs }.

Definition set_mod (m : name) (l : subs) (t : table) : table := upd_mod m (fun _ => l) t.

Definition wstep (st : wstate) (i : nat) : wstate :=
  match nth_error (w_progs st) i with
  | Some (a :: rest) =>
      let loc := nth i (w_local st) [] in
      {| w_table := match a with WStore m => set_mod m loc (w_table st) | _ => w_table st end;
         w_progs := set_nth i rest (w_progs st);
         w_local := match a with
                    | WRead m => set_nth i (match get_mod m (w_table st) with Some l => l | None => [] end) (w_local st)
                    | WChange f => set_nth i (f loc) (w_local st)
                    | WStore _ => w_local st
                    end |}
  | _ => st
  end.

Definition wrun (st : wstate) (sched : list nat) : wstate := fold_left wstep sched st.
Definition winit (progs : list (list wop)) (t : table) : wstate :=
  {| w_table := t; w_progs := progs; w_local := map (fun _ => []) progs |}.

Definition cow_set_level (c : conn) (lv : Z) (m : name) : list wop :=
  [WRead m; WChange (if Z.eqb lv OFF then conn_pop c else conn_set c lv); WStore m].
Definition w_all_done (st : wstate) : bool := forallb (fun p => match p with [] => true | _ => false end) (w_progs st).
