(* C20 -- concurrent layer of the model: the subscription table of RemoteLogHandler operated by several threads.
   No proofs in this file.

   Threads: one per connection (its requests run under the dispatcher lock, Dispatcher.remove_connection runs without it)
   and module threads emitting records (RemoteLogHandler.handle, as repaired by 641822e: it takes a snapshot of the
   module's dict and delivers from the snapshot).
   Granularity: every dict operation the code performs is one atomic step --
     self.subscriptions.setdefault(modname, {})      TSetDefault
     subscriptions[conn] = level                     TSet
     subscriptions.pop(conn, None)                   TPop
     self.subscriptions[modname]  (in handle)        AGet    (KeyError: the emission is over)
     list(subscriptions.items())                     ASnap   (one step: the messages to send are fixed here)
     send_log(conn, ...) for one item of the snapshot   a delivery step (implicit: a thread with messages left to send
                                                         sends one per step before it goes on with its program)
   plus acquiring / releasing Dispatcher._lock.  A schedule is a list of thread numbers; a step of a thread that has
   finished or that waits for the lock changes nothing.  The second half of the file is the copy-on-write VARIANT of
   set_conn_level (read + copy, change the copy, store back) used only for the witness that such a variant loses updates. *)
From Coq Require Import List Arith ZArith Bool NArith.
Import ListNotations.
Require Import FV.Gen.C20 FV.C20.Model.

(* the level connection c has in module m's dict *)
Definition look (t : table) (m : name) (c : conn) : option Z :=
  match get_mod m t with Some l => conn_get c l | None => None end.

(* atomic in-place operations on the table *)
Inductive top :=
| TSetDefault (m : name)
| TSet (m : name) (c : conn) (lv : Z)
| TPop (m : name) (c : conn).

Definition apply_top (o : top) (t : table) : table :=
  match o with
  | TSetDefault m => upd_mod m (fun l => l) t
  | TSet m c lv => upd_mod m (conn_set c lv) t
  | TPop m c => upd_mod m (conn_pop c) t
  end.

Definition apply_all (os : list top) (t : table) : table := fold_left (fun t o => apply_top o t) os t.

(* atomic steps of a thread *)
Inductive aop :=
| AAcq                                   (* with self._lock: *)
| ARel (e : option exn)                  (* leaving the with block, normally or with the exception of the request *)
| ATab (o : top)
| AGet (m : name)                        (* handle: subscriptions = self.subscriptions[modname]; KeyError -> return *)
| ASnap (lv : Z) (py : name).            (* handle: list(subscriptions.items()) of the dict found by the AGet before, for a
                                            record with level number lv and python level name py *)

(* the table operations of a program, in order *)
Fixpoint tops (p : list aop) : list top :=
  match p with
  | [] => []
  | ATab o :: r => o :: tops r
  | _ :: r => tops r
  end.

(* what a thread remembers between its steps *)
Record tloc := {
  l_get : option (name * bool * nat);    (* its last lookup in handle: the module, whether the module's dict was found, and
                                            the number of steps executed before (the number: specification only) *)
  l_pend : list delivery                 (* messages of its snapshot still to be sent *)
}.
Definition loc0 : tloc := {| l_get := None; l_pend := [] |}.

(* an emission as it happened (specification only): the thread, the record, the table at the moment of the snapshot, how
   many steps had been executed before the lookup / before the snapshot *)
Record emission := {
  em_thread : nat; em_mod : name; em_lv : Z; em_py : name;
  em_found : bool; em_table : table; em_start : nat; em_pos : nat
}.
(* for conn, lev in <snapshot>: if record.levelno >= lev: send_log(conn, modname, levelname, ...) *)
Definition em_msgs (e : emission) : list delivery :=
  if em_found e then handle (em_table e) (em_mod e) (em_lv e) (em_py e) else [].

Record cstate := {
  c_table : table;
  c_lock : option nat;                   (* owner of Dispatcher._lock *)
  c_progs : list (list aop);             (* what every thread still has to do *)
  c_loc : list tloc;
  c_done : list (nat * aop);             (* executed program steps, newest first *)
  c_sent : list (nat * delivery);        (* messages handed to send_log, newest first *)
  c_emis : list emission                 (* snapshots taken, newest first *)
}.

Definition init (progs : list (list aop)) (t : table) : cstate :=
  {| c_table := t; c_lock := None; c_progs := progs; c_loc := map (fun _ => loc0) progs;
     c_done := []; c_sent := []; c_emis := [] |}.

Fixpoint set_nth {A} (n : nat) (x : A) (l : list A) : list A :=
  match n, l with
  | _, [] => []
  | 0, _ :: r => x :: r
  | S n', y :: r => y :: set_nth n' x r
  end.

(* can thread i execute a now *)
Definition enabled (lock : option nat) (a : aop) : bool :=
  match a with
  | AAcq => match lock with None => true | Some _ => false end
  | _ => true
  end.

Definition has_mod (m : name) (t : table) : bool := match get_mod m t with Some _ => true | None => false end.

(* the local state of thread i after executing a *)
Definition loc_after (st : cstate) (lo : tloc) (a : aop) : tloc :=
  match a with
  | AGet m => {| l_get := Some (m, has_mod m (c_table st), length (c_done st)); l_pend := [] |}
  | ASnap lv py =>
      match l_get lo with
      | Some (m, found, _) =>
          {| l_get := l_get lo; l_pend := if found then handle (c_table st) m lv py else [] |}
      | None => lo                        (* no lookup before: not a step of handle *)
      end
  | _ => lo
  end.

Definition emis_after (st : cstate) (i : nat) (lo : tloc) (a : aop) : list emission :=
  match a with
  | ASnap lv py =>
      match l_get lo with
      | Some (m, found, start) =>
          {| em_thread := i; em_mod := m; em_lv := lv; em_py := py; em_found := found;
             em_table := c_table st; em_start := start; em_pos := length (c_done st) |} :: c_emis st
      | None => c_emis st
      end
  | _ => c_emis st
  end.

Definition cstep (st : cstate) (i : nat) : cstate :=
  let lo := nth i (c_loc st) loc0 in
  match l_pend lo with
  | d :: pr =>
      (* one message of the snapshot is sent *)
      {| c_table := c_table st; c_lock := c_lock st; c_progs := c_progs st;
         c_loc := set_nth i {| l_get := l_get lo; l_pend := pr |} (c_loc st);
         c_done := c_done st; c_sent := (i, d) :: c_sent st; c_emis := c_emis st |}
  | [] =>
      match nth_error (c_progs st) i with
      | Some (a :: rest) =>
          if enabled (c_lock st) a then
            {| c_table := match a with ATab o => apply_top o (c_table st) | _ => c_table st end;
               c_lock := match a with AAcq => Some i | ARel _ => None | _ => c_lock st end;
               c_progs := set_nth i rest (c_progs st);
               c_loc := set_nth i (loc_after st lo a) (c_loc st);
               c_done := (i, a) :: c_done st;
               c_sent := c_sent st;
               c_emis := emis_after st i lo a |}
          else st
      | _ => st
      end
  end.

Definition crun (st : cstate) (sched : list nat) : cstate := fold_left cstep sched st.

Definition all_done (st : cstate) : bool :=
  forallb (fun p => match p with [] => true | _ => false end) (c_progs st)
  && forallb (fun lo => match l_pend lo with [] => true | _ => false end) (c_loc st).

(* the messages thread i handed to send_log, oldest first; the snapshots it took, oldest first; the executed steps *)
Definition msgs_by (i : nat) (st : cstate) : list delivery :=
  map snd (filter (fun p => Nat.eqb (fst p) i) (rev (c_sent st))).
Definition emissions_by (i : nat) (st : cstate) : list emission :=
  filter (fun e => Nat.eqb (em_thread e) i) (rev (c_emis st)).
Definition lin (st : cstate) : list (nat * aop) := rev (c_done st).
Definition table_after (t0 : table) (l : list (nat * aop)) : table := apply_all (tops (map snd l)) t0.

(* the program of a module thread emitting records (module, level number, python level name) *)
Definition emit_prog (recs : list (name * Z * name)) : list aop :=
  flat_map (fun r => [AGet (fst (fst r)); ASnap (snd (fst r)) (snd r)]) recs.

(* ------------------------------------------------------------------ programs of the threads *)
(* set_conn_level(m, c, <valid level lv>): setdefault, then one in-place operation on the module's dict *)
Definition set_level_ops (c : conn) (lv : Z) (m : name) : list aop :=
  [ATab (TSetDefault m); ATab (if Z.eqb lv OFF then TPop m c else TSet m c lv)].

(* the modules a logging request addresses: None = secnode.modules[specifier] raises KeyError *)
Definition req_targets (mods : list name) (spec : option name) : option (list name) :=
  if is_all spec then Some mods
  else match spec with
       | Some m => if mem_name m mods then Some [m] else None
       | None => Some []
       end.

(* the table operations of a request (no lock operations): handle_logging / reset_connection *)
Definition logging_ops (mods : list name) (c : conn) (spec : option name) (d : lvdata) : list aop * option exn :=
  match req_targets mods spec with
  | None => ([], Some EKey)
  | Some ms =>
      match check_level d with
      | inr e => ([], match ms with [] => None | _ => Some e end)       (* raised by the first module's set_conn_level *)
      | inl lv => (flat_map (set_level_ops c lv) ms, None)
      end
  end.

Definition reset_ops (mods : list name) (c : conn) : list aop := flat_map (set_level_ops c OFF) mods.

(* Dispatcher.handle_request takes the lock around the handler; remove_connection (called by the interface thread when
   the connection is closed) does not *)
Definition op_prog (mods : list name) (o : op) : list aop :=
  match o with
  | OLogging c spec d => let '(ops, e) := logging_ops mods c spec d in AAcq :: ops ++ [ARel e]
  | OIdent c => AAcq :: reset_ops mods c ++ [ARel None]
  | ODisconnect c => reset_ops mods c
  | OEmit _ _ _ => []
  (* activate / deactivate: through handle_request (lock taken and released), no operation on the subscription table of
     the log handler; only requests that are accepted are used in threads of concurrent cases *)
  | OActivate _ _ | ODeactivate _ _ => [AAcq; ARel None]
  end.

Definition conn_prog (mods : list name) (ops : list op) : list aop := flat_map (op_prog mods) ops.

(* does the operation write the entry of connection c in module m's dict *)
Definition touches (m : name) (c : conn) (o : top) : bool :=
  match o with
  | TSetDefault _ => false
  | TSet m' c' _ | TPop m' c' => name_eqb m' m && Nat.eqb c' c
  end.

(* the steps of thread i among the executed ones, oldest first *)
Definition done_by (i : nat) (st : cstate) : list aop :=
  map snd (filter (fun p => Nat.eqb (fst p) i) (rev (c_done st))).
Definition done_ops (st : cstate) : list aop := map snd (rev (c_done st)).

(* ------------------------------------------------------------------ copy-on-write VARIANT (not the code of /repo) *)
(* set_conn_level as three steps: copy = dict(self.subscriptions.get(m, ())); change the private copy;
   self.subscriptions[m] = copy *)
Inductive wop :=
| WRead (m : name)
| WChange (f : subs -> subs)
| WStore (m : name).

Record wstate := { w_table : table; w_progs : list (list wop); w_local : list subs }.

Definition set_mod (m : name) (l : subs) (t : table) : table := upd_mod m (fun _ => l) t.

Definition wstep (st : wstate) (i : nat) : wstate :=
  match nth_error (w_progs st) i with
  | Some (a :: rest) =>
      let loc := nth i (w_local st) [] in
      {| w_table := match a with WStore m => set_mod m loc (w_table st) | _ => w_table st end;
         w_progs := set_nth i rest (w_progs st);
         w_local := match a with
                    | WRead m => set_nth i (match get_mod m (w_table st) with Some l => l | None => [] end) (w_local st)
                    | WChange f => set_nth i (f loc) (w_local st)
                    | WStore _ => w_local st
                    end |}
  | _ => st
  end.

Definition wrun (st : wstate) (sched : list nat) : wstate := fold_left wstep sched st.
Definition winit (progs : list (list wop)) (t : table) : wstate :=
  {| w_table := t; w_progs := progs; w_local := map (fun _ => []) progs |}.

Definition cow_set_level (c : conn) (lv : Z) (m : name) : list wop :=
  [WRead m; WChange (if Z.eqb lv OFF then conn_pop c else conn_set c lv); WStore m].
Definition w_all_done (st : wstate) : bool := forallb (fun p => match p with [] => true | _ => false end) (w_progs st).
